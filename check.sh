#!/bin/bash
# ./check.sh <Cnn> <quick|thorough> [--replay <file>]
# Rebuilds the harness of one property from /repo's current working tree (build tag verif) and runs it
# in its own process. Exit 0 held / 1 violation (VIOLATION line) / 2 inconclusive.
set -u
ID="${1:?property id}"; TIER="${2:-quick}"; shift; shift || true
cd "$(dirname "$(readlink -f "$0")")"
export VERIF_DIR="$PWD"
export GOFLAGS=-mod=mod GOPROXY=off GOSUMDB=off GOTOOLCHAIN=local
export VERIF_TIER="$TIER"
export VERIF_SEED="${VERIF_SEED:-1}"
lc="$(echo "$ID" | tr 'A-Z' 'a-z')"
pkg="./props/$lc"
if [ ! -d "$pkg" ]; then echo "INCONCLUSIVE property=$ID reason=no-harness"; exit 2; fi
mkdir -p .build evidence replays
RACE=""
[ -f "$pkg/RACE" ] && RACE="-race"
BIN="$VERIF_DIR/.build/$lc$RACE"
if ! go build -tags verif $RACE -o "$BIN" "$pkg" > ".build/$lc.build.log" 2>&1; then
  echo "INCONCLUSIVE property=$ID reason=build-failed (see .build/$lc.build.log)"
  tail -n 20 ".build/$lc.build.log"
  exit 2
fi
SCR="$(mktemp -d "${TMPDIR:-/tmp}/verif-$lc-XXXXXX")"
trap 'rm -rf "$SCR"' EXIT
export TMPDIR="$SCR"
export VERIF_SCRATCH="$SCR"
if [ -n "$RACE" ]; then
  export VERIF_RACE_LOG="$SCR/race"
  export GORACE="halt_on_error=0 exitcode=0 log_path=$SCR/race history_size=3"
fi
if [ "$TIER" = "thorough" ]; then TO="${VERIF_TIMEOUT:-5400}"; else TO="${VERIF_TIMEOUT:-900}"; fi
[ -f "$pkg/TIMEOUT_$TIER" ] && TO="$(cat "$pkg/TIMEOUT_$TIER")"
LOG="$SCR/stderr.log"
timeout -s QUIT -k 20 "$TO" "$BIN" "$@" 2> "$LOG"
rc=$?
if [ $rc -eq 0 ] || [ $rc -eq 1 ]; then exit $rc; fi
mkdir -p "replays/$ID"
if grep -q '^SIGQUIT' "$LOG" || [ $rc -eq 124 ] || [ $rc -eq 137 ]; then
  cp "$LOG" "replays/$ID/timeout-$TIER-seed$VERIF_SEED.log"
  echo "INCONCLUSIVE property=$ID reason=watchdog-timeout-${TO}s (goroutine dump: replays/$ID/timeout-$TIER-seed$VERIF_SEED.log)"
  exit 2
fi
if grep -qE '^(fatal error:|panic:)' "$LOG"; then
  # the harness process died: unrecovered panic / runtime fatal error in the code under test
  # (a Go panic exits with status 2, the same code the harness uses for "inconclusive", so the log decides)
  R="replays/$ID/crash-$TIER-seed$VERIF_SEED.log"
  { echo "exit code $rc"; tail -n 400 "$LOG"; } > "$R"
  echo "VIOLATION property=$ID replay=$VERIF_DIR/$R"
  grep -m1 -E '^(fatal error:|panic:)' "$LOG"
  exit 1
fi
if [ $rc -eq 2 ]; then exit 2; fi
R="replays/$ID/crash-$TIER-seed$VERIF_SEED.log"
{ echo "exit code $rc"; tail -n 400 "$LOG"; } > "$R"
echo "INCONCLUSIVE property=$ID reason=harness-exit-$rc (see $R)"; exit 2
