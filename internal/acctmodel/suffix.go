package acctmodel

import (
	"fmt"

	"verif/internal/vk"
)

// NewSuffixUniverse is NewUniverse for the trie's real key order: the patricia trie walks a key
// from its LAST byte (low nibble first), so only keys sharing their ENDING meet in extension
// nodes and deep branches. Addresses and storage keys are drawn in families: a new member copies
// the last n bytes of an earlier member (n small for a short shared path, 16/31 for a long one)
// and, half of the time, one more nibble, so shared paths of even and odd nibble counts, siblings
// that diverge right below a shared path and sub-families that share further all occur. Storage
// keys have different lengths, so a key can also be the ending of another key.
func NewSuffixUniverse(rng *vk.Rand, nAddr, nCode, nKey int) *Universe {
	u := &Universe{}
	seen := map[string]bool{}
	shareTail := func(a, p []byte, n int) {
		// a and p share their last n bytes (n < len of both is the caller's business)
		copy(a[len(a)-n:], p[len(p)-n:])
		if len(a) > n && len(p) > n && rng.Bool() {
			// one more nibble (the low nibble of the byte in front is walked first)
			a[len(a)-n-1] = a[len(a)-n-1]&0xF0 | p[len(p)-n-1]&0x0F
		}
	}
	for len(u.Addrs) < nAddr {
		a := rng.Bytes(32)
		if len(u.Addrs) > 0 && rng.Chance(5, 6) {
			p := u.Addrs[rng.Intn(len(u.Addrs))]
			n := []int{1, 1, 1, 2, 2, 3, 4, 16, 31}[rng.Intn(9)]
			shareTail(a, p, n)
		}
		if seen[string(a)] {
			continue
		}
		seen[string(a)] = true
		u.Addrs = append(u.Addrs, a)
	}
	for i := 0; i < nCode; i++ {
		c := append([]byte(fmt.Sprintf("code-%d-", i)), rng.Bytes(rng.Range(1, 40))...)
		u.Codes = append(u.Codes, c)
	}
	seenK := map[string]bool{}
	for len(u.Keys) < nKey {
		k := rng.Bytes(rng.Range(1, 12))
		if len(u.Keys) > 0 && rng.Chance(5, 6) {
			p := u.Keys[rng.Intn(len(u.Keys))]
			n := rng.Range(1, minInt(len(p), 3))
			k = append(rng.Bytes(rng.Range(0, 4)), make([]byte, n)...)
			shareTail(k, p, n)
		}
		if seenK[string(k)] {
			continue
		}
		seenK[string(k)] = true
		u.Keys = append(u.Keys, k)
	}
	return u
}

func minInt(a, b int) int {
	if a < b {
		return a
	}
	return b
}
