// Package acctmodel is the shared accounts-state kit of the C06/C07/C08 harnesses (and of the
// pruning harnesses C09/C10): a real state.AccountsDB over real tries, a reference model of the
// accounts, operations applied to both, and a comparer.
//
// API (everything else in the package is a detail):
//
//	env, err := acctmodel.NewEnv(acctmodel.Options{Pruning: true|false, ...})
//	    real memorydb + real trie storage manager (with or without pruning) + real
//	    patriciaMerkleTrie + factory.NewAccountCreator + real or disabled storagePruningManager.
//	    Fields: DB, TSM, ADB, EWL, SPM, Marsh, Hasher.   env.Close()
//	    env.Reopen()  second AccountsDB over the SAME DB (caller calls ADB.RecreateTrie(root)).
//	u := acctmodel.NewUniverse(rng, nAddr, nCode, nKey)   fixed addresses / code blobs / storage keys
//	w := acctmodel.NewWorld(env, u)       real ADB + Model kept in lock-step
//	    w.Model                            map address -> *Account{Balance, Nonce, Owner, Code,
//	                                       CodeMetadata, UserName, Storage}; Model.Clone() deep copy
//	    op := w.RandomOp(rng, weights)     operation generator (OpSave = load+modify+SaveAccount,
//	                                       OpRemove = RemoveAccount); w.Apply(op) applies it to both.
//	                                       A real-side error is followed by RevertToSnapshot(pre-op
//	                                       JournalLen) (as scProcessor does) and leaves the model alone.
//	    w.Commit()                         adb.Commit + remembers the committed model copy / root
//	    s := w.Snapshot(); w.Revert(s)     JournalLen + model copy + root; Revert = RevertToSnapshot +
//	                                       model := copy; returns which removals the revert crossed
//	    w.RevertToCommitted()              RevertToSnapshot(0)
//	    diffs := w.Compare()               every field of every universe address via
//	                                       GetExistingAccount / GetCode / RetrieveValue(all keys ever
//	                                       used); model-absent => ErrAccNotFound
//	    acctmodel.Compare(adb, model, u, keys)   the same against any AccountsAdapter / model copy
//	    w.CodeRefsModel() / w.CodeRefsReal()     code hash -> number of referring accounts
//	    w.Trace                            literal operation log (for replay files)
//
// All byte slices handed to the code under test are fresh copies with cap == len, so none of the
// caller-buffer effects of C08 can leak into the other harnesses.
package acctmodel

import (
	"bytes"
	"errors"
	"fmt"
	"math/big"
	"sort"

	"github.com/ElrondNetwork/elrond-go/config"
	"github.com/ElrondNetwork/elrond-go/data"
	"github.com/ElrondNetwork/elrond-go/data/state"
	"github.com/ElrondNetwork/elrond-go/data/state/factory"
	"github.com/ElrondNetwork/elrond-go/data/state/storagePruningManager"
	"github.com/ElrondNetwork/elrond-go/data/state/storagePruningManager/disabled"
	"github.com/ElrondNetwork/elrond-go/data/state/storagePruningManager/evictionWaitingList"
	"github.com/ElrondNetwork/elrond-go/data/trie"
	"github.com/ElrondNetwork/elrond-go/data/trie/hashesHolder"
	"github.com/ElrondNetwork/elrond-go/hashing"
	"github.com/ElrondNetwork/elrond-go/hashing/blake2b"
	"github.com/ElrondNetwork/elrond-go/marshal"
	"github.com/ElrondNetwork/elrond-go/storage/memorydb"

	"verif/internal/vk"
)

// ---------------------------------------------------------------------------------------
// environment

// Options selects how the real AccountsDB is assembled
type Options struct {
	Pruning              bool         // real trieStorageManager with pruning + evictionWaitingList + storagePruningManager
	MaxTrieLevelInMemory uint         // default 5
	EWLCacheSize         uint         // eviction waiting list cache size (default 100; 1..3 forces the DB spill path)
	PruningBufferLen     uint32       // default 1000
	SnapshotsBufferLen   uint32       // default 10000
	MaxSnapshots         uint32       // default 3
	DB                   *memorydb.DB // reuse an existing database (reopen); default a new one
	// WrapDB, when set, decorates the database handed to the trie storage manager (fault / delay
	// injection, see FaultDB); Env.DB stays the underlying memorydb
	WrapDB func(db data.DBWriteCacher) data.DBWriteCacher
}

// Env is one real accounts database with everything under it
type Env struct {
	Opt    Options
	DB     *memorydb.DB
	TSM    data.StorageManager
	EWL    state.DBRemoveCacher // nil without pruning
	SPM    state.StoragePruningManager
	ADB    *state.AccountsDB
	Marsh  marshal.Marshalizer
	Hasher hashing.Hasher
}

// NewEnv builds a real AccountsDB
func NewEnv(o Options) (*Env, error) {
	if o.MaxTrieLevelInMemory == 0 {
		o.MaxTrieLevelInMemory = 5
	}
	if o.EWLCacheSize == 0 {
		o.EWLCacheSize = 100
	}
	if o.PruningBufferLen == 0 {
		o.PruningBufferLen = 1000
	}
	if o.SnapshotsBufferLen == 0 {
		o.SnapshotsBufferLen = 10000
	}
	if o.MaxSnapshots == 0 {
		o.MaxSnapshots = 3
	}
	e := &Env{Opt: o, Marsh: &marshal.GogoProtoMarshalizer{}, Hasher: blake2b.NewBlake2b()}
	e.DB = o.DB
	if e.DB == nil {
		e.DB = memorydb.New()
	}
	var err error
	var tsmDB data.DBWriteCacher = e.DB
	if o.WrapDB != nil {
		tsmDB = o.WrapDB(e.DB)
	}
	if o.Pruning {
		e.TSM, err = trie.NewTrieStorageManager(trie.NewTrieStorageManagerArgs{
			DB: tsmDB, Marshalizer: e.Marsh, Hasher: e.Hasher,
			SnapshotDbConfig:       config.DBConfig{FilePath: "/nonexistent/verif-snap", Type: "MemoryDB"},
			GeneralConfig:          config.TrieStorageManagerConfig{PruningBufferLen: o.PruningBufferLen, SnapshotsBufferLen: o.SnapshotsBufferLen, MaxSnapshots: o.MaxSnapshots},
			CheckpointHashesHolder: hashesHolder.NewCheckpointHashesHolder(10000000, 32),
		})
		if err != nil {
			return nil, err
		}
		ewl, err2 := evictionWaitingList.NewEvictionWaitingList(o.EWLCacheSize, memorydb.New(), e.Marsh)
		if err2 != nil {
			return nil, err2
		}
		e.EWL = ewl
		e.SPM, err = storagePruningManager.NewStoragePruningManager(ewl, o.PruningBufferLen)
		if err != nil {
			return nil, err
		}
	} else {
		e.TSM, err = trie.NewTrieStorageManagerWithoutPruning(tsmDB)
		if err != nil {
			return nil, err
		}
		e.SPM = disabled.NewDisabledStoragePruningManager()
	}
	tr, err := trie.NewTrie(e.TSM, e.Marsh, e.Hasher, o.MaxTrieLevelInMemory)
	if err != nil {
		return nil, err
	}
	e.ADB, err = state.NewAccountsDB(tr, e.Hasher, e.Marsh, factory.NewAccountCreator(), e.SPM)
	if err != nil {
		return nil, err
	}
	return e, nil
}

// Reopen builds a second, independent AccountsDB (new storage manager, new trie object, new
// pruning manager) over the same database, as a restarted node would. The caller positions it with
// ADB.RecreateTrie(root).
func (e *Env) Reopen() (*Env, error) {
	o := e.Opt
	o.DB = e.DB
	return NewEnv(o)
}

// Close stops the background goroutine of the storage manager (memorydb keeps its content)
func (e *Env) Close() {
	if e == nil {
		return
	}
	if e.ADB != nil {
		_ = e.ADB.Close()
	}
	if e.TSM != nil {
		_ = e.TSM.Close()
	}
}

// ---------------------------------------------------------------------------------------
// universe

// Universe is the fixed set of addresses, code blobs and storage keys of one history
type Universe struct {
	Addrs [][]byte
	Codes [][]byte
	Keys  [][]byte
}

// NewUniverse draws addresses (32 bytes, some sharing long prefixes so the main trie gets
// extension/branch structure), code blobs and storage keys (some sharing prefixes)
func NewUniverse(rng *vk.Rand, nAddr, nCode, nKey int) *Universe {
	u := &Universe{}
	seen := map[string]bool{}
	for len(u.Addrs) < nAddr {
		a := rng.Bytes(32)
		if len(u.Addrs) > 0 && rng.Chance(1, 2) {
			p := u.Addrs[rng.Intn(len(u.Addrs))]
			n := []int{1, 16, 30, 31}[rng.Intn(4)]
			copy(a[:n], p[:n])
		}
		if seen[string(a)] {
			continue
		}
		seen[string(a)] = true
		u.Addrs = append(u.Addrs, a)
	}
	for i := 0; i < nCode; i++ {
		c := append([]byte(fmt.Sprintf("code-%d-", i)), rng.Bytes(rng.Range(1, 40))...)
		u.Codes = append(u.Codes, c)
	}
	seenK := map[string]bool{}
	for len(u.Keys) < nKey {
		var k []byte
		if len(u.Keys) > 0 && rng.Chance(1, 2) {
			p := u.Keys[rng.Intn(len(u.Keys))]
			k = append(cp(p[:rng.Range(1, len(p))]), rng.Bytes(rng.Range(0, 3))...)
		} else {
			k = rng.Bytes(rng.Range(1, 12))
		}
		if seenK[string(k)] {
			continue
		}
		seenK[string(k)] = true
		u.Keys = append(u.Keys, k)
	}
	return u
}

func cp(b []byte) []byte {
	if b == nil {
		return nil
	}
	o := make([]byte, len(b))
	copy(o, b)
	return o
}

// ---------------------------------------------------------------------------------------
// model

// Account is the reference record of one account
type Account struct {
	Balance      *big.Int
	Nonce        uint64
	Owner        []byte
	Code         []byte
	CodeMetadata []byte
	UserName     []byte
	Storage      map[string][]byte
}

// Model is the reference state: address -> account (absent = does not exist)
type Model struct {
	Accounts map[string]*Account
}

// NewModel returns the empty state
func NewModel() *Model { return &Model{Accounts: map[string]*Account{}} }

// Clone is a deep copy
func (m *Model) Clone() *Model {
	n := NewModel()
	for a, acc := range m.Accounts {
		c := &Account{
			Balance: new(big.Int).Set(acc.Balance), Nonce: acc.Nonce,
			Owner: cp(acc.Owner), Code: cp(acc.Code), CodeMetadata: cp(acc.CodeMetadata), UserName: cp(acc.UserName),
			Storage: make(map[string][]byte, len(acc.Storage)),
		}
		for k, v := range acc.Storage {
			c.Storage[k] = cp(v)
		}
		n.Accounts[a] = c
	}
	return n
}

// CodeRefs counts, per code hash, the accounts of the model that carry that code
func (m *Model) CodeRefs(h hashing.Hasher) map[string]int {
	refs := map[string]int{}
	for _, acc := range m.Accounts {
		if len(acc.Code) > 0 {
			refs[string(h.Compute(string(acc.Code)))]++
		}
	}
	return refs
}

// ---------------------------------------------------------------------------------------
// operations

// OpKind enumerates the operations
type OpKind int

// operation kinds
const (
	OpSave   OpKind = iota // LoadAccount + modifications + SaveAccount (creates the account when absent)
	OpRemove               // RemoveAccount
)

// KV is one storage write; an empty value deletes the key
type KV struct{ Key, Value []byte }

// Op is one operation on one account. Pointer fields: nil = leave untouched.
type Op struct {
	Kind        OpKind
	Addr        []byte
	BalanceDiff int64   // >0 AddToBalance, <0 SubFromBalance (generator keeps the balance >= 0)
	NonceDiff   uint64  // IncreaseNonce
	Owner       *[]byte // SetOwnerAddress
	CodeMeta    *[]byte // SetCodeMetadata
	UserName    *[]byte // SetUserName
	Code        *[]byte // SetCode (empty = clear)
	Storage     []KV    // DataTrieTracker().SaveKeyValue in this order
}

func sh(b []byte) string {
	if len(b) > 6 {
		return fmt.Sprintf("%x..", b[:6])
	}
	return fmt.Sprintf("%x", b)
}

// String renders the operation literally (short hex)
func (o Op) String() string { return o.Render(nil) }

// Render renders the operation; addresses, keys and code blobs of the universe are shown as
// A<i>, K<i>, C<i> (addresses may share 31 bytes, so short hex would be ambiguous)
func (o Op) Render(u *Universe) string {
	name := func(pfx string, l [][]byte, b []byte) string {
		if u != nil {
			for i, x := range l {
				if bytes.Equal(x, b) {
					return fmt.Sprintf("%s%d", pfx, i)
				}
			}
		}
		return sh(b)
	}
	var addrs, keys, codes [][]byte
	if u != nil {
		addrs, keys, codes = u.Addrs, u.Keys, u.Codes
	}
	if o.Kind == OpRemove {
		return "remove " + name("A", addrs, o.Addr)
	}
	s := "save " + name("A", addrs, o.Addr)
	if o.BalanceDiff != 0 {
		s += fmt.Sprintf(" bal%+d", o.BalanceDiff)
	}
	if o.NonceDiff != 0 {
		s += fmt.Sprintf(" nonce+%d", o.NonceDiff)
	}
	if o.Owner != nil {
		s += " owner=" + name("A", addrs, *o.Owner)
	}
	if o.CodeMeta != nil {
		s += " meta=" + sh(*o.CodeMeta)
	}
	if o.UserName != nil {
		s += " name=" + sh(*o.UserName)
	}
	if o.Code != nil {
		if len(*o.Code) == 0 {
			s += " code=<clear>"
		} else {
			s += " code=" + name("C", codes, *o.Code)
		}
	}
	for _, kv := range o.Storage {
		if len(kv.Value) == 0 {
			s += " del[" + name("K", keys, kv.Key) + "]"
		} else {
			s += " set[" + name("K", keys, kv.Key) + "]=" + sh(kv.Value)
		}
	}
	return s
}

// Weights steers RandomOp (all in percent; zero value = defaults via DefaultWeights)
type Weights struct {
	Remove   int // chance that the op is a RemoveAccount of an existing account
	Balance  int
	Nonce    int
	Owner    int
	CodeMeta int
	UserName int
	Code     int // chance that a save touches the code
	CodeClr  int // of those: chance to clear instead of setting a blob
	Storage  int // chance that a save writes storage
	Delete   int // per storage write: chance it is a delete
	MaxKV    int // max storage writes per save
}

// DefaultWeights is the mixed workload of C06
func DefaultWeights() Weights {
	return Weights{Remove: 12, Balance: 60, Nonce: 40, Owner: 10, CodeMeta: 10, UserName: 10, Code: 30, CodeClr: 20, Storage: 55, Delete: 25, MaxKV: 3}
}

// CodeHeavyWeights is the workload of C07
func CodeHeavyWeights() Weights {
	return Weights{Remove: 18, Balance: 30, Nonce: 20, Owner: 3, CodeMeta: 5, UserName: 3, Code: 70, CodeClr: 20, Storage: 25, Delete: 25, MaxKV: 2}
}

// ---------------------------------------------------------------------------------------
// world

// LiveEvent is one successful operation since the last commit that has not been reverted
type LiveEvent struct {
	Op          Op
	JournalLen  int  // journal length before the op
	Existed     bool // account existed before the op
	HadDataTrie bool // account had a non-empty storage map before the op
}

// Removal describes a successful RemoveAccount still present in the live log
type Removal struct {
	Addr              string
	LiveIdx           int
	HadStorage        bool // the removed account had storage
	RecreatedWithData bool // after it (even if reverted meanwhile) the address was saved again with storage writes
	UndoneBefore      bool // an earlier revert already undid this removal (the cached data trie stays replaced until the next commit)
}

// Snapshot is a recorded journal length with the expected state
type Snapshot struct {
	JournalLen int
	Model      *Model
	Root       []byte
	LiveLen    int
	Step       int
}

// RevertInfo tells what a revert crossed
type RevertInfo struct {
	Crossed []Removal // successful removals undone by this revert
}

// ApplyResult is the outcome of World.Apply
type ApplyResult struct {
	Err        error // error of the real operation (nil = applied to model as well)
	RecoverErr error // error of the RevertToSnapshot(pre-op length) that follows a failed operation
}

// World keeps a real AccountsDB and the model in lock-step
type World struct {
	Env   *Env
	U     *Universe
	Model *Model

	Committed     *Model
	CommittedRoot []byte

	KeysEver map[string]struct{}
	Live     []LiveEvent
	removals []*Removal
	Trace    []string
	Steps    int
	Counts   map[string]int
}

// NewWorld starts from the empty state of env
func NewWorld(env *Env, u *Universe) *World {
	w := &World{Env: env, U: u, Model: NewModel(), Committed: NewModel(), KeysEver: map[string]struct{}{}, Counts: map[string]int{}}
	w.CommittedRoot, _ = env.ADB.RootHash()
	return w
}

func (w *World) trace(f string, a ...interface{}) {
	w.Trace = append(w.Trace, fmt.Sprintf("%03d ", w.Steps)+fmt.Sprintf(f, a...))
	w.Steps++
}

// Note adds a free line to the trace
func (w *World) Note(f string, a ...interface{}) { w.trace(f, a...) }

func pick(rng *vk.Rand, l [][]byte) []byte { return l[rng.Intn(len(l))] }

func bp(b []byte) *[]byte { return &b }

// RandomOp draws one operation that is valid for the current model
func (w *World) RandomOp(rng *vk.Rand, wt Weights) Op {
	if wt.MaxKV == 0 {
		wt = DefaultWeights()
	}
	if len(w.Model.Accounts) > 0 && rng.Chance(wt.Remove, 100) {
		// an existing account, deterministic order
		var ex [][]byte
		for _, a := range w.U.Addrs {
			if w.Model.Accounts[string(a)] != nil {
				ex = append(ex, a)
			}
		}
		return Op{Kind: OpRemove, Addr: pick(rng, ex)}
	}
	op := Op{Kind: OpSave, Addr: pick(rng, w.U.Addrs)}
	cur := w.Model.Accounts[string(op.Addr)]
	if rng.Chance(wt.Balance, 100) {
		op.BalanceDiff = int64(rng.Range(1, 1000))
		if cur != nil && cur.Balance.Sign() > 0 && rng.Chance(1, 3) {
			op.BalanceDiff = -int64(rng.Range(1, int(minI64(cur.Balance.Int64(), 1000))))
		}
	}
	if rng.Chance(wt.Nonce, 100) {
		op.NonceDiff = uint64(rng.Range(1, 3))
	}
	if rng.Chance(wt.Owner, 100) {
		op.Owner = bp(cp(pick(rng, w.U.Addrs)))
	}
	if rng.Chance(wt.CodeMeta, 100) {
		op.CodeMeta = bp(rng.Bytes(2))
	}
	if rng.Chance(wt.UserName, 100) {
		op.UserName = bp(rng.Bytes(rng.Range(0, 12)))
	}
	if rng.Chance(wt.Code, 100) {
		if rng.Chance(wt.CodeClr, 100) {
			op.Code = bp([]byte{})
		} else {
			op.Code = bp(cp(pick(rng, w.U.Codes)))
		}
	}
	if rng.Chance(wt.Storage, 100) {
		n := rng.Range(1, wt.MaxKV)
		for i := 0; i < n; i++ {
			kv := KV{Key: cp(pick(rng, w.U.Keys))}
			if cur != nil && len(cur.Storage) > 0 && rng.Chance(1, 2) {
				// favour keys that exist (overwrite / delete)
				ks := make([]string, 0, len(cur.Storage))
				for k := range cur.Storage {
					ks = append(ks, k)
				}
				sort.Strings(ks)
				kv.Key = []byte(ks[rng.Intn(len(ks))])
			}
			if !rng.Chance(wt.Delete, 100) {
				kv.Value = rng.Bytes(rng.Range(1, 40))
				if rng.Chance(1, 8) { // value ending like key||address
					kv.Value = append(append(rng.Bytes(rng.Range(0, 4)), kv.Key...), op.Addr...)
				}
			}
			op.Storage = append(op.Storage, kv)
		}
	}
	return op
}

func minI64(a, b int64) int64 {
	if a < b {
		return a
	}
	return b
}

// Apply runs the operation on the real AccountsDB and, when it succeeded, on the model. When the
// real operation fails the journal is reverted to its pre-op length and the model is left alone.
func (w *World) Apply(op Op) ApplyResult {
	adb := w.Env.ADB
	jl := adb.JournalLen()
	cur := w.Model.Accounts[string(op.Addr)]
	ev := LiveEvent{Op: op, JournalLen: jl, Existed: cur != nil, HadDataTrie: cur != nil && len(cur.Storage) > 0}
	fail := func(err error) ApplyResult {
		res := ApplyResult{Err: err}
		res.RecoverErr = adb.RevertToSnapshot(jl)
		w.trace("%s -> ERROR %v; RevertToSnapshot(%d) -> %v", op.Render(w.U), err, jl, res.RecoverErr)
		if jl == 0 {
			// a revert to length 0 re-creates the trie from the last committed root and resets the
			// data-trie cache: nothing survives of the live log
			w.Live, w.removals = nil, nil
		}
		w.Counts["op_failed_and_reverted"]++
		return res
	}
	switch op.Kind {
	case OpRemove:
		if err := adb.RemoveAccount(cp(op.Addr)); err != nil {
			w.Counts["remove_failed"]++
			return fail(err)
		}
		delete(w.Model.Accounts, string(op.Addr))
		w.removals = append(w.removals, &Removal{Addr: string(op.Addr), LiveIdx: len(w.Live), HadStorage: ev.HadDataTrie})
		w.Live = append(w.Live, ev)
		w.Counts["remove"]++
		if ev.HadDataTrie {
			w.Counts["remove_with_storage"]++
		}
		w.trace("%s", op.Render(w.U))
		return ApplyResult{}
	case OpSave:
		h, err := adb.LoadAccount(cp(op.Addr))
		if err != nil {
			return fail(fmt.Errorf("LoadAccount: %w", err))
		}
		ua, ok := h.(state.UserAccountHandler)
		if !ok {
			return fail(fmt.Errorf("LoadAccount returned %T", h))
		}
		if op.BalanceDiff > 0 {
			err = ua.AddToBalance(big.NewInt(op.BalanceDiff))
		} else if op.BalanceDiff < 0 {
			err = ua.SubFromBalance(big.NewInt(-op.BalanceDiff))
		}
		if err != nil {
			return fail(fmt.Errorf("balance: %w", err))
		}
		if op.NonceDiff > 0 {
			ua.IncreaseNonce(op.NonceDiff)
		}
		if op.Owner != nil {
			ua.SetOwnerAddress(cp(*op.Owner))
		}
		if op.CodeMeta != nil {
			ua.SetCodeMetadata(cp(*op.CodeMeta))
		}
		if op.UserName != nil {
			ua.SetUserName(cp(*op.UserName))
		}
		if op.Code != nil {
			ua.SetCode(cp(*op.Code))
		}
		for _, kv := range op.Storage {
			if err = ua.DataTrieTracker().SaveKeyValue(cp(kv.Key), cp(kv.Value)); err != nil {
				return fail(fmt.Errorf("SaveKeyValue: %w", err))
			}
		}
		if err = adb.SaveAccount(ua); err != nil {
			return fail(fmt.Errorf("SaveAccount: %w", err))
		}
		// model
		if cur == nil {
			cur = &Account{Balance: big.NewInt(0), Storage: map[string][]byte{}}
			w.Model.Accounts[string(op.Addr)] = cur
			w.Counts["create"]++
		}
		cur.Balance = new(big.Int).Add(cur.Balance, big.NewInt(op.BalanceDiff))
		cur.Nonce += op.NonceDiff
		if op.Owner != nil {
			cur.Owner = cp(*op.Owner)
		}
		if op.CodeMeta != nil {
			cur.CodeMetadata = cp(*op.CodeMeta)
		}
		if op.UserName != nil {
			cur.UserName = cp(*op.UserName)
		}
		if op.Code != nil {
			old := cur.Code
			cur.Code = cp(*op.Code)
			switch {
			case len(old) == 0 && len(cur.Code) > 0:
				w.Counts["code_set_new"]++
			case len(old) > 0 && len(cur.Code) == 0:
				w.Counts["code_cleared"]++
			case len(old) > 0 && !bytes.Equal(old, cur.Code):
				w.Counts["code_changed"]++
			case len(old) > 0:
				w.Counts["code_same_again"]++
			}
		}
		for _, kv := range op.Storage {
			w.KeysEver[string(kv.Key)] = struct{}{}
			if len(kv.Value) == 0 {
				delete(cur.Storage, string(kv.Key))
				w.Counts["storage_delete"]++
			} else {
				cur.Storage[string(kv.Key)] = cp(kv.Value)
				w.Counts["storage_write"]++
			}
		}
		if len(op.Storage) > 0 {
			for _, r := range w.removals {
				if r.Addr == string(op.Addr) && !r.UndoneBefore {
					r.RecreatedWithData = true
				}
			}
		}
		w.Live = append(w.Live, ev)
		w.Counts["save"]++
		w.trace("%s", op.Render(w.U))
		return ApplyResult{}
	}
	return ApplyResult{Err: errors.New("unknown op")}
}

// Commit commits the real state and remembers the committed model
func (w *World) Commit() ([]byte, error) {
	root, err := w.Env.ADB.Commit()
	if err != nil {
		w.trace("commit -> ERROR %v", err)
		return nil, err
	}
	w.Committed = w.Model.Clone()
	w.CommittedRoot = cp(root)
	w.Live, w.removals = nil, nil
	w.Counts["commit"]++
	w.trace("commit -> %x", root[:4])
	return root, nil
}

// Snapshot records the current journal length, root hash and a deep copy of the model
func (w *World) Snapshot() (*Snapshot, error) {
	root, err := w.Env.ADB.RootHash()
	if err != nil {
		return nil, err
	}
	s := &Snapshot{JournalLen: w.Env.ADB.JournalLen(), Model: w.Model.Clone(), Root: cp(root), LiveLen: len(w.Live), Step: w.Steps}
	w.Counts["snapshot"]++
	w.trace("snapshot journalLen=%d", s.JournalLen)
	return s, nil
}

// Revert calls RevertToSnapshot(s.JournalLen) and resets the model to the copy taken then. The
// snapshot must have been taken since the last Commit / RevertToCommitted and not be above a
// snapshot already reverted to (the caller keeps the stack).
func (w *World) Revert(s *Snapshot) (RevertInfo, error) {
	var info RevertInfo
	err := w.Env.ADB.RevertToSnapshot(s.JournalLen)
	w.trace("RevertToSnapshot(%d) [snapshot of step %d] -> %v", s.JournalLen, s.Step, err)
	if err != nil {
		return info, err
	}
	w.Model = s.Model.Clone()
	var keep []*Removal
	for _, r := range w.removals {
		if r.LiveIdx >= s.LiveLen {
			info.Crossed = append(info.Crossed, *r)
			if r.RecreatedWithData {
				// the data-trie cache entry of the address stays replaced until the next commit:
				// every later revert to this or an older length is "before the removal" as well
				r.LiveIdx = s.LiveLen
				r.UndoneBefore = true
				keep = append(keep, r)
			}
		} else {
			keep = append(keep, r)
		}
	}
	w.removals = keep
	if s.LiveLen <= len(w.Live) {
		w.Live = w.Live[:s.LiveLen]
	}
	if s.JournalLen == 0 {
		w.Live, w.removals = nil, nil
	}
	w.Counts["revert"]++
	return info, nil
}

// RevertToCommitted calls RevertToSnapshot(0): back to the last committed state
func (w *World) RevertToCommitted() (RevertInfo, error) {
	info := RevertInfo{}
	for _, r := range w.removals {
		info.Crossed = append(info.Crossed, *r)
	}
	err := w.Env.ADB.RevertToSnapshot(0)
	w.trace("RevertToSnapshot(0) -> %v", err)
	if err != nil {
		return info, err
	}
	w.Model = w.Committed.Clone()
	w.Live, w.removals = nil, nil
	w.Counts["revert_to_zero"]++
	return info, nil
}

// CodeRefsModel counts references per code hash in the model
func (w *World) CodeRefsModel() map[string]int { return w.Model.CodeRefs(w.Env.Hasher) }

// CodeRefsReal counts, per code hash, the universe addresses whose REAL account record (as returned
// by GetExistingAccount) carries that code hash
func (w *World) CodeRefsReal() (map[string]int, error) {
	refs := map[string]int{}
	for _, a := range w.U.Addrs {
		h, err := w.Env.ADB.GetExistingAccount(cp(a))
		if err != nil {
			if errors.Is(err, state.ErrAccNotFound) {
				continue
			}
			return nil, err
		}
		ua, ok := h.(state.UserAccountHandler)
		if !ok {
			return nil, fmt.Errorf("account type %T", h)
		}
		if ch := ua.GetCodeHash(); len(ch) > 0 {
			refs[string(ch)]++
		}
	}
	return refs, nil
}

// SortedKeys returns the storage keys ever written, sorted
func (w *World) SortedKeys() [][]byte {
	ks := make([]string, 0, len(w.KeysEver))
	for k := range w.KeysEver {
		ks = append(ks, k)
	}
	sort.Strings(ks)
	out := make([][]byte, len(ks))
	for i, k := range ks {
		out[i] = []byte(k)
	}
	return out
}

// Compare compares the real state with the current model
func (w *World) Compare() []Diff {
	return Compare(w.Env.ADB, w.Env.Hasher, w.Model, w.U.Addrs, w.SortedKeys())
}

// ---------------------------------------------------------------------------------------
// comparer

// Diff is one observable difference between the real state and a model
type Diff struct {
	A     []byte `json:"-"` // full address
	Addr  string `json:"addr"`
	Field string `json:"field"` // exists | load-error | balance | nonce | owner | codehash | code | codemeta | username | storage
	Key   string `json:"key,omitempty"`
	Got   string `json:"got"`
	Want  string `json:"want"`
}

func (d Diff) String() string {
	return fmt.Sprintf("%s %s[%s]: got %s want %s", d.Addr, d.Field, d.Key, d.Got, d.Want)
}

// Compare reads every address through GetExistingAccount and compares all fields, the code via
// GetCode and every storage key in keys via DataTrieTracker().RetrieveValue with the model.
// A model-absent address must give ErrAccNotFound. Only the value of RetrieveValue is compared
// (an error accompanying an empty value is not a difference).
func Compare(adb state.AccountsAdapter, hasher hashing.Hasher, m *Model, addrs [][]byte, keys [][]byte) []Diff {
	var diffs []Diff
	for ai, a := range addrs {
		ah := fmt.Sprintf("A%d", ai)
		want := m.Accounts[string(a)]
		h, err := adb.GetExistingAccount(cp(a))
		if want == nil {
			if err == nil {
				diffs = append(diffs, Diff{A: a, Addr: ah, Field: "exists", Got: "account", Want: "ErrAccNotFound"})
			} else if !errors.Is(err, state.ErrAccNotFound) {
				diffs = append(diffs, Diff{A: a, Addr: ah, Field: "load-error", Got: err.Error(), Want: "ErrAccNotFound"})
			}
			continue
		}
		if err != nil {
			f := "load-error"
			if errors.Is(err, state.ErrAccNotFound) {
				f = "exists"
			}
			diffs = append(diffs, Diff{A: a, Addr: ah, Field: f, Got: err.Error(), Want: "account"})
			continue
		}
		ua, ok := h.(state.UserAccountHandler)
		if !ok {
			diffs = append(diffs, Diff{A: a, Addr: ah, Field: "load-error", Got: fmt.Sprintf("%T", h), Want: "UserAccountHandler"})
			continue
		}
		if ua.GetBalance().Cmp(want.Balance) != 0 {
			diffs = append(diffs, Diff{A: a, Addr: ah, Field: "balance", Got: ua.GetBalance().String(), Want: want.Balance.String()})
		}
		if ua.GetNonce() != want.Nonce {
			diffs = append(diffs, Diff{A: a, Addr: ah, Field: "nonce", Got: fmt.Sprint(ua.GetNonce()), Want: fmt.Sprint(want.Nonce)})
		}
		if !bytes.Equal(ua.GetOwnerAddress(), want.Owner) {
			diffs = append(diffs, Diff{A: a, Addr: ah, Field: "owner", Got: fmt.Sprintf("%x", ua.GetOwnerAddress()), Want: fmt.Sprintf("%x", want.Owner)})
		}
		var wantHash []byte
		if len(want.Code) > 0 {
			wantHash = hasher.Compute(string(want.Code))
		}
		if !bytes.Equal(ua.GetCodeHash(), wantHash) {
			diffs = append(diffs, Diff{A: a, Addr: ah, Field: "codehash", Got: fmt.Sprintf("%x", ua.GetCodeHash()), Want: fmt.Sprintf("%x", wantHash)})
		}
		if got := adb.GetCode(ua.GetCodeHash()); !bytes.Equal(got, want.Code) {
			diffs = append(diffs, Diff{A: a, Addr: ah, Field: "code", Got: fmt.Sprintf("%q", got), Want: fmt.Sprintf("%q", want.Code)})
		}
		if !bytes.Equal(ua.GetCodeMetadata(), want.CodeMetadata) {
			diffs = append(diffs, Diff{A: a, Addr: ah, Field: "codemeta", Got: fmt.Sprintf("%x", ua.GetCodeMetadata()), Want: fmt.Sprintf("%x", want.CodeMetadata)})
		}
		if !bytes.Equal(ua.GetUserName(), want.UserName) {
			diffs = append(diffs, Diff{A: a, Addr: ah, Field: "username", Got: fmt.Sprintf("%x", ua.GetUserName()), Want: fmt.Sprintf("%x", want.UserName)})
		}
		for _, k := range keys {
			got, _ := ua.DataTrieTracker().RetrieveValue(cp(k))
			if !bytes.Equal(got, want.Storage[string(k)]) {
				diffs = append(diffs, Diff{A: a, Addr: ah, Field: "storage", Key: fmt.Sprintf("%x", k), Got: fmt.Sprintf("%x", got), Want: fmt.Sprintf("%x", want.Storage[string(k)])})
			}
		}
	}
	return diffs
}
