package acctmodel

import (
	"errors"
	"sync"

	"github.com/ElrondNetwork/elrond-go/data"
)

// ErrInjectedPut is the error a FaultDB returns for the Put it was armed for
var ErrInjectedPut = errors.New("acctmodel: injected storage Put fault")

// FaultDB decorates the database handed to the trie storage manager (a data.DBWriteCacher the
// harness supplies): every call is forwarded, Puts are counted, and ONE chosen Put can be made to
// fail (the write is not performed and ErrInjectedPut is returned). Disarmed it is transparent.
//
//	var fdb *acctmodel.FaultDB
//	env, _ := acctmodel.NewEnv(acctmodel.Options{WrapDB: func(db data.DBWriteCacher) data.DBWriteCacher {
//	    fdb = acctmodel.NewFaultDB(db); return fdb }})
//	fdb.Arm(3)            the 3rd Put from now fails (once)
//	... Commit ...
//	fired := fdb.Disarm() whether the armed Put was reached
type FaultDB struct {
	data.DBWriteCacher
	mut       sync.Mutex
	puts      int // Puts seen (successful or failed)
	countdown int // > 0: the countdown-th next Put fails
	fired     bool
	failed    int
}

// NewFaultDB wraps db
func NewFaultDB(db data.DBWriteCacher) *FaultDB { return &FaultDB{DBWriteCacher: db} }

// Arm makes the n-th Put from now (n >= 1) fail once; it clears the fired flag
func (f *FaultDB) Arm(n int) {
	f.mut.Lock()
	f.countdown, f.fired = n, false
	f.mut.Unlock()
}

// Disarm cancels a pending fault and reports whether the armed Put was reached (and failed)
func (f *FaultDB) Disarm() bool {
	f.mut.Lock()
	defer f.mut.Unlock()
	f.countdown = 0
	fired := f.fired
	f.fired = false
	return fired
}

// Puts is the number of Put calls seen so far
func (f *FaultDB) Puts() int {
	f.mut.Lock()
	defer f.mut.Unlock()
	return f.puts
}

// Failed is the number of Puts that were failed so far
func (f *FaultDB) Failed() int {
	f.mut.Lock()
	defer f.mut.Unlock()
	return f.failed
}

// Put forwards the write unless it is the armed one
func (f *FaultDB) Put(key, val []byte) error {
	f.mut.Lock()
	f.puts++
	fail := false
	if f.countdown > 0 {
		f.countdown--
		if f.countdown == 0 {
			fail, f.fired = true, true
			f.failed++
		}
	}
	f.mut.Unlock()
	if fail {
		return ErrInjectedPut
	}
	return f.DBWriteCacher.Put(key, val)
}

// IsInterfaceNil returns true if there is no value under the interface
func (f *FaultDB) IsInterfaceNil() bool { return f == nil }
