// Package chainmodel is the self-contained chain/accounts reference model shared by the C09 (pruning) and
// C10 (snapshots) harnesses: a real AccountsDB over a real trieStorageManager / evictionWaitingList /
// storagePruningManager, driven through the real pruning schedule of a mock-assembled shardProcessor,
// next to a plain-map model of every committed block.
package chainmodel

import (
	"bytes"
	"fmt"
	"math/big"
	"os"
	"runtime"
	"sort"
	"strings"
	"sync"
	"sync/atomic"
	"syscall"
	"time"

	"github.com/ElrondNetwork/elrond-go/config"
	"github.com/ElrondNetwork/elrond-go/core"
	"github.com/ElrondNetwork/elrond-go/data"
	"github.com/ElrondNetwork/elrond-go/data/block"
	"github.com/ElrondNetwork/elrond-go/data/blockchain"
	"github.com/ElrondNetwork/elrond-go/data/state"
	"github.com/ElrondNetwork/elrond-go/data/state/factory"
	"github.com/ElrondNetwork/elrond-go/data/state/storagePruningManager"
	"github.com/ElrondNetwork/elrond-go/data/state/storagePruningManager/evictionWaitingList"
	"github.com/ElrondNetwork/elrond-go/data/trie"
	"github.com/ElrondNetwork/elrond-go/data/trie/hashesHolder"
	"github.com/ElrondNetwork/elrond-go/hashing/blake2b"
	"github.com/ElrondNetwork/elrond-go/marshal"
	blproc "github.com/ElrondNetwork/elrond-go/process/block"
	"github.com/ElrondNetwork/elrond-go/process/block/bootstrapStorage"
	"github.com/ElrondNetwork/elrond-go/process/mock"
	"github.com/ElrondNetwork/elrond-go/storage/memorydb"
	"github.com/ElrondNetwork/elrond-go/testscommon"
	"github.com/ElrondNetwork/elrond-go/testscommon/dblookupext"
	"github.com/ElrondNetwork/elrond-go/testscommon/genericMocks"

	"verif/internal/triegen"
	"verif/internal/vk"
)

// Msh and Hsh are the marshalizer / hasher used everywhere
var Msh = &marshal.GogoProtoMarshalizer{}
var Hsh = blake2b.NewBlake2b()

// NumCheckpointsKey is the only non-node key AccountsDB writes into the main trie DB
var NumCheckpointsKey = []byte("state checkpoint")

// ---------------------------------------------------------------------------------------
// main DB decorator: counts removes, and can hold / slow down the Gets of the snapshot traversal

const (
	gateOff  int32 = 0
	gateHold int32 = 1 // snapshot-traversal Gets wait for tokens (logical time) or for Open
	gateSlow int32 = 2 // snapshot-traversal Gets yield + sleep a little (free running)
)

// GateDB wraps the raw main memorydb
type GateDB struct {
	Raw *memorydb.DB

	mode    int32
	mu      sync.Mutex
	tokens  chan struct{}
	open    chan struct{}
	opened  bool
	waiting int32

	Removes   int64
	Gets      int64
	GatedGets int64
	SlowSleep time.Duration

	failAt         int32 // > 0: the failAt-th traversal read of a key in failKeys fails once (fault injection)
	failSeen       int32
	failKeys       map[string]struct{}
	FaultsInjected int64
}

// ErrInjectedFault is what the one failing traversal read returns
var ErrInjectedFault = fmt.Errorf("verif: injected read fault")

// ArmFailOnce makes the n-th traversal read of a key in keys (n >= 1) fail exactly once
func (g *GateDB) ArmFailOnce(keys map[string]struct{}, n int) {
	g.mu.Lock()
	g.failKeys = keys
	g.mu.Unlock()
	atomic.StoreInt32(&g.failSeen, 0)
	atomic.StoreInt32(&g.failAt, int32(n))
}

// DisarmFail cancels a pending fault
func (g *GateDB) DisarmFail() { atomic.StoreInt32(&g.failAt, 0) }

// NewGateDB creates the decorator over a fresh memorydb
func NewGateDB() *GateDB {
	g := &GateDB{Raw: memorydb.New(), SlowSleep: 30 * time.Microsecond}
	g.tokens = make(chan struct{}, 1<<16)
	g.open = make(chan struct{})
	close(g.open)
	g.opened = true
	return g
}

// inSnapshotTraversal tells whether the caller runs below trieStorageManager.takeSnapshot (the storage
// goroutine that serves snapshots and checkpoints)
func inSnapshotTraversal() bool {
	var pcs [128]uintptr
	n := runtime.Callers(3, pcs[:])
	frames := runtime.CallersFrames(pcs[:n])
	for {
		f, more := frames.Next()
		if strings.HasSuffix(f.Function, "(*trieStorageManager).takeSnapshot") {
			return true
		}
		if !more {
			return false
		}
	}
}

// Get implements DBWriteCacher
func (g *GateDB) Get(key []byte) ([]byte, error) {
	atomic.AddInt64(&g.Gets, 1)
	m := atomic.LoadInt32(&g.mode)
	fa := atomic.LoadInt32(&g.failAt)
	if (m != gateOff || fa > 0) && inSnapshotTraversal() {
		atomic.AddInt64(&g.GatedGets, 1)
		switch m {
		case gateHold:
			g.mu.Lock()
			tok, op := g.tokens, g.open
			g.mu.Unlock()
			atomic.AddInt32(&g.waiting, 1)
			select {
			case <-tok:
			case <-op:
			}
			atomic.AddInt32(&g.waiting, -1)
		case gateSlow:
			runtime.Gosched()
			time.Sleep(g.SlowSleep)
		}
		if fa > 0 {
			g.mu.Lock()
			_, target := g.failKeys[string(key)]
			g.mu.Unlock()
			if target && atomic.AddInt32(&g.failSeen, 1) == fa && atomic.CompareAndSwapInt32(&g.failAt, fa, 0) {
				atomic.AddInt64(&g.FaultsInjected, 1)
				return nil, ErrInjectedFault
			}
		}
	}
	return g.Raw.Get(key)
}

// Put implements DBWriteCacher
func (g *GateDB) Put(key, val []byte) error { return g.Raw.Put(key, val) }

// Remove implements DBWriteCacher
func (g *GateDB) Remove(key []byte) error {
	atomic.AddInt64(&g.Removes, 1)
	return g.Raw.Remove(key)
}

// Close implements DBWriteCacher
func (g *GateDB) Close() error { return g.Raw.Close() }

// IsInterfaceNil implements DBWriteCacher
func (g *GateDB) IsInterfaceNil() bool { return g == nil }

// ArmHold makes the snapshot traversal wait for tokens until Open is called
func (g *GateDB) ArmHold() {
	g.mu.Lock()
	g.tokens = make(chan struct{}, 1<<16)
	g.open = make(chan struct{})
	g.opened = false
	g.mu.Unlock()
	atomic.StoreInt32(&g.mode, gateHold)
}

// ArmSlow makes the snapshot traversal slow (yield + short sleep per Get)
func (g *GateDB) ArmSlow() { atomic.StoreInt32(&g.mode, gateSlow) }

// Release lets n held Gets through
func (g *GateDB) Release(n int) {
	g.mu.Lock()
	tok := g.tokens
	g.mu.Unlock()
	for i := 0; i < n; i++ {
		select {
		case tok <- struct{}{}:
		default:
			return
		}
	}
}

// Open lets everything through and disarms the gate
func (g *GateDB) Open() {
	atomic.StoreInt32(&g.mode, gateOff)
	g.mu.Lock()
	if !g.opened {
		close(g.open)
		g.opened = true
	}
	g.mu.Unlock()
}

// Waiting is the number of traversal Gets currently held
func (g *GateDB) Waiting() int { return int(atomic.LoadInt32(&g.waiting)) }

// RemoveCount is the number of Remove calls seen so far
func (g *GateDB) RemoveCount() int64 { return atomic.LoadInt64(&g.Removes) }

// ---------------------------------------------------------------------------------------
// checkpoint hashes holder decorator: pre-loading (a long-lived node's holder) and an arranged overlap of the
// snapshot request's RemoveCommitted with the AddDirtyCheckpointHashes of the next block's Commit

// HolderDeco wraps the real checkpointHashesHolder the harness hands to the trie storage manager. Unarmed it only
// forwards and counts.
type HolderDeco struct {
	Inner data.CheckpointHashesHolder

	mu          sync.Mutex
	armed       int32 // 1 = the next RemoveCommitted and the next Put take part in the arranged overlap
	rcClaimed   int32
	putClaimed  int32
	putPending  chan struct{}
	scanStarted int32

	inRemoveCommitted   int32
	Puts                int64
	RemoveCommitteds    int64
	PutsDuringRC        int64 // Put calls that arrived while a RemoveCommitted call was in progress
	OverlapsArranged    int64
	OverlapWaitTimeouts int64
	Preloaded           int64
}

// fillerRoot is the "root hash" of the pre-loaded entries: never the hash of a trie node
var fillerRoot = bytes.Repeat([]byte{0xEE}, 32)

// Preload appends n entries with an empty set of modified hashes. This is what the holder of a node looks like that
// has been committing blocks and taking checkpoints for a long time since its last snapshot: a checkpoint erases the
// hashes it saved from the entries (Remove), the entries themselves stay until the next RemoveCommitted. Empty
// entries never make ShouldCommit true, so they do not change which nodes a checkpoint saves.
func (h *HolderDeco) Preload(n int) {
	empty := data.ModifiedHashes{}
	for i := 0; i < n; i++ {
		h.Inner.Put(fillerRoot, empty)
	}
	atomic.AddInt64(&h.Preloaded, int64(n))
}

// ArmOverlap arranges that the next RemoveCommitted call (the snapshot goroutine's TakeSnapshot) starts only when the
// next Put (the end of the next block's AccountsDB.Commit) is about to be made, and that this Put is made right after
// the RemoveCommitted call was started: the two run concurrently, as they do on a node whenever the goroutine
// spawned by SnapshotState is scheduled while the next block is committed. Neither wait is made while the code under
// test holds a lock the other side needs; both waits are bounded (the bound never decides a verdict).
func (h *HolderDeco) ArmOverlap() {
	h.mu.Lock()
	h.putPending = make(chan struct{})
	h.mu.Unlock()
	atomic.StoreInt32(&h.scanStarted, 0)
	atomic.StoreInt32(&h.rcClaimed, 0)
	atomic.StoreInt32(&h.putClaimed, 0)
	atomic.StoreInt32(&h.armed, 1)
}

// Disarm ends the arrangement (calls in flight are released by their own bounds)
func (h *HolderDeco) Disarm() { atomic.StoreInt32(&h.armed, 0) }

func (h *HolderDeco) chans() (chan struct{}, chan struct{}) {
	h.mu.Lock()
	defer h.mu.Unlock()
	return h.putPending, nil
}

// Put implements data.CheckpointHashesHolder
func (h *HolderDeco) Put(rootHash []byte, hashes data.ModifiedHashes) bool {
	atomic.AddInt64(&h.Puts, 1)
	if atomic.LoadInt32(&h.armed) == 1 && atomic.CompareAndSwapInt32(&h.putClaimed, 0, 1) {
		pp, _ := h.chans()
		close(pp)
		// yield until the RemoveCommitted call has been started (no blocking wait: the reaction must be quick)
		deadline := time.Now().Add(5 * time.Second)
		for i := 0; ; i++ {
			if atomic.LoadInt32(&h.scanStarted) == 1 {
				atomic.AddInt64(&h.OverlapsArranged, 1)
				break
			}
			runtime.Gosched()
			if i%1024 == 1023 && time.Now().After(deadline) {
				atomic.AddInt64(&h.OverlapWaitTimeouts, 1)
				break
			}
		}
	}
	if atomic.LoadInt32(&h.inRemoveCommitted) > 0 {
		atomic.AddInt64(&h.PutsDuringRC, 1)
	}
	return h.Inner.Put(rootHash, hashes)
}

// RemoveCommitted implements data.CheckpointHashesHolder
func (h *HolderDeco) RemoveCommitted(lastCommittedRootHash []byte) {
	atomic.AddInt64(&h.RemoveCommitteds, 1)
	if atomic.LoadInt32(&h.armed) == 1 && atomic.CompareAndSwapInt32(&h.rcClaimed, 0, 1) {
		pp, _ := h.chans()
		select {
		case <-pp:
		case <-time.After(5 * time.Second):
			atomic.AddInt64(&h.OverlapWaitTimeouts, 1)
		}
		atomic.AddInt32(&h.inRemoveCommitted, 1)
		atomic.StoreInt32(&h.scanStarted, 1)
		h.Inner.RemoveCommitted(lastCommittedRootHash)
		atomic.AddInt32(&h.inRemoveCommitted, -1)
		return
	}
	atomic.AddInt32(&h.inRemoveCommitted, 1)
	h.Inner.RemoveCommitted(lastCommittedRootHash)
	atomic.AddInt32(&h.inRemoveCommitted, -1)
}

// Remove implements data.CheckpointHashesHolder
func (h *HolderDeco) Remove(hash []byte) { h.Inner.Remove(hash) }

// ShouldCommit implements data.CheckpointHashesHolder
func (h *HolderDeco) ShouldCommit(hash []byte) bool { return h.Inner.ShouldCommit(hash) }

// IsInterfaceNil implements data.CheckpointHashesHolder
func (h *HolderDeco) IsInterfaceNil() bool { return h == nil }

// ---------------------------------------------------------------------------------------
// accounts adapter decorator: records the pruning / snapshot requests the real schedule issues

// RecAccounts forwards everything to the real AccountsDB and reports pruning-related calls
type RecAccounts struct {
	state.AccountsAdapter
	OnPrune      func(root []byte, id data.TriePruningIdentifier)
	OnCancel     func(root []byte, id data.TriePruningIdentifier)
	OnSnapshot   func(root []byte)
	OnCheckpoint func(root []byte)
}

func cp(b []byte) []byte { return append([]byte(nil), b...) }

// PruneTrie records and forwards
func (r *RecAccounts) PruneTrie(root []byte, id data.TriePruningIdentifier) {
	if r.OnPrune != nil {
		r.OnPrune(cp(root), id)
	}
	r.AccountsAdapter.PruneTrie(root, id)
}

// CancelPrune records and forwards
func (r *RecAccounts) CancelPrune(root []byte, id data.TriePruningIdentifier) {
	if r.OnCancel != nil {
		r.OnCancel(cp(root), id)
	}
	r.AccountsAdapter.CancelPrune(root, id)
}

// SnapshotState records and forwards
func (r *RecAccounts) SnapshotState(root []byte) {
	if r.OnSnapshot != nil {
		r.OnSnapshot(cp(root))
	}
	r.AccountsAdapter.SnapshotState(root)
}

// SetStateCheckpoint records and forwards
func (r *RecAccounts) SetStateCheckpoint(root []byte) {
	if r.OnCheckpoint != nil {
		r.OnCheckpoint(cp(root))
	}
	r.AccountsAdapter.SetStateCheckpoint(root)
}

// IsInterfaceNil -
func (r *RecAccounts) IsInterfaceNil() bool { return r == nil }

// ---------------------------------------------------------------------------------------
// environment

// Processor is the part of the real shardProcessor the harnesses drive
type Processor interface {
	VerifUpdateUserStateStorage(finalHeader data.HeaderHandler, rootHash []byte, prevRootHash []byte)
	PruneStateOnRollback(currHeader data.HeaderHandler, prevHeader data.HeaderHandler)
	RevertStateToBlock(header data.HeaderHandler) error
	RevertAccountState(header data.HeaderHandler)
}

// EnvConfig selects the sizes of the real components
type EnvConfig struct {
	MaxTrieLevelInMem uint
	EwlCache          uint
	PruningBufferLen  uint32
	QueueSize         uint
	CheckpointModulus uint
	MaxSnapshots      uint32
	SnapshotDB        config.DBConfig
}

// Env holds the real components
type Env struct {
	Cfg    EnvConfig
	Gate   *GateDB
	Holder *HolderDeco
	Tsm    data.StorageManager
	Adb    *state.AccountsDB
	Rec    *RecAccounts
	SP     Processor
}

// NewEnv assembles the real components
func NewEnv(cfg EnvConfig) (*Env, error) {
	e := &Env{Cfg: cfg, Gate: NewGateDB(), Holder: &HolderDeco{Inner: hashesHolder.NewCheckpointHashesHolder(1<<40, 32)}}
	if cfg.SnapshotDB.Type == "" {
		cfg.SnapshotDB = config.DBConfig{FilePath: "/nonexistent/verif-snap", Type: "MemoryDB"}
	}
	tsm, err := trie.NewTrieStorageManager(trie.NewTrieStorageManagerArgs{
		DB: e.Gate, Marshalizer: Msh, Hasher: Hsh,
		SnapshotDbConfig:       cfg.SnapshotDB,
		GeneralConfig:          config.TrieStorageManagerConfig{PruningBufferLen: cfg.PruningBufferLen, SnapshotsBufferLen: 10000, MaxSnapshots: cfg.MaxSnapshots},
		CheckpointHashesHolder: e.Holder,
	})
	if err != nil {
		return nil, err
	}
	e.Tsm = tsm
	tr, err := trie.NewTrie(tsm, Msh, Hsh, cfg.MaxTrieLevelInMem)
	if err != nil {
		return nil, err
	}
	ewl, err := evictionWaitingList.NewEvictionWaitingList(cfg.EwlCache, memorydb.New(), Msh)
	if err != nil {
		return nil, err
	}
	spm, err := storagePruningManager.NewStoragePruningManager(ewl, cfg.PruningBufferLen)
	if err != nil {
		return nil, err
	}
	adb, err := state.NewAccountsDB(tr, Hsh, Msh, factory.NewAccountCreator(), spm)
	if err != nil {
		return nil, err
	}
	e.Adb = adb
	e.Rec = &RecAccounts{AccountsAdapter: adb}

	blkc, err := blockchain.NewBlockChain(&mock.AppStatusHandlerStub{})
	if err != nil {
		return nil, err
	}
	_ = blkc.SetGenesisHeader(&block.Header{Nonce: 0})
	coreC := &mock.CoreComponentsMock{IntMarsh: Msh, Hash: Hsh, UInt64ByteSliceConv: &mock.Uint64ByteSliceConverterMock{}, StatusField: &mock.AppStatusHandlerStub{}, RoundField: &mock.RoundHandlerMock{}}
	dataC := &mock.DataComponentsMock{Storage: genericMocks.NewChainStorerMock(0), DataPool: testscommon.NewPoolsHolderMock(), BlockChain: blkc}
	boot := &mock.BootstrapComponentsMock{Coordinator: mock.NewOneShardCoordinatorMock(), HdrIntegrityVerifier: &mock.HeaderIntegrityVerifierStub{}}
	stat := &mock.StatusComponentsMock{Indexer: &mock.IndexerMock{}, TPSBenchmark: &testscommon.TpsBenchmarkMock{}}
	hv, err := blproc.NewHeaderValidator(blproc.ArgsHeaderValidator{Hasher: Hsh, Marshalizer: Msh})
	if err != nil {
		return nil, err
	}
	start := map[uint32]data.HeaderHandler{0: &block.Header{ShardID: 0}, core.MetachainShardId: &block.MetaBlock{}}
	args := blproc.ArgShardProcessor{ArgBaseProcessor: blproc.ArgBaseProcessor{
		CoreComponents: coreC, DataComponents: dataC, BootstrapComponents: boot, StatusComponents: stat,
		Config: config.Config{StateTriesConfig: config.StateTriesConfig{
			CheckpointRoundsModulus: cfg.CheckpointModulus, CheckpointsEnabled: true, AccountsStatePruningEnabled: true,
			UserStatePruningQueueSize: cfg.QueueSize,
		}},
		AccountsDB:       map[state.AccountsDbIdentifier]state.AccountsAdapter{state.UserAccountsState: e.Rec},
		ForkDetector:     &mock.ForkDetectorMock{ProbableHighestNonceCalled: func() uint64 { return 0 }, GetHighestFinalBlockNonceCalled: func() uint64 { return 0 }},
		NodesCoordinator: mock.NewNodesCoordinatorMock(), FeeHandler: &mock.FeeAccumulatorStub{}, RequestHandler: &testscommon.RequestHandlerStub{}, BlockChainHook: &mock.BlockChainHookHandlerMock{},
		TxCoordinator: &mock.TransactionCoordinatorMock{}, EpochStartTrigger: &mock.EpochStartTriggerStub{}, HeaderValidator: hv,
		BootStorer:   &mock.BoostrapStorerMock{PutCalled: func(int64, bootstrapStorage.BootstrapData) error { return nil }},
		BlockTracker: mock.NewBlockTrackerMock(boot.ShardCoordinator(), start), BlockSizeThrottler: &mock.BlockSizeThrottlerStub{}, Version: "v", HistoryRepository: &dblookupext.HistoryRepositoryStub{}, EpochNotifier: &mock.EpochNotifierStub{}}}
	sp, err := blproc.NewShardProcessor(args)
	if err != nil {
		return nil, err
	}
	e.SP = sp
	return e, nil
}

// Close releases the real components (the gate is opened first so that no traversal stays held)
func (e *Env) Close() {
	e.Gate.Open()
	_ = e.Adb.Close()
}

// ---------------------------------------------------------------------------------------
// model

// Acct is the model of one account
type Acct struct {
	Nonce uint64
	Bal   int64
	Code  string
	Stor  map[string]string
}

// Block is the model copy of one committed block
type Block struct {
	Height uint64
	Root   []byte
	Accts  map[string]*Acct
	Hdr    *block.Header
	Desc   string

	// filled by the first full CheckRoot: the data trie roots named by the accounts of this block. Node contents
	// are addressed by hash, so later checks of the same root only need to re-traverse (TraverseRoot).
	DataRoots [][]byte
	Compared  bool

	// LeakShape: inside this block an account had a storage write, was then removed, and was re-created with a
	// storage write (see C09's garbage shape key)
	LeakShape bool

	// RemovedDirty: inside this block an account had a storage write and was then removed successfully (possible
	// only when the changed data trie is empty or back at a committed root), see C09's second garbage shape key
	RemovedDirty bool

	// Empty: the block changed no account at all (CommitEmpty); its root equals its parent's root
	Empty bool

	// Script is the exact sequence of account operations of this block (recorded by Commit), so that the identical
	// block can be processed again after a rollback (Recommit)
	Script []Prim
}

// Prim is one recorded account operation of a block
type Prim struct {
	Kind    string // "rm" (RemoveAccount, reverted when it fails), "touch" (load, balance+1, code, slots, save), "slot"
	Addr    int
	SetCode *string
	Writes  [][2]string // key, value ("" deletes)
	Failed  bool        // "rm" only: RemoveAccount returned an error and was reverted
}

// Replayable tells whether processing the identical block again is well-defined: a RemoveAccount that FAILED in the
// first processing (account with uncommitted data-trie changes: removeDataTrie recreates the data trie from its new,
// not yet committed root, which is not in the DB) can succeed the second time, because a rollback while pruning is
// blocked leaves the nodes of the first processing in the DB. Such blocks are not re-processed.
func (b *Block) Replayable() bool {
	if b.Script == nil || b.Empty {
		return false
	}
	for _, p := range b.Script {
		if p.Kind == "rm" && p.Failed {
			return false
		}
	}
	return true
}

func cloneAccts(in map[string]*Acct) map[string]*Acct {
	out := make(map[string]*Acct, len(in))
	for k, a := range in {
		c := *a
		c.Stor = make(map[string]string, len(a.Stor))
		for x, y := range a.Stor {
			c.Stor[x] = y
		}
		out[k] = &c
	}
	return out
}

// Addrs are the user addresses (32 bytes; the first nibbles are shared pairwise so that the main trie has
// branch nodes below the root)
var Addrs = func() [][]byte {
	firsts := []byte{0x11, 0x12, 0x21, 0x22, 0x31, 0x32}
	var out [][]byte
	for i, f := range firsts {
		a := bytes.Repeat([]byte{byte(0xa0 + i)}, 32)
		a[0] = f
		out = append(out, a)
	}
	return out
}()

// CounterAddr is the account whose nonce is bumped in every block (unique block roots)
var CounterAddr = func() []byte { a := bytes.Repeat([]byte{0x77}, 32); a[0] = 0x13; return a }()

// Codes are the code blobs accounts may carry
var Codes = []string{"codeA", "codeBB", "codeCCC"}

// CoreStorKeys is the fixed part of every world's storage-key universe: suffix families (k, x||k, y||x||k: the trie
// path of a key is its REVERSED nibble string, so the value of "g" sits in the terminator slot - child 16 - of the
// branch node on the path of "og", "dog", "xdog"), single-byte keys and plain short keys. Every world adds
// triegen.Pool keys (mixed lengths, more suffix families, one-nibble neighbours). The value set (StorVals) is small
// on purpose: slots go v1 -> v2 -> v1, so node hashes recur across blocks.
var CoreStorKeys = []string{"g", "og", "dog", "xdog", "b", "ab", "kab", "q", "k0", "k1"}
var StorVals = []string{"v0", "v1", "longer-value-2"}

// World is the chain: real state + model copies
type World struct {
	Env      *Env
	Chain    []*Block
	FinalIdx int
	cur      map[string]*Acct // model of the head state
	height   uint64
	Counts   map[string]int

	// Monotone makes Commit avoid every node-hash revisit: no account removal, no code change after block 0, no
	// slot deletion / flip-flop / restore, and every written slot value is unique
	Monotone bool
	uniq     int

	keys      []string // storage-key universe of this world (CoreStorKeys + triegen.Pool)
	shortKeys []string // the keys that are a proper suffix of another key of the universe
	relatives map[string][]string
}

// KeyName renders a storage key: as text when printable, else in hex
func KeyName(k string) string {
	for i := 0; i < len(k); i++ {
		if k[i] < 0x21 || k[i] > 0x7e {
			return fmt.Sprintf("0x%x", k)
		}
	}
	return k
}

// initKeys builds the storage-key universe from the case PRNG
func (w *World) initKeys(rng *vk.Rand) {
	seen := map[string]bool{}
	for _, k := range CoreStorKeys {
		if !seen[k] {
			seen[k] = true
			w.keys = append(w.keys, k)
		}
	}
	for _, k := range triegen.Pool(rng, 10) {
		if len(k) == 0 || seen[string(k)] {
			continue
		}
		seen[string(k)] = true
		w.keys = append(w.keys, string(k))
	}
	w.relatives = map[string][]string{}
	isShort := map[string]bool{}
	for _, a := range w.keys {
		for _, b := range w.keys {
			if len(a) < len(b) && strings.HasSuffix(b, a) {
				// a is a proper suffix of b: a's leaf hangs in the terminator slot of a branch on b's path
				w.relatives[a] = append(w.relatives[a], b)
				w.relatives[b] = append(w.relatives[b], a)
				isShort[a] = true
			}
		}
	}
	for _, k := range w.keys {
		if isShort[k] {
			w.shortKeys = append(w.shortKeys, k)
		}
	}
}

// pickKey chooses the slot to write for an account: often a suffix relative of a key the account already has
// (so that both members of a suffix pair live in the same data trie), often one of the short keys, else any key
func (w *World) pickKey(rng *vk.Rand, m *Acct) string {
	if len(m.Stor) > 0 && rng.Chance(1, 2) {
		have := make([]string, 0, len(m.Stor))
		for k := range m.Stor {
			have = append(have, k)
		}
		sort.Strings(have)
		var cands []string
		for _, k := range have {
			cands = append(cands, w.relatives[k]...)
			if len(w.relatives[k]) > 0 && len(k) <= 2 {
				cands = append(cands, k) // update the short member itself
			}
		}
		if len(cands) > 0 {
			return cands[rng.Intn(len(cands))]
		}
	}
	if len(w.shortKeys) > 0 && rng.Chance(1, 2) {
		return w.shortKeys[rng.Intn(len(w.shortKeys))]
	}
	return w.keys[rng.Intn(len(w.keys))]
}

// NewWorld creates an empty chain; the first Commit creates the genesis-like block 0
func NewWorld(e *Env) *World {
	return &World{Env: e, cur: map[string]*Acct{}, Counts: map[string]int{}}
}

// Head returns the current head block
func (w *World) Head() *Block { return w.Chain[len(w.Chain)-1] }

func (w *World) loadUser(addr []byte) (state.UserAccountHandler, error) {
	acc, err := w.Env.Adb.LoadAccount(addr)
	if err != nil {
		return nil, err
	}
	ua, ok := acc.(state.UserAccountHandler)
	if !ok {
		return nil, fmt.Errorf("not a user account")
	}
	return ua, nil
}

func (w *World) writeSlot(addr []byte, m *Acct, k, v string) error {
	ua, err := w.loadUser(addr)
	if err != nil {
		return err
	}
	if err = ua.DataTrieTracker().SaveKeyValue([]byte(k), []byte(v)); err != nil {
		return err
	}
	if err = w.Env.Adb.SaveAccount(ua); err != nil {
		return err
	}
	if v == "" {
		delete(m.Stor, k)
	} else {
		m.Stor[k] = v
	}
	return nil
}

// Commit applies random account mutations (plus the nonce bump of the counter account) on top of the head and
// commits them as a new block. initial=true populates most accounts (block 0). When restore is not nil, one
// extra mutation may put a storage slot back to the value it has in that older block, so that node hashes of
// older states are re-created by newer blocks (node-level revisits).
func (w *World) Commit(rng *vk.Rand, initial bool, restore *Block) (*Block, error) {
	d, err := w.mutate(rng, initial, restore)
	if err != nil {
		return nil, err
	}
	root, err := w.Env.Adb.Commit()
	if err != nil {
		return nil, err
	}
	b := &Block{Height: w.height, Root: cp(root), Accts: d.nb, Desc: strings.Join(d.desc, "; "), LeakShape: d.leakShape, RemovedDirty: d.removedDirty, Script: d.script}
	if d.leakShape {
		w.Counts["blocks_with_storage_change+remove+recreate"]++
	}
	b.Hdr = &block.Header{Nonce: w.height, Round: w.height, RootHash: cp(root)}
	w.height = b.Height + 1
	w.Chain = append(w.Chain, b)
	w.cur = d.nb
	w.Counts["commit"]++
	return b, nil
}

// draft is the outcome of applying the operations of a would-be block to the real accounts DB (nothing committed yet)
type draft struct {
	nb           map[string]*Acct
	desc         []string
	script       []Prim
	leakShape    bool
	removedDirty bool
	storTouched  map[string]bool // accounts that had a storage write (SaveKeyValue + SaveAccount)
}

// mutate applies the random account operations of one would-be block on top of the head (see Commit) without
// committing them; the model of the resulting state is returned, w.cur is left alone
func (w *World) mutate(rng *vk.Rand, initial bool, restore *Block) (*draft, error) {
	if w.keys == nil {
		w.initKeys(rng)
	}
	adb := w.Env.Adb
	nb := cloneAccts(w.cur)
	var desc []string

	cu, err := w.loadUser(CounterAddr)
	if err != nil {
		return nil, err
	}
	cu.IncreaseNonce(1)
	if err = adb.SaveAccount(cu); err != nil {
		return nil, err
	}
	if nb[string(CounterAddr)] == nil {
		nb[string(CounterAddr)] = &Acct{Stor: map[string]string{}}
	}
	nb[string(CounterAddr)].Nonce++

	nMut := rng.Range(1, 3)
	if initial {
		nMut = 8
	}
	storTouched := map[string]bool{}  // accounts with a storage write in this block
	removedDirty := map[string]bool{} // ... that were removed afterwards
	leakShape := false
	removedDirtyAny := false
	var script []Prim
	for j := 0; j < nMut; j++ {
		ai := rng.Intn(len(Addrs))
		a := Addrs[ai]
		m := nb[string(a)]
		if !initial && !w.Monotone && m != nil && rng.Chance(1, 8) {
			script = append(script, Prim{Kind: "rm", Addr: ai})
			rmIdx := len(script) - 1
			jl := adb.JournalLen()
			if errR := adb.RemoveAccount(a); errR == nil {
				delete(nb, string(a))
				if storTouched[string(a)] {
					removedDirty[string(a)] = true
					removedDirtyAny = true
				}
				desc = append(desc, fmt.Sprintf("rm A%d", ai))
				w.Counts["acct_remove"]++
			} else {
				// as scProcessor does: a failed operation is rolled back to the pre-op journal length
				if e2 := adb.RevertToSnapshot(jl); e2 != nil {
					return nil, fmt.Errorf("revert after failed remove: %v (remove error %v)", e2, errR)
				}
				script[rmIdx].Failed = true
				desc = append(desc, fmt.Sprintf("rm A%d failed+reverted", ai))
				w.Counts["acct_remove_failed_reverted"]++
			}
			continue
		}
		ua, errL := w.loadUser(a)
		if errL != nil {
			return nil, errL
		}
		if m == nil {
			m = &Acct{Stor: map[string]string{}}
			nb[string(a)] = m
			w.Counts["acct_create"]++
		}
		_ = ua.AddToBalance(big.NewInt(1))
		m.Bal++
		d := fmt.Sprintf("A%d bal+1", ai)
		pr := Prim{Kind: "touch", Addr: ai}
		if rng.Chance(1, 3) && (initial || !w.Monotone) {
			c := ""
			if x := rng.Intn(len(Codes) + 1); x < len(Codes) {
				c = Codes[x]
			}
			cc := c
			pr.SetCode = &cc
			ua.SetCode([]byte(c))
			m.Code = c
			d += " code=" + c
			w.Counts["set_code"]++
		}
		nw := 0
		if rng.Chance(1, 2) || initial {
			nw = rng.Range(1, 2)
		}
		for x := 0; x < nw; x++ {
			k := w.pickKey(rng, m)
			for _, rel := range w.relatives[k] {
				if _, ok := m.Stor[rel]; ok && len(rel) > len(k) {
					w.Counts["slot_write_to_key_in_terminator_slot_of_existing_longer_key"]++
					break
				}
			}
			v := StorVals[rng.Intn(len(StorVals))]
			if rng.Chance(1, 4) && !initial {
				v = ""
			}
			if w.Monotone {
				w.uniq++
				v = fmt.Sprintf("u%d", w.uniq)
			}
			pr.Writes = append(pr.Writes, [2]string{k, v})
			if err = ua.DataTrieTracker().SaveKeyValue([]byte(k), []byte(v)); err != nil {
				return nil, err
			}
			storTouched[string(a)] = true
			if removedDirty[string(a)] {
				leakShape = true
			}
			if v == "" {
				delete(m.Stor, k)
				w.Counts["slot_delete"]++
			} else {
				m.Stor[k] = v
				w.Counts["slot_write"]++
			}
			d += fmt.Sprintf(" %s=%q", KeyName(k), v)
		}
		if err = adb.SaveAccount(ua); err != nil {
			return nil, err
		}
		script = append(script, pr)
		desc = append(desc, d)
	}
	// flip-flop inside one block: a slot is changed and restored, so the same node hashes are both obsoleted
	// and re-created by this commit (the case removeDuplicatedKeys exists for)
	if !initial && !w.Monotone && rng.Chance(1, 3) {
		var cands []int
		for i, a := range Addrs {
			if m := nb[string(a)]; m != nil && len(m.Stor) > 0 {
				cands = append(cands, i)
			}
		}
		if len(cands) > 0 {
			ai := cands[rng.Intn(len(cands))]
			a := Addrs[ai]
			m := nb[string(a)]
			keys := make([]string, 0, len(m.Stor))
			for k := range m.Stor {
				keys = append(keys, k)
			}
			sort.Strings(keys)
			k := keys[rng.Intn(len(keys))]
			old := m.Stor[k]
			tmp := "flip"
			if rng.Chance(1, 3) {
				tmp = ""
			}
			storTouched[string(a)] = true
			if removedDirty[string(a)] {
				leakShape = true
			}
			script = append(script, Prim{Kind: "slot", Addr: ai, Writes: [][2]string{{k, tmp}}}, Prim{Kind: "slot", Addr: ai, Writes: [][2]string{{k, old}}})
			if err = w.writeSlot(a, m, k, tmp); err != nil {
				return nil, err
			}
			if err = w.writeSlot(a, m, k, old); err != nil {
				return nil, err
			}
			desc = append(desc, fmt.Sprintf("A%d flipflop %s %q->%q->%q", ai, KeyName(k), old, tmp, old))
			w.Counts["flipflop"]++
		}
	}
	if restore != nil && !initial && !w.Monotone && rng.Chance(1, 2) {
		type cand struct {
			ai   int
			k, v string
		}
		var cands []cand
		for i, a := range Addrs {
			m, old := nb[string(a)], restore.Accts[string(a)]
			if m == nil || old == nil {
				continue
			}
			keys := make([]string, 0, len(old.Stor))
			for k := range old.Stor {
				keys = append(keys, k)
			}
			sort.Strings(keys)
			for _, k := range keys {
				if m.Stor[k] != old.Stor[k] {
					cands = append(cands, cand{i, k, old.Stor[k]})
				}
			}
		}
		if len(cands) > 0 {
			cd := cands[rng.Intn(len(cands))]
			if removedDirty[string(Addrs[cd.ai])] {
				leakShape = true
			}
			script = append(script, Prim{Kind: "slot", Addr: cd.ai, Writes: [][2]string{{cd.k, cd.v}}})
			if err = w.writeSlot(Addrs[cd.ai], nb[string(Addrs[cd.ai])], cd.k, cd.v); err != nil {
				return nil, err
			}
			desc = append(desc, fmt.Sprintf("A%d restore %s=%q (as at height %d)", cd.ai, KeyName(cd.k), cd.v, restore.Height))
			w.Counts["slot_restore_old_value"]++
		}
	}
	if script == nil {
		script = []Prim{}
	}
	return &draft{nb: nb, desc: desc, script: script, leakShape: leakShape, removedDirty: removedDirtyAny, storTouched: storTouched}, nil
}

// Attempt describes a block attempt that failed and was reverted as a whole
type Attempt struct {
	Desc        string
	StorTouched int   // accounts whose storage was written by the failed attempt
	TouchedLive int   // ... that exist, with storage, in the committed head state (their committed data trie was loaded and changed)
	LiveAddrs   []int // indexes (into Addrs) of those accounts
}

// FailedAttempt processes a part of a would-be block on top of the head - the same kind of account operations Commit
// applies (balance, code, storage writes via SaveKeyValue+SaveAccount, removals, in-block flip-flops) - and then
// gives the block up the way the block processor does when ProcessBlock fails: RevertAccountState, which is
// AccountsDB.RevertToSnapshot(0). Nothing is committed and the chain is unchanged: the accounts state must be the
// head's state again (the caller carries on with any other operation, typically a different block).
func (w *World) FailedAttempt(rng *vk.Rand, restore *Block) (*Attempt, error) {
	if len(w.Chain) == 0 {
		return nil, fmt.Errorf("no head to revert to")
	}
	head := w.Head()
	saved := w.Counts
	w.Counts = map[string]int{}
	d, err := w.mutate(rng, false, restore)
	for k, v := range w.Counts {
		saved["reverted_attempt_"+k] += v
	}
	w.Counts = saved
	if err != nil {
		return nil, err
	}
	w.Env.SP.RevertAccountState(head.Hdr)
	root, err := w.Env.Adb.RootHash()
	if err != nil {
		return nil, fmt.Errorf("root hash after the revert: %v", err)
	}
	if !bytes.Equal(root, head.Root) {
		return nil, fmt.Errorf("after RevertToSnapshot(0) the accounts root is %x, the head's root is %x", root[:4], head.Root[:4])
	}
	at := &Attempt{Desc: strings.Join(d.desc, "; "), StorTouched: len(d.storTouched)}
	for i, a := range Addrs {
		if m := w.cur[string(a)]; d.storTouched[string(a)] && m != nil && len(m.Stor) > 0 {
			at.TouchedLive++
			at.LiveAddrs = append(at.LiveAddrs, i)
		}
	}
	w.Counts["failed_block_attempt_reverted"]++
	return at, nil
}

// CommitEmpty commits a block that changes no account (not even the counter account): AccountsDB.Commit with nothing
// dirty. Its root must equal the root of its parent - empty blocks are common on a real chain.
func (w *World) CommitEmpty() (*Block, error) {
	if len(w.Chain) == 0 {
		return nil, fmt.Errorf("the first block cannot be empty")
	}
	parent := w.Head()
	root, err := w.Env.Adb.Commit()
	if err != nil {
		return nil, err
	}
	if !bytes.Equal(root, parent.Root) {
		return nil, fmt.Errorf("empty block has root %x, its parent %x", root[:4], parent.Root[:4])
	}
	b := &Block{Height: w.height, Root: cp(root), Accts: cloneAccts(w.cur), Desc: "empty block (state root unchanged)", Empty: true, Script: []Prim{}}
	b.Hdr = &block.Header{Nonce: w.height, Round: w.height, RootHash: cp(root)}
	w.height = b.Height + 1
	w.Chain = append(w.Chain, b)
	w.cur = b.Accts
	w.Counts["commit"]++
	w.Counts["commit_empty_block"]++
	return b, nil
}

// Recommit processes the identical block again on top of the current head: the same account operations in the same
// order (this is what a node does when it re-processes a block after rolling it back). orig must have been produced
// by Commit on the same parent. The resulting root must equal orig.Root.
func (w *World) Recommit(orig *Block) (*Block, error) {
	if orig.Script == nil {
		return nil, fmt.Errorf("block has no recorded script")
	}
	adb := w.Env.Adb
	nb := cloneAccts(w.cur)
	cu, err := w.loadUser(CounterAddr)
	if err != nil {
		return nil, err
	}
	cu.IncreaseNonce(1)
	if err = adb.SaveAccount(cu); err != nil {
		return nil, err
	}
	if nb[string(CounterAddr)] == nil {
		nb[string(CounterAddr)] = &Acct{Stor: map[string]string{}}
	}
	nb[string(CounterAddr)].Nonce++
	for _, p := range orig.Script {
		a := Addrs[p.Addr]
		switch p.Kind {
		case "rm":
			jl := adb.JournalLen()
			errR := adb.RemoveAccount(a)
			if (errR != nil) != p.Failed {
				return nil, fmt.Errorf("RemoveAccount(A%d) outcome differs from the first processing: failed then=%v, error now=%v", p.Addr, p.Failed, errR)
			}
			if errR == nil {
				delete(nb, string(a))
			} else if e2 := adb.RevertToSnapshot(jl); e2 != nil {
				return nil, fmt.Errorf("revert after failed remove: %v (remove error %v)", e2, errR)
			}
		case "touch":
			ua, errL := w.loadUser(a)
			if errL != nil {
				return nil, errL
			}
			m := nb[string(a)]
			if m == nil {
				m = &Acct{Stor: map[string]string{}}
				nb[string(a)] = m
			}
			_ = ua.AddToBalance(big.NewInt(1))
			m.Bal++
			if p.SetCode != nil {
				ua.SetCode([]byte(*p.SetCode))
				m.Code = *p.SetCode
			}
			for _, kv := range p.Writes {
				if err = ua.DataTrieTracker().SaveKeyValue([]byte(kv[0]), []byte(kv[1])); err != nil {
					return nil, err
				}
				if kv[1] == "" {
					delete(m.Stor, kv[0])
				} else {
					m.Stor[kv[0]] = kv[1]
				}
			}
			if err = adb.SaveAccount(ua); err != nil {
				return nil, err
			}
		case "slot":
			m := nb[string(a)]
			if m == nil {
				return nil, fmt.Errorf("recorded slot write on an account the model does not have")
			}
			if err = w.writeSlot(a, m, p.Writes[0][0], p.Writes[0][1]); err != nil {
				return nil, err
			}
		}
	}
	root, err := adb.Commit()
	if err != nil {
		return nil, err
	}
	if !bytes.Equal(root, orig.Root) {
		return nil, fmt.Errorf("re-processed block has root %x, the first processing gave %x", root[:4], orig.Root[:4])
	}
	b := &Block{Height: w.height, Root: cp(root), Accts: nb, Desc: "re-processed identical block [" + orig.Desc + "]", LeakShape: orig.LeakShape, RemovedDirty: orig.RemovedDirty, Script: orig.Script}
	b.Hdr = &block.Header{Nonce: w.height, Round: w.height, RootHash: cp(root)}
	w.height = b.Height + 1
	w.Chain = append(w.Chain, b)
	w.cur = nb
	w.Counts["commit"]++
	w.Counts["recommit_identical_block"]++
	return b, nil
}

// ScriptOp is one scripted account mutation (directed witnesses)
type ScriptOp struct {
	Addr    int     // index into Addrs
	SetCode *string // nil = leave the code alone
	Key     string  // "" = no slot write
	Val     string  // "" deletes the slot
	Remove  bool    // remove the account instead
}

// CommitScript commits a block made of exactly the given mutations (plus the counter bump)
func (w *World) CommitScript(ops []ScriptOp) (*Block, error) {
	adb := w.Env.Adb
	nb := cloneAccts(w.cur)
	var desc []string
	cu, err := w.loadUser(CounterAddr)
	if err != nil {
		return nil, err
	}
	cu.IncreaseNonce(1)
	if err = adb.SaveAccount(cu); err != nil {
		return nil, err
	}
	if nb[string(CounterAddr)] == nil {
		nb[string(CounterAddr)] = &Acct{Stor: map[string]string{}}
	}
	nb[string(CounterAddr)].Nonce++
	for _, o := range ops {
		a := Addrs[o.Addr]
		if o.Remove {
			if errR := adb.RemoveAccount(a); errR != nil {
				return nil, errR
			}
			delete(nb, string(a))
			desc = append(desc, fmt.Sprintf("rm A%d", o.Addr))
			continue
		}
		ua, errL := w.loadUser(a)
		if errL != nil {
			return nil, errL
		}
		m := nb[string(a)]
		if m == nil {
			m = &Acct{Stor: map[string]string{}}
			nb[string(a)] = m
		}
		_ = ua.AddToBalance(big.NewInt(1))
		m.Bal++
		d := fmt.Sprintf("A%d bal+1", o.Addr)
		if o.SetCode != nil {
			ua.SetCode([]byte(*o.SetCode))
			m.Code = *o.SetCode
			d += " code=" + *o.SetCode
		}
		if o.Key != "" {
			if err = ua.DataTrieTracker().SaveKeyValue([]byte(o.Key), []byte(o.Val)); err != nil {
				return nil, err
			}
			if o.Val == "" {
				delete(m.Stor, o.Key)
			} else {
				m.Stor[o.Key] = o.Val
			}
			d += fmt.Sprintf(" %s=%q", o.Key, o.Val)
		}
		if err = adb.SaveAccount(ua); err != nil {
			return nil, err
		}
		desc = append(desc, d)
	}
	root, err := adb.Commit()
	if err != nil {
		return nil, err
	}
	b := &Block{Height: w.height, Root: cp(root), Accts: nb, Desc: strings.Join(desc, "; ")}
	b.Hdr = &block.Header{Nonce: w.height, Round: w.height, RootHash: cp(root)}
	w.height = b.Height + 1
	w.Chain = append(w.Chain, b)
	w.cur = nb
	w.Counts["commit"]++
	return b, nil
}

// CanFinalize tells whether a non-final block exists
func (w *World) CanFinalize() bool { return w.FinalIdx+1 < len(w.Chain) }

// NextFinal returns the block the next Finalize call makes final
func (w *World) NextFinal() *Block { return w.Chain[w.FinalIdx+1] }

// Finalize makes the next block final and runs the real finalization half of the pruning schedule for it
func (w *World) Finalize() *Block {
	w.FinalIdx++
	b := w.Chain[w.FinalIdx]
	prev := w.Chain[w.FinalIdx-1]
	hdr := &block.Header{Nonce: b.Height, Round: b.Height, RootHash: cp(b.Root)}
	w.Env.SP.VerifUpdateUserStateStorage(hdr, cp(b.Root), cp(prev.Root))
	w.Counts["finalize"]++
	return b
}

// CanRollback tells whether the head is above the final block
func (w *World) CanRollback() bool { return len(w.Chain)-1 > w.FinalIdx }

// Rollback removes the head the way baseSync.rollBackOneBlock does: RevertStateToBlock(prev) then
// PruneStateOnRollback(cur, prev). It returns (rolled back head, new head).
func (w *World) Rollback() (*Block, *Block, error) {
	head := w.Chain[len(w.Chain)-1]
	prev := w.Chain[len(w.Chain)-2]
	curHdr := &block.Header{Nonce: head.Height, RootHash: cp(head.Root)}
	prevHdr := &block.Header{Nonce: prev.Height, RootHash: cp(prev.Root)}
	if err := w.Env.SP.RevertStateToBlock(prevHdr); err != nil {
		return head, prev, err
	}
	w.Env.SP.PruneStateOnRollback(curHdr, prevHdr)
	w.Chain = w.Chain[:len(w.Chain)-1]
	w.cur = prev.Accts
	w.height = prev.Height + 1
	w.Counts["rollback"]++
	return head, prev, nil
}

// ---------------------------------------------------------------------------------------
// oracle: full traversal of one root in one DB and leaf-for-leaf comparison with the model copy

// CheckErr classifies what is wrong with a root
type CheckErr struct {
	Kind string // main-missing | data-missing | mismatch
	Msg  string
}

func (c *CheckErr) Error() string { return c.Kind + ": " + c.Msg }

func leavesOf(tr data.Trie, root []byte) (map[string][]byte, error) {
	ch, err := tr.GetAllLeavesOnChannel(root)
	if err != nil {
		return nil, err
	}
	out := map[string][]byte{}
	for l := range ch {
		out[string(l.Key())] = cp(l.Value())
	}
	return out, nil
}

// CheckRoot recreates b.Root using only db, traverses the main trie and every data trie named by its accounts
// and compares every leaf with the model copy. Visited node hashes are added to reach (may be nil).
func CheckRoot(db data.DBWriteCacher, b *Block, reach map[string]struct{}) *CheckErr {
	tsm, err := trie.NewTrieStorageManagerWithoutPruning(db)
	if err != nil {
		return &CheckErr{"main-missing", err.Error()}
	}
	tr, err := trie.NewTrie(tsm, Msh, Hsh, 5)
	if err != nil {
		return &CheckErr{"main-missing", err.Error()}
	}
	t2, err := tr.Recreate(b.Root)
	if err != nil {
		return &CheckErr{"main-missing", fmt.Sprintf("recreate main trie %x: %v", b.Root[:4], err)}
	}
	hs, err := t2.GetAllHashes()
	if err != nil {
		return &CheckErr{"main-missing", fmt.Sprintf("traverse main trie %x: %v", b.Root[:4], err)}
	}
	if reach != nil {
		for _, h := range hs {
			reach[string(h)] = struct{}{}
		}
	}
	leaves, err := leavesOf(t2, b.Root)
	if err != nil {
		return &CheckErr{"main-missing", fmt.Sprintf("leaves of main trie: %v", err)}
	}
	refs := map[string]int{}
	expect := 0
	var dataRoots [][]byte
	addrs := make([]string, 0, len(b.Accts))
	for a := range b.Accts {
		addrs = append(addrs, a)
	}
	sort.Strings(addrs)
	for _, a := range addrs {
		m := b.Accts[a]
		expect++
		val, ok := leaves[a]
		if !ok {
			return &CheckErr{"mismatch", fmt.Sprintf("account %x has no leaf", a[:2])}
		}
		acc, errC := factory.NewAccountCreator().CreateAccount([]byte(a))
		if errC != nil {
			return &CheckErr{"mismatch", errC.Error()}
		}
		if errU := Msh.Unmarshal(acc, val); errU != nil {
			return &CheckErr{"mismatch", fmt.Sprintf("account %x leaf does not decode: %v", a[:2], errU)}
		}
		ua := acc.(state.UserAccountHandler)
		if ua.GetNonce() != m.Nonce || ua.GetBalance().Cmp(big.NewInt(m.Bal)) != 0 {
			return &CheckErr{"mismatch", fmt.Sprintf("account %x nonce/balance %d/%s want %d/%d", a[:2], ua.GetNonce(), ua.GetBalance(), m.Nonce, m.Bal)}
		}
		if m.Code == "" {
			if len(ua.GetCodeHash()) != 0 {
				return &CheckErr{"mismatch", fmt.Sprintf("account %x has a code hash but no code in the model", a[:2])}
			}
		} else {
			refs[m.Code]++
			if !bytes.Equal(ua.GetCodeHash(), Hsh.Compute(m.Code)) {
				return &CheckErr{"mismatch", fmt.Sprintf("account %x code hash differs", a[:2])}
			}
		}
		rh := ua.GetRootHash()
		if len(rh) == 0 || bytes.Equal(rh, trie.EmptyTrieHash) {
			if len(m.Stor) > 0 {
				return &CheckErr{"mismatch", fmt.Sprintf("account %x has %d slots in the model but an empty data trie root", a[:2], len(m.Stor))}
			}
			continue
		}
		dataRoots = append(dataRoots, cp(rh))
		dt, errD := t2.Recreate(rh)
		if errD != nil {
			return &CheckErr{"data-missing", fmt.Sprintf("recreate data trie of %x (%x): %v", a[:2], rh[:4], errD)}
		}
		h2, errD := dt.GetAllHashes()
		if errD != nil {
			return &CheckErr{"data-missing", fmt.Sprintf("traverse data trie of %x (%x): %v", a[:2], rh[:4], errD)}
		}
		if reach != nil {
			for _, h := range h2 {
				reach[string(h)] = struct{}{}
			}
		}
		dl, errD := leavesOf(dt, rh)
		if errD != nil {
			return &CheckErr{"data-missing", fmt.Sprintf("leaves of data trie of %x: %v", a[:2], errD)}
		}
		if len(dl) != len(m.Stor) {
			return &CheckErr{"mismatch", fmt.Sprintf("account %x data trie has %d leaves, model %d", a[:2], len(dl), len(m.Stor))}
		}
		for k, v := range m.Stor {
			want := append(append([]byte(v), []byte(k)...), []byte(a)...)
			if !bytes.Equal(dl[k], want) {
				return &CheckErr{"mismatch", fmt.Sprintf("account %x slot %q = %q want %q", a[:2], k, dl[k], want)}
			}
		}
	}
	for _, c := range Codes {
		raw := leaves[string(Hsh.Compute(c))]
		if refs[c] == 0 {
			if len(raw) != 0 {
				return &CheckErr{"mismatch", fmt.Sprintf("code entry %q present with 0 model references", c)}
			}
			continue
		}
		expect++
		ce := &state.CodeEntry{}
		if errU := Msh.Unmarshal(ce, raw); errU != nil || string(ce.Code) != c {
			return &CheckErr{"mismatch", fmt.Sprintf("code entry %q missing or wrong", c)}
		}
		if int(ce.NumReferences) != refs[c] {
			return &CheckErr{"mismatch", fmt.Sprintf("code entry %q has %d references, model %d", c, ce.NumReferences, refs[c])}
		}
	}
	if len(leaves) != expect {
		return &CheckErr{"mismatch", fmt.Sprintf("main trie has %d leaves, model %d", len(leaves), expect)}
	}
	b.DataRoots = dataRoots
	b.Compared = true
	return nil
}

// TraverseRoot re-checks that a root already compared with its model copy (CheckRoot) is still fully
// retrievable from db: main trie and every data trie. Nodes are addressed by their hash, so the content cannot
// have changed; only presence is re-checked.
func TraverseRoot(db data.DBWriteCacher, b *Block, reach map[string]struct{}) *CheckErr {
	if !b.Compared {
		return CheckRoot(db, b, reach)
	}
	tsm, err := trie.NewTrieStorageManagerWithoutPruning(db)
	if err != nil {
		return &CheckErr{"main-missing", err.Error()}
	}
	tr, err := trie.NewTrie(tsm, Msh, Hsh, 5)
	if err != nil {
		return &CheckErr{"main-missing", err.Error()}
	}
	t2, err := tr.Recreate(b.Root)
	if err != nil {
		return &CheckErr{"main-missing", fmt.Sprintf("recreate main trie %x: %v", b.Root[:4], err)}
	}
	hs, err := t2.GetAllHashes()
	if err != nil {
		return &CheckErr{"main-missing", fmt.Sprintf("traverse main trie %x: %v", b.Root[:4], err)}
	}
	if reach != nil {
		for _, h := range hs {
			reach[string(h)] = struct{}{}
		}
	}
	for _, rh := range b.DataRoots {
		dt, errD := t2.Recreate(rh)
		if errD != nil {
			return &CheckErr{"data-missing", fmt.Sprintf("recreate data trie %x: %v", rh[:4], errD)}
		}
		h2, errD := dt.GetAllHashes()
		if errD != nil {
			return &CheckErr{"data-missing", fmt.Sprintf("traverse data trie %x: %v", rh[:4], errD)}
		}
		if reach != nil {
			for _, h := range h2 {
				reach[string(h)] = struct{}{}
			}
		}
	}
	return nil
}

// MainTrieHashes returns the node hashes of the main trie of root (data tries excluded)
func MainTrieHashes(db data.DBWriteCacher, root []byte) (map[string]struct{}, error) {
	tsm, err := trie.NewTrieStorageManagerWithoutPruning(db)
	if err != nil {
		return nil, err
	}
	tr, err := trie.NewTrie(tsm, Msh, Hsh, 5)
	if err != nil {
		return nil, err
	}
	t2, err := tr.Recreate(root)
	if err != nil {
		return nil, err
	}
	hs, err := t2.GetAllHashes()
	if err != nil {
		return nil, err
	}
	out := make(map[string]struct{}, len(hs))
	for _, h := range hs {
		out[string(h)] = struct{}{}
	}
	return out, nil
}

// WaitUnblocked polls until pruning is not blocked; false when the (generous) wall-clock watchdog fires.
// The watchdog only ever makes a run inconclusive.
func WaitUnblocked(tsm data.StorageManager, limit time.Duration) bool {
	deadline := time.Now().Add(limit)
	for i := 0; ; i++ {
		if !tsm.IsPruningBlocked() {
			return true
		}
		if time.Now().After(deadline) {
			return false
		}
		if i < 200 {
			runtime.Gosched()
		} else {
			time.Sleep(50 * time.Microsecond)
		}
	}
}

// RaceExitGuard makes a -race build exit with the harness's own exit code: by default the race detector turns the
// exit code into 66 once any race was reported, even with halt_on_error=0. Race reports are evidence only for
// C09/C10 (they are parsed from the GORACE log), so the process re-executes itself once with exitcode=0.
func RaceExitGuard() {
	g := os.Getenv("GORACE")
	if g == "" || strings.Contains(g, "exitcode=") {
		return
	}
	exe, err := os.Executable()
	if err != nil {
		return
	}
	_ = os.Setenv("GORACE", g+" exitcode=0")
	_ = syscall.Exec(exe, os.Args, os.Environ())
}

// Short renders the first bytes of a root
func Short(b []byte) string {
	if len(b) < 4 {
		return fmt.Sprintf("%x", b)
	}
	return fmt.Sprintf("%x", b[:4])
}
