// Package vk is the small kit shared by all property harnesses: deterministic PRNG,
// case sharding, shape counting, violation/replay writing, known-findings matching and
// the evidence writer. It is deliberately free of elrond-go imports.
package vk

import (
	"crypto/sha256"
	"encoding/hex"
	"encoding/json"
	"fmt"
	"os"
	"path/filepath"
	"runtime"
	"runtime/debug"
	"sort"
	"strconv"
	"strings"
	"sync"
	"sync/atomic"
	"time"
)

// ---------------------------------------------------------------------------------------
// PRNG (splitmix64)

// Rand is a tiny deterministic PRNG. It is NOT safe for concurrent use; every case gets its own.
type Rand struct{ s uint64 }

// NewRand seeds a generator
func NewRand(seed uint64) *Rand { return &Rand{s: seed} }

// U64 returns the next 64 bits
func (r *Rand) U64() uint64 {
	r.s += 0x9e3779b97f4a7c15
	z := r.s
	z = (z ^ (z >> 30)) * 0xbf58476d1ce4e5b9
	z = (z ^ (z >> 27)) * 0x94d049bb133111eb
	return z ^ (z >> 31)
}

// Intn returns a value in [0,n); n<=0 gives 0
func (r *Rand) Intn(n int) int {
	if n <= 0 {
		return 0
	}
	return int(r.U64() % uint64(n))
}

// Range returns a value in [lo,hi]
func (r *Rand) Range(lo, hi int) int {
	if hi <= lo {
		return lo
	}
	return lo + r.Intn(hi-lo+1)
}

// Bool is a fair coin
func (r *Rand) Bool() bool { return r.U64()&1 == 1 }

// Chance is true with probability num/den
func (r *Rand) Chance(num, den int) bool { return r.Intn(den) < num }

// Float is uniform in [0,1)
func (r *Rand) Float() float64 { return float64(r.U64()>>11) / float64(1<<53) }

// Bytes returns n random bytes
func (r *Rand) Bytes(n int) []byte {
	b := make([]byte, n)
	for i := 0; i < n; i += 8 {
		v := r.U64()
		for j := 0; j < 8 && i+j < n; j++ {
			b[i+j] = byte(v >> (8 * uint(j)))
		}
	}
	return b
}

// Perm returns a permutation of 0..n-1
func (r *Rand) Perm(n int) []int {
	p := make([]int, n)
	for i := range p {
		p[i] = i
	}
	for i := n - 1; i > 0; i-- {
		j := r.Intn(i + 1)
		p[i], p[j] = p[j], p[i]
	}
	return p
}

// Fork derives an independent generator
func (r *Rand) Fork() *Rand { return &Rand{s: r.U64() ^ 0xa5a5a5a5deadbeef} }

// State exposes the state for replay files
func (r *Rand) State() uint64 { return r.s }

func mix(vals ...uint64) uint64 {
	h := uint64(0x243f6a8885a308d3)
	for _, v := range vals {
		h ^= v
		h *= 0x100000001b3
		h ^= h >> 29
		h *= 0xbf58476d1ce4e5b9
		h ^= h >> 32
	}
	return h
}

func strHash(s string) uint64 {
	h := uint64(14695981039346656037)
	for i := 0; i < len(s); i++ {
		h ^= uint64(s[i])
		h *= 1099511628211
	}
	return h
}

// ---------------------------------------------------------------------------------------
// Run

type finding struct {
	Property string `json:"property"`
	Key      string `json:"key"`
	What     string `json:"what"`
}

type findingsFile struct {
	Findings []finding          `json:"findings"`
	Fixed    []map[string]string `json:"fixed"`
}

// Run is one execution of one property check
type Run struct {
	Prop  string
	Tier  string
	Seed  uint64
	Level string
	Dir   string // /verif

	ReplayCase int // -1 unless --replay
	ReplayFile string

	start time.Time

	mu          sync.Mutex
	evals       int64
	shapes      map[string]int
	trivial     int64
	samples     []interface{}
	maxSamples  int
	counters    map[string]int64
	maxima      map[string]int64
	rule        string
	assumptions []string
	extra       map[string]interface{}

	known       map[string]string // key -> what
	knownSeen   map[string]int
	violations  int64
	violKeys    map[string]int
	replays     []string
	inconclusive string
	minShapes   int
}

// Start creates the run from the environment: VERIF_TIER (quick|thorough), VERIF_SEED, VERIF_DIR;
// args may hold "--replay <file>".
func Start(prop string) *Run {
	r := &Run{
		Prop: prop, Tier: os.Getenv("VERIF_TIER"), Level: "exploration",
		ReplayCase: -1, start: time.Now(),
		shapes: map[string]int{}, counters: map[string]int64{}, maxima: map[string]int64{},
		extra: map[string]interface{}{}, known: map[string]string{}, knownSeen: map[string]int{},
		violKeys: map[string]int{}, maxSamples: 5, minShapes: 2,
	}
	if r.Tier != "thorough" {
		r.Tier = "quick"
	}
	r.Seed = 1
	if s := os.Getenv("VERIF_SEED"); s != "" {
		if v, err := strconv.ParseUint(strings.TrimSpace(s), 10, 64); err == nil {
			r.Seed = v
		} else if v2, err2 := strconv.ParseInt(strings.TrimSpace(s), 10, 64); err2 == nil {
			r.Seed = uint64(v2)
		}
	}
	r.Dir = os.Getenv("VERIF_DIR")
	if r.Dir == "" {
		r.Dir = "/verif"
	}
	for i, a := range os.Args {
		if a == "--replay" && i+1 < len(os.Args) {
			r.ReplayFile = os.Args[i+1]
			b, err := os.ReadFile(r.ReplayFile)
			if err == nil {
				var m struct {
					Seed uint64 `json:"seed"`
					Case int    `json:"case"`
					Tier string `json:"tier"`
				}
				if json.Unmarshal(b, &m) == nil {
					r.Seed = m.Seed
					r.ReplayCase = m.Case
					if m.Tier == "thorough" || m.Tier == "quick" {
						r.Tier = m.Tier
					}
				}
			}
		}
	}
	r.loadFindings()
	return r
}

func (r *Run) loadFindings() {
	b, err := os.ReadFile(filepath.Join(r.Dir, "known_findings.json"))
	if err != nil {
		return
	}
	var f findingsFile
	if json.Unmarshal(b, &f) != nil {
		return
	}
	for _, k := range f.Findings {
		if k.Property == r.Prop {
			r.known[k.Key] = k.What
		}
	}
}

// Quick reports the tier
func (r *Run) Quick() bool { return r.Tier == "quick" }

// N picks a bound by tier
func (r *Run) N(quick, thorough int) int {
	if r.Quick() {
		return quick
	}
	return thorough
}

// Rng derives the generator of a case; stream separates several uses per case
func (r *Run) Rng(caseIdx int, stream ...int) *Rand {
	st := uint64(0)
	if len(stream) > 0 {
		st = uint64(stream[0])
	}
	return NewRand(mix(r.Seed, strHash(r.Prop), uint64(caseIdx), st))
}

// Eval counts evaluations (oracle applications)
func (r *Run) Eval(n int) { atomic.AddInt64(&r.evals, int64(n)) }

// Shape records the shape signature of a non-trivial case
func (r *Run) Shape(sig string) {
	r.mu.Lock()
	r.shapes[sig]++
	r.mu.Unlock()
}

// ShapeHash records a (possibly long) signature by hash
func (r *Run) ShapeHash(parts ...string) {
	h := sha256.Sum256([]byte(strings.Join(parts, "\x00")))
	r.Shape(hex.EncodeToString(h[:8]))
}

// Trivial counts a case that was generated but is trivial by the rule
func (r *Run) Trivial() { atomic.AddInt64(&r.trivial, 1) }

// Count adds to a named counter reported in evidence
func (r *Run) Count(name string, d int) {
	r.mu.Lock()
	r.counters[name] += int64(d)
	r.mu.Unlock()
}

// Max keeps the maximum of a named quantity
func (r *Run) Max(name string, v int64) {
	r.mu.Lock()
	if cur, ok := r.maxima[name]; !ok || v > cur {
		r.maxima[name] = v
	}
	r.mu.Unlock()
}

// Counter reads a counter
func (r *Run) Counter(name string) int64 {
	r.mu.Lock()
	defer r.mu.Unlock()
	return r.counters[name]
}

// Sample keeps up to 5 literal cases
func (r *Run) Sample(v interface{}) {
	r.mu.Lock()
	if len(r.samples) < r.maxSamples {
		r.samples = append(r.samples, v)
	}
	r.mu.Unlock()
}

// NeedSample tells whether more samples are wanted (avoids building them needlessly)
func (r *Run) NeedSample() bool {
	r.mu.Lock()
	defer r.mu.Unlock()
	return len(r.samples) < r.maxSamples
}

// Rule sets the generation / non-triviality rule text
func (r *Run) Rule(s string) { r.rule = s }

// Assume appends an assumption / trusted-base line
func (r *Run) Assume(s ...string) { r.assumptions = append(r.assumptions, s...) }

// Extra adds a free-form key to coverage
func (r *Run) Extra(k string, v interface{}) {
	r.mu.Lock()
	r.extra[k] = v
	r.mu.Unlock()
}

// MinShapes sets the floor of distinct non-trivial shapes below which the run is inconclusive
func (r *Run) MinShapes(n int) { r.minShapes = n }

// Inconclusive marks the run inconclusive (never a violation)
func (r *Run) Inconclusive(reason string) {
	r.mu.Lock()
	if r.inconclusive == "" {
		r.inconclusive = reason
	}
	r.mu.Unlock()
}

// Violation reports one observed violation. key identifies the witness class (matched against
// known_findings.json); what is a one-line description; detail goes to the replay file.
func (r *Run) Violation(caseIdx int, key, what string, detail interface{}) {
	r.mu.Lock()
	defer r.mu.Unlock()
	if kw, ok := r.known[key]; ok {
		r.knownSeen[key]++
		if r.knownSeen[key] == 1 {
			fmt.Printf("KNOWN-FINDING: property=%s %s -- %s (first witness: %s)\n", r.Prop, key, kw, oneLine(what))
		}
		return
	}
	r.violations++
	r.violKeys[key]++
	if r.violKeys[key] > 3 || len(r.replays) >= 12 {
		return
	}
	dir := filepath.Join(r.Dir, "replays", r.Prop)
	_ = os.MkdirAll(dir, 0o755)
	p := filepath.Join(dir, fmt.Sprintf("%s-seed%d-case%d-%d.json", r.Tier, r.Seed, caseIdx, len(r.replays)))
	rec := map[string]interface{}{
		"property": r.Prop, "seed": r.Seed, "tier": r.Tier, "case": caseIdx,
		"key": key, "what": what, "detail": detail,
	}
	b, err := json.MarshalIndent(rec, "", " ")
	if err != nil {
		b, _ = json.MarshalIndent(map[string]interface{}{
			"property": r.Prop, "seed": r.Seed, "tier": r.Tier, "case": caseIdx,
			"key": key, "what": what, "detail": fmt.Sprintf("%+v", detail)}, "", " ")
	}
	_ = os.WriteFile(p, b, 0o644)
	r.replays = append(r.replays, p)
	fmt.Printf("VIOLATION property=%s replay=%s\n", r.Prop, p)
	fmt.Printf("  key=%s what=%s\n", key, oneLine(what))
}

func oneLine(s string) string {
	s = strings.ReplaceAll(s, "\n", " | ")
	if len(s) > 400 {
		s = s[:400] + "..."
	}
	return s
}

// Violations returns the number of (unlisted) violations so far
func (r *Run) Violations() int64 {
	r.mu.Lock()
	defer r.mu.Unlock()
	return r.violations
}

// Guard runs fn and recovers a panic
func Guard(fn func()) (panicked bool, val interface{}, stack string) {
	defer func() {
		if x := recover(); x != nil {
			panicked = true
			val = x
			stack = string(debug.Stack())
		}
	}()
	fn()
	return
}

// Case is what a sharded case body receives
type Case struct {
	Idx int
	Rng *Rand
	R   *Run
}

// Parallel runs n cases over all cores (or only the replayed one). A panic escaping the body is
// reported as a violation with key "panic" (harnesses that expect panics use Guard themselves).
func (r *Run) Parallel(n int, body func(c *Case)) {
	r.ParallelW(n, runtime.GOMAXPROCS(0), body)
}

// ParallelW is Parallel with an explicit worker count
func (r *Run) ParallelW(n, workers int, body func(c *Case)) {
	runCase := func(i int) {
		c := &Case{Idx: i, Rng: r.Rng(i), R: r}
		p, v, st := Guard(func() { body(c) })
		if p {
			r.Violation(i, "panic:"+TopFrame(st), fmt.Sprintf("panic in case %d: %v", i, v), map[string]interface{}{"panic": fmt.Sprint(v), "stack": st})
		}
	}
	if r.ReplayCase >= 0 {
		runCase(r.ReplayCase)
		return
	}
	if workers < 1 {
		workers = 1
	}
	var next int64 = -1
	var wg sync.WaitGroup
	for w := 0; w < workers; w++ {
		wg.Add(1)
		go func() {
			defer wg.Done()
			for {
				i := int(atomic.AddInt64(&next, 1))
				if i >= n {
					return
				}
				runCase(i)
			}
		}()
	}
	wg.Wait()
}

// TopFrame extracts the first elrond-go frame of a stack (used as a stable key for panics)
func TopFrame(stack string) string {
	lines := strings.Split(stack, "\n")
	for _, l := range lines {
		l = strings.TrimSpace(l)
		if strings.HasPrefix(l, "github.com/ElrondNetwork/elrond-go/") {
			if i := strings.LastIndex(l, "("); i > 0 {
				l = l[:i]
			}
			return strings.TrimPrefix(l, "github.com/ElrondNetwork/elrond-go/")
		}
	}
	return "unknown"
}

// Finish writes the evidence file and exits with 0 (held / known findings only), 1 (violation),
// 2 (inconclusive)
func (r *Run) Finish() {
	r.mu.Lock()
	distinct := len(r.shapes)
	if r.inconclusive == "" && r.ReplayCase < 0 && r.violations == 0 && distinct < r.minShapes {
		r.inconclusive = fmt.Sprintf("only %d distinct non-trivial shapes observed (floor %d)", distinct, r.minShapes)
	}
	cov := map[string]interface{}{
		"evaluations":         atomic.LoadInt64(&r.evals),
		"distinct_nontrivial": distinct,
		"rule":                r.rule,
		"samples":             r.samples,
		"trivial_cases":       atomic.LoadInt64(&r.trivial),
	}
	if len(r.samples) == 0 {
		cov["samples"] = []interface{}{}
	}
	if len(r.counters) > 0 {
		cov["counters"] = r.counters
	}
	if len(r.maxima) > 0 {
		cov["maxima"] = r.maxima
	}
	// the ten most frequent shapes, so a reader sees what "shape" means
	type kv struct {
		k string
		v int
	}
	var top []kv
	for k, v := range r.shapes {
		top = append(top, kv{k, v})
	}
	sort.Slice(top, func(i, j int) bool {
		if top[i].v != top[j].v {
			return top[i].v > top[j].v
		}
		return top[i].k < top[j].k
	})
	if len(top) > 10 {
		top = top[:10]
	}
	ts := map[string]int{}
	for _, e := range top {
		ts[e.k] = e.v
	}
	cov["top_shapes"] = ts
	for k, v := range r.extra {
		cov[k] = v
	}
	if len(r.knownSeen) > 0 {
		cov["known_findings_observed"] = r.knownSeen
	}
	if len(r.violKeys) > 0 {
		cov["violation_keys"] = r.violKeys
	}
	if r.inconclusive != "" {
		cov["inconclusive"] = r.inconclusive
	}
	ev := map[string]interface{}{
		"property_id": r.Prop,
		"tier":        r.Tier,
		"seed":        r.Seed,
		"level":       r.Level,
		"coverage":    cov,
		"assumptions": r.assumptions,
		"wall_s":      time.Since(r.start).Seconds(),
		"violations":  r.violations,
	}
	viol, inc := r.violations, r.inconclusive
	r.mu.Unlock()

	if r.ReplayCase < 0 {
		b, _ := json.MarshalIndent(ev, "", " ")
		dir := filepath.Join(r.Dir, "evidence")
		_ = os.MkdirAll(dir, 0o755)
		tmp := filepath.Join(dir, "."+r.Prop+".json.tmp")
		if err := os.WriteFile(tmp, b, 0o644); err == nil {
			_ = os.Rename(tmp, filepath.Join(dir, r.Prop+".json"))
		}
	}
	fmt.Printf("SUMMARY property=%s tier=%s seed=%d evaluations=%d distinct_nontrivial=%d violations=%d known=%d wall=%.1fs\n",
		r.Prop, r.Tier, r.Seed, atomic.LoadInt64(&r.evals), distinct, viol, len(r.knownSeen), time.Since(r.start).Seconds())
	if viol > 0 {
		os.Exit(1)
	}
	if inc != "" {
		fmt.Printf("INCONCLUSIVE property=%s reason=%s\n", r.Prop, oneLine(inc))
		os.Exit(2)
	}
	fmt.Printf("OK property=%s\n", r.Prop)
	os.Exit(0)
}

// ---------------------------------------------------------------------------------------
// race log parsing

// RaceReport is one de-duplicated race report
type RaceReport struct {
	Key   string   `json:"key"`
	Count int      `json:"count"`
	First string   `json:"first"`
	Funcs []string `json:"funcs"`
}

// CollectRaces parses the GORACE log files (prefix from VERIF_RACE_LOG) and de-duplicates reports by
// the pair of innermost elrond-go frames of the two accesses.
func CollectRaces() []RaceReport {
	prefix := os.Getenv("VERIF_RACE_LOG")
	if prefix == "" {
		return nil
	}
	files, _ := filepath.Glob(prefix + ".*")
	byKey := map[string]*RaceReport{}
	for _, f := range files {
		b, err := os.ReadFile(f)
		if err != nil {
			continue
		}
		blocks := strings.Split(string(b), "WARNING: DATA RACE")
		for _, blk := range blocks[1:] {
			if i := strings.Index(blk, "=================="); i >= 0 {
				blk = blk[:i]
			}
			// sections: first access, "Previous ... by goroutine"
			secs := splitRaceSections(blk)
			var fr []string
			for _, s := range secs {
				fr = append(fr, firstRepoFrame(s))
			}
			sort.Strings(fr)
			key := strings.Join(fr, " <-> ")
			rr := byKey[key]
			if rr == nil {
				first := blk
				if len(first) > 3000 {
					first = first[:3000]
				}
				rr = &RaceReport{Key: key, First: first, Funcs: fr}
				byKey[key] = rr
			}
			rr.Count++
		}
	}
	var out []RaceReport
	for _, v := range byKey {
		out = append(out, *v)
	}
	sort.Slice(out, func(i, j int) bool { return out[i].Key < out[j].Key })
	return out
}

func splitRaceSections(blk string) []string {
	lines := strings.Split(blk, "\n")
	var secs []string
	cur := ""
	n := 0
	for _, l := range lines {
		t := strings.TrimSpace(l)
		isHead := (strings.HasPrefix(t, "Read at") || strings.HasPrefix(t, "Write at") ||
			strings.HasPrefix(t, "Previous read at") || strings.HasPrefix(t, "Previous write at") ||
			strings.HasPrefix(t, "Atomic") || strings.HasPrefix(t, "Previous atomic"))
		if isHead {
			if cur != "" {
				secs = append(secs, cur)
			}
			cur = ""
			n++
		}
		if strings.HasPrefix(t, "Goroutine ") {
			break
		}
		if n > 0 {
			cur += l + "\n"
		}
	}
	if cur != "" {
		secs = append(secs, cur)
	}
	if len(secs) > 2 {
		secs = secs[:2]
	}
	return secs
}

func firstRepoFrame(sec string) string {
	for _, l := range strings.Split(sec, "\n") {
		t := strings.TrimSpace(l)
		if strings.HasPrefix(t, "github.com/ElrondNetwork/elrond-go/") {
			if i := strings.LastIndex(t, "("); i > 0 {
				t = t[:i]
			}
			return strings.TrimPrefix(t, "github.com/ElrondNetwork/elrond-go/")
		}
	}
	for _, l := range strings.Split(sec, "\n") {
		t := strings.TrimSpace(l)
		if strings.Contains(t, "(") && !strings.HasPrefix(t, "Read") && !strings.HasPrefix(t, "Write") && !strings.HasPrefix(t, "Previous") && !strings.HasPrefix(t, "/") {
			if i := strings.LastIndex(t, "("); i > 0 {
				t = t[:i]
			}
			return t
		}
	}
	return "?"
}

// Hex is a short helper for samples
func Hex(b []byte) string { return hex.EncodeToString(b) }
