// Package sysc is the environment shared by the system-smart-contract monitors (C38, C39): a
// metachain integrationTests.TestProcessorNode (real TxProcessor, scProcessor, system VM, eei,
// AccountsDB), helpers to send real transactions, to call the system VM as a privileged protocol
// address (applying the output accounts the way epochStart/metachain/systemSCs.go does), to run view
// queries and to dump a contract's raw storage from its data trie.
package sysc

import (
	"bufio"
	"math/big"
	"os"
	"sort"
	"strings"

	"github.com/ElrondNetwork/elrond-go/core"
	"github.com/ElrondNetwork/elrond-go/data"
	"github.com/ElrondNetwork/elrond-go/data/block"
	"github.com/ElrondNetwork/elrond-go/data/state"
	"github.com/ElrondNetwork/elrond-go/data/transaction"
	"github.com/ElrondNetwork/elrond-go/integrationTests"
	"github.com/ElrondNetwork/elrond-go/process"
	"github.com/ElrondNetwork/elrond-go/process/factory"
	"github.com/ElrondNetwork/elrond-go/vm"
	vmcommon "github.com/ElrondNetwork/elrond-vm-common"
)

// Env wraps one metachain test node
type Env struct {
	Tpn    *integrationTests.TestProcessorNode
	nonces map[string]uint64
	Epoch  uint32
	Nonce  uint64

	LastMessage string // return message of the last Sys call

	// NotifyEpochs makes SetHeader also report the header to the node's epoch notifier, as a running
	// node does at every epoch change, so that feature flags activated by "epoch > N" rules (e.g. the
	// delegation contract's staking-v2 flag, which selects GetIntTrimmedPercentageOfValue) follow Epoch.
	NotifyEpochs bool
}

// New builds a metachain node with the delegation manager initialised and header nonce 1, epoch 0
func New() *Env {
	tpn := integrationTests.NewTestProcessorNode(1, core.MetachainShardId, 0)
	tpn.InitDelegationManager()
	e := &Env{Tpn: tpn, nonces: map[string]uint64{}, Nonce: 1}
	e.nonces[string(tpn.OwnAccount.Address)] = tpn.OwnAccount.Nonce
	e.SetHeader()
	e.CleanSCRs()
	return e
}

// SetHeader publishes the current (nonce, epoch) to the blockchain hook
func (e *Env) SetHeader() {
	hdr := &block.MetaBlock{Nonce: e.Nonce, Epoch: e.Epoch, Round: e.Nonce}
	e.Tpn.BlockchainHook.SetCurrentHeader(hdr)
	if e.NotifyEpochs {
		e.Tpn.EpochNotifier.CheckEpoch(hdr)
	}
}

// CleanSCRs drops the smart contract results accumulated so far
func (e *Env) CleanSCRs() {
	if c, ok := e.Tpn.ScrForwarder.(interface{ CleanIntermediateTransactions() }); ok {
		c.CleanIntermediateTransactions()
	}
}

// SCRs returns the smart contract results produced since the last CleanSCRs
func (e *Env) SCRs() []data.TransactionHandler { return e.Tpn.ScProcessor.GetAllSCRs() }

// GasLimitFor is the gas limit used for a transaction with the given data field
func GasLimitFor(dataField string) uint64 {
	return integrationTests.MinTxGasLimit + uint64(len(dataField)) + integrationTests.AdditionalGasLimit
}

// MaxFee is an upper bound of the fee a transaction sent by Tx can cost its sender
func MaxFee(dataField string) *big.Int {
	return big.NewInt(0).Mul(big.NewInt(0).SetUint64(GasLimitFor(dataField)), big.NewInt(0).SetUint64(integrationTests.MinTxGasPrice))
}

// Tx sends a real transaction through the node's TxProcessor
func (e *Env) Tx(snd, rcv []byte, dataField string, value *big.Int) (vmcommon.ReturnCode, error) {
	t := &transaction.Transaction{
		Nonce: e.nonces[string(snd)], Value: big.NewInt(0).Set(value), SndAddr: snd, RcvAddr: rcv, Data: []byte(dataField),
		GasPrice: integrationTests.MinTxGasPrice, GasLimit: GasLimitFor(dataField),
		ChainID: integrationTests.ChainID, Version: integrationTests.MinTransactionVersion,
	}
	rc, err := e.Tpn.TxProcessor.ProcessTransaction(t)
	acc, errA := e.Tpn.AccntState.GetExistingAccount(snd)
	if errA == nil {
		e.nonces[string(snd)] = acc.(state.UserAccountHandler).GetNonce()
	}
	return rc, err
}

// Sys calls the real system VM as a protocol address (vm.EndOfEpochAddress, vm.JailingAddress) and,
// when the call succeeded, applies the output accounts to the accounts DB exactly as
// systemSCProcessor.processSCOutputAccounts does. A failed call leaves the state untouched.
func (e *Env) Sys(caller, dest []byte, f string, args ...[]byte) vmcommon.ReturnCode {
	svm, err := e.Tpn.VMContainer.Get(factory.SystemVirtualMachine)
	if err != nil {
		panic(err)
	}
	out, err := svm.RunSmartContractCall(&vmcommon.ContractCallInput{
		VMInput:       vmcommon.VMInput{CallerAddr: caller, CallValue: big.NewInt(0), Arguments: args, GasProvided: 1000000000},
		RecipientAddr: dest, Function: f})
	if err != nil {
		e.LastMessage = err.Error()
		return vmcommon.ExecutionFailed
	}
	e.LastMessage = out.ReturnMessage
	if out.ReturnCode != vmcommon.Ok {
		return out.ReturnCode
	}
	for _, oa := range process.SortVMOutputInsideData(out) {
		acc, err := e.Tpn.AccntState.LoadAccount(oa.Address)
		if err != nil {
			panic(err)
		}
		ua := acc.(state.UserAccountHandler)
		for _, su := range process.GetSortedStorageUpdates(oa) {
			if err := ua.DataTrieTracker().SaveKeyValue(su.Offset, su.Data); err != nil {
				panic(err)
			}
		}
		if oa.BalanceDelta != nil && oa.BalanceDelta.Sign() != 0 {
			if err := ua.AddToBalance(oa.BalanceDelta); err != nil {
				panic(err)
			}
		}
		if err := e.Tpn.AccntState.SaveAccount(ua); err != nil {
			panic(err)
		}
	}
	return vmcommon.Ok
}

// Query runs a view function; nil when the query failed
func (e *Env) Query(addr []byte, f string, args ...[]byte) [][]byte {
	out, err := e.Tpn.SCQueryService.ExecuteQuery(&process.SCQuery{ScAddress: addr, FuncName: f, CallerAddr: vm.EndOfEpochAddress, CallValue: big.NewInt(0), Arguments: args})
	if err != nil || out.ReturnCode != vmcommon.Ok {
		return nil
	}
	if out.ReturnData == nil {
		return [][]byte{}
	}
	return out.ReturnData
}

// QueryAs is Query with an explicit caller
func (e *Env) QueryAs(caller, addr []byte, f string, args ...[]byte) [][]byte {
	out, err := e.Tpn.SCQueryService.ExecuteQuery(&process.SCQuery{ScAddress: addr, FuncName: f, CallerAddr: caller, CallValue: big.NewInt(0), Arguments: args})
	if err != nil || out.ReturnCode != vmcommon.Ok {
		return nil
	}
	if out.ReturnData == nil {
		return [][]byte{}
	}
	return out.ReturnData
}

// Balance of an account (0 when it does not exist)
func (e *Env) Balance(a []byte) *big.Int {
	acc, err := e.Tpn.AccntState.GetExistingAccount(a)
	if err != nil {
		return big.NewInt(0)
	}
	return big.NewInt(0).Set(acc.(state.UserAccountHandler).GetBalance())
}

// Mint credits an address
func (e *Env) Mint(a []byte, v *big.Int) { integrationTests.MintAddress(e.Tpn.AccntState, a, v) }

// Storage commits the accounts DB and returns a copy of the raw key -> value storage of a contract,
// read leaf by leaf from the account's data trie (the trie appends key||address to each value).
func (e *Env) Storage(sc []byte) map[string][]byte {
	out := map[string][]byte{}
	if _, err := e.Tpn.AccntState.Commit(); err != nil {
		panic(err)
	}
	acc, err := e.Tpn.AccntState.GetExistingAccount(sc)
	if err != nil {
		return out
	}
	ua := acc.(state.UserAccountHandler)
	if len(ua.GetRootHash()) == 0 {
		return out
	}
	ch, err := ua.DataTrie().GetAllLeavesOnChannel(ua.GetRootHash())
	if err != nil {
		panic(err)
	}
	for l := range ch {
		k := l.Key()
		v := l.Value()
		tail := len(k) + len(sc)
		if len(v) >= tail {
			v = v[:len(v)-tail]
		}
		out[string(append([]byte(nil), k...))] = append([]byte(nil), v...)
	}
	return out
}

// PatchStorage writes one raw storage entry of a contract account (used to configure a contract beyond
// what the hard-coded test node configuration allows, e.g. a longer unbond period)
func (e *Env) PatchStorage(sc, key, val []byte) {
	acc, err := e.Tpn.AccntState.LoadAccount(sc)
	if err != nil {
		panic(err)
	}
	ua := acc.(state.UserAccountHandler)
	if err := ua.DataTrieTracker().SaveKeyValue(key, val); err != nil {
		panic(err)
	}
	if err := e.Tpn.AccntState.SaveAccount(ua); err != nil {
		panic(err)
	}
}

// SortedKeys of a storage map
func SortedKeys(m map[string][]byte) []string {
	ks := make([]string, 0, len(m))
	for k := range m {
		ks = append(ks, k)
	}
	sort.Strings(ks)
	return ks
}

// QuietStdout routes os.Stdout through a pipe that drops the key-generation chatter printed by the
// integrationTests package ("Found pk: ...") and forwards every other line unchanged to the real
// stdout. The returned function drains the pipe and restores os.Stdout; call it before Finish.
func QuietStdout() func() {
	realOut := os.Stdout
	pr, pw, err := os.Pipe()
	if err != nil {
		return func() {}
	}
	os.Stdout = pw
	done := make(chan struct{})
	go func() {
		defer close(done)
		rd := bufio.NewReader(pr)
		for {
			line, err := rd.ReadString('\n')
			if len(line) > 0 && !strings.HasPrefix(line, "Found pk: ") {
				_, _ = realOut.WriteString(line)
			}
			if err != nil {
				return
			}
		}
	}()
	return func() {
		os.Stdout = realOut
		_ = pw.Close()
		<-done
		_ = pr.Close()
	}
}
