package shufflegen

import (
	"bytes"
	"fmt"

	"github.com/ElrondNetwork/elrond-go/config"
	"github.com/ElrondNetwork/elrond-go/sharding"
	"verif/internal/vk"
)

// AllocStyles names the ways BuildAlloc lays the input lists out in memory. The logical input (which
// validators, in which order, in which list) is the same for all of them.
//
//	exact           every list has its own backing array, len == cap (what Build does)
//	one-arena       every list (eligible and waiting per shard, new, both leaving lists) is a plain
//	                sub-slice all[a:b] of ONE shared array, the lists lying back to back: the spare
//	                capacity of a list is the memory of the lists that follow it
//	arena-per-group one shared array for the eligible lists, one for the waiting lists, one for the rest
//	arena-gaps      as one-arena, with 0-3 unused slots between consecutive lists and after the last
//	arena-capped    as one-arena but cut with full slice expressions all[a:b:b] (len == cap)
//	private-spare   own backing array with 1-8 slots of spare capacity
//	append          lists grown from nil with one append per validator (capacity as the runtime grows it;
//	                an empty list stays nil)
//	mixed           every list draws its own style
var AllocStyles = []string{"exact", "one-arena", "arena-per-group", "arena-gaps", "arena-capped", "private-spare", "append", "mixed"}

// AllocList is one input list as handed to the shuffler, with a private copy of what it held
type AllocList struct {
	Name  string // e.g. "waiting[0]", "new", "unstakeLeaving"
	Group string // "eligible", "waiting", "new", "leaving"
	Shard uint32
	InMap bool
	Kind  string
	given []sharding.Validator // the very slice header handed over
	want  []sharding.Validator // private copy of the elements
	keys  []string
}

// Layout describes the memory layout chosen by one BuildAlloc call
type Layout struct {
	Style       string
	Lists       []*AllocList
	Shared      int // lists that are sub-slices of a shared array
	SpareShared int // shared lists with capacity beyond their length (memory of later lists, gaps, tail)
	rand        []byte
	randGiven   []byte
	shards      []uint32
}

type allocReq struct {
	l     *AllocList
	vals  []sharding.Validator
	kind  string
	arena int
	gap   int
}

// BuildAlloc is Build with a chosen memory layout of the per-shard lists, the new list and the leaving
// lists (see AllocStyles). order selects the map insertion order as in Build (nil = ascending); alloc
// drives the layout. The returned Layout remembers what every list held, see Changed.
func (in *Input) BuildAlloc(order *vk.Rand, alloc *vk.Rand, style string) (*sharding.NodesShufflerArgs, sharding.ArgsUpdateNodes, *Layout) {
	sa := &sharding.NodesShufflerArgs{
		NodesShard: in.NodesShard, NodesMeta: in.NodesMeta, Hysteresis: in.Hysteresis,
		Adaptivity: in.Adaptivity, ShuffleBetweenShards: in.ShuffleBetweenShards,
		MaxNodesEnableConfig:           append([]config.MaxNodesChangeConfig(nil), in.MaxNodesCfg...),
		BalanceWaitingListsEnableEpoch: in.BalanceEpoch, WaitingListFixEnableEpoch: in.FixEpoch,
	}
	lay := &Layout{Style: style, shards: in.Shards()}
	objs := map[string]sharding.Validator{}
	var reqs []*allocReq
	mkObjs := func(l []V) []sharding.Validator {
		out := make([]sharding.Validator, 0, len(l))
		for _, v := range l {
			val := NewVal(v)
			objs[v.Key] = val
			out = append(out, val)
		}
		return out
	}
	addMapLists := func(group string, lists map[uint32][]V, present map[uint32]bool, arena int) {
		ids := in.Shards()
		if alloc.Bool() { // the order in which the lists are laid out in memory
			p := alloc.Perm(len(ids))
			tmp := make([]uint32, len(ids))
			for i, j := range p {
				tmp[i] = ids[j]
			}
			ids = tmp
		}
		for _, s := range ids {
			if present != nil && !present[s] {
				continue
			}
			reqs = append(reqs, &allocReq{
				l:    &AllocList{Name: fmt.Sprintf("%s[%s]", group, ShardName(s)), Group: group, Shard: s, InMap: true},
				vals: mkObjs(lists[s]), arena: arena,
			})
		}
	}
	// waiting lists first or eligible lists first
	if alloc.Bool() {
		addMapLists("waiting", in.Waiting, in.WaitingPresent, 1)
		addMapLists("eligible", in.Eligible, in.EligiblePresent, 0)
	} else {
		addMapLists("eligible", in.Eligible, in.EligiblePresent, 0)
		addMapLists("waiting", in.Waiting, in.WaitingPresent, 1)
	}
	reqs = append(reqs, &allocReq{l: &AllocList{Name: "new", Group: "new"}, vals: mkObjs(in.New), arena: 2})
	mkLeaving := func(ls []L) []sharding.Validator {
		out := make([]sharding.Validator, 0, len(ls))
		for _, l := range ls {
			if o, ok := objs[l.Key]; ok && in.ShareObjects {
				out = append(out, o)
			} else {
				out = append(out, NewVal(l.V))
			}
		}
		return out
	}
	reqs = append(reqs, &allocReq{l: &AllocList{Name: "unstakeLeaving", Group: "leaving"}, vals: mkLeaving(in.Unstake), arena: 2})
	reqs = append(reqs, &allocReq{l: &AllocList{Name: "additionalLeaving", Group: "leaving"}, vals: mkLeaving(in.Additional), arena: 2})
	if style == "one-arena" && alloc.Chance(1, 3) { // any order of the lists inside the arena
		p := alloc.Perm(len(reqs))
		tmp := make([]*allocReq, len(reqs))
		for i, j := range p {
			tmp[i] = reqs[j]
		}
		reqs = tmp
	}

	// choose the kind of every list
	perList := []string{"exact", "shared", "shared", "shared-gap", "shared-capped", "private-spare", "append"}
	for _, q := range reqs {
		switch style {
		case "exact":
			q.kind = "exact"
		case "one-arena":
			q.kind, q.arena = "shared", 0
		case "arena-per-group":
			q.kind = "shared"
		case "arena-gaps":
			q.kind, q.arena, q.gap = "shared-gap", 0, alloc.Intn(4)
		case "arena-capped":
			q.kind, q.arena = "shared-capped", 0
		case "private-spare":
			q.kind = "private-spare"
		case "append":
			q.kind = "append"
		default: // mixed
			q.kind = perList[alloc.Intn(len(perList))]
			if q.kind == "shared-gap" {
				q.gap = alloc.Intn(4)
			}
			if alloc.Bool() {
				q.arena = 0
			}
		}
		q.l.Kind = q.kind
	}
	// size and fill the arenas
	size := map[int]int{}
	for _, q := range reqs {
		if q.kind == "shared" || q.kind == "shared-gap" || q.kind == "shared-capped" {
			size[q.arena] += len(q.vals) + q.gap
		}
	}
	arenas := map[int][]sharding.Validator{}
	for a := 0; a < 3; a++ {
		n, used := size[a]
		if !used {
			continue
		}
		tail := 0
		if style != "one-arena" || alloc.Bool() {
			tail = alloc.Intn(5)
		}
		arenas[a] = make([]sharding.Validator, n+tail)
	}
	off := map[int]int{}
	for _, q := range reqs {
		n := len(q.vals)
		var lst []sharding.Validator
		switch q.kind {
		case "exact":
			lst = make([]sharding.Validator, n)
			copy(lst, q.vals)
		case "private-spare":
			lst = make([]sharding.Validator, n, n+1+alloc.Intn(8))
			copy(lst, q.vals)
		case "append":
			for _, v := range q.vals {
				lst = append(lst, v)
			}
		default:
			ar, o := arenas[q.arena], off[q.arena]
			copy(ar[o:o+n], q.vals)
			if q.kind == "shared-capped" {
				lst = ar[o : o+n : o+n]
			} else {
				lst = ar[o : o+n]
			}
			off[q.arena] = o + n + q.gap
			lay.Shared++
		}
		q.l.given = lst
		q.l.want = append([]sharding.Validator(nil), q.vals...)
		for _, v := range q.vals {
			q.l.keys = append(q.l.keys, string(v.PubKey()))
		}
		lay.Lists = append(lay.Lists, q.l)
	}
	// shared lists with capacity beyond their length: that memory holds later lists, gaps or the tail
	for _, q := range reqs {
		if q.kind != "shared" && q.kind != "shared-gap" {
			continue
		}
		if cap(q.l.given) > len(q.l.given) {
			lay.SpareShared++
		}
	}

	byName := map[string]*AllocList{}
	for _, l := range lay.Lists {
		byName[l.Name] = l
	}
	mkMap := func(group string, present map[uint32]bool) map[uint32][]sharding.Validator {
		var m map[uint32][]sharding.Validator
		ids := append([]uint32(nil), in.Shards()...)
		if order == nil {
			m = make(map[uint32][]sharding.Validator)
		} else {
			m = make(map[uint32][]sharding.Validator, order.Intn(20))
			p := order.Perm(len(ids))
			tmp := make([]uint32, len(ids))
			for i, j := range p {
				tmp[i] = ids[j]
			}
			ids = tmp
			for i, n := 0, order.Intn(12); i < n; i++ {
				m[uint32(1000+i)] = nil
			}
			for k := range m {
				delete(m, k)
			}
		}
		for _, s := range ids {
			if present != nil && !present[s] {
				continue
			}
			m[s] = byName[fmt.Sprintf("%s[%s]", group, ShardName(s))].given
		}
		return m
	}
	if order != nil && len(sa.MaxNodesEnableConfig) > 1 {
		p := order.Perm(len(sa.MaxNodesEnableConfig))
		c := make([]config.MaxNodesChangeConfig, len(p))
		for i, j := range p {
			c[i] = sa.MaxNodesEnableConfig[j]
		}
		if distinctEpochs(c) {
			sa.MaxNodesEnableConfig = c
		}
	}
	lay.rand = append([]byte(nil), in.Rand...)
	lay.randGiven = append(make([]byte, 0, len(in.Rand)+alloc.Intn(3)), in.Rand...)
	args := sharding.ArgsUpdateNodes{
		Eligible:          mkMap("eligible", in.EligiblePresent),
		Waiting:           mkMap("waiting", in.WaitingPresent),
		NewNodes:          byName["new"].given,
		UnStakeLeaving:    byName["unstakeLeaving"].given,
		AdditionalLeaving: byName["additionalLeaving"].given,
		Rand:              lay.randGiven,
		NbShards:          in.NbShards,
		Epoch:             in.Epoch,
	}
	return sa, args, lay
}

func sameList(have, want []sharding.Validator, keys []string) (int, bool) {
	if len(have) != len(want) {
		return -1, false
	}
	for i := range want {
		if have[i] != want[i] || string(want[i].PubKey()) != keys[i] {
			return i, false
		}
	}
	return 0, true
}

func describe(l []sharding.Validator) string {
	out := make([]string, len(l))
	for i, v := range l {
		if v == nil {
			out[i] = "<nil>"
		} else {
			out[i] = string(v.PubKey())
		}
	}
	return HexList(out)
}

// Changed tells whether the caller's input (the lists as the caller still sees them through its own
// slice headers and through the maps it handed over, and the randomness) differs from what was built:
// the group that changed ("eligible", "waiting", "new", "leaving", "rand") and a description, or "".
// An absent map entry equals an empty list; unused slots between and behind the lists are not judged.
func (lay *Layout) Changed(args sharding.ArgsUpdateNodes) (string, string) {
	for _, l := range lay.Lists {
		if i, ok := sameList(l.given, l.want, l.keys); !ok {
			return l.Group, fmt.Sprintf("input list %s (allocation %q) was written to (first difference at position %d): held %s, holds %s", l.Name, l.Kind, i, HexList(l.keys), describe(l.given))
		}
		if !l.InMap {
			continue
		}
		m := args.Eligible
		if l.Group == "waiting" {
			m = args.Waiting
		}
		if i, ok := sameList(m[l.Shard], l.want, l.keys); !ok {
			return l.Group, fmt.Sprintf("map entry %s was replaced or resized (first difference at position %d): held %s, holds %s", l.Name, i, HexList(l.keys), describe(m[l.Shard]))
		}
	}
	present := map[string]bool{}
	for _, l := range lay.Lists {
		present[l.Name] = true
	}
	for name, m := range map[string]map[uint32][]sharding.Validator{"eligible": args.Eligible, "waiting": args.Waiting} {
		for s, lst := range m {
			if len(lst) > 0 && !present[fmt.Sprintf("%s[%s]", name, ShardName(s))] {
				return name, fmt.Sprintf("map entry %s[%s] appeared in the caller's map: %s", name, ShardName(s), describe(lst))
			}
		}
	}
	if !bytes.Equal(lay.randGiven, lay.rand) {
		return "rand", fmt.Sprintf("randomness was written to: held %x, holds %x", lay.rand, lay.randGiven)
	}
	return "", ""
}

// Dump is the JSON-friendly description of the layout
func (lay *Layout) Dump() map[string]interface{} {
	kinds := map[string]string{}
	for _, l := range lay.Lists {
		kinds[l.Name] = fmt.Sprintf("%s len=%d cap=%d", l.Kind, len(l.given), cap(l.given))
	}
	return map[string]interface{}{"style": lay.Style, "lists_in_memory_order": lay.order(), "allocation": kinds}
}

func (lay *Layout) order() []string {
	out := make([]string, len(lay.Lists))
	for i, l := range lay.Lists {
		out[i] = l.Name
	}
	return out
}
