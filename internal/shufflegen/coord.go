package shufflegen

import (
	"encoding/hex"
	"errors"
	"fmt"
	"sort"

	"github.com/ElrondNetwork/elrond-go/config"
	"github.com/ElrondNetwork/elrond-go/core"
	"github.com/ElrondNetwork/elrond-go/data"
	"github.com/ElrondNetwork/elrond-go/data/block"
	"github.com/ElrondNetwork/elrond-go/data/endProcess"
	"github.com/ElrondNetwork/elrond-go/data/state"
	"github.com/ElrondNetwork/elrond-go/hashing"
	"github.com/ElrondNetwork/elrond-go/hashing/blake2b"
	"github.com/ElrondNetwork/elrond-go/hashing/sha256"
	"github.com/ElrondNetwork/elrond-go/marshal"
	"github.com/ElrondNetwork/elrond-go/sharding"
	"github.com/ElrondNetwork/elrond-go/sharding/mock"
	"github.com/ElrondNetwork/elrond-go/storage"
	"github.com/ElrondNetwork/elrond-go/storage/lrucache"
	"github.com/ElrondNetwork/elrond-go/storage/memorydb"
	"github.com/ElrondNetwork/elrond-go/storage/storageUnit"
	"github.com/ElrondNetwork/elrond-go/testscommon/nodeTypeProviderMock"
	"verif/internal/vk"
)

// Coord is what the harnesses use of a nodes coordinator (both the plain and the rater variant)
type Coord interface {
	sharding.NodesCoordinator
	EpochStartPrepare(metaHdr data.HeaderHandler, body data.BodyHandler)
	EpochStartAction(hdr data.HeaderHandler)
}

// Chance is a table-driven chance computer: GetChance(r) = Table[r mod len(Table)]; Table[0] >= 1
type Chance struct{ Table []uint32 }

// GetChance -
func (c *Chance) GetChance(r uint32) uint32 { return c.Table[int(r)%len(c.Table)] }

// IsInterfaceNil -
func (c *Chance) IsInterfaceNil() bool { return c == nil }

// CoordSpec describes a nodes coordinator to build
type CoordSpec struct {
	NbShards     uint32
	ShardCons    int
	MetaCons     int
	NodesShard   uint32
	NodesMeta    uint32
	Cross        bool
	FixEpoch     uint32
	BalanceEpoch uint32
	MaxNodesCfg  []config.MaxNodesChangeConfig
	StartEpoch   uint32
	Eligible     map[uint32][]V
	Waiting      map[uint32][]V
	Rater        bool
	ChanceTable  []uint32
	Skewed       bool
	SelfKey      string
	Blake        bool
	keys         *keyGen
}

// CoordOpts bounds the coordinator generator
type CoordOpts struct {
	MaxShards   int // 1..MaxShards shards (+ metachain)
	MaxCons     int // consensus group sizes 1..MaxCons
	MaxEpoch    int // start epoch 0..MaxEpoch
	EpochsAhead int // activation epochs are drawn from 0..StartEpoch+EpochsAhead
}

// Shards lists the shard ids
func (cs *CoordSpec) Shards() []uint32 {
	out := make([]uint32, 0, cs.NbShards+1)
	for s := uint32(0); s < cs.NbShards; s++ {
		out = append(out, s)
	}
	return append(out, Meta)
}

// Cons is the consensus group size of a shard
func (cs *CoordSpec) Cons(s uint32) int {
	if s == Meta {
		return cs.MetaCons
	}
	return cs.ShardCons
}

// NewKey returns a key never used before in this spec
func (cs *CoordSpec) NewKey() string { return cs.keys.next() }

// GenCoord draws a coordinator: eligible sizes from the group size to 3x the group size, waiting 0..4,
// shuffler minimums not above any shard's eligible+waiting
func GenCoord(rng *vk.Rand, o CoordOpts) *CoordSpec {
	cs := &CoordSpec{Eligible: map[uint32][]V{}, Waiting: map[uint32][]V{}}
	cs.keys = &keyGen{rng: rng, used: map[string]bool{}}
	cs.NbShards = uint32(1 + rng.Intn(o.MaxShards))
	cs.ShardCons = 1 + rng.Intn(o.MaxCons)
	cs.MetaCons = 1 + rng.Intn(o.MaxCons)
	cs.Cross = rng.Chance(2, 3)
	cs.StartEpoch = uint32(rng.Intn(o.MaxEpoch + 1))
	cs.FixEpoch = uint32(rng.Intn(int(cs.StartEpoch) + o.EpochsAhead + 1))
	if rng.Chance(1, 3) {
		cs.FixEpoch = 0
	}
	cs.BalanceEpoch = uint32(rng.Intn(int(cs.StartEpoch) + o.EpochsAhead + 1))
	cs.Blake = rng.Bool()
	cs.Rater = rng.Bool()
	// chance table: entry 0 is the minimum chance (>=1); other ratings may be below it (they are
	// raised to the minimum by ValidatorsWeights and make the validator "additional leaving")
	minC := []uint32{1, 1, 2, 5}[rng.Intn(4)]
	cs.ChanceTable = []uint32{minC}
	for i, n := 0, 2+rng.Intn(6); i < n; i++ {
		switch pick(rng, 50, 25, 15, 10) {
		case 0:
			cs.ChanceTable = append(cs.ChanceTable, minC+uint32(rng.Intn(20)))
		case 1:
			cs.ChanceTable = append(cs.ChanceTable, minC)
		case 2:
			cs.ChanceTable = append(cs.ChanceTable, uint32(rng.Intn(int(minC)))) // below the minimum
		default:
			cs.ChanceTable = append(cs.ChanceTable, uint32(200+rng.Intn(1800)))
			cs.Skewed = true
		}
	}
	minTotS, minTotM := 1<<30, 0
	for _, s := range cs.Shards() {
		c := cs.Cons(s)
		e := c + rng.Intn(2*c+1)
		if rng.Chance(1, 4) {
			e = c
		}
		w := rng.Intn(5)
		for i := 0; i < e; i++ {
			cs.Eligible[s] = append(cs.Eligible[s], cs.genV(rng))
		}
		for i := 0; i < w; i++ {
			cs.Waiting[s] = append(cs.Waiting[s], cs.genV(rng))
		}
		if s == Meta {
			minTotM = e + w
		} else if e+w < minTotS {
			minTotS = e + w
		}
	}
	// minimum nodes per shard between the group size and the smallest shard
	cs.NodesShard = uint32(cs.ShardCons + rng.Intn(minTotS-cs.ShardCons+1))
	cs.NodesMeta = uint32(cs.MetaCons + rng.Intn(minTotM-cs.MetaCons+1))
	if rng.Chance(1, 3) {
		cs.MaxNodesCfg = append(cs.MaxNodesCfg, config.MaxNodesChangeConfig{
			EpochEnable: uint32(rng.Intn(int(cs.StartEpoch) + o.EpochsAhead + 1)), MaxNumNodes: 100,
			NodesToShufflePerShard: uint32(rng.Intn(4)),
		})
	}
	switch rng.Intn(3) {
	case 0:
		cs.SelfKey = "observer-key"
	case 1:
		cs.SelfKey = cs.Eligible[Meta][0].Key
	default:
		cs.SelfKey = cs.Eligible[0][len(cs.Eligible[0])-1].Key
	}
	return cs
}

func (cs *CoordSpec) genV(rng *vk.Rand) V {
	rating := uint32(rng.Intn(len(cs.ChanceTable)))
	if rng.Bool() {
		rating = uint32(rng.Intn(100))
	}
	ch := cs.ChanceTable[int(rating)%len(cs.ChanceTable)]
	return V{Key: cs.keys.next(), Chances: ch, Index: uint32(rng.Intn(60))}
}

// Hasher returns the real hasher chosen for the spec
func (cs *CoordSpec) Hasher() hashing.Hasher {
	if cs.Blake {
		return blake2b.NewBlake2b()
	}
	return sha256.NewSha256()
}

// Build constructs a fresh coordinator (fresh shuffler, storer, validator objects; maps built in the
// insertion order selected by order, nil = ascending)
func (cs *CoordSpec) Build(order *vk.Rand, cache sharding.Cacher) (Coord, error) {
	return cs.BuildWith(order, cache, mock.NewStorerMock())
}

// NewBootStorer creates a real storage unit (LRU cache over an in-memory persister), as the bootstrap
// unit of a node is
func NewBootStorer() storage.Storer {
	c, err := lrucache.NewCache(100)
	if err != nil {
		panic(err)
	}
	u, err := storageUnit.NewStorageUnit(c, memorydb.New())
	if err != nil {
		panic(err)
	}
	return u
}

// FaultyStorer decorates a storer: Put fails whenever Fail() says so (a full disk, a closed DB);
// everything else goes to the wrapped storer. Failed counts the refused Puts.
type FaultyStorer struct {
	storage.Storer
	Fail   func() bool
	Failed int
	Puts   int
}

// ErrInjectedPutFault is what a refused Put returns
var ErrInjectedPutFault = errors.New("injected fault: boot storer Put failed")

// Put -
func (f *FaultyStorer) Put(key, data []byte) error {
	f.Puts++
	if f.Fail != nil && f.Fail() {
		f.Failed++
		return ErrInjectedPutFault
	}
	return f.Storer.Put(key, data)
}

// IsInterfaceNil -
func (f *FaultyStorer) IsInterfaceNil() bool { return f == nil }

// BuildWith is Build with a given boot storer (a second coordinator built over the same storer can
// LoadState what the first one saved, as a restarted node does)
func (cs *CoordSpec) BuildWith(order *vk.Rand, cache sharding.Cacher, bootStorer storage.Storer) (Coord, error) {
	sh, err := sharding.NewHashValidatorsShuffler(&sharding.NodesShufflerArgs{
		NodesShard: cs.NodesShard, NodesMeta: cs.NodesMeta, Hysteresis: 0, Adaptivity: false,
		ShuffleBetweenShards: cs.Cross, MaxNodesEnableConfig: append([]config.MaxNodesChangeConfig(nil), cs.MaxNodesCfg...),
		BalanceWaitingListsEnableEpoch: cs.BalanceEpoch, WaitingListFixEnableEpoch: cs.FixEpoch,
	})
	if err != nil {
		return nil, err
	}
	args := sharding.ArgNodesCoordinator{
		ShardConsensusGroupSize: cs.ShardCons, MetaConsensusGroupSize: cs.MetaCons,
		Marshalizer: &marshal.GogoProtoMarshalizer{}, Hasher: cs.Hasher(), Shuffler: sh,
		EpochStartNotifier: &mock.EpochStartNotifierStub{}, BootStorer: bootStorer,
		ShardIDAsObserver: 0, NbShards: cs.NbShards,
		EligibleNodes: BuildMap(cs.Eligible, nil, cs.Shards(), order, nil),
		WaitingNodes:  BuildMap(cs.Waiting, nil, cs.Shards(), order, nil),
		SelfPublicKey: exact(cs.SelfKey), Epoch: cs.StartEpoch, StartEpoch: cs.StartEpoch,
		ConsensusGroupCache: cache, ShuffledOutHandler: &mock.ShuffledOutHandlerStub{},
		WaitingListFixEnabledEpoch: cs.FixEpoch, ChanStopNode: make(chan endProcess.ArgEndProcess, 8),
		NodeTypeProvider: &nodeTypeProviderMock.NodeTypeProviderStub{}, IsFullArchive: false,
	}
	c, err := sharding.NewIndexHashedNodesCoordinator(args)
	if err != nil {
		return nil, err
	}
	if !cs.Rater {
		return c, nil
	}
	return sharding.NewIndexHashedNodesCoordinatorWithRater(c, &Chance{Table: append([]uint32(nil), cs.ChanceTable...)})
}

// Info is one validator-info record of an epoch-start body
type Info struct {
	Key    string
	Shard  uint32
	List   string
	Index  uint32
	Rating uint32
}

// MakeBody marshals the records into peer miniblocks (in the given order, cut into 1..4 miniblocks),
// with an unrelated non-peer miniblock in between that the coordinator has to skip
func MakeBody(infos []Info, rng *vk.Rand) *block.Body {
	m := &marshal.GogoProtoMarshalizer{}
	body := &block.Body{}
	nmb := 1 + rng.Intn(4)
	mbs := make([]*block.MiniBlock, nmb)
	for i := range mbs {
		mbs[i] = &block.MiniBlock{Type: block.PeerBlock, SenderShardID: Meta, ReceiverShardID: core.AllShardId}
	}
	for i, inf := range infos {
		b, err := m.Marshal(&state.ShardValidatorInfo{PublicKey: []byte(inf.Key), ShardId: inf.Shard, List: inf.List, Index: inf.Index, TempRating: inf.Rating})
		if err != nil {
			panic(err)
		}
		k := i * nmb / len(infos)
		mbs[k].TxHashes = append(mbs[k].TxHashes, b)
	}
	for i, mb := range mbs {
		if i == 1 {
			body.MiniBlocks = append(body.MiniBlocks, &block.MiniBlock{Type: block.TxBlock, TxHashes: [][]byte{[]byte("not a validator info")}})
		}
		body.MiniBlocks = append(body.MiniBlocks, mb)
	}
	return body
}

// Header builds the epoch-start metablock
func Header(epoch uint32, prevRand []byte) *block.MetaBlock {
	return &block.MetaBlock{
		Epoch: epoch, PrevRandSeed: append([]byte(nil), prevRand...),
		EpochStart: block.EpochStart{LastFinalizedHeaders: []block.EpochStartShardData{{}}},
	}
}

// Config is the eligible/waiting configuration of one epoch as reported by the coordinator
type Config struct {
	Eligible map[uint32][]string
	Waiting  map[uint32][]string
}

// ReadConfig reads the configuration of an epoch through the public-key API
func ReadConfig(c Coord, epoch uint32) (*Config, error) {
	el, err := c.GetAllEligibleValidatorsPublicKeys(epoch)
	if err != nil {
		return nil, err
	}
	wa, err := c.GetAllWaitingValidatorsPublicKeys(epoch)
	if err != nil {
		return nil, err
	}
	cfg := &Config{Eligible: map[uint32][]string{}, Waiting: map[uint32][]string{}}
	for s, l := range el {
		for _, k := range l {
			cfg.Eligible[s] = append(cfg.Eligible[s], string(k))
		}
	}
	for s, l := range wa {
		for _, k := range l {
			cfg.Waiting[s] = append(cfg.Waiting[s], string(k))
		}
	}
	return cfg, nil
}

// Dump is the JSON-friendly form
func (c *Config) Dump() map[string]interface{} {
	return map[string]interface{}{"eligible": hexMap(c.Eligible), "waiting": hexMap(c.Waiting)}
}

// GenInfos derives the validator-info records of the next epoch from the previous configuration:
// eligible stay eligible or are marked leaving (same shard), waiting stay waiting or leave, fresh keys
// register as new, gone keys show up as inactive or jailed, and (rarely) a fresh key is marked leaving
// without ever having been listed. Ratings are arbitrary. The records are returned in random order.
func GenInfos(cs *CoordSpec, prev *Config, gone []string, rng *vk.Rand) []Info {
	var infos []Info
	leaveP := []int{0, 5, 15, 40, 80}[rng.Intn(5)]
	rating := func() uint32 {
		if rng.Bool() {
			return uint32(rng.Intn(len(cs.ChanceTable)))
		}
		return uint32(rng.Intn(100))
	}
	for _, s := range sortedIDs(prev.Eligible) {
		for _, k := range prev.Eligible[s] {
			list := string(core.EligibleList)
			if rng.Intn(100) < leaveP {
				list = string(core.LeavingList)
			}
			infos = append(infos, Info{Key: k, Shard: s, List: list, Index: uint32(rng.Intn(60)), Rating: rating()})
		}
	}
	for _, s := range sortedIDs(prev.Waiting) {
		for _, k := range prev.Waiting[s] {
			list := string(core.WaitingList)
			if rng.Intn(100) < leaveP {
				list = string(core.LeavingList)
			}
			infos = append(infos, Info{Key: k, Shard: s, List: list, Index: uint32(rng.Intn(60)), Rating: rating()})
		}
	}
	shards := cs.Shards()
	for i, n := 0, []int{0, 0, 1, 2, 4}[rng.Intn(5)]; i < n; i++ {
		infos = append(infos, Info{Key: cs.NewKey(), Shard: shards[rng.Intn(len(shards))], List: string(core.NewList), Index: uint32(rng.Intn(60)), Rating: rating()})
	}
	for _, k := range gone {
		if rng.Chance(2, 3) {
			list := string(core.InactiveList)
			if rng.Bool() {
				list = string(core.JailedList)
			}
			infos = append(infos, Info{Key: k, Shard: shards[rng.Intn(len(shards))], List: list, Index: uint32(rng.Intn(60)), Rating: rating()})
		}
	}
	if rng.Chance(1, 6) {
		infos = append(infos, Info{Key: cs.NewKey(), Shard: shards[rng.Intn(len(shards))], List: string(core.LeavingList), Index: uint32(rng.Intn(60)), Rating: rating()})
	}
	out := make([]Info, len(infos))
	for i, j := range rng.Perm(len(infos)) {
		out[i] = infos[j]
	}
	return out
}

func sortedIDs(m map[uint32][]string) []uint32 {
	ids := make([]uint32, 0, len(m))
	for s := range m {
		ids = append(ids, s)
	}
	sort.Slice(ids, func(i, j int) bool { return ids[i] < ids[j] })
	return ids
}

// DumpInfos is the JSON-friendly form
func DumpInfos(l []Info) []string {
	out := make([]string, len(l))
	for i, x := range l {
		out[i] = fmt.Sprintf("%s shard=%s list=%s index=%d rating=%d", hex.EncodeToString([]byte(x.Key)), ShardName(x.Shard), x.List, x.Index, x.Rating)
	}
	return out
}

// Dump is the JSON-friendly form of the spec
func (cs *CoordSpec) Dump() map[string]interface{} {
	el, wa := map[string][]string{}, map[string][]string{}
	ch := map[string]uint32{}
	for _, s := range cs.Shards() {
		el[ShardName(s)] = hexV(cs.Eligible[s])
		wa[ShardName(s)] = hexV(cs.Waiting[s])
		for _, v := range cs.Eligible[s] {
			ch[hex.EncodeToString([]byte(v.Key))] = v.Chances
		}
	}
	return map[string]interface{}{
		"nbShards": cs.NbShards, "shardConsensus": cs.ShardCons, "metaConsensus": cs.MetaCons,
		"nodesShard": cs.NodesShard, "nodesMeta": cs.NodesMeta, "shuffleBetweenShards": cs.Cross,
		"fixEpoch": cs.FixEpoch, "balanceEpoch": cs.BalanceEpoch, "maxNodesCfg": cs.MaxNodesCfg,
		"startEpoch": cs.StartEpoch, "rater": cs.Rater, "chanceTable": cs.ChanceTable,
		"eligible": el, "waiting": wa, "eligibleChances": ch, "self": hex.EncodeToString([]byte(cs.SelfKey)),
	}
}
