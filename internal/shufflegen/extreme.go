package shufflegen

import (
	"fmt"

	"github.com/ElrondNetwork/elrond-go/config"
	"verif/internal/vk"
)

// Shapes of a validator map handed to UpdateNodeLists
const (
	MapNil        = "nil"        // the map itself is nil
	MapNoKeys     = "nokeys"     // an allocated map without any key
	MapEmptyLists = "emptylists" // every shard has a key, every list is empty
	MapPopulated  = "populated"  // at least the generator tried to put validators in it
)

// GenExtreme draws one input from the corners of the configuration space that Gen never or hardly
// ever visits: a metachain-only network (NbShards == 0), a single shard, many shards, eligible and/or
// waiting maps that are nil / allocated without keys / made of empty lists only, a network whose
// validators are all waiting (or all eligible), every shard exactly at its minimum, one oversized
// shard, no / one / very many new nodes, everybody leaving. Keys of eligible, waiting and new nodes
// stay pairwise distinct, as in Gen. It has its own PRNG stream and does not alter Gen's.
func GenExtreme(rng *vk.Rand) *Input {
	in := &Input{
		Eligible: map[uint32][]V{}, Waiting: map[uint32][]V{},
		EligiblePresent: map[uint32]bool{}, WaitingPresent: map[uint32]bool{},
	}
	kg := &keyGen{rng: rng, used: map[string]bool{}}
	switch pick(rng, 30, 25, 15, 15, 15) {
	case 0:
		in.NbShards = 0
	case 1:
		in.NbShards = 1
	case 2:
		in.NbShards = 2
	case 3:
		in.NbShards = uint32(3 + rng.Intn(2))
	default:
		in.NbShards = uint32(5 + rng.Intn(4))
	}
	in.NodesShard = uint32(rng.Range(1, 6))
	in.NodesMeta = uint32(rng.Range(1, 6))
	in.Hysteresis = []float32{0, 0.2, 0.5, 1}[rng.Intn(4)]
	in.Adaptivity = rng.Chance(1, 3)
	in.ShuffleBetweenShards = rng.Bool()
	in.Epoch = uint32(rng.Intn(13))
	epochChoice := func() uint32 {
		switch pick(rng, 3, 2, 2, 3) {
		case 0:
			return 0
		case 1:
			return in.Epoch
		case 2:
			return in.Epoch + 1
		}
		return uint32(rng.Intn(14))
	}
	in.FixEpoch = epochChoice()
	in.BalanceEpoch = epochChoice()
	for i, n := 0, pick(rng, 40, 30, 20, 10); i < n; i++ {
		in.MaxNodesCfg = append(in.MaxNodesCfg, config.MaxNodesChangeConfig{
			EpochEnable:            uint32(rng.Intn(13)),
			MaxNumNodes:            uint32(rng.Intn(100)),
			NodesToShufflePerShard: uint32(rng.Intn(7)),
		})
	}
	switch pick(rng, 5, 25, 70) {
	case 0:
		in.Rand = []byte{}
	case 1:
		in.Rand = rng.Bytes(1 + rng.Intn(4))
	default:
		in.Rand = rng.Bytes(32)
	}

	shapes := []string{MapNil, MapNoKeys, MapEmptyLists, MapPopulated}
	eShape := shapes[pick(rng, 10, 10, 10, 70)]
	wShape := shapes[pick(rng, 20, 20, 15, 45)]
	shards := in.Shards()

	// how many validators each shard holds
	sizeMode := pick(rng, 25, 25, 15, 15, 20) // all at minimum / slightly above / one oversized / one below / mixed
	special := shards[rng.Intn(len(shards))]
	for _, s := range shards {
		m := in.Min(s)
		total := m
		switch sizeMode {
		case 1:
			total = m + rng.Intn(4)
		case 2:
			if s == special {
				total = m + 15 + rng.Intn(15)
			}
		case 3:
			if s == special {
				total = rng.Intn(m)
			} else {
				total = m + rng.Intn(3)
			}
		case 4:
			switch pick(rng, 30, 50, 10, 10) {
			case 1:
				total = m + rng.Intn(8)
			case 2:
				total = m + 8 + rng.Intn(12)
			case 3:
				total = rng.Intn(m + 1)
			}
		}
		var e int
		switch {
		case eShape != MapPopulated && wShape != MapPopulated:
			total, e = 0, 0
		case eShape != MapPopulated:
			e = 0
		case wShape != MapPopulated:
			e = total
		default:
			switch pick(rng, 40, 15, 15, 30) {
			case 0:
				e = minI(total, m)
			case 1:
				e = total
			case 2:
				e = 0
			default:
				e = rng.Intn(total + 1)
			}
		}
		for i := 0; i < e; i++ {
			in.Eligible[s] = append(in.Eligible[s], kg.v())
		}
		for i := e; i < total; i++ {
			in.Waiting[s] = append(in.Waiting[s], kg.v())
		}
		switch eShape {
		case MapEmptyLists:
			in.EligiblePresent[s] = true
		case MapPopulated:
			in.EligiblePresent[s] = e > 0 || rng.Bool()
		}
		switch wShape {
		case MapEmptyLists:
			in.WaitingPresent[s] = true
		case MapPopulated:
			in.WaitingPresent[s] = total-e > 0 || rng.Bool()
		}
	}
	in.NilEligible = eShape == MapNil
	in.NilWaiting = wShape == MapNil

	var nNew int
	switch pick(rng, 20, 20, 30, 30) {
	case 1:
		nNew = 1
	case 2:
		nNew = 2 + rng.Intn(4)
	case 3:
		nNew = 10 + rng.Intn(16)
	}
	for i := 0; i < nNew; i++ {
		in.New = append(in.New, kg.v())
	}

	genLeaving(rng, kg, in, pick(rng, 15, 10, 15, 20, 40))
	in.ShareObjects = rng.Bool()
	return in
}

// genLeaving fills the leaving lists of an input (mode 0..4 = none/light/medium/heavy/all): entries
// drawn from the eligible and waiting validators, unknown keys, a new node, duplicates
func genLeaving(rng *vk.Rand, kg *keyGen, in *Input, mode int) {
	var prob int // percent
	switch mode {
	case 0:
		prob, in.LeavingMode = 0, "none"
	case 1:
		prob, in.LeavingMode = 10, "light"
	case 2:
		prob, in.LeavingMode = 35, "medium"
	case 3:
		prob, in.LeavingMode = 70, "heavy"
	default:
		prob, in.LeavingMode = 100, "all"
	}
	target := pick(rng, 60, 20, 20) // both / eligible only / waiting only
	var unstake, additional []L
	add := func(l L) {
		switch pick(rng, 55, 35, 10) {
		case 0:
			unstake = append(unstake, l)
		case 1:
			additional = append(additional, l)
		default:
			unstake = append(unstake, l)
			l2 := l
			l2.Dup = true
			additional = append(additional, l2)
		}
	}
	for _, s := range in.Shards() {
		if target != 2 {
			for _, v := range in.Eligible[s] {
				if rng.Intn(100) < prob {
					add(L{V: v, Class: "eligible"})
				}
			}
		}
		if target != 1 {
			for _, v := range in.Waiting[s] {
				if rng.Intn(100) < prob {
					add(L{V: v, Class: "waiting"})
				}
			}
		}
	}
	for i, n := 0, pick(rng, 50, 25, 15, 10); i < n; i++ {
		add(L{V: kg.v(), Class: "unknown"})
	}
	if len(in.New) > 0 && rng.Chance(1, 8) {
		add(L{V: in.New[rng.Intn(len(in.New))], Class: "new"})
	}
	if rng.Chance(1, 4) {
		for i, n := 0, 1+rng.Intn(3); i < n; i++ {
			if rng.Bool() && len(unstake) > 0 {
				d := unstake[rng.Intn(len(unstake))]
				d.Dup = true
				unstake = append(unstake, d)
			} else if len(additional) > 0 {
				d := additional[rng.Intn(len(additional))]
				d.Dup = true
				additional = append(additional, d)
			}
		}
	}
	in.Unstake = shuffleL(rng, unstake)
	in.Additional = shuffleL(rng, additional)
}

// mapShape tells how a validator map of the input is handed to the shuffler: MapNil, MapNoKeys,
// MapEmptyLists or MapPopulated (some list holds a validator)
func mapShape(isNil bool, lists map[uint32][]V, present map[uint32]bool) string {
	n, keys := 0, 0
	for s, p := range present {
		if p {
			keys++
			n += len(lists[s])
		}
	}
	switch {
	case n > 0:
		return MapPopulated
	case keys == 0 && isNil:
		return MapNil
	case keys == 0:
		return MapNoKeys
	}
	return MapEmptyLists
}

// EligibleShape is the shape of the eligible map (see the Map* constants)
func (in *Input) EligibleShape() string {
	return mapShape(in.NilEligible, in.Eligible, in.EligiblePresent)
}

// WaitingShape is the shape of the waiting map (see the Map* constants)
func (in *Input) WaitingShape() string {
	return mapShape(in.NilWaiting, in.Waiting, in.WaitingPresent)
}

// ExtSig is Sig extended with the shapes of the two maps, the per-shard key presence, adaptivity and
// hysteresis
func (in *Input) ExtSig() string {
	p := ""
	for _, s := range in.Shards() {
		c := byte('0')
		if in.EligiblePresent[s] {
			c++
		}
		if in.WaitingPresent[s] {
			c += 2
		}
		p += string(c)
	}
	return fmt.Sprintf("%s | E:%s W:%s keys%s ad%v h%.1f", in.Sig(), in.EligibleShape(), in.WaitingShape(), p, in.Adaptivity, in.Hysteresis)
}
