// Package shufflegen generates inputs for the validator shuffler (sharding.NodesShuffler) and builds
// nodes coordinators for the harnesses of C12..C16. An Input is a plain description (strings and
// numbers); Build turns it into fresh validator objects, freshly built maps (in a chosen insertion
// order) and fresh shuffler arguments, so that the same Input can be evaluated many times without any
// object being shared between evaluations.
package shufflegen

import (
	"encoding/hex"
	"fmt"
	"sort"
	"strings"

	"github.com/ElrondNetwork/elrond-go/config"
	"github.com/ElrondNetwork/elrond-go/core"
	"github.com/ElrondNetwork/elrond-go/sharding"
	"verif/internal/vk"
)

// Meta is the metachain shard id
const Meta = core.MetachainShardId

// V describes one validator (Key holds the raw public key bytes)
type V struct {
	Key     string
	Chances uint32
	Index   uint32
}

// L is one entry of a leaving list. Class is one of "eligible", "waiting", "unknown", "new";
// Dup marks an entry that repeats an earlier entry of the leaving lists.
type L struct {
	V
	Class string
	Dup   bool
}

// Input is one shuffler input
type Input struct {
	NbShards             uint32
	NodesShard           uint32
	NodesMeta            uint32
	Hysteresis           float32
	Adaptivity           bool
	ShuffleBetweenShards bool
	MaxNodesCfg          []config.MaxNodesChangeConfig
	BalanceEpoch         uint32
	FixEpoch             uint32
	Epoch                uint32
	Rand                 []byte
	Eligible             map[uint32][]V
	Waiting              map[uint32][]V
	EligiblePresent      map[uint32]bool // a shard with an empty list may have no map entry at all
	WaitingPresent       map[uint32]bool
	NilEligible          bool // hand a nil eligible map to the shuffler (only honoured when no shard has an entry)
	NilWaiting           bool // same for the waiting map
	New                  []V
	Unstake              []L
	Additional           []L
	ShareObjects         bool // leaving entries of known keys reuse the object placed in the lists
	LeavingMode          string
}

// Opts restricts the generator
type Opts struct {
	RequireMin bool // every shard and the metachain have eligible+waiting >= minimum
	ForceFix   bool // waiting-list fix active at Input.Epoch
	HeavyLeave bool // bias towards large leaving volumes
	CfgHeavy   bool // most inputs carry 1-3 MaxNodesChangeConfig entries, NodesToShufflePerShard often below the minimum
}

// Shards lists the shard ids of the input: 0..NbShards-1 and the metachain
func (in *Input) Shards() []uint32 {
	out := make([]uint32, 0, in.NbShards+1)
	for s := uint32(0); s < in.NbShards; s++ {
		out = append(out, s)
	}
	return append(out, Meta)
}

// Min is the configured minimum number of nodes of a shard
func (in *Input) Min(shard uint32) int {
	if shard == Meta {
		return int(in.NodesMeta)
	}
	return int(in.NodesShard)
}

// FixActive tells whether the waiting-list fix is active at the input's epoch
func (in *Input) FixActive() bool { return in.Epoch >= in.FixEpoch }

// BalanceActive tells whether waiting-list balancing is active at the input's epoch
func (in *Input) BalanceActive() bool { return in.Epoch >= in.BalanceEpoch }

// MaxSwap is the active NodesToShufflePerShard
func (in *Input) MaxSwap() uint32 { return in.MaxSwapAt(in.Epoch) }

// MaxSwapAt is the NodesToShufflePerShard active at an epoch
func (in *Input) MaxSwapAt(epoch uint32) uint32 {
	cfgs := append([]config.MaxNodesChangeConfig(nil), in.MaxNodesCfg...)
	sort.SliceStable(cfgs, func(i, j int) bool { return cfgs[i].EpochEnable < cfgs[j].EpochEnable })
	v := in.NodesShard
	for _, c := range cfgs {
		if epoch >= c.EpochEnable {
			v = c.NodesToShufflePerShard
		}
	}
	return v
}

// MeetsMin tells whether every shard starts with at least its minimum (eligible+waiting)
func (in *Input) MeetsMin() bool {
	for _, s := range in.Shards() {
		if len(in.Eligible[s])+len(in.Waiting[s]) < in.Min(s) {
			return false
		}
	}
	return true
}

type keyGen struct {
	rng  *vk.Rand
	n    int
	used map[string]bool
}

func (g *keyGen) next() string {
	for {
		g.n++
		var b []byte
		switch g.rng.Intn(4) {
		case 0: // short keys
			b = append(g.rng.Bytes(2), byte(g.n), byte(g.n>>8))
		case 1: // keys sharing a long prefix
			b = append([]byte("validator-key-"), byte(g.n), byte(g.n>>8), byte(g.rng.Intn(256)))
		default:
			b = append(g.rng.Bytes(6+g.rng.Intn(27)), byte(g.n), byte(g.n>>8))
		}
		k := string(b)
		if !g.used[k] {
			g.used[k] = true
			return k
		}
	}
}

func (g *keyGen) v() V {
	ch := uint32(1)
	if g.rng.Chance(1, 3) {
		ch = uint32(g.rng.Intn(50))
	}
	return V{Key: g.next(), Chances: ch, Index: uint32(g.rng.Intn(40))}
}

func pick(rng *vk.Rand, weights ...int) int {
	t := 0
	for _, w := range weights {
		t += w
	}
	x := rng.Intn(t)
	for i, w := range weights {
		if x < w {
			return i
		}
		x -= w
	}
	return len(weights) - 1
}

func minI(a, b int) int {
	if a < b {
		return a
	}
	return b
}

// Gen draws one input
func Gen(rng *vk.Rand, o Opts) *Input {
	in := &Input{
		Eligible: map[uint32][]V{}, Waiting: map[uint32][]V{},
		EligiblePresent: map[uint32]bool{}, WaitingPresent: map[uint32]bool{},
	}
	kg := &keyGen{rng: rng, used: map[string]bool{}}
	in.NbShards = uint32(1 + pick(rng, 20, 35, 30, 15))
	in.NodesShard = uint32(rng.Range(1, 5))
	in.NodesMeta = uint32(rng.Range(1, 5))
	in.Hysteresis = []float32{0, 0.2, 0.5}[rng.Intn(3)]
	in.Adaptivity = rng.Chance(1, 8)
	in.ShuffleBetweenShards = rng.Bool()
	in.Epoch = uint32(rng.Intn(13))
	epochChoice := func() uint32 {
		switch pick(rng, 3, 2, 2, 3) {
		case 0:
			return 0
		case 1:
			return in.Epoch
		case 2:
			return in.Epoch + 1
		}
		return uint32(rng.Intn(14))
	}
	in.FixEpoch = epochChoice()
	in.BalanceEpoch = epochChoice()
	if o.ForceFix && in.FixEpoch > in.Epoch {
		in.FixEpoch = uint32(rng.Intn(int(in.Epoch) + 1))
	}
	nCfg := pick(rng, 40, 30, 20, 10)
	if o.CfgHeavy {
		nCfg = pick(rng, 15, 35, 30, 20)
	}
	for i := 0; i < nCfg; i++ {
		in.MaxNodesCfg = append(in.MaxNodesCfg, config.MaxNodesChangeConfig{
			EpochEnable:            uint32(rng.Intn(13)),
			MaxNumNodes:            uint32(rng.Intn(100)),
			NodesToShufflePerShard: uint32(rng.Intn(7)),
		})
	}
	switch pick(rng, 2, 30, 68) {
	case 0:
		in.Rand = []byte{}
	case 1:
		in.Rand = rng.Bytes(1 + rng.Intn(4))
	default:
		in.Rand = rng.Bytes(32)
	}

	for _, s := range in.Shards() {
		m := in.Min(s)
		var total int
		switch pick(rng, 20, 66, 10, 4) {
		case 0:
			total = m
		case 1:
			total = m + rng.Intn(8)
		case 2:
			total = m + 8 + rng.Intn(8)
		default:
			total = m - 1 - rng.Intn(2)
			if total < 0 {
				total = 0
			}
			if o.RequireMin {
				total = m + rng.Intn(3)
			}
		}
		var e int
		switch pick(rng, 55, 30, 8, 7) {
		case 0:
			e = minI(total, m)
		case 1:
			e = rng.Intn(total + 1)
		case 2:
			e = total
		default:
			e = 0
		}
		if e > 12 {
			e = 12
		}
		w := total - e
		if w > 12 {
			w = 12
		}
		if o.RequireMin && e+w < m { // only when the caps cut (m<=5, so it cannot, but keep the guarantee)
			e = m
		}
		for i := 0; i < e; i++ {
			in.Eligible[s] = append(in.Eligible[s], kg.v())
		}
		for i := 0; i < w; i++ {
			in.Waiting[s] = append(in.Waiting[s], kg.v())
		}
		in.EligiblePresent[s] = e > 0 || rng.Bool()
		in.WaitingPresent[s] = w > 0 || rng.Bool()
	}
	nNew := []int{0, 0, 1, 2, 3, 6}[rng.Intn(6)]
	if nNew == 6 {
		nNew = 3 + rng.Intn(6)
	}
	for i := 0; i < nNew; i++ {
		in.New = append(in.New, kg.v())
	}

	// leaving lists
	var prob int // percent
	mode := pick(rng, 15, 25, 30, 20, 10)
	if o.HeavyLeave {
		mode = pick(rng, 5, 10, 25, 35, 25)
	}
	switch mode {
	case 0:
		prob, in.LeavingMode = 0, "none"
	case 1:
		prob, in.LeavingMode = 10, "light"
	case 2:
		prob, in.LeavingMode = 35, "medium"
	case 3:
		prob, in.LeavingMode = 70, "heavy"
	default:
		prob, in.LeavingMode = 100, "all"
	}
	target := pick(rng, 60, 20, 20) // both / eligible only / waiting only
	var unstake, additional []L
	add := func(l L) {
		switch pick(rng, 55, 35, 10) {
		case 0:
			unstake = append(unstake, l)
		case 1:
			additional = append(additional, l)
		default:
			unstake = append(unstake, l)
			l2 := l
			l2.Dup = true
			additional = append(additional, l2)
		}
	}
	for _, s := range in.Shards() {
		if target != 2 {
			for _, v := range in.Eligible[s] {
				if rng.Intn(100) < prob {
					add(L{V: v, Class: "eligible"})
				}
			}
		}
		if target != 1 {
			for _, v := range in.Waiting[s] {
				if rng.Intn(100) < prob {
					add(L{V: v, Class: "waiting"})
				}
			}
		}
	}
	for i, n := 0, pick(rng, 50, 25, 15, 10); i < n; i++ {
		add(L{V: kg.v(), Class: "unknown"})
	}
	if len(in.New) > 0 && rng.Chance(1, 10) {
		add(L{V: in.New[rng.Intn(len(in.New))], Class: "new"})
	}
	if rng.Chance(1, 4) {
		for i, n := 0, 1+rng.Intn(3); i < n; i++ {
			if rng.Bool() && len(unstake) > 0 {
				d := unstake[rng.Intn(len(unstake))]
				d.Dup = true
				unstake = append(unstake, d)
			} else if len(additional) > 0 {
				d := additional[rng.Intn(len(additional))]
				d.Dup = true
				additional = append(additional, d)
			}
		}
	}
	in.Unstake = shuffleL(rng, unstake)
	in.Additional = shuffleL(rng, additional)
	in.ShareObjects = rng.Bool()
	return in
}

func shuffleL(rng *vk.Rand, l []L) []L {
	out := make([]L, len(l))
	for i, j := range rng.Perm(len(l)) {
		out[i] = l[j]
	}
	return out
}

func exact(s string) []byte { // len == cap, never shared
	b := make([]byte, len(s))
	copy(b, s)
	return b
}

// NewVal builds a fresh validator object
func NewVal(v V) sharding.Validator {
	val, err := sharding.NewValidator(exact(v.Key), v.Chances, v.Index)
	if err != nil {
		panic(err)
	}
	return val
}

// BuildMap builds a validator map. order == nil: ascending shard order, plain make(map). Otherwise the
// shards are inserted in a random order, into a map with a random initial capacity, after inserting
// and deleting some unrelated keys (so that the internal layout and iteration order differ).
func BuildMap(lists map[uint32][]V, present map[uint32]bool, shards []uint32, order *vk.Rand, objs map[string]sharding.Validator) map[uint32][]sharding.Validator {
	var m map[uint32][]sharding.Validator
	ids := append([]uint32(nil), shards...)
	if order == nil {
		m = make(map[uint32][]sharding.Validator)
	} else {
		m = make(map[uint32][]sharding.Validator, order.Intn(20))
		p := order.Perm(len(ids))
		tmp := make([]uint32, len(ids))
		for i, j := range p {
			tmp[i] = ids[j]
		}
		ids = tmp
		for i, n := 0, order.Intn(12); i < n; i++ {
			m[uint32(1000+i)] = nil
		}
		for k := range m {
			delete(m, k)
		}
	}
	for _, s := range ids {
		if present != nil && !present[s] {
			continue
		}
		lst := make([]sharding.Validator, 0, len(lists[s]))
		for _, v := range lists[s] {
			val := NewVal(v)
			if objs != nil {
				objs[v.Key] = val
			}
			lst = append(lst, val)
		}
		m[s] = lst
	}
	return m
}

// Build creates fresh shuffler arguments and fresh UpdateNodeLists arguments for the input
func (in *Input) Build(order *vk.Rand) (*sharding.NodesShufflerArgs, sharding.ArgsUpdateNodes) {
	sa := &sharding.NodesShufflerArgs{
		NodesShard: in.NodesShard, NodesMeta: in.NodesMeta, Hysteresis: in.Hysteresis,
		Adaptivity: in.Adaptivity, ShuffleBetweenShards: in.ShuffleBetweenShards,
		MaxNodesEnableConfig:           append([]config.MaxNodesChangeConfig(nil), in.MaxNodesCfg...),
		BalanceWaitingListsEnableEpoch: in.BalanceEpoch, WaitingListFixEnableEpoch: in.FixEpoch,
	}
	if order != nil && len(sa.MaxNodesEnableConfig) > 1 {
		p := order.Perm(len(sa.MaxNodesEnableConfig))
		c := make([]config.MaxNodesChangeConfig, len(p))
		for i, j := range p {
			c[i] = sa.MaxNodesEnableConfig[j]
		}
		// the list is permuted only when no two entries share EpochEnable (with ties the order of the
		// list is part of the input, the shuffler's sort being unstable)
		if distinctEpochs(c) {
			sa.MaxNodesEnableConfig = c
		}
	}
	objs := map[string]sharding.Validator{}
	args := sharding.ArgsUpdateNodes{
		Eligible: BuildMap(in.Eligible, in.EligiblePresent, in.Shards(), order, objs),
		Waiting:  BuildMap(in.Waiting, in.WaitingPresent, in.Shards(), order, objs),
		Rand:     append(make([]byte, 0, len(in.Rand)), in.Rand...),
		NbShards: in.NbShards,
		Epoch:    in.Epoch,
	}
	if in.NilEligible && len(args.Eligible) == 0 {
		args.Eligible = nil
	}
	if in.NilWaiting && len(args.Waiting) == 0 {
		args.Waiting = nil
	}
	args.NewNodes = make([]sharding.Validator, 0, len(in.New))
	for _, v := range in.New {
		val := NewVal(v)
		objs[v.Key] = val
		args.NewNodes = append(args.NewNodes, val)
	}
	mk := func(ls []L) []sharding.Validator {
		out := make([]sharding.Validator, 0, len(ls))
		for _, l := range ls {
			if o, ok := objs[l.Key]; ok && in.ShareObjects {
				out = append(out, o)
			} else {
				out = append(out, NewVal(l.V))
			}
		}
		return out
	}
	args.UnStakeLeaving = mk(in.Unstake)
	args.AdditionalLeaving = mk(in.Additional)
	return sa, args
}

func distinctEpochs(c []config.MaxNodesChangeConfig) bool {
	seen := map[uint32]bool{}
	for _, x := range c {
		if seen[x.EpochEnable] {
			return false
		}
		seen[x.EpochEnable] = true
	}
	return true
}

// Run builds everything fresh and calls the real shuffler once
func (in *Input) Run(order *vk.Rand) *Out {
	sa, args := in.Build(order)
	sh, err := sharding.NewHashValidatorsShuffler(sa)
	if err != nil {
		return &Out{Err: "constructor: " + err.Error()}
	}
	res, err := sh.UpdateNodeLists(args)
	return Flatten(res, err)
}

// Out is a flattened shuffler result (keys only)
type Out struct {
	Eligible       map[uint32][]string
	Waiting        map[uint32][]string
	Leaving        []string
	StillRemaining []string
	Err            string
}

func keys(l []sharding.Validator) []string {
	out := make([]string, 0, len(l))
	for _, v := range l {
		out = append(out, string(v.PubKey()))
	}
	return out
}

// Flatten copies the keys out of a result
func Flatten(res *sharding.ResUpdateNodes, err error) *Out {
	o := &Out{Eligible: map[uint32][]string{}, Waiting: map[uint32][]string{}}
	if err != nil {
		o.Err = err.Error()
		return o
	}
	if res == nil {
		o.Err = "nil result without error"
		return o
	}
	for s, l := range res.Eligible {
		o.Eligible[s] = keys(l)
	}
	for s, l := range res.Waiting {
		o.Waiting[s] = keys(l)
	}
	o.Leaving = keys(res.Leaving)
	o.StillRemaining = keys(res.StillRemaining)
	return o
}

func eqList(a, b []string) bool {
	if len(a) != len(b) {
		return false
	}
	for i := range a {
		if a[i] != b[i] {
			return false
		}
	}
	return true
}

func diffMap(name string, a, b map[uint32][]string) (string, string) {
	seen := map[uint32]bool{}
	var ids []uint32
	for s := range a {
		seen[s] = true
		ids = append(ids, s)
	}
	for s := range b {
		if !seen[s] {
			ids = append(ids, s)
		}
	}
	sort.Slice(ids, func(i, j int) bool { return ids[i] < ids[j] })
	for _, s := range ids {
		if !eqList(a[s], b[s]) {
			return name, fmt.Sprintf("%s[%d]: %s vs %s", name, s, HexList(a[s]), HexList(b[s]))
		}
	}
	return "", ""
}

// Diff compares two results: the component that differs ("error", "eligible", "waiting", "leaving")
// and a description; empty strings when equal. An absent shard entry equals an empty list.
func Diff(a, b *Out) (string, string) {
	if a.Err != b.Err {
		return "error", fmt.Sprintf("error %q vs %q", a.Err, b.Err)
	}
	if c, d := diffMap("eligible", a.Eligible, b.Eligible); c != "" {
		return c, d
	}
	if c, d := diffMap("waiting", a.Waiting, b.Waiting); c != "" {
		return c, d
	}
	if !eqList(a.Leaving, b.Leaving) {
		return "leaving", fmt.Sprintf("leaving: %s vs %s", HexList(a.Leaving), HexList(b.Leaving))
	}
	return "", ""
}

// HexList prints keys in hex
func HexList(l []string) string {
	p := make([]string, len(l))
	for i, k := range l {
		p[i] = hex.EncodeToString([]byte(k))
	}
	return "[" + strings.Join(p, " ") + "]"
}

func hexV(l []V) []string {
	p := make([]string, len(l))
	for i, v := range l {
		p[i] = hex.EncodeToString([]byte(v.Key))
	}
	return p
}

func hexMap(m map[uint32][]string) map[string][]string {
	out := map[string][]string{}
	for s, l := range m {
		p := make([]string, len(l))
		for i, k := range l {
			p[i] = hex.EncodeToString([]byte(k))
		}
		out[ShardName(s)] = p
	}
	return out
}

// ShardName prints a shard id
func ShardName(s uint32) string {
	if s == Meta {
		return "meta"
	}
	return fmt.Sprint(s)
}

// Dump is a literal, JSON-friendly form of the input (keys in hex)
func (in *Input) Dump() map[string]interface{} {
	el, wa := map[string][]string{}, map[string][]string{}
	for _, s := range in.Shards() {
		if in.EligiblePresent[s] {
			el[ShardName(s)] = hexV(in.Eligible[s])
		}
		if in.WaitingPresent[s] {
			wa[ShardName(s)] = hexV(in.Waiting[s])
		}
	}
	lv := func(ls []L) []string {
		out := make([]string, len(ls))
		for i, l := range ls {
			out[i] = hex.EncodeToString([]byte(l.Key)) + ":" + l.Class
			if l.Dup {
				out[i] += ":dup"
			}
		}
		return out
	}
	if in.NilEligible && len(el) == 0 {
		el = nil
	}
	if in.NilWaiting && len(wa) == 0 {
		wa = nil
	}
	return map[string]interface{}{
		"nbShards": in.NbShards, "nodesShard": in.NodesShard, "nodesMeta": in.NodesMeta,
		"hysteresis": in.Hysteresis, "adaptivity": in.Adaptivity, "shuffleBetweenShards": in.ShuffleBetweenShards,
		"maxNodesCfg": in.MaxNodesCfg, "balanceEpoch": in.BalanceEpoch, "fixEpoch": in.FixEpoch, "epoch": in.Epoch,
		"rand": hex.EncodeToString(in.Rand), "eligible": el, "waiting": wa, "new": hexV(in.New),
		"unstakeLeaving": lv(in.Unstake), "additionalLeaving": lv(in.Additional),
	}
}

// Dump is a literal, JSON-friendly form of the output
func (o *Out) Dump() map[string]interface{} {
	return map[string]interface{}{
		"eligible": hexMap(o.Eligible), "waiting": hexMap(o.Waiting),
		"leaving": HexList(o.Leaving), "stillRemaining": HexList(o.StillRemaining), "err": o.Err,
	}
}

// Sig is the shape signature of an input: shard count, flags, per-shard (eligible,waiting) sizes,
// number of new nodes and the leaving composition by class
func (in *Input) Sig() string {
	var b strings.Builder
	fmt.Fprintf(&b, "n%d m%d/%d fix%v bal%v x%v sw%d new%d |", in.NbShards, in.NodesShard, in.NodesMeta,
		in.FixActive(), in.BalanceActive(), in.ShuffleBetweenShards, in.MaxSwap(), len(in.New))
	for _, s := range in.Shards() {
		fmt.Fprintf(&b, " %d+%d", len(in.Eligible[s]), len(in.Waiting[s]))
	}
	cl := map[string]int{}
	for _, l := range in.Unstake {
		cl["u-"+l.Class]++
		if l.Dup {
			cl["dup"]++
		}
	}
	for _, l := range in.Additional {
		cl["a-"+l.Class]++
		if l.Dup {
			cl["dup"]++
		}
	}
	ks := make([]string, 0, len(cl))
	for k := range cl {
		ks = append(ks, k)
	}
	sort.Strings(ks)
	for _, k := range ks {
		fmt.Fprintf(&b, " %s=%d", k, cl[k])
	}
	return b.String()
}
