// Package txkit holds what the C25 and C26 harnesses share: construction of a real TxCache, transaction
// builders with deterministic hashes, and the quiescent snapshot taken through the verif hook.
package txkit

import (
	"fmt"

	"github.com/ElrondNetwork/elrond-go/data/transaction"
	"github.com/ElrondNetwork/elrond-go/storage/txcache"
	"github.com/ElrondNetwork/elrond-go/testscommon/txcachemocks"
)

// MinGasPrice / MinGasLimit of the gas handler given to the cache
const (
	MinGasPrice = uint64(1000000000)
	MinGasLimit = uint64(50000)
)

// NewCache builds a real TxCache with the repository's gas handler mock
func NewCache(cfg txcache.ConfigSourceMe) (*txcache.TxCache, error) {
	return txcache.NewTxCache(cfg, &txcachemocks.TxGasHandlerMock{
		MinimumGasMove:       MinGasLimit,
		MinimumGasPrice:      MinGasPrice,
		GasProcessingDivisor: 100,
	})
}

// TxSpec identifies one transaction of the workload; the hash is a function of all fields
type TxSpec struct {
	Sender   int
	Nonce    uint64
	GasPrice uint64 // multiple of MinGasPrice
	Size     int64
	Variant  int
}

// SenderAddr is the 32-byte address of sender i
func SenderAddr(i int) []byte {
	a := make([]byte, 32)
	copy(a, fmt.Sprintf("sender-%04d", i))
	a[31] = byte(i)
	return a
}

// Hash of a spec (readable, unique per spec)
func (t TxSpec) Hash() string {
	return fmt.Sprintf("s%d/n%d/p%d/z%d/v%d", t.Sender, t.Nonce, t.GasPrice/MinGasPrice, t.Size, t.Variant)
}

// Wrap builds a fresh WrappedTransaction for the spec (fresh objects on every call, also for duplicates)
func (t TxSpec) Wrap() *txcache.WrappedTransaction {
	return &txcache.WrappedTransaction{
		Tx: &transaction.Transaction{
			SndAddr:  SenderAddr(t.Sender),
			Nonce:    t.Nonce,
			GasPrice: t.GasPrice,
			GasLimit: MinGasLimit + uint64(t.Variant)*1000,
		},
		TxHash: []byte(t.Hash()),
		Size:   t.Size,
	}
}

// Quiesce brings the cache to a quiescent point without waiting for the scheduler: it runs the pending sweep
// synchronously through the verif hook (the same function the goroutine started by SelectTransactions runs; if that
// goroutine is in the middle of its sweep this blocks on the sweeping mutex until it is done) and then takes a
// snapshot with the sweeping mutex held. cleared is false when senders collected for sweeping are still listed
// although a sweep has just completed - the code clears the list at the end of every sweep, so that must not happen
// as long as no selection is running concurrently.
func Quiesce(cache *txcache.TxCache) (snap txcache.VerifSnapshotData, cleared bool) {
	cache.VerifSweepNow()
	cache.VerifLockSweep()
	snap = cache.VerifSnapshot()
	cache.VerifUnlockSweep()
	return snap, snap.SweepPending == 0
}

// SenderView finds a sender's list in a snapshot
func SenderView(snap txcache.VerifSnapshotData, sender int) (txcache.VerifSender, bool) {
	addr := string(SenderAddr(sender))
	for _, s := range snap.Senders {
		if s.Sender == addr {
			return s, true
		}
	}
	return txcache.VerifSender{}, false
}

// SenderIndex recovers the workload index of a sender address (-1 when it is not one of ours)
func SenderIndex(addr string) int {
	if len(addr) != 32 || addr[:7] != "sender-" {
		return -1
	}
	i := 0
	for _, ch := range addr[7:11] {
		if ch < '0' || ch > '9' {
			return -1
		}
		i = i*10 + int(ch-'0')
	}
	return i
}
