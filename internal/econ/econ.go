// Package econ holds the economics-configuration and transaction generators shared by the C21 and
// C22 harnesses (real economics.NewEconomicsData over generated configs, three gas-price bands).
package econ

import (
	"fmt"
	"math"
	"math/big"
	"strconv"

	"github.com/ElrondNetwork/elrond-go/config"
	"github.com/ElrondNetwork/elrond-go/data/smartContractResult"
	"github.com/ElrondNetwork/elrond-go/data/transaction"
	epmock "github.com/ElrondNetwork/elrond-go/epochStart/mock"
	"github.com/ElrondNetwork/elrond-go/process"
	"github.com/ElrondNetwork/elrond-go/process/economics"
	"verif/internal/vk"
)

// Band is the gas-price band of a configuration; it is part of every violation key
type Band int

const (
	// BandProtocol prices 1e9..1e12 (what the protocol configures and wallets send)
	BandProtocol Band = iota
	// BandSmall prices 0..~1e6 (processing price may round to zero)
	BandSmall
	// BandHuge prices above 2^53 (float64(price) is inexact)
	BandHuge
)

func (b Band) String() string {
	switch b {
	case BandProtocol:
		return "gasprice-protocol"
	case BandSmall:
		return "gasprice-small"
	}
	return "gasprice>2^53"
}

// Handler is the part of *economicsData the harnesses use
type Handler interface {
	process.FeeHandler
	EpochConfirmed(epoch uint32, timestamp uint64)
}

// BuiltIn is a settable built-in-functions cost handler (the harness decides per transaction)
type BuiltIn struct {
	Is   bool
	Cost uint64
}

// ComputeBuiltInCost -
func (b *BuiltIn) ComputeBuiltInCost(_ process.TransactionWithFeeHandler) uint64 { return b.Cost }

// IsBuiltInFuncCall -
func (b *BuiltIn) IsBuiltInFuncCall(_ process.TransactionWithFeeHandler) bool { return b.Is }

// IsInterfaceNil -
func (b *BuiltIn) IsInterfaceNil() bool { return b == nil }

// Cfg is one generated economics configuration
type Cfg struct {
	Band                Band
	MinGasPrice         uint64
	MinGasLimit         uint64
	GasPerDataByte      uint64
	MaxGasLimitPerBlock uint64
	Modifier            float64
	ModClass            string
	PenalizeEpoch       uint32
	ModifierEpoch       uint32
	Supply              *big.Int
	ExpectReject        string // non-empty when the generator made the config invalid on purpose
}

// Map gives the literal configuration for samples / replay details
func (c *Cfg) Map() map[string]interface{} {
	return map[string]interface{}{
		"band": c.Band.String(), "minGasPrice": c.MinGasPrice, "minGasLimit": c.MinGasLimit,
		"gasPerDataByte": c.GasPerDataByte, "maxGasLimitPerBlock": c.MaxGasLimitPerBlock,
		"gasPriceModifier": strconv.FormatFloat(c.Modifier, 'g', -1, 64), "penalizeEnableEpoch": c.PenalizeEpoch,
		"modifierEnableEpoch": c.ModifierEpoch, "genesisTotalSupply": c.Supply.String(),
	}
}

func logUniform(rng *vk.Rand, lo, hi float64) float64 {
	return math.Exp(math.Log(lo) + rng.Float()*(math.Log(hi)-math.Log(lo)))
}

// GenModifier draws a modifier in (0,1] (accepted domain is [1e-8, 1])
func GenModifier(rng *vk.Rand) (float64, string) {
	switch rng.Intn(10) {
	case 0:
		return 1, "one"
	case 1:
		return 0.01, "0.01" // production value
	case 2:
		return []float64{0.5, 0.25, 0.1, 0.003, 0.3333333333333333}[rng.Intn(5)], "fraction"
	case 3:
		return []float64{1e-8, 1.0000000001e-8, 1e-7, 3e-8}[rng.Intn(4)], "tiny"
	case 4:
		return math.Nextafter(1, 0), "1-ulp"
	case 5:
		return 1 - logUniform(rng, 1e-15, 1e-3), "near-one"
	case 6, 7:
		m := rng.Float()
		if m < 1e-8 {
			m = 1e-8
		}
		return m, "uniform"
	default:
		return logUniform(rng, 1e-8, 1), "log-uniform"
	}
}

// GenCfg draws a configuration in the given band; about one in twelve is invalid on purpose
func GenCfg(rng *vk.Rand, band Band) *Cfg {
	c := &Cfg{Band: band}
	switch band {
	case BandProtocol:
		c.MinGasPrice = 1000000000
		if rng.Chance(1, 4) {
			c.MinGasPrice = 1000000000 + uint64(rng.Intn(9000000000))
		}
	case BandSmall:
		switch rng.Intn(4) {
		case 0:
			c.MinGasPrice = uint64(rng.Intn(3)) // 0,1,2
		case 1:
			c.MinGasPrice = uint64(rng.Intn(200))
		default:
			c.MinGasPrice = uint64(logUniform(rng, 1, 1e6))
		}
	case BandHuge:
		if rng.Bool() {
			c.MinGasPrice = 1000000000
		} else {
			c.MinGasPrice = (uint64(1) << 53) + uint64(rng.Intn(1000))
		}
	}
	switch rng.Intn(4) {
	case 0:
		c.MinGasLimit = 50000
	case 1:
		c.MinGasLimit = uint64(rng.Intn(3))
	default:
		c.MinGasLimit = uint64(logUniform(rng, 1, 1e7))
	}
	switch rng.Intn(4) {
	case 0:
		c.GasPerDataByte = 1500
	case 1:
		c.GasPerDataByte = uint64(rng.Intn(3))
	default:
		c.GasPerDataByte = uint64(logUniform(rng, 1, 1e5))
	}
	switch rng.Intn(6) {
	case 0, 1:
		c.MaxGasLimitPerBlock = 1500000000
	case 2:
		c.MaxGasLimitPerBlock = c.MinGasLimit + 2 + uint64(logUniform(rng, 1, 1e12))
	default:
		c.MaxGasLimitPerBlock = c.MinGasLimit + 3300*c.GasPerDataByte + 2 + uint64(logUniform(rng, 1e3, 1e12))
	}
	c.Modifier, c.ModClass = GenModifier(rng)
	c.PenalizeEpoch = uint32(rng.Intn(4))
	c.ModifierEpoch = uint32(rng.Intn(4))
	if rng.Chance(3, 4) {
		c.Supply, _ = big.NewInt(0).SetString("20000000000000000000000000", 10)
	} else {
		c.Supply = big.NewInt(int64(1 + rng.Intn(1000000)))
	}
	if rng.Chance(1, 12) {
		switch rng.Intn(4) {
		case 0:
			c.Modifier, c.ModClass, c.ExpectReject = 0, "zero", "modifier=0"
		case 1:
			c.Modifier, c.ModClass, c.ExpectReject = 9.9e-9, "below-epsilon", "modifier<epsilon"
		case 2:
			c.Modifier, c.ModClass, c.ExpectReject = math.Nextafter(1, 2), "above-one", "modifier>1"
		default:
			if c.MinGasLimit > 0 {
				c.MaxGasLimitPerBlock, c.ExpectReject = c.MinGasLimit-1, "maxGasLimitPerBlock<minGasLimit"
			} else {
				c.Modifier, c.ModClass, c.ExpectReject = -0.5, "negative", "modifier<0"
			}
		}
	}
	return c
}

// Build runs the real constructor
func (c *Cfg) Build(builtIn economics.BuiltInFunctionsCostHandler) (Handler, error) {
	u := func(v uint64) string { return strconv.FormatUint(v, 10) }
	ec := &config.EconomicsConfig{
		GlobalSettings: config.GlobalSettings{GenesisTotalSupply: c.Supply.String(), MinimumInflation: 0,
			YearSettings: []*config.YearSetting{{Year: 0, MaximumInflation: 0.01}}},
		RewardsSettings: config.RewardsSettings{RewardsConfigByEpoch: []config.EpochRewardSettings{{
			LeaderPercentage: 0.1, DeveloperPercentage: 0.1, ProtocolSustainabilityPercentage: 0.1,
			ProtocolSustainabilityAddress: "addr", TopUpGradientPoint: "1000", TopUpFactor: 0.25}}},
		FeeSettings: config.FeeSettings{MaxGasLimitPerBlock: u(c.MaxGasLimitPerBlock), MaxGasLimitPerMetaBlock: u(c.MaxGasLimitPerBlock),
			MinGasPrice: u(c.MinGasPrice), MinGasLimit: u(c.MinGasLimit), GasPerDataByte: u(c.GasPerDataByte), GasPriceModifier: c.Modifier},
	}
	ed, err := economics.NewEconomicsData(economics.ArgsNewEconomicsData{
		Economics: ec, EpochNotifier: &epmock.EpochNotifierStub{}, BuiltInFunctionsCostHandler: builtIn,
		PenalizedTooMuchGasEnableEpoch: c.PenalizeEpoch, GasPriceModifierEnableEpoch: c.ModifierEpoch})
	if err != nil {
		return nil, err
	}
	return ed, nil
}

// Flags tells which flags are set after EpochConfirmed(epoch)
func (c *Cfg) Flags(epoch uint32) (penalize, modifier bool) {
	return epoch >= c.PenalizeEpoch, epoch >= c.ModifierEpoch
}

// Tx is one generated transaction (or smart contract result)
type Tx struct {
	H          process.TransactionWithFeeHandler
	IsSCR      bool
	GasPrice   uint64
	GasLimit   uint64
	DataLen    int
	Value      *big.Int
	MoveGas    uint64 // minGasLimit + dataLen*gasPerDataByte (harness arithmetic)
	LimitClass string
	DataClass  string
}

// Map gives the literal transaction
func (t *Tx) Map() map[string]interface{} {
	return map[string]interface{}{"scr": t.IsSCR, "gasPrice": t.GasPrice, "gasLimit": t.GasLimit,
		"dataLen": t.DataLen, "value": t.Value.String(), "moveBalanceGas": t.MoveGas}
}

// WithGasLimit returns a copy of the transaction with another gas limit
func (t *Tx) WithGasLimit(g uint64) process.TransactionWithFeeHandler {
	if t.IsSCR {
		s := *(t.H.(*smartContractResult.SmartContractResult))
		s.GasLimit = g
		return &s
	}
	x := *(t.H.(*transaction.Transaction))
	x.GasLimit = g
	return &x
}

// GenPrice draws a gas price of the band (a few below the minimum)
func GenPrice(rng *vk.Rand, c *Cfg) uint64 {
	if rng.Chance(1, 40) && c.MinGasPrice > 0 {
		return c.MinGasPrice - 1 - uint64(rng.Intn(int(minU(c.MinGasPrice, 1000))))
	}
	switch c.Band {
	case BandProtocol:
		if rng.Chance(1, 3) {
			return c.MinGasPrice
		}
		p := uint64(logUniform(rng, float64(c.MinGasPrice), 1e12))
		if p < c.MinGasPrice {
			p = c.MinGasPrice
		}
		return p
	case BandSmall:
		switch rng.Intn(4) {
		case 0:
			return c.MinGasPrice
		case 1:
			return c.MinGasPrice + uint64(rng.Intn(200))
		default:
			return c.MinGasPrice + uint64(logUniform(rng, 1, 1e6))
		}
	default:
		bits := uint(54 + rng.Intn(11)) // 54..64 bits
		var p uint64
		if bits == 64 {
			p = rng.U64() | (uint64(1) << 63)
		} else {
			p = (uint64(1) << (bits - 1)) | (rng.U64() & ((uint64(1) << (bits - 1)) - 1))
		}
		switch rng.Intn(6) {
		case 0:
			p = (uint64(1) << 53) + 1 + uint64(rng.Intn(8))
		case 1:
			p = math.MaxUint64 - uint64(rng.Intn(3000))
		}
		if p <= uint64(1)<<53 {
			p = (uint64(1) << 53) + 3
		}
		if p < c.MinGasPrice {
			p = c.MinGasPrice + 1
		}
		return p
	}
}

func minU(a, b uint64) uint64 {
	if a < b {
		return a
	}
	return b
}

// GenTx draws a transaction for the configuration
func GenTx(rng *vk.Rand, c *Cfg) *Tx {
	t := &Tx{}
	switch rng.Intn(8) {
	case 0, 1:
		t.DataLen, t.DataClass = 0, "nodata"
	case 2:
		t.DataLen, t.DataClass = 1+rng.Intn(3), "tiny"
	case 3:
		t.DataLen, t.DataClass = 300+rng.Intn(3000), "long"
	default:
		t.DataLen, t.DataClass = 1+rng.Intn(300), "short"
	}
	t.MoveGas = c.MinGasLimit + uint64(t.DataLen)*c.GasPerDataByte
	t.GasPrice = GenPrice(rng, c)
	maxL := c.MaxGasLimitPerBlock
	switch rng.Intn(10) {
	case 0, 1:
		t.GasLimit, t.LimitClass = t.MoveGas, "limit=move"
	case 2:
		t.GasLimit, t.LimitClass = t.MoveGas+1, "limit=move+1"
	case 3:
		if maxL > 0 {
			t.GasLimit, t.LimitClass = maxL-1, "limit=max-1"
		}
	case 4:
		if rng.Bool() && t.MoveGas > 0 {
			t.GasLimit, t.LimitClass = t.MoveGas-1-uint64(rng.Intn(int(minU(t.MoveGas, 1000)))), "limit<move"
		} else {
			t.GasLimit, t.LimitClass = maxL+uint64(rng.Intn(3)), "limit>=max"
		}
	case 5:
		t.GasLimit, t.LimitClass = t.MoveGas+uint64(logUniform(rng, 1, 1e4)), "limit=move+small"
	default:
		if maxL > t.MoveGas+1 {
			t.GasLimit = t.MoveGas + 1 + (rng.U64() % (maxL - t.MoveGas - 1))
		} else {
			t.GasLimit = t.MoveGas
		}
		t.LimitClass = "limit=random"
	}
	if t.LimitClass == "" {
		t.LimitClass = "limit=0"
	}
	// value: mostly within the genesis supply
	switch rng.Intn(10) {
	case 0:
		t.Value = big.NewInt(0)
	case 1:
		t.Value = big.NewInt(0).Add(c.Supply, big.NewInt(int64(rng.Intn(3)))) // supply, supply+1, supply+2
	case 2:
		t.Value = big.NewInt(0).Lsh(c.Supply, uint(8+rng.Intn(8)))
	default:
		t.Value = RandBelow(rng, big.NewInt(0).Add(c.Supply, big.NewInt(1)))
	}
	data := rng.Bytes(t.DataLen)
	if rng.Chance(1, 20) {
		t.IsSCR = true
		t.LimitClass = "scr:" + t.LimitClass
		t.H = &smartContractResult.SmartContractResult{GasPrice: t.GasPrice, GasLimit: t.GasLimit, Data: data, Value: t.Value, RcvAddr: rng.Bytes(32), SndAddr: rng.Bytes(32)}
	} else {
		t.H = &transaction.Transaction{GasPrice: t.GasPrice, GasLimit: t.GasLimit, Data: data, Value: t.Value, RcvAddr: rng.Bytes(32), SndAddr: rng.Bytes(32)}
	}
	return t
}

// RandBelow returns a uniform value in [0, n) (n > 0)
func RandBelow(rng *vk.Rand, n *big.Int) *big.Int {
	if n.Sign() <= 0 {
		return big.NewInt(0)
	}
	b := rng.Bytes(len(n.Bytes()) + 8)
	v := big.NewInt(0).SetBytes(b)
	return v.Mod(v, n)
}

// Mul is limit*price as a big integer
func Mul(a, b uint64) *big.Int {
	return big.NewInt(0).Mul(big.NewInt(0).SetUint64(a), big.NewInt(0).SetUint64(b))
}

// FlagStr is the shape/label of a flag combination
func FlagStr(p, m bool) string { return fmt.Sprintf("penalize=%v modifier=%v", p, m) }
