// Package triegen is the shared generator/fixture kit for every harness that drives the real
// Merkle-Patricia trie of elrond-go (data/trie): C01-C04 here, later the accounts and sync harnesses.
//
// API (everything is deterministic in the *vk.Rand that is passed in):
//
//	Keys
//	  Alphabet() [][]byte                 all 156 strings of length 0..3 over the byte alphabet {00,01,10,11,ab}
//	                                      (includes the empty key and the single-byte keys)
//	  Pool(rng, n) [][]byte               n distinct structured keys of mixed length 0..32: alphabet strings,
//	                                      suffix families (share a long SUFFIX = shared trie prefix, differ in one
//	                                      nibble at a chosen depth), proper suffixes of other pool keys (value ends
//	                                      at branch child 16), one-nibble neighbours, random 32-byte keys
//	  Pool32(rng, n) [][]byte             same idea, every key exactly 32 bytes (account addresses)
//	  Value(rng) []byte                   1..40 random bytes (never empty: an empty value is a delete)
//	  HexPath(key) []byte                 independent re-statement of the trie path: REVERSED nibbles + terminator 16
//	  KeyFromHexPath(path) ([]byte, bool) inverse (false when the path is not a whole number of bytes + terminator)
//
//	Real trie fixtures
//	  NewEnv(level) (*Env, error)         memorydb + real trieStorageManager + real patriciaMerkleTrie with
//	                                      maxTrieLevelInMemory = level; Env{Trie, DB, TSM}
//	  NewEnvWrapped(level, wrap)          same, but the storage manager sees wrap(memorydb) (a DBWriteCacher decorator:
//	                                      fault / delay injection, Put counting); Env.DB is still the raw memorydb
//	  (*Env).NewTrie(level)               another empty trie over the SAME storage (recreate with another level:
//	                                      env.NewTrie(l2).Recreate(root))
//	  (*Env).Close()                      stops the storage manager goroutine
//	  Marshalizer, Hasher                 the gogo-proto marshalizer and blake2b hasher used by the fixtures
//	  Leaves(tr, root) ([]KV, error)      drains GetAllLeavesOnChannel(root) (copies of key and value, in order)
//	  DiffLeaves(leaves, model) (class, text string)   "" when the multiset equals the model exactly
//	  NewRefBuilder() / (*RefBuilder).Root(model)      root hash of a FRESH never-committed trie holding exactly the
//	                                      pairs of model (sorted inserts), for harnesses that keep several live tries
//
//	Canonical shape of a key set (computed from the keys alone, no elrond code)
//	  ShapeOf(keys) Shape                 number of branch / extension / leaf nodes and depth of the unique
//	                                      canonical trie for this key set
//	  Segments(keys, key) []Seg           node sequence on the path of key in that canonical trie, as nibble
//	                                      ranges of HexPath(key): kind 'E' extension, 'B' branch slot, 'L' leaf rest
//
// The package never reads the wall clock and keeps no global state.
package triegen

import (
	"bytes"
	"fmt"
	"sort"

	"github.com/ElrondNetwork/elrond-go/config"
	"github.com/ElrondNetwork/elrond-go/data"
	"github.com/ElrondNetwork/elrond-go/data/trie"
	"github.com/ElrondNetwork/elrond-go/data/trie/hashesHolder"
	"github.com/ElrondNetwork/elrond-go/hashing/blake2b"
	"github.com/ElrondNetwork/elrond-go/marshal"
	"github.com/ElrondNetwork/elrond-go/storage/memorydb"

	"verif/internal/vk"
)

// Marshalizer and Hasher are the ones the node uses for the state tries
var (
	Marshalizer = &marshal.GogoProtoMarshalizer{}
	Hasher      = blake2b.NewBlake2b()
)

// Levels are the maxTrieLevelInMemory settings exercised by the trie harnesses
var Levels = []uint{1, 2, 3, 5, 8}

// ---------------------------------------------------------------------------------------
// keys and values

var alphabetSymbols = []byte{0x00, 0x01, 0x10, 0x11, 0xab}

// Alphabet returns all strings of length 0..3 over {00,01,10,11,ab}: 1+5+25+125 = 156 keys
func Alphabet() [][]byte {
	out := [][]byte{{}}
	prev := [][]byte{{}}
	for l := 1; l <= 3; l++ {
		var cur [][]byte
		for _, p := range prev {
			for _, s := range alphabetSymbols {
				k := append(append([]byte{}, p...), s)
				cur = append(cur, k)
			}
		}
		out = append(out, cur...)
		prev = cur
	}
	return out
}

var alphabetKeys = Alphabet()

// Value returns 1..40 random bytes
func Value(rng *vk.Rand) []byte {
	return rng.Bytes(rng.Range(1, 40))
}

// setNibble replaces the nibble at hex-path position pos (0 = low nibble of the LAST byte) of key
func setNibble(key []byte, pos int, nib byte) {
	bi := len(key) - 1 - pos/2
	if pos%2 == 0 {
		key[bi] = key[bi]&0xf0 | nib&0x0f
	} else {
		key[bi] = key[bi]&0x0f | nib<<4
	}
}

func getNibble(key []byte, pos int) byte {
	bi := len(key) - 1 - pos/2
	if pos%2 == 0 {
		return key[bi] & 0x0f
	}
	return key[bi] >> 4
}

type poolBuilder struct {
	rng  *vk.Rand
	seen map[string]bool
	keys [][]byte
}

func (p *poolBuilder) add(k []byte) bool {
	if len(k) > 64 || p.seen[string(k)] {
		return false
	}
	p.seen[string(k)] = true
	p.keys = append(p.keys, append([]byte{}, k...))
	return true
}

// family adds up to m keys that share the suffix of base behind a chosen nibble and differ in that nibble
// (and, for some members, also in the bytes in front of it, so that sub-tries hang below the branch).
func (p *poolBuilder) family(base []byte, m int) {
	if len(base) == 0 {
		p.add(base)
		return
	}
	pos := p.rng.Intn(2 * len(base)) // depth of the differing nibble in the hex path
	for i := 0; i < m; i++ {
		k := append([]byte{}, base...)
		setNibble(k, pos, byte(p.rng.Intn(16)))
		if p.rng.Chance(1, 3) {
			// change the part in FRONT of the nibble (deeper in the trie) as well
			bi := len(k) - 1 - pos/2
			if bi > 0 {
				j := p.rng.Intn(bi)
				k[j] ^= byte(1 + p.rng.Intn(255))
			}
		}
		p.add(k)
	}
}

func (p *poolBuilder) fill(n int, fixedLen int) [][]byte {
	guard := 0
	for len(p.keys) < n && guard < 50*n+200 {
		guard++
		c := p.rng.Intn(100)
		switch {
		case fixedLen == 0 && c < 30: // (a) short alphabet strings
			p.add(alphabetKeys[p.rng.Intn(len(alphabetKeys))])
		case c < 60: // (b) suffix family around a base key
			var base []byte
			if len(p.keys) > 0 && p.rng.Bool() {
				base = p.keys[p.rng.Intn(len(p.keys))]
			} else if fixedLen > 0 {
				base = p.rng.Bytes(fixedLen)
			} else {
				base = p.rng.Bytes(p.rng.Range(2, 32))
			}
			if fixedLen > 0 && len(base) != fixedLen {
				continue
			}
			p.family(base, p.rng.Range(2, 5))
		case fixedLen == 0 && c < 75: // (c) proper suffix of a pool key (path is a proper prefix, ends at child 16)
			if len(p.keys) == 0 {
				continue
			}
			k := p.keys[p.rng.Intn(len(p.keys))]
			if len(k) == 0 {
				continue
			}
			p.add(k[p.rng.Range(1, len(k)):])
		case fixedLen == 0 && c < 85: // (c') extension of a pool key to the front (pool key becomes the suffix)
			if len(p.keys) == 0 {
				continue
			}
			k := p.keys[p.rng.Intn(len(p.keys))]
			p.add(append(p.rng.Bytes(p.rng.Range(1, 3)), k...))
		case c < 92: // one-nibble neighbour of a pool key
			if len(p.keys) == 0 {
				continue
			}
			k := append([]byte{}, p.keys[p.rng.Intn(len(p.keys))]...)
			if len(k) == 0 {
				continue
			}
			pos := p.rng.Intn(2 * len(k))
			setNibble(k, pos, getNibble(k, pos)^byte(1+p.rng.Intn(15)))
			p.add(k)
		default: // (d) random 32-byte key
			p.add(p.rng.Bytes(32))
		}
	}
	for len(p.keys) < n { // extremely unlikely fallback
		p.add(p.rng.Bytes(32))
	}
	return p.keys[:n]
}

// Pool returns n distinct structured keys (see the package comment)
func Pool(rng *vk.Rand, n int) [][]byte {
	p := &poolBuilder{rng: rng, seen: map[string]bool{}}
	return p.fill(n, 0)
}

// Pool32 returns n distinct structured 32-byte keys
func Pool32(rng *vk.Rand, n int) [][]byte {
	p := &poolBuilder{rng: rng, seen: map[string]bool{}}
	return p.fill(n, 32)
}

// HexPath is the trie path of a key: nibbles of the key in REVERSE order (low nibble of the last byte first)
// followed by the terminator 16. Written independently of data/trie/node.go.
func HexPath(key []byte) []byte {
	out := make([]byte, 0, 2*len(key)+1)
	for i := len(key) - 1; i >= 0; i-- {
		out = append(out, key[i]&0x0f, key[i]>>4)
	}
	return append(out, 16)
}

// KeyFromHexPath inverts HexPath
func KeyFromHexPath(path []byte) ([]byte, bool) {
	if len(path) == 0 || path[len(path)-1] != 16 || (len(path)-1)%2 != 0 {
		return nil, false
	}
	n := (len(path) - 1) / 2
	key := make([]byte, n)
	for i := 0; i < n; i++ {
		lo, hi := path[2*i], path[2*i+1]
		if lo > 15 || hi > 15 {
			return nil, false
		}
		key[n-1-i] = hi<<4 | lo
	}
	return key, true
}

// ---------------------------------------------------------------------------------------
// real trie fixtures

// Env is one storage (memorydb + real trieStorageManager) with a first trie on it
type Env struct {
	Trie data.Trie
	DB   *memorydb.DB
	TSM  data.StorageManager
}

// NewEnv builds the real trie over a fresh memorydb
func NewEnv(maxTrieLevelInMemory uint) (*Env, error) {
	return NewEnvWrapped(maxTrieLevelInMemory, nil)
}

// NewEnvWrapped is NewEnv with a decorator around the memorydb handed to the storage manager (nil = none)
func NewEnvWrapped(maxTrieLevelInMemory uint, wrap func(data.DBWriteCacher) data.DBWriteCacher) (*Env, error) {
	db := memorydb.New()
	var store data.DBWriteCacher = db
	if wrap != nil {
		store = wrap(db)
	}
	tsm, err := trie.NewTrieStorageManager(trie.NewTrieStorageManagerArgs{
		DB:               store,
		Marshalizer:      Marshalizer,
		Hasher:           Hasher,
		SnapshotDbConfig: config.DBConfig{FilePath: "/nonexistent-verif-snapshots", Type: "MemoryDB"},
		GeneralConfig: config.TrieStorageManagerConfig{
			PruningBufferLen: 10, SnapshotsBufferLen: 10, MaxSnapshots: 2,
		},
		CheckpointHashesHolder: hashesHolder.NewCheckpointHashesHolder(10000000, 32),
	})
	if err != nil {
		return nil, err
	}
	e := &Env{DB: db, TSM: tsm}
	e.Trie, err = e.NewTrie(maxTrieLevelInMemory)
	if err != nil {
		_ = tsm.Close()
		return nil, err
	}
	return e, nil
}

// NewTrie returns another empty trie over the same storage
func (e *Env) NewTrie(maxTrieLevelInMemory uint) (data.Trie, error) {
	return trie.NewTrie(e.TSM, Marshalizer, Hasher, maxTrieLevelInMemory)
}

// Close stops the storage manager
func (e *Env) Close() {
	if e != nil && e.TSM != nil {
		_ = e.TSM.Close()
	}
}

// KV is one enumerated leaf
type KV struct {
	Key, Value []byte
}

// Leaves drains GetAllLeavesOnChannel(root)
func Leaves(tr data.Trie, root []byte) ([]KV, error) {
	ch, err := tr.GetAllLeavesOnChannel(root)
	if err != nil {
		return nil, err
	}
	var out []KV
	for l := range ch {
		out = append(out, KV{Key: append([]byte{}, l.Key()...), Value: append([]byte{}, l.Value()...)})
	}
	return out, nil
}

// DiffLeaves compares an enumeration with the model. class is "" when they are equal as multisets, else one of
// leaves-duplicate, leaves-extra, leaves-wrong-value, leaves-missing; text describes the first difference.
func DiffLeaves(leaves []KV, model map[string][]byte) (class, text string) {
	seen := map[string]bool{}
	for _, l := range leaves {
		k := string(l.Key)
		if seen[k] {
			return "leaves-duplicate", fmt.Sprintf("key %x delivered twice", l.Key)
		}
		seen[k] = true
		want, ok := model[k]
		if !ok {
			return "leaves-extra", fmt.Sprintf("key %x (value %x) delivered but not live; %d delivered, %d live", l.Key, l.Value, len(leaves), len(model))
		}
		if !bytes.Equal(want, l.Value) {
			return "leaves-wrong-value", fmt.Sprintf("key %x value %x, last written %x", l.Key, l.Value, want)
		}
	}
	if len(seen) != len(model) {
		var miss []string
		for k := range model {
			if !seen[k] {
				miss = append(miss, fmt.Sprintf("%x", k))
			}
		}
		sort.Strings(miss)
		if len(miss) > 4 {
			miss = miss[:4]
		}
		return "leaves-missing", fmt.Sprintf("%d live keys, %d delivered; missing e.g. %v", len(model), len(seen), miss)
	}
	return "", ""
}

// ---------------------------------------------------------------------------------------
// canonical shape

// Shape counts the nodes of the canonical trie of a key set
type Shape struct {
	Branches, Extensions, Leaves, Depth int
}

func (s Shape) String() string {
	return fmt.Sprintf("b%d e%d l%d d%d", s.Branches, s.Extensions, s.Leaves, s.Depth)
}

// Delta renders the difference to a later shape, e.g. "b+1 e-1 l+1"
func (s Shape) Delta(after Shape) string {
	return fmt.Sprintf("b%+d e%+d l%+d", after.Branches-s.Branches, after.Extensions-s.Extensions, after.Leaves-s.Leaves)
}

func sortedPaths(keys [][]byte) [][]byte {
	paths := make([][]byte, 0, len(keys))
	for _, k := range keys {
		paths = append(paths, HexPath(k))
	}
	sort.Slice(paths, func(i, j int) bool { return bytes.Compare(paths[i], paths[j]) < 0 })
	return paths
}

// ShapeOf computes the canonical shape (distinct keys expected)
func ShapeOf(keys [][]byte) Shape {
	var s Shape
	if len(keys) == 0 {
		return s
	}
	shapeRec(sortedPaths(keys), 0, 1, &s)
	return s
}

func commonLen(paths [][]byte, off int) int {
	// paths are sorted: common prefix of all = common prefix of first and last
	a, b := paths[0][off:], paths[len(paths)-1][off:]
	i := 0
	for i < len(a) && i < len(b) && a[i] == b[i] {
		i++
	}
	return i
}

func shapeRec(paths [][]byte, off, depth int, s *Shape) {
	if depth > s.Depth {
		s.Depth = depth
	}
	if len(paths) == 1 {
		s.Leaves++
		return
	}
	if c := commonLen(paths, off); c > 0 {
		s.Extensions++
		off += c
		depth++
		if depth > s.Depth {
			s.Depth = depth
		}
	}
	s.Branches++
	for i := 0; i < len(paths); {
		j := i
		for j < len(paths) && paths[j][off] == paths[i][off] {
			j++
		}
		shapeRec(paths[i:j], off+1, depth+1, s)
		i = j
	}
}

// Seg is one node on the path of a key: the nibble range [Start, Start+Len) of HexPath(key) it consumes.
// Kind 'E' = extension key, 'B' = branch child index (Len 1), 'L' = leaf remainder (may have Len 0... never:
// the terminator is always part of some segment, but it can be the 'B' slot, leaving an 'L' of Len 0).
type Seg struct {
	Kind       byte
	Start, Len int
}

// Segments returns the canonical node sequence along key, which must be one of keys (nil otherwise)
func Segments(keys [][]byte, key []byte) []Seg {
	paths := sortedPaths(keys)
	target := HexPath(key)
	var segs []Seg
	off := 0
	for {
		// keep only paths sharing target[:off]
		var sub [][]byte
		for _, p := range paths {
			if len(p) >= off && bytes.Equal(p[:off], target[:off]) {
				sub = append(sub, p)
			}
		}
		if len(sub) == 0 {
			return nil
		}
		if len(sub) == 1 {
			if !bytes.Equal(sub[0], target) {
				return nil
			}
			return append(segs, Seg{Kind: 'L', Start: off, Len: len(target) - off})
		}
		if c := commonLen(sub, off); c > 0 {
			segs = append(segs, Seg{Kind: 'E', Start: off, Len: c})
			off += c
		}
		segs = append(segs, Seg{Kind: 'B', Start: off, Len: 1})
		off++
		paths = sub
	}
}

// ---------------------------------------------------------------------------------------
// reference roots

// RefBuilder computes the root hash a FRESH trie reports for a set of pairs: every call builds a new, never
// committed trie (level 5, sorted inserts, nothing else) over one private storage. It is the reference side of
// "two tries holding the same pairs have the same root hash" for harnesses that keep several live tries.
type RefBuilder struct {
	env *Env
}

// NewRefBuilder creates the private storage of the reference tries
func NewRefBuilder() (*RefBuilder, error) {
	e, err := NewEnv(5)
	if err != nil {
		return nil, err
	}
	return &RefBuilder{env: e}, nil
}

// Root returns a copy of the root hash of a fresh trie holding exactly the pairs of model
func (b *RefBuilder) Root(model map[string][]byte) ([]byte, error) {
	tr, err := b.env.NewTrie(5)
	if err != nil {
		return nil, err
	}
	keys := make([]string, 0, len(model))
	for k := range model {
		keys = append(keys, k)
	}
	sort.Strings(keys)
	for _, k := range keys {
		if err = tr.Update([]byte(k), append([]byte{}, model[k]...)); err != nil {
			return nil, err
		}
	}
	h, err := tr.RootHash()
	if err != nil {
		return nil, err
	}
	return append([]byte{}, h...), nil
}

// Close stops the private storage manager
func (b *RefBuilder) Close() {
	if b != nil {
		b.env.Close()
	}
}
