// C47 — an accepted genesis configuration accounts for the whole supply.
// Monitor shape: reference model (RM). Random genesis account files (mostly valid, with zero, one or two
// injected defects) are written to a scratch directory and fed to the real parsing.NewAccountsParser with
// the real bech32 / hex pubkey converter and the real ed25519 key generator; acceptance is compared with
// a reference predicate evaluated on the generation record (address BYTES, big-int values).
package main

import (
	"bytes"
	"encoding/hex"
	"encoding/json"
	"errors"
	"fmt"
	"math/big"
	"os"
	"path/filepath"
	"sort"
	"strings"

	logger "github.com/ElrondNetwork/elrond-go-logger"
	"github.com/ElrondNetwork/elrond-go/core"
	"github.com/ElrondNetwork/elrond-go/core/pubkeyConverter"
	"github.com/ElrondNetwork/elrond-go/crypto/signing"
	"github.com/ElrondNetwork/elrond-go/crypto/signing/ed25519"
	"github.com/ElrondNetwork/elrond-go/genesis"
	"github.com/ElrondNetwork/elrond-go/genesis/parsing"
	"verif/internal/vk"
)

type delegationJSON struct {
	Address string `json:"address"`
	Value   string `json:"value"`
}

type entryJSON struct {
	Address      string         `json:"address"`
	Supply       string         `json:"supply"`
	Balance      string         `json:"balance"`
	StakingValue string         `json:"stakingvalue"`
	Delegation   delegationJSON `json:"delegation"`
}

// entry is the generation record of one account line
type entry struct {
	addr      []byte // nil when the text is not a valid address
	text      string
	supply    *big.Int
	balance   *big.Int
	staking   *big.Int
	delegated *big.Int
	delegAddr string
	delegOK   bool // delegation address text decodes
}

const (
	dSupplyMismatch = iota
	dTotalMismatch
	dSCAddress
	dDupIdentical
	dDupCaseVariant
	dBadAddress
	dNonPositiveSupply
	dNegativeValue
	dDelegationAddress
	numDefects
)

var defectNames = []string{"supply-mismatch", "total-mismatch", "sc-address", "duplicate-identical", "duplicate-case-variant", "bad-address", "nonpositive-supply", "negative-value", "delegation-address"}

var sentinels = []struct {
	name string
	err  error
}{
	{"ErrInvalidEntireSupply", genesis.ErrInvalidEntireSupply}, {"ErrEntireSupplyMismatch", genesis.ErrEntireSupplyMismatch},
	{"ErrEmptyAddress", genesis.ErrEmptyAddress}, {"ErrInvalidAddress", genesis.ErrInvalidAddress}, {"ErrInvalidPubKey", genesis.ErrInvalidPubKey},
	{"ErrEmptyDelegationAddress", genesis.ErrEmptyDelegationAddress}, {"ErrInvalidDelegationAddress", genesis.ErrInvalidDelegationAddress},
	{"ErrInvalidSupply", genesis.ErrInvalidSupply}, {"ErrInvalidBalance", genesis.ErrInvalidBalance}, {"ErrInvalidStakingBalance", genesis.ErrInvalidStakingBalance},
	{"ErrInvalidDelegationValue", genesis.ErrInvalidDelegationValue}, {"ErrSupplyMismatch", genesis.ErrSupplyMismatch},
	{"ErrDuplicateAddress", genesis.ErrDuplicateAddress}, {"ErrAddressIsSmartContract", genesis.ErrAddressIsSmartContract},
}

func errClass(err error) string {
	for _, s := range sentinels {
		if errors.Is(err, s.err) {
			return s.name
		}
	}
	return "other"
}

func randValue(rng *vk.Rand) *big.Int {
	switch rng.Intn(6) {
	case 0:
		return big.NewInt(0)
	case 1:
		return big.NewInt(int64(1 + rng.Intn(1000)))
	case 2: // eGLD scale: up to ~20M * 10^18
		v := new(big.Int).SetUint64(rng.U64() >> uint(rng.Intn(40)))
		return v.Mul(v, big.NewInt(1000000000))
	case 3:
		return new(big.Int).SetBytes(rng.Bytes(1 + rng.Intn(14)))
	default:
		return new(big.Int).SetUint64(rng.U64() >> uint(rng.Intn(64)))
	}
}

func upperVariant(rng *vk.Rand, isBech bool, text string) string {
	if isBech || rng.Bool() {
		return strings.ToUpper(text) // bech32 refuses mixed case
	}
	b := []byte(text)
	changed := false
	for i := range b {
		if b[i] >= 'a' && b[i] <= 'f' && rng.Bool() {
			b[i] -= 32
			changed = true
		}
	}
	if !changed {
		return strings.ToUpper(text)
	}
	return string(b)
}

func hasLetters(isBech bool, text string) bool {
	for i := 0; i < len(text); i++ {
		if text[i] >= 'a' && text[i] <= 'z' {
			return true
		}
	}
	return false
}

func main() {
	logger.SetLogLevel("*:NONE")
	r := vk.Start("C47")
	r.Rule("case = genesis accounts file with 1..8 entries for a bech32 (2/3) or hex (1/3) converter of length 32: random balances / staked / delegated values (0, small, eGLD scale, up to 2^112), supply = their sum, total = sum of supplies; 30% of files carry no defect, 55% one, 15% two defects out of {supply-mismatch, total-mismatch, sc-address, duplicate-identical, duplicate-case-variant, bad-address, nonpositive-supply, negative-value, delegation-address}; benign variations: upper-case spelling of a non-duplicated address, delegation value 0 with an empty or junk delegation address. Non-trivial = every case (each is one parser run); shape = converter, entry count, defect set, benign flags, verdict.")
	r.Assume("reference predicate: every address text decodes to 32 bytes that are not a smart-contract address; supply > 0, balance/staked/delegated >= 0, supply == balance+staked+delegated; a non-zero delegation names a decodable address; no two entries have equal address bytes; total of supplies == entire supply > 0",
		"every entry carries a delegation object (a file without one is outside the generated domain)",
		"the pubkey converters' own behaviour is C48's subject; the ed25519 key generator accepts every 32-byte string")
	r.MinShapes(150)

	scratch := os.Getenv("VERIF_SCRATCH")
	if scratch == "" {
		d, err := os.MkdirTemp("", "verif-c47-")
		if err != nil {
			r.Inconclusive("no scratch directory: " + err.Error())
			r.Finish()
		}
		scratch = d
		defer os.RemoveAll(d)
	}
	dir := filepath.Join(scratch, "c47")
	if err := os.MkdirAll(dir, 0o755); err != nil {
		r.Inconclusive("cannot create scratch directory: " + err.Error())
		r.Finish()
	}
	keyGen := signing.NewKeyGenerator(ed25519.NewEd25519())
	bechConv, e1 := pubkeyConverter.NewBech32PubkeyConverter(32)
	hexConv, e2 := pubkeyConverter.NewHexPubkeyConverter(32)
	if e1 != nil || e2 != nil {
		r.Inconclusive(fmt.Sprintf("converter constructors failed: %v %v", e1, e2))
		r.Finish()
	}

	n := r.N(40000, 600000)
	r.Parallel(n, func(c *vk.Case) {
		rng := c.Rng
		isBech := rng.Chance(2, 3)
		var conv core.PubkeyConverter = hexConv
		kind := "hex"
		if isBech {
			conv = bechConv
			kind = "bech32"
		}
		count := 1 + rng.Intn(8)
		var defects [numDefects]bool
		switch p := rng.Intn(100); {
		case p < 30:
		case p < 85:
			defects[rng.Intn(numDefects)] = true
		default:
			defects[rng.Intn(numDefects)] = true
			defects[rng.Intn(numDefects)] = true
		}
		if count == 1 { // duplicates need two entries
			if defects[dDupIdentical] || defects[dDupCaseVariant] {
				count = 2 + rng.Intn(7)
			}
		}

		freshAddr := func() []byte {
			for {
				a := rng.Bytes(32)
				if !core.IsSmartContractAddress(a) {
					return a
				}
			}
		}
		scText := func() string {
			a := rng.Bytes(32)
			for k := 0; k < 8; k++ {
				a[k] = 0
			}
			return conv.Encode(a)
		}
		entries := make([]*entry, count)
		benignUpper, benignDeleg := false, false
		for i := range entries {
			e := &entry{addr: freshAddr(), balance: randValue(rng), staking: big.NewInt(0), delegated: big.NewInt(0)}
			e.text = conv.Encode(e.addr)
			if rng.Chance(1, 8) && hasLetters(isBech, e.text) {
				e.text = upperVariant(rng, isBech, e.text)
				benignUpper = true
			}
			if rng.Chance(1, 3) {
				e.staking = randValue(rng)
			}
			switch rng.Intn(6) {
			case 0, 1: // delegated
				e.delegated = randValue(rng)
				e.delegAddr = scText()
				e.delegOK = true
			case 2: // nothing delegated, junk address: ignored
				e.delegAddr = []string{"", "junk", "erd1qqq"}[rng.Intn(3)]
				benignDeleg = true
			}
			if e.delegated.Sign() == 0 && e.balance.Sign() == 0 && e.staking.Sign() == 0 {
				e.balance = big.NewInt(int64(1 + rng.Intn(100)))
			}
			e.supply = new(big.Int).Add(e.balance, e.staking)
			e.supply.Add(e.supply, e.delegated)
			entries[i] = e
		}

		// ---- inject the defects
		dupForms := map[string]bool{}
		pick := func() *entry { return entries[rng.Intn(count)] }
		if defects[dSupplyMismatch] {
			e := pick()
			d := int64(1 + rng.Intn(3))
			if rng.Bool() && e.supply.Cmp(big.NewInt(d)) > 0 {
				d = -d
			}
			e.supply = new(big.Int).Add(e.supply, big.NewInt(d))
		}
		if defects[dSCAddress] {
			e := pick()
			a := rng.Bytes(32)
			zeros := 8
			if rng.Chance(1, 5) {
				zeros = 32
			} else if rng.Chance(1, 3) {
				zeros = 10 + rng.Intn(15)
			}
			for k := 0; k < zeros; k++ {
				a[k] = 0
			}
			e.addr = a
			e.text = conv.Encode(a)
		}
		if defects[dNonPositiveSupply] {
			e := pick()
			e.balance, e.staking, e.delegated, e.supply = big.NewInt(0), big.NewInt(0), big.NewInt(0), big.NewInt(0)
		}
		if defects[dNegativeValue] {
			e := pick()
			x := big.NewInt(int64(1 + rng.Intn(1000)))
			switch rng.Intn(3) {
			case 0:
				e.balance = new(big.Int).Neg(x)
				e.staking = new(big.Int).Add(e.staking, new(big.Int).Add(x, x))
			case 1:
				e.staking = new(big.Int).Neg(x)
				e.balance = new(big.Int).Add(e.balance, new(big.Int).Add(x, x))
			default:
				e.delegated = new(big.Int).Neg(x)
				e.delegAddr = scText()
				e.delegOK = true
				e.balance = new(big.Int).Add(e.balance, new(big.Int).Add(x, x))
			}
			e.supply = new(big.Int).Add(e.balance, e.staking)
			e.supply.Add(e.supply, e.delegated)
		}
		if defects[dDelegationAddress] {
			e := pick()
			if e.delegated.Sign() == 0 {
				e.delegated = big.NewInt(int64(1 + rng.Intn(1000)))
				e.supply = new(big.Int).Add(e.supply, e.delegated)
			}
			good := scText()
			e.delegAddr = []string{"", "not-an-address", good[:len(good)-1], good + "q"}[rng.Intn(4)]
			e.delegOK = false
		}
		if defects[dBadAddress] {
			e := pick()
			good := conv.Encode(e.addr)
			switch rng.Intn(4) {
			case 0:
				e.text = ""
			case 1: // one character changed: bech32 checksum error / hex still decodes to other bytes, so use a non-hex char
				if isBech {
					b := []byte(good)
					i := 4 + rng.Intn(len(b)-4)
					if b[i] == 'q' {
						b[i] = 'p'
					} else {
						b[i] = 'q'
					}
					e.text = string(b)
				} else {
					e.text = "zz" + good[2:]
				}
			case 2: // wrong length
				if isBech {
					short, _ := pubkeyConverter.NewBech32PubkeyConverter(30)
					e.text = short.Encode(e.addr[:30])
				} else {
					e.text = good[:len(good)-2]
				}
			default: // the other converter's text form
				if isBech {
					e.text = hex.EncodeToString(e.addr)
				} else {
					e.text = bechConv.Encode(e.addr)
				}
			}
			e.addr = nil
		}
		mkDup := func(caseVariant bool) {
			// the copy goes to a later position than the original
			i := rng.Intn(count - 1)
			j := i + 1 + rng.Intn(count-1-i)
			src, dst := entries[i], entries[j]
			if src.addr == nil {
				return
			}
			dst.addr = append([]byte{}, src.addr...)
			if !caseVariant {
				dst.text = src.text
				dupForms["identical"] = true
				return
			}
			lower := conv.Encode(src.addr)
			if !hasLetters(isBech, lower) {
				dst.text = src.text
				dupForms["identical"] = true
				return
			}
			if src.text == lower {
				dst.text = upperVariant(rng, isBech, lower)
			} else {
				dst.text = lower
			}
			dupForms["case-variant"] = true
		}
		if defects[dDupIdentical] {
			mkDup(false)
		}
		if defects[dDupCaseVariant] {
			mkDup(true)
		}

		total := big.NewInt(0)
		for _, e := range entries {
			total.Add(total, e.supply)
		}
		entire := new(big.Int).Set(total)
		if defects[dTotalMismatch] {
			d := int64(1 + rng.Intn(5))
			if rng.Bool() {
				d = -d
			}
			entire.Add(entire, big.NewInt(d))
		}

		// ---- reference predicate on the generation record
		reasons := map[string]bool{}
		seen := map[string]int{}
		dupPairs := []string{}
		for i, e := range entries {
			if e.addr == nil {
				reasons["bad-address"] = true
			} else {
				if core.IsSmartContractAddress(e.addr) {
					reasons["sc-address"] = true
				}
				if j, ok := seen[string(e.addr)]; ok {
					reasons["duplicate"] = true
					form := "case-variant"
					if entries[j].text == e.text {
						form = "identical"
					}
					dupPairs = append(dupPairs, form)
				} else {
					seen[string(e.addr)] = i
				}
			}
			if e.supply.Sign() <= 0 {
				reasons["nonpositive-supply"] = true
			}
			if e.balance.Sign() < 0 || e.staking.Sign() < 0 || e.delegated.Sign() < 0 {
				reasons["negative-value"] = true
			}
			sum := new(big.Int).Add(e.balance, e.staking)
			sum.Add(sum, e.delegated)
			if sum.Cmp(e.supply) != 0 {
				reasons["supply-mismatch"] = true
			}
			if e.delegated.Sign() != 0 && !e.delegOK {
				reasons["delegation-address"] = true
			}
		}
		if entire.Sign() <= 0 {
			reasons["entire-supply-nonpositive"] = true
		}
		if total.Cmp(entire) != 0 {
			reasons["total-mismatch"] = true
		}
		var reasonList []string
		for k := range reasons {
			reasonList = append(reasonList, k)
		}
		sort.Strings(reasonList)
		valid := len(reasonList) == 0

		// ---- write the file and run the real parser
		file := make([]entryJSON, count)
		for i, e := range entries {
			file[i] = entryJSON{Address: e.text, Supply: e.supply.String(), Balance: e.balance.String(), StakingValue: e.staking.String(),
				Delegation: delegationJSON{Address: e.delegAddr, Value: e.delegated.String()}}
		}
		buf, err := json.MarshalIndent(file, "", "  ")
		if err != nil {
			r.Inconclusive("cannot marshal the generated file: " + err.Error())
			return
		}
		path := filepath.Join(dir, fmt.Sprintf("genesis-%d.json", c.Idx))
		if err = os.WriteFile(path, buf, 0o644); err != nil {
			r.Inconclusive("cannot write the generated file: " + err.Error())
			return
		}
		// the configured supply is one *big.Int owned by the caller and reused for a later file (as a node that
		// re-reads its configuration would): it must still say the same after the parser returned
		supplyArg := new(big.Int).Set(entire)
		ap, perr := parsing.NewAccountsParser(path, supplyArg, conv, keyGen)
		_ = os.Remove(path)
		r.Eval(1)
		if perr != nil && total.Sign() > 0 && entire.Cmp(total) > 0 {
			// follow-up file checked against the SAME configured supply object: one valid entry worth exactly the
			// difference the refused file left over; its total is not the configured supply, so it must be refused
			left := new(big.Int).Sub(entire, total)
			fa := freshAddr()
			one := []entryJSON{{Address: conv.Encode(fa), Supply: left.String(), Balance: left.String(), StakingValue: "0", Delegation: delegationJSON{Address: "", Value: "0"}}}
			buf2, _ := json.MarshalIndent(one, "", "  ")
			path2 := filepath.Join(dir, fmt.Sprintf("genesis-%d-b.json", c.Idx))
			if err = os.WriteFile(path2, buf2, 0o644); err == nil {
				_, perr2 := parsing.NewAccountsParser(path2, supplyArg, conv, keyGen)
				_ = os.Remove(path2)
				r.Eval(1)
				r.Count("followup_files_after_refusal", 1)
				if perr2 == nil {
					r.Violation(c.Idx, "accepted-invalid class=total-mismatch after-refused-file", fmt.Sprintf("%s converter: configured supply %s; a first file totalling %s was refused (%v); a second file totalling %s, checked against the same configured supply object, was accepted", kind, entire, total, perr, left),
						map[string]interface{}{"converter": kind, "entire_supply": entire.String(), "first_file": json.RawMessage(buf), "second_file": json.RawMessage(buf2), "supply_object_after_first_call": supplyArg.String()})
				}
			}
		}
		if supplyArg.Cmp(entire) != 0 {
			r.Violation(c.Idx, "configured-supply-modified", fmt.Sprintf("%s converter: the caller's configured supply was %s before NewAccountsParser and is %s after it (parser result: %v)", kind, entire, supplyArg, perr),
				map[string]interface{}{"converter": kind, "entire_supply": entire.String(), "after": supplyArg.String(), "file": json.RawMessage(buf)})
		}

		detail := map[string]interface{}{"converter": kind, "entire_supply": entire.String(), "file": json.RawMessage(buf), "reference_reasons": reasonList}
		if perr != nil {
			detail["parser_error"] = perr.Error()
		}
		verdict := "accepted"
		if perr != nil {
			verdict = "rejected"
			r.Count("rejected."+errClass(perr), 1)
		} else {
			r.Count("accepted", 1)
		}
		switch {
		case perr == nil && !valid:
			key := "accepted-invalid class=" + strings.Join(reasonList, "+")
			if len(reasonList) == 1 && reasonList[0] == "duplicate" {
				form := "case-variant"
				for _, f := range dupPairs {
					if f == "identical" {
						form = "identical"
					}
				}
				key = "duplicate-accepted form=" + form
			}
			what := fmt.Sprintf("%s converter, %d entries, entire supply %s: accepted although %s", kind, count, entire, strings.Join(reasonList, ", "))
			if reasons["duplicate"] {
				for i, e := range entries {
					for j := i + 1; j < count; j++ {
						if e.addr != nil && bytes.Equal(e.addr, entries[j].addr) {
							what += fmt.Sprintf("; entries %d and %d are the same address: %q / %q", i, j, e.text, entries[j].text)
						}
					}
				}
			}
			r.Violation(c.Idx, key, what, detail)
		case perr != nil && valid:
			r.Violation(c.Idx, "rejected-valid err="+errClass(perr), fmt.Sprintf("%s converter, %d entries, entire supply %s: rejected with %v although the reference predicate holds", kind, count, entire, perr), detail)
		case perr == nil:
			// accepted and valid: the parsed content is the generated content
			accs := ap.InitialAccounts()
			if len(accs) != count {
				r.Violation(c.Idx, "accepted-wrong-content", fmt.Sprintf("parser holds %d accounts, file has %d", len(accs), count), detail)
			} else {
				for i, a := range accs {
					e := entries[i]
					if !bytes.Equal(a.AddressBytes(), e.addr) || a.GetSupply().Cmp(e.supply) != 0 || a.GetBalanceValue().Cmp(e.balance) != 0 || a.GetStakingValue().Cmp(e.staking) != 0 {
						r.Violation(c.Idx, "accepted-wrong-content", fmt.Sprintf("entry %d parsed as addr=%x supply=%s balance=%s staking=%s", i, a.AddressBytes(), a.GetSupply(), a.GetBalanceValue(), a.GetStakingValue()), detail)
						break
					}
				}
			}
		}
		var ds []string
		for k := 0; k < numDefects; k++ {
			if defects[k] {
				ds = append(ds, defectNames[k])
			}
		}
		r.Count("files."+kind, 1)
		if valid {
			r.Count("reference_valid", 1)
		} else {
			r.Count("reference_invalid", 1)
		}
		r.Shape(fmt.Sprintf("%s n=%d defects=%s reasons=%s upper=%v deleg0=%v %s", kind, count, strings.Join(ds, "+"), strings.Join(reasonList, "+"), benignUpper, benignDeleg, verdict))
		if r.NeedSample() && count <= 2 && c.Idx%5 == 0 {
			r.Sample(map[string]interface{}{"converter": kind, "entire_supply": entire.String(), "file": json.RawMessage(buf), "reference_reasons": reasonList, "verdict": verdict})
		}
	})
	r.Finish()
}
