// C01 — the state trie behaves as a key-value map.
// Monitor shape: reference-model monitor. The real patriciaMerkleTrie (memorydb + real trieStorageManager)
// and a map[string][]byte receive the same operation sequence; after every operation Get is compared for the
// touched key and several known/unknown keys, after every Commit the full enumeration of
// GetAllLeavesOnChannel(root) is compared with the model as a multiset (each live pair once, original key bytes).
// Histories also contain the life cycle of the trie instances over one storage: short-lived views recreated from
// the live trie are enumerated and Close()d, abandoned parents are Close()d after a Recreate, and the live trie
// must keep enumerating completely. In a third of the cases the storage is decorated (observe.go): a second trie
// instance over the same storage enumerates the root being committed after every node write of Commit, and the
// last commit of the case may be cut short by one failing Put; an enumeration of a root must either fail (root
// not there) or deliver exactly the pairs of that root - never a silently truncated set.
package main

import (
	"bytes"
	"fmt"
	"sort"
	"strings"

	logger "github.com/ElrondNetwork/elrond-go-logger"
	"github.com/ElrondNetwork/elrond-go/data"

	"verif/internal/triegen"
	"verif/internal/vk"
)

type opRec struct {
	Op    string `json:"op"`
	Key   string `json:"key,omitempty"`
	Value string `json:"value,omitempty"`
}

func modelKeys(m map[string][]byte) [][]byte {
	out := make([][]byte, 0, len(m))
	for k := range m {
		out = append(out, []byte(k))
	}
	return out
}

func cp(b []byte) []byte { return append([]byte{}, b...) }

func main() {
	_ = logger.SetLogLevel("*:NONE")
	r := vk.Start("C01")
	r.Rule("each case: one real trie (maxTrieLevelInMemory drawn from {1,2,3,5,8}) and a pool of 6-40 structured keys " +
		"(length 0-3 strings over {00,01,10,11,ab} incl. the empty key; families sharing a long suffix and differing in one nibble; " +
		"proper suffixes of other keys; one-nibble neighbours; random 32-byte keys), 30-120 operations drawn from " +
		"Update / Update-with-empty-value / Delete / Get / Commit(+full leaf enumeration) / Commit+Recreate-and-continue. " +
		"A case is non-trivial when at least one structural event other than 'first leaf' / 'overwrite' happened; its shape signature is " +
		"the memory level plus the set of structural events, each event being the op kind and the node-count delta " +
		"(branches, extensions, leaves) of the canonical trie of the live key set, plus whether it happened on a trie that was committed/recreated (collapsed nodes must be resolved). " +
		"Instance life cycle (second PRNG stream): after 1 in 4 commits a view is recreated from the live trie, enumerated, closed, and the live trie enumerated again; " +
		"after half of the recreate-and-continue steps the abandoned parent instances are closed. 1 in 3 cases runs over a decorated storage: a second trie instance " +
		"enumerates the root being committed after every node write (first 40) of every Commit, and half of them end with 1-6 more writes and a Commit in which Put #1..10 fails once.")
	r.Assume("memorydb and the gogo-proto marshalizer / blake2b hasher are trusted",
		"structural events are computed from the live key set (canonical trie), not read from the trie under test",
		"keys are at most 35 bytes; the only injected DB error is one failing Put in the LAST commit of a decorated case, after which the committing instance is not used again",
		"an enumeration through the second instance during / after a failed commit is judged only when it is accepted (no error): it must then equal the model of that root")
	r.MinShapes(50)

	nCases := r.N(2000, 60000)
	r.Parallel(nCases, func(c *vk.Case) {
		rng := c.Rng
		level := triegen.Levels[rng.Intn(len(triegen.Levels))]
		// decisions of the instance-life-cycle / storage-decorator dimensions come from a second stream so that the
		// operation sequences of the first stream stay what they were
		aux := r.Rng(c.Idx, 1)
		var hook *hookDB
		var wrap func(data.DBWriteCacher) data.DBWriteCacher
		if aux.Chance(1, 3) {
			wrap = func(inner data.DBWriteCacher) data.DBWriteCacher {
				hook = &hookDB{DBWriteCacher: inner}
				return hook
			}
		}
		env, err := triegen.NewEnvWrapped(level, wrap)
		if err != nil {
			r.Inconclusive("cannot build trie: " + err.Error())
			return
		}
		defer env.Close()
		tr := env.Trie
		pool := triegen.Pool(rng, rng.Range(6, 40))
		model := map[string][]byte{}
		nOps := rng.Range(30, 120)
		var hist []opRec
		events := map[string]bool{}
		collapsedSince := false // a commit or recreate happened: part of the trie is collapsed / only in the DB
		committedOnce := false

		fail := func(key, what string) {
			r.Violation(c.Idx, key, what, map[string]interface{}{
				"level": level, "history": hist, "live_keys": len(model),
			})
		}
		checkGet := func(k []byte) bool {
			var got []byte
			var gerr error
			got, gerr = tr.Get(cp(k))
			got = cp(got)
			r.Eval(1)
			r.Count("get_checks", 1)
			want, live := model[string(k)]
			if gerr != nil {
				fail("op-error:Get", fmt.Sprintf("Get(%x) error: %v", k, gerr))
				return false
			}
			switch {
			case live && len(got) == 0:
				fail("get-missing", fmt.Sprintf("Get(%x) returned nothing, last written %x", k, want))
			case !live && len(got) != 0:
				fail("get-ghost", fmt.Sprintf("Get(%x) returned %x but the key was never written or was deleted", k, got))
			case live && !bytes.Equal(got, want):
				fail("get-wrong-value", fmt.Sprintf("Get(%x) returned %x, last written %x", k, got, want))
			default:
				return true
			}
			return false
		}
		pick := func() []byte {
			// bias towards live keys for deletes/overwrites is applied by the callers
			return pool[rng.Intn(len(pool))]
		}
		pickLive := func() []byte {
			if len(model) == 0 {
				return pick()
			}
			ks := modelKeys(model)
			sort.Slice(ks, func(i, j int) bool { return bytes.Compare(ks[i], ks[j]) < 0 })
			return ks[rng.Intn(len(ks))]
		}
		var reader data.Trie // second instance over the same storage (decorated cases only)
		if hook != nil {
			reader, err = env.NewTrie(triegen.Levels[aux.Intn(len(triegen.Levels))])
			if err != nil {
				r.Inconclusive("cannot build second trie: " + err.Error())
				return
			}
			r.Count("cases_with_decorated_storage", 1)
		}
		// observeRoot: what a reader on another trie instance sees for root at this moment
		observeRoot := func(root []byte, when string, keyPrefix string) bool {
			leaves, lerr := triegen.Leaves(reader, cp(root))
			r.Eval(1)
			if lerr != nil {
				r.Count("second_instance_enumerations_"+when+":root-not-visible", 1)
				return true
			}
			r.Count("second_instance_enumerations_"+when+":root-visible", 1)
			if class, text := triegen.DiffLeaves(leaves, model); class != "" {
				fail(keyPrefix+class, fmt.Sprintf("second trie instance, %s, root %x accepted but: %s", when, root, text))
				return false
			}
			return true
		}
		commitAndEnumerate := func() bool {
			if hook != nil {
				// the root hash is known before the commit (block headers carry it); a second instance enumerates it after
				// every node write of this commit
				pre, rerr := tr.RootHash()
				if rerr != nil {
					fail("op-error:RootHash", fmt.Sprintf("RootHash error: %v", rerr))
					return false
				}
				pre = cp(pre)
				obsOK := true
				hook.n = 0
				hook.afterPut = func(n int) {
					if obsOK && n <= 40 {
						obsOK = observeRoot(pre, "between two node writes of Commit", "partial-root-visible-during-commit:")
					}
				}
				cerr := tr.Commit()
				hook.afterPut = nil
				r.Count("node_writes_in_observed_commits", hook.n)
				if !obsOK {
					return false
				}
				if cerr != nil {
					fail("op-error:Commit", fmt.Sprintf("Commit error: %v", cerr))
					return false
				}
			} else if cerr := tr.Commit(); cerr != nil {
				fail("op-error:Commit", fmt.Sprintf("Commit error: %v", cerr))
				return false
			}
			r.Count("op_commit", 1)
			root, rerr := tr.RootHash()
			if rerr != nil {
				fail("op-error:RootHash", fmt.Sprintf("RootHash error: %v", rerr))
				return false
			}
			root = cp(root)
			leaves, lerr := triegen.Leaves(tr, root)
			r.Eval(1)
			r.Count("leaf_enumerations", 1)
			r.Count("leaves_delivered", len(leaves))
			if lerr != nil {
				fail("op-error:GetAllLeavesOnChannel", fmt.Sprintf("GetAllLeavesOnChannel(%x) error: %v", root, lerr))
				return false
			}
			if class, text := triegen.DiffLeaves(leaves, model); class != "" {
				fail(class, fmt.Sprintf("after commit %x: %s", root, text))
				return false
			}
			collapsedSince = true
			committedOnce = true
			if aux.Chance(1, 4) {
				// a short-lived read-only view of the committed root, recreated from the live trie, enumerated and closed;
				// the live trie must still enumerate completely afterwards
				hist = append(hist, opRec{Op: "view=Recreate(root); enumerate; view.Close(); enumerate through the live trie"})
				view, verr := tr.Recreate(cp(root))
				if verr != nil || view == nil || view.IsInterfaceNil() {
					fail("op-error:Recreate", fmt.Sprintf("Recreate(%x) error: %v", root, verr))
					return false
				}
				for i, t := range []data.Trie{view, tr} {
					if i == 1 {
						_ = view.Close()
						r.Count("op_close_recreated_view", 1)
					}
					lv, e := triegen.Leaves(t, cp(root))
					r.Eval(1)
					r.Count("leaf_enumerations", 1)
					if e != nil {
						fail("op-error:GetAllLeavesOnChannel", fmt.Sprintf("GetAllLeavesOnChannel(%x) error: %v", root, e))
						return false
					}
					if class, text := triegen.DiffLeaves(lv, model); class != "" {
						fail(class, fmt.Sprintf("root %x, %s: %s", root, []string{"through a recreated view", "through the live trie after a recreated view was closed"}[i], text))
						return false
					}
				}
			}
			return true
		}

		ok := true
		for i := 0; i < nOps && ok; i++ {
			before := triegen.ShapeOf(modelKeys(model))
			var touched []byte
			kind := ""
			x := rng.Intn(100)
			switch {
			case x < 45: // Update with a value
				k := pick()
				if rng.Chance(1, 4) {
					k = pickLive()
				}
				v := triegen.Value(rng)
				if old, live := model[string(k)]; live && rng.Chance(1, 8) {
					v = cp(old) // same value again: the trie takes its no-change path
				}
				hist = append(hist, opRec{"update", vk.Hex(k), vk.Hex(v)})
				if uerr := tr.Update(cp(k), cp(v)); uerr != nil {
					fail("op-error:Update", fmt.Sprintf("Update(%x,%x) error: %v", k, v, uerr))
					ok = false
					break
				}
				model[string(k)] = cp(v)
				touched, kind = k, "ins"
				r.Count("op_update", 1)
			case x < 55: // Update with an empty value = delete
				k := pick()
				if rng.Chance(2, 3) {
					k = pickLive()
				}
				var empty []byte
				if rng.Bool() {
					empty = []byte{}
				}
				hist = append(hist, opRec{"update-empty", vk.Hex(k), ""})
				if uerr := tr.Update(cp(k), empty); uerr != nil {
					fail("op-error:Update", fmt.Sprintf("Update(%x, empty) error: %v", k, uerr))
					ok = false
					break
				}
				delete(model, string(k))
				touched, kind = k, "del"
				r.Count("op_update_empty", 1)
			case x < 72: // Delete
				k := pick()
				if rng.Chance(2, 3) {
					k = pickLive()
				}
				hist = append(hist, opRec{"delete", vk.Hex(k), ""})
				if derr := tr.Delete(cp(k)); derr != nil {
					fail("op-error:Delete", fmt.Sprintf("Delete(%x) error: %v", k, derr))
					ok = false
					break
				}
				delete(model, string(k))
				touched, kind = k, "del"
				r.Count("op_delete", 1)
			case x < 80: // Get of a key outside the pool (longer / shorter / neighbour of a live key)
				k := pickLive()
				var q []byte
				switch rng.Intn(4) {
				case 0:
					q = append(rng.Bytes(1), k...)
				case 1:
					if len(k) > 0 {
						q = cp(k[1:])
					}
				case 2:
					if len(k) > 0 {
						q = cp(k)
						q[rng.Intn(len(q))] ^= byte(1 << uint(rng.Intn(8)))
					}
				default:
					q = rng.Bytes(rng.Range(0, 33))
				}
				hist = append(hist, opRec{"get", vk.Hex(q), ""})
				r.Count("op_get_foreign", 1)
				ok = checkGet(q)
			case x < 92: // Commit + full enumeration
				hist = append(hist, opRec{Op: "commit+leaves"})
				ok = commitAndEnumerate()
			default: // Commit, recreate from the root (sometimes through a trie with another level) and continue there
				hist = append(hist, opRec{Op: "commit+recreate"})
				if ok = commitAndEnumerate(); !ok {
					break
				}
				root, _ := tr.RootHash()
				root = cp(root)
				var base data.Trie = tr
				if rng.Chance(1, 3) {
					l2 := triegen.Levels[rng.Intn(len(triegen.Levels))]
					if t2, e2 := env.NewTrie(l2); e2 == nil {
						base = t2
						hist[len(hist)-1].Value = fmt.Sprintf("level=%d", l2)
					}
				}
				nt, rerr := base.Recreate(root)
				if rerr != nil || nt == nil || nt.IsInterfaceNil() {
					fail("op-error:Recreate", fmt.Sprintf("Recreate(%x) error: %v", root, rerr))
					ok = false
					break
				}
				old := tr
				tr = nt
				r.Count("op_recreate", 1)
				if aux.Bool() {
					// the instances left behind are closed; the recreated trie lives on
					hist[len(hist)-1].Op = "commit+recreate+close-parent"
					_ = old.Close()
					if base != old {
						_ = base.Close()
					}
					r.Count("op_close_abandoned_parent", 1)
				}
			}
			if !ok {
				break
			}
			if touched != nil {
				after := triegen.ShapeOf(modelKeys(model))
				ev := kind + " " + before.Delta(after)
				if collapsedSince {
					ev += " oncommitted"
				}
				events[ev] = true
				if !checkGet(touched) {
					ok = false
					break
				}
			}
			// three more keys: known or unknown
			for j := 0; j < 3 && ok; j++ {
				k := pick()
				if rng.Chance(1, 3) {
					k = pickLive()
				}
				ok = checkGet(k)
			}
		}
		// final commit + enumeration so that every case ends with a full comparison
		if ok {
			hist = append(hist, opRec{Op: "final commit+leaves"})
			ok = commitAndEnumerate()
		}
		_ = committedOnce
		// epilogue of a decorated case: a few more writes, then a commit that one failing Put may cut short; the root
		// of that commit, enumerated through the second instance, is either not there or complete
		if ok && hook != nil && aux.Bool() {
			nExtra := aux.Range(1, 6)
			for i := 0; i < nExtra && ok; i++ {
				k := pool[aux.Intn(len(pool))]
				if aux.Chance(1, 3) && len(model) > 0 {
					hist = append(hist, opRec{"delete", vk.Hex(k), ""})
					if derr := tr.Delete(cp(k)); derr != nil {
						fail("op-error:Delete", fmt.Sprintf("Delete(%x) error: %v", k, derr))
						ok = false
					}
					delete(model, string(k))
				} else {
					v := triegen.Value(aux)
					hist = append(hist, opRec{"update", vk.Hex(k), vk.Hex(v)})
					if uerr := tr.Update(cp(k), cp(v)); uerr != nil {
						fail("op-error:Update", fmt.Sprintf("Update(%x,%x) error: %v", k, v, uerr))
						ok = false
					}
					model[string(k)] = cp(v)
				}
			}
			if ok {
				pre, _ := tr.RootHash()
				pre = cp(pre)
				hook.n = 0
				hook.failAt = 1 + aux.Intn(10)
				hist = append(hist, opRec{Op: "commit with a failing storage Put", Value: fmt.Sprintf("put #%d", hook.failAt)})
				cerr := tr.Commit()
				hook.failAt = 0
				switch {
				case cerr == nil:
					r.Count("epilogue_commits_not_reaching_the_fault", 1)
					ok = commitAndEnumerate()
				case hook.faults == 0:
					fail("op-error:Commit", fmt.Sprintf("Commit error: %v", cerr))
					ok = false
				default:
					r.Count("epilogue_commits_cut_short_by_injected_put_fault", 1)
					ok = observeRoot(pre, "after a Commit that failed on an injected storage write fault", "partial-root-visible-after-failed-commit:")
				}
			}
		}

		// shape signature
		var evs []string
		nontrivial := false
		for e := range events {
			evs = append(evs, e)
			if !strings.HasPrefix(e, "ins b+0 e+0 l+0") && !strings.HasPrefix(e, "del b+0 e+0 l+0") && !strings.HasPrefix(e, "ins b+0 e+0 l+1") {
				nontrivial = true
			}
		}
		sort.Strings(evs)
		for _, e := range evs {
			r.Count("event: "+e, 1)
		}
		if nontrivial {
			r.ShapeHash(append([]string{fmt.Sprint(level)}, evs...)...)
		} else {
			r.Trivial()
		}
		r.Max("max_live_keys", int64(len(model)))
		if c.Idx < 40 && r.NeedSample() {
			h := hist
			if len(h) > 12 {
				h = h[:12]
			}
			r.Sample(map[string]interface{}{"case": c.Idx, "level": level, "pool_keys": len(pool), "ops": len(hist), "first_ops": h, "events": evs})
		}
	})
	r.Finish()
}
