package main

import (
	"errors"

	"github.com/ElrondNetwork/elrond-go/data"
)

var errInjectedPut = errors.New("verif: injected storage write fault")

// hookDB decorates the node storage the trie storage manager writes to. Commit holds only the committing trie's
// own mutex while it writes its nodes, so another trie instance over the same storage can run between two node
// writes: afterPut (called after a successful write, in the committing goroutine) is that other party.
// failAt makes the n-th write since the counter was reset fail once.
type hookDB struct {
	data.DBWriteCacher
	n        int
	failAt   int
	faults   int
	afterPut func(n int)
}

// Put -
func (h *hookDB) Put(key, val []byte) error {
	h.n++
	if h.failAt > 0 && h.n == h.failAt {
		h.faults++
		return errInjectedPut
	}
	err := h.DBWriteCacher.Put(key, val)
	if err == nil && h.afterPut != nil {
		h.afterPut(h.n)
	}
	return err
}

// IsInterfaceNil -
func (h *hookDB) IsInterfaceNil() bool { return h == nil }
