package main

import (
	"fmt"
	"runtime"
	"sort"
	"sync"
	"sync/atomic"
	"time"

	"github.com/anishathalye/porcupine"
	"verif/internal/vk"
)

// Same-key add-if-missing storms (second concurrent phase of C28).
//
// Per case one long-lived cache (capacityLRU directly or behind lrucache.NewCacheWithSizeInBytes) that holds 100..1500
// filler items and has room for every hot key on top of them (nothing is ever evicted in this phase, so the reference
// LRU restricted to one key is a register: absent / present with the value of the add that put it there). 3..8
// contender goroutines and 2..4 reader goroutines live as long as the case. The case is a sequence of 40..120
// rounds: in a round every contender is handed the same hot key - a fresh one, one that was removed earlier, now and
// then one that is still present - and, released together by a spinning barrier, all call AddSizedIfMissing /
// HasOrAdd for it (same size, own value). The readers never stop: Contains and Peek on the hot key of the moment and
// on other keys, now and then Keys() / Len() / SizeInBytesContained(), so the cache's mutex is always contended.
// Every few rounds a present hot key is removed.
// Oracles (none reads the clock):
//   - directly after the round: exactly one contender is told that an absent key was missing, nobody for a present
//     key;
//   - per key the calls and answers of the contenders, the removals and the recorded reads (up to 3 per reader and
//     round; call/return stamps from one atomic counter) are checked with porcupine against the register model: two
//     "was missing, added" answers for one absent key, or a read that sees a value nobody could have put, have no
//     linearization;
//   - every 25 rounds and at the end (no add or removal in flight): Keys() lists every key once, Len() = number of
//     keys listed = fillers + hot keys added and not removed, SizeInBytesContained() = sum of the sizes of the keys
//     present, Peek gives for every hot key the value of the contender that was told "missing".

const (
	keyStormNotLin     = "not-linearizable mode=concurrent-same-key"
	keyStormTwice      = "add-if-missing-told-missing-more-than-once mode=concurrent-same-key"
	keyStormNobody     = "absent-key-reported-found-to-everybody mode=concurrent-same-key"
	keyStormPresent    = "present-key-reported-missing mode=concurrent-same-key"
	keyStormDupKeys    = "key-listed-more-than-once mode=concurrent-same-key"
	keyStormKeySet     = "key-set-mismatch mode=concurrent-same-key"
	keyStormLen        = "len-mismatch mode=concurrent-same-key"
	keyStormSize       = "size-mismatch mode=concurrent-same-key"
	keyStormPeek       = "peek-result-mismatch mode=concurrent-same-key"
	stormRecordedReads = 3
)

// spinBarrier releases n goroutines at (almost) the same instant; reusable
type spinBarrier struct {
	n       int32
	arrived int32
	gen     int32
}

func (b *spinBarrier) wait() {
	g := atomic.LoadInt32(&b.gen)
	if atomic.AddInt32(&b.arrived, 1) == b.n {
		atomic.StoreInt32(&b.arrived, 0)
		atomic.AddInt32(&b.gen, 1)
		return
	}
	for spins := 0; atomic.LoadInt32(&b.gen) == g; spins++ {
		if spins > 20000 {
			time.Sleep(50 * time.Microsecond) // somebody is late (loaded machine): stop burning a core
		} else if spins > 300 {
			runtime.Gosched()
		}
	}
}

// register model: the reference LRU restricted to one key while nothing is evicted
type regState struct {
	present bool
	val     int
}

var registerModel = porcupine.Model{
	Init: func() interface{} { return regState{} },
	Step: func(st interface{}, inI interface{}, outI interface{}) (bool, interface{}) {
		s, in, out := st.(regState), inI.(input), outI.(output)
		switch in.Op {
		case opAddIfMissing:
			if s.present {
				return out.Ok, s
			}
			return !out.Ok, regState{present: true, val: in.Val}
		case opContains:
			return out.Ok == s.present, s
		case opPeek:
			return out.Ok == s.present && (!s.present || out.Val == s.val), s
		case opRemove:
			return out.Ok == s.present, regState{}
		}
		return true, s
	},
	Equal: func(a, b interface{}) bool { return a.(regState) == b.(regState) },
}

type stormJob struct {
	in input
}

func stormCase(r *vk.Run, c *vk.Case) {
	rng := c.Rng
	nFill := rng.Range(100, 1500)
	rounds := rng.Range(40, 120)
	const maxSize = 9
	conf := cfg{maxItems: nFill + rounds + rng.Range(1, 50), maxBytes: int64(nFill + rounds*maxSize + rng.Range(1, 500))}
	kind := rng.Intn(2)
	s, err := newSut(kind, conf)
	if err != nil {
		r.Violation(c.Idx, "constructor", fmt.Sprintf("constructor refused %+v: %v", conf, err), nil)
		return
	}
	for i := 0; i < nFill; i++ {
		s.apply(input{Op: opAdd, Key: fmt.Sprintf("f%d", i), Val: -1, Size: 1})
	}
	contenders := rng.Range(3, 8)
	readers := rng.Range(2, 4)

	// all hot keys of the case are drawn up front, so that the readers can index them without synchronisation
	hotKeys := make([]string, rounds)
	size := map[string]int64{}
	for i := range hotKeys {
		hotKeys[i] = fmt.Sprintf("h%d", i)
		size[hotKeys[i]] = int64(rng.Range(0, maxSize))
	}
	value := map[string]int{}                     // hot keys present -> value of the add that put them there
	history := map[string][]porcupine.Operation{} // per key: add-if-missing calls and removals (reads are added at the end)
	var trace []string
	failed := false
	fail := func(key, what string, extra map[string]interface{}) {
		tr := trace
		if len(tr) > 60 {
			tr = tr[len(tr)-60:]
		}
		d := map[string]interface{}{"impl": s.name(), "max_items": conf.maxItems, "max_bytes": conf.maxBytes, "fillers": nFill, "contenders": contenders, "readers": readers, "trace_tail": tr}
		for k, v := range extra {
			d[k] = v
		}
		r.Violation(c.Idx, key, what, d)
		failed = true
	}
	sortedHot := func() []string {
		var out []string
		for k := range value {
			out = append(out, k)
		}
		sort.Strings(out)
		return out
	}
	checkState := func(when string) {
		r.Eval(1)
		var ks []string
		var n int
		var bytes uint64
		if p, v, st := vk.Guard(func() { ks = s.keys(); n = s.length(); bytes = s.size() }); p {
			fail("panic:"+vk.TopFrame(st), fmt.Sprintf("%s: Keys()/Len()/SizeInBytesContained() panicked: %v", when, v), map[string]interface{}{"panic": fmt.Sprint(v), "stack": st})
			return
		}
		seen := map[string]int{}
		fillers := 0
		for _, k := range ks {
			if _, hot := size[k]; hot {
				seen[k]++
			} else {
				fillers++
			}
		}
		want := int64(nFill)
		for _, k := range sortedHot() {
			want += size[k]
			if seen[k] > 1 {
				fail(keyStormDupKeys, fmt.Sprintf("%s: Keys() lists %s %d times", when, k, seen[k]), nil)
				return
			}
		}
		for k := range seen {
			if _, ok := value[k]; !ok {
				fail(keyStormKeySet, fmt.Sprintf("%s: Keys() lists %s, which was removed / never added", when, k), nil)
				return
			}
		}
		if fillers != nFill || len(seen) != len(value) {
			fail(keyStormKeySet, fmt.Sprintf("%s: Keys() lists %d filler keys and %d hot keys, the reference holds %d and %d", when, fillers, len(seen), nFill, len(value)), nil)
			return
		}
		if n != nFill+len(value) {
			fail(keyStormLen, fmt.Sprintf("%s: Len() %d, the reference holds %d keys (Keys() lists %d)", when, n, nFill+len(value), len(ks)), nil)
			return
		}
		if bytes != uint64(want) {
			fail(keyStormSize, fmt.Sprintf("%s: SizeInBytesContained() %d, sum of the sizes of the %d keys present %d", when, bytes, n, want), nil)
			return
		}
		for _, k := range sortedHot() {
			out := s.apply(input{Op: opPeek, Key: k})
			if !out.Ok || out.Val != value[k] {
				fail(keyStormPeek, fmt.Sprintf("%s: Peek(%s) = (%d,%v), the add that was told \"missing\" carried value %d", when, k, out.Val, out.Ok, value[k]), nil)
				return
			}
		}
	}

	// ---- the goroutines of the case
	var clock int64
	var current int32 // index into hotKeys of the key of the round
	var stop int32
	var panicked atomic.Bool
	guard := func(what string, body func()) {
		if p, v, st := vk.Guard(body); p {
			panicked.Store(true)
			r.Violation(c.Idx, "panic:"+vk.TopFrame(st), fmt.Sprintf("%s panicked in a same-key storm: %v", what, v), map[string]interface{}{"panic": fmt.Sprint(v), "stack": st, "impl": s.name()})
		}
	}
	barrier := &spinBarrier{n: int32(contenders)}
	jobs := make([]chan stormJob, contenders)
	answers := make([]porcupine.Operation, contenders) // slot g is written by contender g, read after the round
	var roundWG, readersWG, contendersWG sync.WaitGroup
	for g := 0; g < contenders; g++ {
		g := g
		jobs[g] = make(chan stormJob, 1)
		contendersWG.Add(1)
		go func() {
			defer contendersWG.Done()
			for j := range jobs[g] {
				barrier.wait()
				guard(j.in.String(), func() {
					call := atomic.AddInt64(&clock, 1)
					out := s.apply(j.in)
					ret := atomic.AddInt64(&clock, 1)
					answers[g] = porcupine.Operation{ClientId: g, Input: j.in, Call: call, Output: out, Return: ret}
				})
				roundWG.Done()
			}
		}()
	}
	reads := make([][]porcupine.Operation, readers) // owned by the reader until it has stopped
	for i := 0; i < readers; i++ {
		i := i
		id := contenders + 1 + i
		readersWG.Add(1)
		go func() {
			defer readersWG.Done()
			lastKey, recorded, n := int32(-1), 0, 0
			defer func() { r.Count("storm_reads", n) }()
			for ; atomic.LoadInt32(&stop) == 0; n++ {
				cur := atomic.LoadInt32(&current)
				if cur != lastKey {
					lastKey, recorded = cur, 0
				}
				in := input{Op: opContains, Key: hotKeys[cur]}
				switch {
				case n%64 == 63:
					in.Op = opKeys + (n/64)%3 // Keys / Len / SizeInBytesContained: answers not used here
				case (n+i)%8 == 3:
					in.Key = "not a key"
				case (n+i)%2 == 0:
					in.Op = opPeek
				}
				guard(in.String(), func() {
					if recorded < stormRecordedReads && in.Key == hotKeys[cur] && (in.Op == opContains || in.Op == opPeek) {
						recorded++
						call := atomic.AddInt64(&clock, 1)
						out := s.apply(in)
						ret := atomic.AddInt64(&clock, 1)
						reads[i] = append(reads[i], porcupine.Operation{ClientId: id, Input: in, Call: call, Output: out, Return: ret})
					} else {
						s.apply(in)
					}
				})
				if n%256 == 255 {
					runtime.Gosched()
				}
			}
		}()
	}
	stopped := false
	stopAll := func() {
		if stopped {
			return
		}
		stopped = true
		for _, ch := range jobs {
			close(ch)
		}
		contendersWG.Wait()
		atomic.StoreInt32(&stop, 1)
		readersWG.Wait()
	}
	defer stopAll()

	describe := func(hist []porcupine.Operation) []string {
		var out []string
		for _, o := range hist {
			out = append(out, fmt.Sprintf("client %d [%d,%d] %s -> %+v", o.ClientId, o.Call, o.Return, o.Input.(input), o.Output.(output)))
		}
		return out
	}
	// linearizability of everything that happened to one key (only called when the readers have stopped)
	checkKey := func(k string) {
		hist := append([]porcupine.Operation{}, history[k]...)
		for _, rd := range reads {
			for _, o := range rd {
				if o.Input.(input).Key == k {
					hist = append(hist, o)
				}
			}
		}
		sort.Slice(hist, func(i, j int) bool { return hist[i].Call < hist[j].Call })
		r.Eval(1)
		r.Count("storm_reads_recorded", len(hist)-len(history[k]))
		switch porcupine.CheckOperationsTimeout(registerModel, hist, 60*time.Second) {
		case porcupine.Unknown:
			r.Inconclusive(fmt.Sprintf("porcupine timed out on a same-key history of %d operations", len(hist)))
		case porcupine.Illegal:
			fail(keyStormNotLin, fmt.Sprintf("the history of key %s (%d add-if-missing calls and removals, %d reads, %s, %d contenders) has no linearization against the reference", k, len(history[k]), len(hist)-len(history[k]), s.name(), contenders), map[string]interface{}{"history": describe(hist)})
		}
	}

	serial, nextFresh := 0, 0
	var removed []string
	for round := 0; round < rounds && !failed; round++ {
		var k string
		switch p := rng.Intn(20); {
		case p < 2 && len(removed) > 0:
			i := rng.Intn(len(removed))
			k = removed[i]
			removed = append(removed[:i], removed[i+1:]...)
		case p < 3 && len(value) > 0:
			ks := sortedHot()
			k = ks[rng.Intn(len(ks))]
		default:
			k = hotKeys[nextFresh]
			nextFresh++
		}
		_, wasPresent := value[k]
		var idx int
		fmt.Sscanf(k, "h%d", &idx)
		atomic.StoreInt32(&current, int32(idx))
		roundWG.Add(contenders)
		for g := 0; g < contenders; g++ {
			serial++
			jobs[g] <- stormJob{in: input{Op: opAddIfMissing, Key: k, Val: serial, Size: size[k]}}
		}
		roundWG.Wait()
		if panicked.Load() {
			return
		}
		missing, winner := 0, 0
		for g := 0; g < contenders; g++ {
			history[k] = append(history[k], answers[g])
			if !answers[g].Output.(output).Ok {
				missing++
				winner = answers[g].Input.(input).Val
			}
		}
		r.Eval(1)
		r.Count("storm_same_key_races", 1)
		r.Count("storm_concurrent_add_if_missing_calls", contenders)
		if wasPresent {
			r.Count("storm_races_on_a_present_key", 1)
		} else {
			r.Count("storm_races_on_an_absent_key", 1)
		}
		trace = append(trace, fmt.Sprintf("round %d: %d x AddSizedIfMissing(%s,size %d) at once, key present before: %v -> told missing %d, told found %d", round, contenders, k, size[k], wasPresent, missing, contenders-missing))
		bad := ""
		switch {
		case wasPresent && missing > 0:
			bad = keyStormPresent
		case !wasPresent && missing > 1:
			bad = keyStormTwice
		case !wasPresent && missing == 0:
			bad = keyStormNobody
		}
		if bad != "" {
			stopAll()
			checkKey(k) // the same witness seen by the linearizability checker
			fail(bad, fmt.Sprintf("round %d: %d concurrent add-if-missing calls for key %s (present before: %v): %d were told it was missing (%s)", round, contenders, k, wasPresent, missing, s.name()), map[string]interface{}{"history": describe(history[k])})
			return
		}
		if !wasPresent {
			value[k] = winner
		}
		// now and then a removal (the readers keep going), and a look at the whole cache
		if rng.Chance(1, 8) && len(value) > 0 {
			ks := sortedHot()
			rk := ks[rng.Intn(len(ks))]
			in := input{Op: opRemove, Key: rk}
			call := atomic.AddInt64(&clock, 1)
			out := s.apply(in)
			ret := atomic.AddInt64(&clock, 1)
			history[rk] = append(history[rk], porcupine.Operation{ClientId: contenders, Input: in, Call: call, Output: out, Return: ret})
			trace = append(trace, fmt.Sprintf("round %d: Remove(%s) -> %v", round, rk, out.Ok))
			delete(value, rk)
			removed = append(removed, rk)
			r.Count("storm_removes", 1)
		}
		if round%25 == 24 {
			checkState(fmt.Sprintf("after round %d", round))
		}
	}
	stopAll()
	if failed || panicked.Load() {
		return
	}
	checkState("at the end of the case")
	if failed {
		return
	}
	var keys []string
	for k := range history {
		keys = append(keys, k)
	}
	sort.Strings(keys)
	for _, k := range keys {
		checkKey(k)
		if failed {
			return
		}
	}
	r.Count("storm_cases", 1)
	r.Count("storm_keys_checked_with_porcupine", len(keys))
	r.Shape(fmt.Sprintf("storm impl%d contenders%d readers%d fillers~%d", kind, contenders, readers, nFill/500*500))
	if r.NeedSample() && c.Idx%11 == 0 && len(trace) > 6 {
		r.Sample(map[string]interface{}{"phase": "same-key storm", "impl": s.name(), "fillers": nFill, "first_events": trace[:6]})
	}
}
