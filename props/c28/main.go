// C28 — the capacity-bounded LRU cache behaves like a reference LRU with an item limit and a byte
// limit that always keeps the most recent item.
// Monitor shape: RM (sequential reference model compared after every operation: Keys() order, Len,
// SizeInBytesContained, read results) + HIST (short concurrent histories checked with porcupine
// against the same whole-cache model; same-key add-if-missing storms checked per key against a register
// model and against Keys/Len/Size at quiescent points, see storm.go) + RACE (race reports are evidence only).
package main

import (
	"fmt"
	"runtime"
	"sort"
	"strings"
	"sync"
	"sync/atomic"
	"time"

	logger "github.com/ElrondNetwork/elrond-go-logger"
	"github.com/ElrondNetwork/elrond-go/storage/lrucache"
	"github.com/ElrondNetwork/elrond-go/storage/lrucache/capacity"
	"github.com/anishathalye/porcupine"
	"verif/internal/vk"
)

// ---------------------------------------------------------------------------------------
// reference model (purely functional: every step returns a fresh slice)

type ent struct {
	k  string
	v  int
	sz int64
}

type cfg struct {
	maxItems int
	maxBytes int64
}

// state: index 0 = oldest, last = most recent
type state []ent

func (s state) find(k string) int {
	for i := range s {
		if s[i].k == k {
			return i
		}
	}
	return -1
}

func (s state) bytes() int64 {
	t := int64(0)
	for _, e := range s {
		t += e.sz
	}
	return t
}

func (s state) keys() []string {
	out := make([]string, len(s))
	for i, e := range s {
		out[i] = e.k
	}
	return out
}

func (s state) without(i int) state {
	n := make(state, 0, len(s))
	n = append(n, s[:i]...)
	return append(n, s[i+1:]...)
}

// evict removes the oldest items while more than one item is held and a limit is exceeded
func (c cfg) evict(s state) (state, []string) {
	var gone []string
	for len(s) > 1 && (len(s) > c.maxItems || s.bytes() > c.maxBytes) {
		gone = append(gone, s[0].k)
		s = s.without(0)
	}
	return s, gone
}

// put: insert or update (update refreshes recency and replaces value and size)
func (c cfg) put(s state, k string, v int, sz int64) (state, []string, bool) {
	existed := false
	if i := s.find(k); i >= 0 {
		s = s.without(i)
		existed = true
	} else {
		s = append(state{}, s...)
	}
	s = append(s, ent{k, v, sz})
	s, gone := c.evict(s)
	return s, gone, existed
}

func (c cfg) touch(s state, k string) (state, int, bool) {
	i := s.find(k)
	if i < 0 {
		return s, 0, false
	}
	e := s[i]
	n := s.without(i)
	n = append(n, e)
	return n, e.v, true
}

// ---------------------------------------------------------------------------------------
// operations

const (
	opAdd = iota
	opAddIfMissing
	opAddRet
	opGet
	opPeek
	opContains
	opRemove
	opPurge
	opKeys
	opLen
	opSize
	numOps
)

var opNames = []string{"AddSized", "AddSizedIfMissing", "AddSizedAndReturnEvicted", "Get", "Peek", "Contains", "Remove", "Purge", "Keys", "Len", "SizeInBytesContained"}

type input struct {
	Op   int
	Key  string
	Val  int
	Size int64
}

type output struct {
	Ok      bool   // found / contained / removed
	Val     int    // value read
	Keys    string // Keys(), comma separated oldest first
	N       int    // Len
	Bytes   uint64 // SizeInBytesContained
	Evicted bool   // eviction flag (observation only)
	EvKeys  string // keys returned by AddSizedAndReturnEvicted (observation only)
}

func (in input) String() string {
	switch in.Op {
	case opAdd, opAddIfMissing, opAddRet:
		return fmt.Sprintf("%s(%s,v%d,size %d)", opNames[in.Op], in.Key, in.Val, in.Size)
	case opGet, opPeek, opContains, opRemove:
		return fmt.Sprintf("%s(%s)", opNames[in.Op], in.Key)
	}
	return opNames[in.Op] + "()"
}

// step applies one operation to the model; the returned output holds the fields the property determines
func (c cfg) step(s state, in input) (state, output, []string) {
	switch in.Op {
	case opAdd, opAddRet:
		n, gone, _ := c.put(s, in.Key, in.Val, in.Size)
		return n, output{}, gone
	case opAddIfMissing:
		if s.find(in.Key) >= 0 {
			return s, output{Ok: true}, nil
		}
		n, gone, _ := c.put(s, in.Key, in.Val, in.Size)
		return n, output{Ok: false}, gone
	case opGet:
		n, v, ok := c.touch(s, in.Key)
		return n, output{Ok: ok, Val: v}, nil
	case opPeek:
		if i := s.find(in.Key); i >= 0 {
			return s, output{Ok: true, Val: s[i].v}, nil
		}
		return s, output{}, nil
	case opContains:
		return s, output{Ok: s.find(in.Key) >= 0}, nil
	case opRemove:
		if i := s.find(in.Key); i >= 0 {
			return s.without(i), output{Ok: true}, nil
		}
		return s, output{}, nil
	case opPurge:
		return state{}, output{}, nil
	case opKeys:
		return s, output{Keys: strings.Join(s.keys(), ",")}, nil
	case opLen:
		return s, output{N: len(s)}, nil
	case opSize:
		return s, output{Bytes: uint64(s.bytes())}, nil
	}
	return s, output{}, nil
}

// agrees compares the part of the real output that the property determines
func agrees(in input, want, got output) bool {
	switch in.Op {
	case opAddIfMissing, opContains, opRemove:
		return want.Ok == got.Ok
	case opGet, opPeek:
		return want.Ok == got.Ok && (!want.Ok || want.Val == got.Val)
	case opKeys:
		return want.Keys == got.Keys
	case opLen:
		return want.N == got.N
	case opSize:
		return want.Bytes == got.Bytes
	}
	return true
}

// ---------------------------------------------------------------------------------------
// the two ways the real cache is driven

type sut interface {
	apply(in input) output
	keys() []string
	length() int
	size() uint64
	name() string
}

// direct: storage/lrucache/capacity
type rawLRU interface {
	Purge()
	AddSized(key, value interface{}, sizeInBytes int64) bool
	AddSizedAndReturnEvicted(key, value interface{}, sizeInBytes int64) map[interface{}]interface{}
	Get(key interface{}) (interface{}, bool)
	Contains(key interface{}) bool
	AddSizedIfMissing(key, value interface{}, sizeInBytes int64) (bool, bool)
	Peek(key interface{}) (interface{}, bool)
	Remove(key interface{}) bool
	Keys() []interface{}
	Len() int
	SizeInBytesContained() uint64
}

type direct struct{ c rawLRU }

func (d *direct) name() string { return "capacityLRU" }
func (d *direct) keys() []string {
	ks := d.c.Keys()
	out := make([]string, len(ks))
	for i, k := range ks {
		out[i], _ = k.(string)
	}
	return out
}
func (d *direct) length() int  { return d.c.Len() }
func (d *direct) size() uint64 { return d.c.SizeInBytesContained() }
func (d *direct) apply(in input) output {
	switch in.Op {
	case opAdd:
		return output{Evicted: d.c.AddSized(in.Key, in.Val, in.Size)}
	case opAddRet:
		m := d.c.AddSizedAndReturnEvicted(in.Key, in.Val, in.Size)
		var ks []string
		for k := range m {
			ks = append(ks, fmt.Sprint(k))
		}
		sort.Strings(ks)
		return output{Evicted: len(m) > 0, EvKeys: strings.Join(ks, ",")}
	case opAddIfMissing:
		found, ev := d.c.AddSizedIfMissing(in.Key, in.Val, in.Size)
		return output{Ok: found, Evicted: ev}
	case opGet:
		v, ok := d.c.Get(in.Key)
		iv, _ := v.(int)
		return output{Ok: ok, Val: iv}
	case opPeek:
		v, ok := d.c.Peek(in.Key)
		iv, _ := v.(int)
		return output{Ok: ok, Val: iv}
	case opContains:
		return output{Ok: d.c.Contains(in.Key)}
	case opRemove:
		return output{Ok: d.c.Remove(in.Key)}
	case opPurge:
		d.c.Purge()
	case opKeys:
		return output{Keys: strings.Join(d.keys(), ",")}
	case opLen:
		return output{N: d.c.Len()}
	case opSize:
		return output{Bytes: d.c.SizeInBytesContained()}
	}
	return output{}
}

// wrapped: storage/lrucache.NewCacheWithSizeInBytes (the storage.Cacher in front of the capacity LRU)
type cacher interface {
	Clear()
	Put(key []byte, value interface{}, sizeInBytes int) bool
	Get(key []byte) (interface{}, bool)
	Has(key []byte) bool
	Peek(key []byte) (interface{}, bool)
	HasOrAdd(key []byte, value interface{}, sizeInBytes int) (bool, bool)
	Remove(key []byte)
	Keys() [][]byte
	Len() int
	SizeInBytesContained() uint64
}

type wrapped struct{ c cacher }

func (w *wrapped) name() string { return "lruCache(sizeInBytes)" }
func (w *wrapped) keys() []string {
	ks := w.c.Keys()
	out := make([]string, len(ks))
	for i, k := range ks {
		out[i] = string(k)
	}
	return out
}
func (w *wrapped) length() int  { return w.c.Len() }
func (w *wrapped) size() uint64 { return w.c.SizeInBytesContained() }
func (w *wrapped) apply(in input) output {
	switch in.Op {
	case opAdd, opAddRet:
		return output{Evicted: w.c.Put([]byte(in.Key), in.Val, int(in.Size))}
	case opAddIfMissing:
		has, _ := w.c.HasOrAdd([]byte(in.Key), in.Val, int(in.Size))
		return output{Ok: has}
	case opGet:
		v, ok := w.c.Get([]byte(in.Key))
		iv, _ := v.(int)
		return output{Ok: ok, Val: iv}
	case opPeek:
		v, ok := w.c.Peek([]byte(in.Key))
		iv, _ := v.(int)
		return output{Ok: ok, Val: iv}
	case opContains:
		return output{Ok: w.c.Has([]byte(in.Key))}
	case opRemove:
		had := w.c.Has([]byte(in.Key))
		w.c.Remove([]byte(in.Key))
		return output{Ok: had}
	case opPurge:
		w.c.Clear()
	case opKeys:
		return output{Keys: strings.Join(w.keys(), ",")}
	case opLen:
		return output{N: w.c.Len()}
	case opSize:
		return output{Bytes: w.c.SizeInBytesContained()}
	}
	return output{}
}

func newSut(kind int, c cfg) (sut, error) {
	if kind == 0 {
		l, err := capacity.NewCapacityLRU(c.maxItems, c.maxBytes)
		if err != nil {
			return nil, err
		}
		return &direct{c: l}, nil
	}
	l, err := lrucache.NewCacheWithSizeInBytes(c.maxItems, c.maxBytes)
	if err != nil {
		return nil, err
	}
	return &wrapped{c: l}, nil
}

// ---------------------------------------------------------------------------------------

func genInput(rng *vk.Rand, c cfg, nKeys int, serial int, withObservers bool) input {
	in := input{Val: serial}
	in.Key = fmt.Sprintf("k%d", rng.Intn(nKeys))
	switch p := rng.Intn(100); {
	case p < 24:
		in.Op = opAdd
	case p < 36:
		in.Op = opAddIfMissing
	case p < 44:
		in.Op = opAddRet
	case p < 62:
		in.Op = opGet
	case p < 70:
		in.Op = opPeek
	case p < 76:
		in.Op = opContains
	case p < 86:
		in.Op = opRemove
	case p < 88:
		in.Op = opPurge
	default:
		if withObservers {
			in.Op = opKeys + rng.Intn(3)
		} else {
			in.Op = opGet
		}
	}
	// sizes 0..cap+5, biased towards small ones so that several items fit
	switch rng.Intn(4) {
	case 0:
		in.Size = int64(rng.Intn(int(c.maxBytes) + 6))
	case 1:
		in.Size = int64(rng.Intn(3))
	default:
		in.Size = int64(rng.Intn(int(c.maxBytes)/2 + 2))
	}
	return in
}

func sameSet(a, b []string) bool {
	if len(a) != len(b) {
		return false
	}
	x := append([]string{}, a...)
	y := append([]string{}, b...)
	sort.Strings(x)
	sort.Strings(y)
	for i := range x {
		if x[i] != y[i] {
			return false
		}
	}
	return true
}

func sequentialCase(r *vk.Run, c *vk.Case, nOps int) {
	rng := c.Rng
	conf := cfg{maxItems: rng.Range(1, 6), maxBytes: int64(rng.Range(1, 40))}
	kind := rng.Intn(2)
	s, err := newSut(kind, conf)
	if err != nil {
		r.Violation(c.Idx, "constructor", fmt.Sprintf("constructor refused %+v: %v", conf, err), nil)
		return
	}
	nKeys := rng.Range(2, 9)
	var model state
	var trace []string
	events := map[string]bool{}
	report := func(key, what string) {
		r.Violation(c.Idx, key, what, map[string]interface{}{
			"impl": s.name(), "max_items": conf.maxItems, "max_bytes": conf.maxBytes, "trace": trace,
			"model_keys_oldest_first": model.keys(), "real_keys_oldest_first": s.keys(),
			"model_bytes": model.bytes(), "real_bytes": s.size(),
		})
	}
	for i := 0; i < nOps; i++ {
		in := genInput(rng, conf, nKeys, i+1, false)
		before := model
		next, want, gone := conf.step(model, in)
		got := s.apply(in)
		model = next
		trace = append(trace, fmt.Sprintf("%s -> %+v", in, got))
		r.Eval(1)
		r.Count("op_"+opNames[in.Op], 1)

		// events, for the shape signature and the evidence
		if len(gone) > 0 {
			r.Count("evictions", len(gone))
			if len(before)+1 > conf.maxItems && before.find(in.Key) < 0 {
				events["evict-by-count"] = true
			}
			if before.bytes()+in.Size > conf.maxBytes {
				events["evict-by-bytes"] = true
			}
		}
		if (in.Op == opAdd || in.Op == opAddRet) && before.find(in.Key) >= 0 {
			r.Count("updates_of_existing_key", 1)
			if before[before.find(in.Key)].sz != in.Size {
				events["resize-update"] = true
				r.Count("resizing_updates", 1)
			}
			if before.find(in.Key) != len(before)-1 {
				events["update-refreshes"] = true
			}
			if len(gone) > 0 && !got.Evicted {
				r.Count("obs_eviction_flag_false_on_evicting_update", 1)
			}
		}
		if in.Op == opGet && want.Ok && before.find(in.Key) != len(before)-1 {
			events["get-refreshes"] = true
			r.Count("recency_refreshing_reads", 1)
		}
		if len(model) == 1 && model.bytes() > conf.maxBytes {
			events["oversize-single-kept"] = true
			r.Count("oversize_single_item_kept", 1)
		}
		if in.Op == opPurge && len(before) > 0 {
			events["purge"] = true
		}
		if in.Op == opRemove && want.Ok {
			events["remove-hit"] = true
		}

		if !agrees(in, want, got) {
			key := map[int]string{opAddIfMissing: "add-if-missing-found-mismatch", opContains: "contains-mismatch", opRemove: "remove-result-mismatch", opGet: "get-result-mismatch", opPeek: "peek-result-mismatch"}[in.Op]
			report(key, fmt.Sprintf("%s on %s (items %d, bytes %d): real %+v, reference %+v", in, s.name(), conf.maxItems, conf.maxBytes, got, want))
			return
		}
		rk := s.keys()
		mk := model.keys()
		if strings.Join(rk, ",") != strings.Join(mk, ",") {
			if sameSet(rk, mk) {
				report("recency-order-mismatch", fmt.Sprintf("after %s: Keys() oldest-first %v, reference %v", in, rk, mk))
			} else {
				report("key-set-mismatch", fmt.Sprintf("after %s: Keys() %v, reference %v", in, rk, mk))
			}
			return
		}
		if s.length() != len(model) {
			report("len-mismatch", fmt.Sprintf("after %s: Len() %d, reference %d", in, s.length(), len(model)))
			return
		}
		if s.size() != uint64(model.bytes()) {
			report("size-mismatch", fmt.Sprintf("after %s: SizeInBytesContained() %d, sum of sizes present %d", in, s.size(), model.bytes()))
			return
		}
	}
	if !events["evict-by-count"] && !events["evict-by-bytes"] {
		r.Trivial()
		return
	}
	var ev []string
	for k := range events {
		ev = append(ev, k)
	}
	sort.Strings(ev)
	r.Shape(fmt.Sprintf("seq impl%d items%d bytes%d/%s", kind, conf.maxItems, (conf.maxBytes+9)/10*10, strings.Join(ev, "+")))
	if r.NeedSample() && len(trace) > 12 {
		r.Sample(map[string]interface{}{"phase": "sequential", "impl": s.name(), "max_items": conf.maxItems, "max_bytes": conf.maxBytes, "first_ops": trace[:12]})
	}
}

// ---------------------------------------------------------------------------------------
// concurrent histories

func concurrentHistory(r *vk.Run, c *vk.Case, h int, rng *vk.Rand) {
	conf := cfg{maxItems: rng.Range(1, 4), maxBytes: int64(rng.Range(2, 20))}
	l, err := capacity.NewCapacityLRU(conf.maxItems, conf.maxBytes)
	if err != nil {
		r.Violation(c.Idx, "constructor", fmt.Sprintf("constructor refused %+v: %v", conf, err), nil)
		return
	}
	s := &direct{c: l}
	clients := rng.Range(4, 8)
	nKeys := rng.Range(2, 6)
	perClient := rng.Range(2, 5)
	// pre-generate the scripts so that the clients do not share a PRNG
	scripts := make([][]input, clients)
	yields := make([][]bool, clients)
	serial := 0
	for i := range scripts {
		for j := 0; j < perClient; j++ {
			serial++
			scripts[i] = append(scripts[i], genInput(rng, conf, nKeys, serial, true))
			yields[i] = append(yields[i], rng.Chance(1, 3))
		}
	}
	var clock int64
	var panicked atomic.Bool
	ops := make([][]porcupine.Operation, clients)
	start := make(chan struct{})
	var wg sync.WaitGroup
	for i := 0; i < clients; i++ {
		wg.Add(1)
		go func(id int) {
			defer wg.Done()
			<-start
			for j, in := range scripts[id] {
				if yields[id][j] {
					runtime.Gosched()
				}
				call := atomic.AddInt64(&clock, 1)
				var out output
				if p, v, st := vk.Guard(func() { out = s.apply(in) }); p {
					panicked.Store(true)
					r.Violation(c.Idx, "panic:"+vk.TopFrame(st), fmt.Sprintf("%s panicked under %d concurrent clients: %v", in, clients, v), map[string]interface{}{"panic": fmt.Sprint(v), "stack": st})
					return
				}
				ret := atomic.AddInt64(&clock, 1)
				ops[id] = append(ops[id], porcupine.Operation{ClientId: id, Input: in, Call: call, Output: out, Return: ret})
			}
		}(i)
	}
	close(start)
	wg.Wait()
	if panicked.Load() {
		return
	}

	var hist []porcupine.Operation
	for _, o := range ops {
		hist = append(hist, o...)
	}
	sort.Slice(hist, func(i, j int) bool { return hist[i].Call < hist[j].Call })
	overlap := 0
	for i := range hist {
		for j := i + 1; j < len(hist); j++ {
			if hist[j].Call < hist[i].Return {
				overlap++
			}
		}
	}
	r.Count("concurrent_histories", 1)
	r.Count("concurrent_operations", len(hist))
	if overlap > 0 {
		r.Count("histories_with_overlapping_operations", 1)
		r.Max("max_overlapping_pairs_in_one_history", int64(overlap))
	}

	model := porcupine.Model{
		Init: func() interface{} { return state{} },
		Step: func(st interface{}, inI interface{}, outI interface{}) (bool, interface{}) {
			n, want, _ := conf.step(st.(state), inI.(input))
			return agrees(inI.(input), want, outI.(output)), n
		},
		Equal: func(a, b interface{}) bool {
			x, y := a.(state), b.(state)
			if len(x) != len(y) {
				return false
			}
			for i := range x {
				if x[i] != y[i] {
					return false
				}
			}
			return true
		},
	}
	res := porcupine.CheckOperationsTimeout(model, hist, 60*time.Second)
	r.Eval(1)
	describe := func() []string {
		var out []string
		for _, o := range hist {
			out = append(out, fmt.Sprintf("client %d [%d,%d] %s -> %+v", o.ClientId, o.Call, o.Return, o.Input.(input), o.Output.(output)))
		}
		return out
	}
	switch res {
	case porcupine.Illegal:
		r.Violation(c.Idx, "not-linearizable", fmt.Sprintf("concurrent history %d of case %d (%d clients, %d ops, items %d, bytes %d) has no linearization against the reference LRU", h, c.Idx, clients, len(hist), conf.maxItems, conf.maxBytes),
			map[string]interface{}{"max_items": conf.maxItems, "max_bytes": conf.maxBytes, "history": describe()})
	case porcupine.Unknown:
		r.Inconclusive(fmt.Sprintf("porcupine timed out on a history of %d operations", len(hist)))
	default:
		if overlap > 0 {
			kinds := map[string]bool{}
			for _, o := range hist {
				kinds[opNames[o.Input.(input).Op]] = true
			}
			var ks []string
			for k := range kinds {
				ks = append(ks, k)
			}
			sort.Strings(ks)
			r.Shape(fmt.Sprintf("conc clients%d items%d ops:%s", clients, conf.maxItems, strings.Join(ks, "+")))
		} else {
			r.Trivial()
		}
		if r.NeedSample() && overlap > 3 && h == 0 && c.Idx%7 == 0 {
			r.Sample(map[string]interface{}{"phase": "concurrent", "max_items": conf.maxItems, "max_bytes": conf.maxBytes, "history": describe()})
		}
	}
}

func main() {
	_ = logger.SetLogLevel("*:NONE")
	r := vk.Start("C28")
	r.Rule("sequential: per case one cache (capacityLRU directly or behind lrucache.NewCacheWithSizeInBytes), item limit 1..6, byte limit 1..40, 2..9 keys, random AddSized / AddSizedIfMissing / AddSizedAndReturnEvicted / Get / Peek / Contains / Remove / Purge with sizes 0..limit+5 incl. resizing updates; a case is non-trivial when at least one eviction happened; distinct = (implementation, limits bucket, set of events seen). concurrent: 4..8 clients x 2..5 ops on <= 6 keys incl. Keys/Len/Size observers, checked with porcupine; non-trivial when operations overlapped. same-key storms: per case one long-lived cache with 100..1500 filler items and room for everything, 3..8 contender and 2..4 reader goroutines that live as long as the case, 40..120 rounds; in a round all contenders, released together by a spinning barrier, call add-if-missing for the same hot key (fresh, removed earlier, sometimes present; same size, own value) while the readers keep the mutex busy with Contains/Peek on that key and other keys and now and then Keys/Len/Size; a removal every few rounds; after every round the count of 'was missing' answers, every 25 rounds and at the end Keys/Len/Size/Peek against the reference, at the end per key a porcupine check of all its add-if-missing calls, removals and recorded reads against a one-key register model")
	r.Assume("reference LRU written in the harness: update = move to most-recent + replace value and size; eviction drops oldest while more than one item is held and (items > limit or bytes > limit)",
		"eviction flags / evicted maps returned by the add operations are recorded as observations only (the property does not state them)",
		"porcupine v1.3.0 is trusted; call/return stamps come from one atomic counter around each call",
		"negative sizes are outside the domain",
		"same-key storms: the cache has room for every key, so nothing is evicted and the reference LRU restricted to one key is a register (absent, or present with the value of the add-if-missing call that was told 'missing'); reads that are not recorded are left out of the histories (sound: they do not change the state); not replay-deterministic")
	r.MinShapes(40)

	seqCases := r.N(6000, 80000)
	seqOps := r.N(60, 120)
	concCases := r.N(400, 6000)
	histPerCase := r.N(10, 20)

	stormCases := r.N(60, 1200)
	firstStorm := seqCases + concCases

	t0 := time.Now() // phase timings go to the evidence only
	if r.ReplayCase < firstStorm {
		r.Parallel(firstStorm, func(c *vk.Case) {
			if c.Idx < seqCases {
				sequentialCase(r, c, seqOps)
				return
			}
			for h := 0; h < histPerCase; h++ {
				concurrentHistory(r, c, h, c.Rng)
			}
		})
	}
	t1 := time.Now()
	// same-key add-if-missing storms (see storm.go): few workers, so that the goroutines of a wave really run in parallel
	if r.ReplayCase < 0 || r.ReplayCase >= firstStorm {
		r.ParallelW(firstStorm+stormCases, 4, func(c *vk.Case) {
			if c.Idx < firstStorm {
				return
			}
			stormCase(r, c)
		})
	}
	r.Extra("phase_wall_s", map[string]float64{"sequential+concurrent histories": t1.Sub(t0).Seconds(), "same-key storms": time.Since(t1).Seconds()})

	if r.ReplayCase < 0 {
		if r.Counter("storm_races_on_an_absent_key") < int64(stormCases*30) {
			r.Inconclusive(fmt.Sprintf("only %d same-key add-if-missing races on an absent key were run", r.Counter("storm_races_on_an_absent_key")))
		}
		if r.Counter("histories_with_overlapping_operations") < int64(concCases*histPerCase/20) {
			r.Inconclusive(fmt.Sprintf("only %d of %d concurrent histories had overlapping operations", r.Counter("histories_with_overlapping_operations"), concCases*histPerCase))
		}
		races := vk.CollectRaces()
		if races == nil {
			races = []vk.RaceReport{}
		}
		r.Extra("race_reports", races)
		r.Extra("race_report_count", len(races))
	}
	r.Finish()
}
