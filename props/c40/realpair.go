package main

// Real pair phase: the real validator system contract calling the real staking system contract through
// the real vmContext. The staking contract is registered behind a thin decorator that (a) tells the
// harness which staking function ran and how it ended and (b) in "injection" cases turns a staking call
// that completed (and wrote storage) into a UserError, the way a late validation would.
// Natural failure used: staking.unStake promotes the first queued node (storage writes) and only then
// finds that too few nodes would be left ("unStake is not possible as too many left").

import (
	"fmt"
	"math/big"
	"os"
	"strings"

	"github.com/ElrondNetwork/elrond-go/config"
	"github.com/ElrondNetwork/elrond-go/marshal"
	"github.com/ElrondNetwork/elrond-go/process/smartContract/hooks"
	"github.com/ElrondNetwork/elrond-go/testscommon"
	"github.com/ElrondNetwork/elrond-go/vm"
	vmFactory "github.com/ElrondNetwork/elrond-go/vm/factory"
	"github.com/ElrondNetwork/elrond-go/vm/mock"
	vmProcess "github.com/ElrondNetwork/elrond-go/vm/process"
	"github.com/ElrondNetwork/elrond-go/vm/systemSmartContracts"
	vmcommon "github.com/ElrondNetwork/elrond-vm-common"
	"github.com/ElrondNetwork/elrond-vm-common/parsers"
	"verif/internal/vk"
)

type stakingDecorator struct {
	real     vm.SystemSmartContract
	mon      *monitor
	rng      *vk.Rand
	injectP  int // per cent
	calls    []string
	injected int
	natural  int
}

func (d *stakingDecorator) CanUseContract() bool       { return d.real.CanUseContract() }
func (d *stakingDecorator) SetNewGasCost(g vm.GasCost) { d.real.SetNewGasCost(g) }
func (d *stakingDecorator) IsInterfaceNil() bool       { return d == nil }
func (d *stakingDecorator) Execute(in *vmcommon.ContractCallInput) vmcommon.ReturnCode {
	nested := d.mon.cur != d.mon.top
	before := len(d.mon.cur.writes)
	rc := d.real.Execute(in)
	wrote := len(d.mon.cur.writes) > before
	tag := "S"
	if rc != vmcommon.Ok {
		tag = "F"
		if nested && wrote {
			d.natural++
			tag = "N" // natural failure after storage writes
		}
	} else if nested && wrote && d.injectP > 0 && d.rng.Intn(100) < d.injectP {
		switch in.Function {
		case "stake", "unStake", "unBond", "unJail":
			rc = vmcommon.UserError
			d.mon.AddReturnMessage("late failure injected by the harness")
			d.injected++
			tag = "I"
		}
	}
	if nested {
		d.calls = append(d.calls, in.Function+tag)
	}
	return rc
}

type realWorld struct {
	store map[akey][]byte
	mon   *monitor
	sysVM vmcommon.VMExecutionHandler
	dec   *stakingDecorator
	nonce uint64
	epoch uint32
}

func newRealWorld(r *vk.Run, c *vk.Case, correctLastUnjailed bool, injectP int) (*realWorld, error) {
	w := &realWorld{store: map[akey][]byte{}, nonce: 10, epoch: 1}
	hook := newHook(w.store)
	hook.CurrentNonceCalled = func() uint64 { return w.nonce }
	hook.CurrentRoundCalled = func() uint64 { return w.nonce }
	hook.CurrentEpochCalled = func() uint32 { return w.epoch }
	eei, err := systemSmartContracts.NewVMContext(hook, hooks.NewVMCryptoHook(), parsers.NewCallArgsParser(), &testscommon.AccountsStub{}, &mock.RaterMock{})
	if err != nil {
		return nil, err
	}
	w.mon = newMonitor(eei, r, c.Idx, "real-pair", w.store)

	stCfg := config.StakingSystemSCConfig{
		GenesisNodePrice:                     "1000",
		MinStakeValue:                        "1",
		UnJailValue:                          "10",
		MinStepValue:                         "10",
		UnBondPeriod:                         2,
		UnBondPeriodInEpochs:                 1,
		NumRoundsWithoutBleed:                1,
		MaximumPercentageToBleed:             1,
		BleedPercentagePerRound:              1,
		MaxNumberOfNodesForStake:             10,
		ActivateBLSPubKeyMessageVerification: false,
		MinUnstakeTokensValue:                "1",
	}
	epochs := config.EpochConfig{EnableEpochs: config.EnableEpochs{
		StakeEnableEpoch:                 0,
		StakingV2EnableEpoch:             0,
		DoubleKeyProtectionEnableEpoch:   0,
		UnbondTokensV2EnableEpoch:        0,
		ValidatorToDelegationEnableEpoch: 100000,
		CorrectLastUnjailedEnableEpoch:   100000,
	}}
	if correctLastUnjailed {
		epochs.EnableEpochs.CorrectLastUnjailedEnableEpoch = 0
	}
	marsh := &marshal.GogoProtoMarshalizer{}
	staking, err := systemSmartContracts.NewStakingSmartContract(systemSmartContracts.ArgsNewStakingSmartContract{
		StakingSCConfig:      stCfg,
		MinNumNodes:          1,
		Eei:                  w.mon,
		StakingAccessAddr:    vm.ValidatorSCAddress,
		JailAccessAddr:       vm.JailingAddress,
		EndOfEpochAccessAddr: vm.EndOfEpochAddress,
		Marshalizer:          marsh,
		EpochNotifier:        &mock.EpochNotifierStub{},
		EpochConfig:          epochs,
	})
	if err != nil {
		return nil, err
	}
	validator, err := systemSmartContracts.NewValidatorSmartContract(systemSmartContracts.ArgsValidatorSmartContract{
		StakingSCConfig:          stCfg,
		GenesisTotalSupply:       big.NewInt(100000000),
		Eei:                      w.mon,
		SigVerifier:              &mock.MessageSignVerifierMock{},
		StakingSCAddress:         vm.StakingSCAddress,
		ValidatorSCAddress:       vm.ValidatorSCAddress,
		Marshalizer:              marsh,
		EpochNotifier:            &mock.EpochNotifierStub{},
		EndOfEpochAddress:        vm.EndOfEpochAddress,
		MinDeposit:               "0",
		DelegationMgrSCAddress:   vm.DelegationManagerSCAddress,
		GovernanceSCAddress:      vm.GovernanceSCAddress,
		DelegationMgrEnableEpoch: 100000,
		EpochConfig:              epochs,
		ShardCoordinator:         &mock.ShardCoordinatorStub{},
	})
	if err != nil {
		return nil, err
	}
	w.dec = &stakingDecorator{real: staking, mon: w.mon, rng: c.Rng.Fork(), injectP: injectP}
	cont := vmFactory.NewSystemSCContainer()
	if err = cont.Add(vm.StakingSCAddress, w.dec); err != nil {
		return nil, err
	}
	if err = cont.Add(vm.ValidatorSCAddress, validator); err != nil {
		return nil, err
	}
	if err = eei.SetSystemSCContainer(cont); err != nil {
		return nil, err
	}
	sysVM, err := vmProcess.NewSystemVM(vmProcess.ArgsNewSystemVM{
		SystemEI: eei, SystemContracts: cont, VmType: []byte{0, 1}, GasSchedule: mock.NewGasScheduleNotifierMock(gasSchedule()),
	})
	if err != nil {
		return nil, err
	}
	w.sysVM = sysVM
	return w, nil
}

// tx runs one top-level call through the real system VM and judges / commits it
func (w *realWorld) tx(r *vk.Run, c *vk.Case, caller, rcpt []byte, fn string, value *big.Int, args ...[]byte) (vmcommon.ReturnCode, string) {
	w.nonce++
	w.dec.calls = w.dec.calls[:0]
	nat0, inj0 := w.dec.natural, w.dec.injected
	w.mon.trace = w.mon.trace[:0]
	w.mon.beginTx(rcpt, value)
	w.mon.logf("function %s args %d", fn, len(args))
	out, err := w.sysVM.RunSmartContractCall(&vmcommon.ContractCallInput{
		VMInput:       vmcommon.VMInput{CallerAddr: caller, CallValue: value, GasProvided: 1 << 40, Arguments: args},
		RecipientAddr: rcpt,
		Function:      fn,
	})
	r.Count("real_transactions", 1)
	r.Count("real_tx_"+fn, 1)
	if err != nil || out == nil {
		r.Count("real_tx_vm_error", 1)
		return vmcommon.ExecutionFailed, fmt.Sprint(err)
	}
	r.Count("real_nested_calls_succeeded", w.mon.nestedOK)
	r.Count("real_nested_calls_failed", w.mon.nestedFailed)
	if out.ReturnCode != vmcommon.Ok {
		// the whole transaction is dropped by the SC processor: nothing to judge, nothing committed
		r.Count("real_tx_top_level_failed", 1)
		return out.ReturnCode, out.ReturnMessage
	}
	w.mon.endTx(out)
	nat, inj := w.dec.natural-nat0, w.dec.injected-inj0
	r.Count("real_failed_nested_calls_with_writes", w.mon.failedWithEffects)
	r.Count("real_failed_nested_calls_with_writes_natural", nat)
	r.Count("real_failed_nested_calls_with_writes_injected", inj)
	if w.mon.failedWithEffects > 0 {
		r.Shape("real:" + fn + ":" + strings.Join(w.dec.calls, ","))
		if nat > 0 && r.Counter("real_samples") < 2 {
			r.Count("real_samples", 1)
			tr := append([]string{}, w.mon.trace...)
			if len(tr) > 30 {
				tr = tr[:30]
			}
			r.Sample(map[string]interface{}{"phase": "real-pair", "case": c.Idx, "function": fn, "staking_calls": strings.Join(w.dec.calls, ","), "trace": tr})
		}
	} else if w.mon.nestedOK+w.mon.nestedFailed > 0 {
		r.Trivial()
	}
	w.mon.commit()
	return out.ReturnCode, out.ReturnMessage
}

func blsKey(owner, i int) []byte {
	b := make([]byte, 96)
	copy(b, fmt.Sprintf("bls-key-%d-%d", owner, i))
	b[95] = byte(1 + owner*16 + i)
	return b
}

func userAddr(i int) []byte {
	b := make([]byte, 32)
	copy(b, fmt.Sprintf("\x01owner-%d", i))
	b[31] = byte(i)
	return b
}

func runRealCase(r *vk.Run, c *vk.Case) {
	rng := c.Rng
	injectP := 0
	if rng.Bool() {
		injectP = 30
	}
	w, err := newRealWorld(r, c, rng.Bool(), injectP)
	if err != nil {
		r.Violation(c.Idx, "constructor", err.Error(), nil)
		return
	}
	debug := os.Getenv("C40_DEBUG") != "" && c.Idx%50 == 0
	say := func(what string, rc vmcommon.ReturnCode, msg string) {
		if debug {
			fmt.Fprintf(os.Stderr, "case %d: %s -> %v %q calls=%v\n", c.Idx, what, rc, msg, w.dec.calls)
		}
	}
	nodePrice := int64(1000)
	maxNodes := rng.Range(1, 3)
	rc, msg := w.tx(r, c, vm.EndOfEpochAddress, vm.StakingSCAddress, "updateConfigMaxNodes", big.NewInt(0), big.NewInt(int64(maxNodes)).Bytes())
	say("updateConfigMaxNodes", rc, msg)

	nOwners := 2
	next := make([]int, nOwners)
	keysOf := make([][][]byte, nOwners)
	stake := func(o, n int) {
		args := [][]byte{big.NewInt(int64(n)).Bytes()}
		var ks [][]byte
		for i := 0; i < n; i++ {
			k := blsKey(o, next[o])
			next[o]++
			ks = append(ks, k)
			args = append(args, k, []byte("signature"))
		}
		rc, msg := w.tx(r, c, userAddr(o), vm.ValidatorSCAddress, "stake", big.NewInt(nodePrice*int64(n)), args...)
		say(fmt.Sprintf("stake owner %d x%d", o, n), rc, msg)
		if rc == vmcommon.Ok {
			keysOf[o] = append(keysOf[o], ks...)
		}
	}
	// fill the active set and the queue
	for o := 0; o < nOwners; o++ {
		stake(o, rng.Range(1, 3))
	}
	// the network raises the minimum: unStake of an active node now fails after the promotion of a queued one
	minNodes := rng.Range(1, maxNodes+2)
	rc, msg = w.tx(r, c, vm.EndOfEpochAddress, vm.StakingSCAddress, "updateConfigMinNodes", big.NewInt(0), big.NewInt(int64(minNodes)).Bytes())
	say(fmt.Sprintf("updateConfigMinNodes %d (max %d)", minNodes, maxNodes), rc, msg)

	nOps := rng.Range(6, 14)
	for i := 0; i < nOps; i++ {
		o := rng.Intn(nOwners)
		pick := func() [][]byte {
			if len(keysOf[o]) == 0 {
				return nil
			}
			n := rng.Range(1, 3)
			var ks [][]byte
			seen := map[int]bool{}
			for j := 0; j < n; j++ {
				x := rng.Intn(len(keysOf[o]))
				if seen[x] {
					continue
				}
				seen[x] = true
				ks = append(ks, keysOf[o][x])
			}
			return ks
		}
		switch x := rng.Intn(20); {
		case x < 7:
			if ks := pick(); ks != nil {
				rc, msg = w.tx(r, c, userAddr(o), vm.ValidatorSCAddress, "unStakeNodes", big.NewInt(0), ks...)
				say(fmt.Sprintf("unStakeNodes owner %d x%d", o, len(ks)), rc, msg)
			}
		case x < 10:
			if ks := pick(); ks != nil {
				rc, msg = w.tx(r, c, userAddr(o), vm.ValidatorSCAddress, "unStake", big.NewInt(0), ks...)
				say(fmt.Sprintf("unStake owner %d x%d", o, len(ks)), rc, msg)
			}
		case x < 13:
			stake(o, rng.Range(1, 2))
		case x < 15:
			if ks := pick(); ks != nil {
				w.nonce += 3
				rc, msg = w.tx(r, c, userAddr(o), vm.ValidatorSCAddress, "unBondNodes", big.NewInt(0), ks...)
				say(fmt.Sprintf("unBondNodes owner %d x%d", o, len(ks)), rc, msg)
			}
		case x < 16:
			if ks := pick(); ks != nil {
				rc, msg = w.tx(r, c, userAddr(o), vm.ValidatorSCAddress, "reStakeUnStakedNodes", big.NewInt(0), ks...)
				say("reStakeUnStakedNodes", rc, msg)
			}
		case x < 17:
			if ks := pick(); ks != nil {
				rc, msg = w.tx(r, c, vm.JailingAddress, vm.StakingSCAddress, "jail", big.NewInt(0), ks[0])
				say("jail", rc, msg)
				rc, msg = w.tx(r, c, userAddr(o), vm.ValidatorSCAddress, "unJail", big.NewInt(10), ks[0])
				say("unJail", rc, msg)
			}
		case x < 19:
			minNodes = rng.Range(1, maxNodes+2)
			rc, msg = w.tx(r, c, vm.EndOfEpochAddress, vm.StakingSCAddress, "updateConfigMinNodes", big.NewInt(0), big.NewInt(int64(minNodes)).Bytes())
			say(fmt.Sprintf("updateConfigMinNodes %d", minNodes), rc, msg)
		default:
			maxNodes = rng.Range(1, 4)
			rc, msg = w.tx(r, c, vm.EndOfEpochAddress, vm.StakingSCAddress, "updateConfigMaxNodes", big.NewInt(0), big.NewInt(int64(maxNodes)).Bytes())
			say(fmt.Sprintf("updateConfigMaxNodes %d", maxNodes), rc, msg)
		}
	}
}
