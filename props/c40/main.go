// C40 — a failed nested system-contract call leaves no storage effects (and no transfers).
// Monitor shape: runtime monitor with a reference model. The REAL vmContext, system SC container and
// system VM run (1) generated call trees of harness-defined contracts and (2) the real validator ->
// staking pair; a transparent wrapper around the vmContext records which frame wrote / transferred what
// and checks, after every nested call and on the final CreateVMOutput, that nothing done inside a failed
// nested call is visible while everything done by successful calls is.
package main

import (
	logger "github.com/ElrondNetwork/elrond-go-logger"
	"verif/internal/vk"
)

func main() {
	_ = logger.SetLogLevel("*:NONE")
	r := vk.Start("C40")
	r.Rule("synthetic: per case 3-5 script contracts in a real container, 4-6 transactions on one committed store; each transaction is a random call tree (outer makes 1-4 nested calls at random positions among its writes/transfers/reads, depth up to 3, every nested frame fails with p=1/2 with one of 5 non-Ok codes, 1/25 calls go to an address without contract), keys from a pool of 5 per address (own + foreign addresses) so frames overwrite each other, unique values/transfer data so every observation is attributable to a frame. real pair: real validatorSC -> real stakingSC, histories of stake/unStakeNodes/unBondNodes/config changes where staking.unStake fails after promoting a queued node (natural) and where a decorator turns a completed staking call into a failure (injected). A transaction is non-trivial when at least one nested call fails after a storage write or transfer; distinct = distinct call-tree signatures (success/failure structure + effect kinds).")
	r.Assume(
		"model: a frame's writes/transfers are kept iff the frame and all its ancestors returned Ok; committed store is re-synchronised to the model after every transaction so each transaction is judged on its own",
		"the merge of OutputTransfers of an account that received transfers both from the caller (before the call) and from inside the successful callee is outside this property (vmcommon.MergeOutputAccounts drops entries there): missing entries on such accounts are counted, not judged; balance deltas are always judged",
		"return data / return messages / gas of failed calls are not covered by the property",
		"the blockchain hook stub reports every account as not found, so GetBalance has no side effect",
	)
	r.MinShapes(r.N(200, 1000))

	nSyn := r.N(6000, 250000)
	nTx := r.N(4, 6)
	nReal := r.N(400, 15000)

	r.Parallel(nSyn+nReal, func(c *vk.Case) {
		if c.Idx < nSyn {
			runSynthCase(r, c, nTx)
		} else {
			runRealCase(r, c)
		}
	})
	if r.Counter("nested_calls_failed_with_effects") == 0 && r.ReplayCase < 0 {
		r.Inconclusive("no failing nested call with effects was executed")
	}
	if r.Counter("real_failed_nested_calls_with_writes") == 0 && r.ReplayCase < 0 {
		r.Inconclusive("real pair: no failing validator->staking call with storage writes was executed")
	}
	r.Finish()
}
