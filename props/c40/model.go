package main

// The monitor: a transparent wrapper around the REAL vmContext (every call is forwarded unchanged)
// that keeps a reference model of "what a nested call may leave behind":
//   * a storage overlay with an undo log per call frame (a failed frame is rolled back, a successful
//     frame hands its undo log to its caller, so a later failure of the caller undoes it too);
//   * per call level the list of transfers that must be present (K list) and the list of transfers made
//     by ExecuteOnDestContext itself for calls that failed afterwards (deadPre list, the effect that the
//     pinned tree is known to keep).
// Oracles run (a) on every storage read a contract performs, (b) right after every nested call returns
// (storage probes of every key the call touched, balance probes), (c) on the final VMOutput of the
// transaction.

import (
	"bytes"
	"encoding/hex"
	"fmt"
	"math/big"
	"sort"

	"github.com/ElrondNetwork/elrond-go/vm"
	vmcommon "github.com/ElrondNetwork/elrond-vm-common"
	"verif/internal/vk"
)

const (
	keyStorageSurvives = "effect=storage-write-survives"
	keyPrecallSurvives = "effect=pre-call-transfer-survives"
	keyInnerTransfer   = "effect=inner-transfer-survives"
	keySuccessLost     = "effect=successful-call-lost"
	keyStorageOther    = "effect=storage-mismatch"
	keyBalanceFailed   = "effect=balance-changed-after-failed-call"
	keyBalanceOther    = "effect=balance-delta-mismatch"
	keyTransferOther   = "effect=transfer-unexpected"
)

type akey struct{ addr, key string }

type xfer struct {
	dest, sender string
	value        *big.Int
	data         string
	gas          uint64
	precall      bool
	frame        int
}

func (x *xfer) sig() string {
	return fmt.Sprintf("%x|%s|%x|%d", x.dest, x.value.String(), x.data, x.gas)
}

type undoRec struct {
	k       akey
	present bool
	val     []byte
}

type wr struct {
	k   akey
	val string
}

type frame struct {
	id      int
	parent  *frame
	addr    string
	depth   int
	undo    []undoRec
	writes  []wr    // every write of the subtree that is still "kept"
	xfers   []*xfer // K list of this call level
	deadPre []*xfer // pre-call transfers of failed calls made at this level (or merged from successful children)
	inPx    *xfer   // the transfer ExecuteOnDestContext made for the call that created this frame
	sig     string  // success/failure structure of the children so far
	nFailed int
}

type monitor struct {
	vm.ContextHandler // the real *vmContext

	r       *vk.Run
	caseIdx int
	phase   string

	store   map[akey][]byte // committed state, also read by the blockchain hook stub
	overlay map[akey][]byte
	cur     *frame
	top     *frame
	nextID  int

	deadWrites map[akey]map[string]bool
	deadInner  []*xfer
	ambiguous  map[string]bool
	txValue    *big.Int
	txRcpt     string

	trace []string

	// per transaction statistics
	nestedOK, nestedFailed, failedWithEffects int
	maxDepth                                  int
	violated                                  bool
	probeCap                                  int
}

func newMonitor(real vm.ContextHandler, r *vk.Run, caseIdx int, phase string, store map[akey][]byte) *monitor {
	return &monitor{ContextHandler: real, r: r, caseIdx: caseIdx, phase: phase, store: store, probeCap: 64}
}

func (m *monitor) logf(format string, a ...interface{}) {
	if len(m.trace) < 600 {
		m.trace = append(m.trace, fmt.Sprintf(format, a...))
	}
}

func (m *monitor) viol(key, what string) {
	m.violated = true
	m.r.Count("witnesses["+m.phase+"]["+key+"]", 1)
	m.r.Violation(m.caseIdx, key, "["+m.phase+"] "+what, map[string]interface{}{"phase": m.phase, "trace": m.trace, "what": what})
}

// beginTx is called by the harness right before the real system VM runs a top-level call
func (m *monitor) beginTx(recipient []byte, value *big.Int) {
	m.overlay = map[akey][]byte{}
	m.deadWrites = map[akey]map[string]bool{}
	m.deadInner = nil
	m.ambiguous = map[string]bool{}
	m.nextID = 0
	m.top = &frame{id: 0, addr: string(recipient)}
	m.cur = m.top
	m.txValue = new(big.Int).Set(value)
	m.txRcpt = string(recipient)
	m.nestedOK, m.nestedFailed, m.failedWithEffects, m.maxDepth = 0, 0, 0, 0
	m.logf("TX to %s value %s", sh(recipient), value)
}

func (m *monitor) get(k akey) []byte {
	if v, ok := m.overlay[k]; ok {
		return v
	}
	return m.store[k]
}

func (m *monitor) modelWrite(addr, key, val []byte) {
	k := akey{string(addr), string(key)}
	old, present := m.overlay[k]
	f := m.cur
	f.undo = append(f.undo, undoRec{k: k, present: present, val: old})
	m.overlay[k] = append([]byte{}, val...)
	f.writes = append(f.writes, wr{k: k, val: string(val)})
}

// classify a storage observation that differs from the model
func (m *monitor) storageMismatch(k akey, got, want []byte, where string) {
	what := fmt.Sprintf("%s: storage[%x][%q] = %q, expected %q", where, k.addr, k.key, got, want)
	if m.deadWrites[k][string(got)] {
		m.viol(keyStorageSurvives, what+" (the observed value was written inside a nested call that failed)")
		return
	}
	if _, kept := m.overlay[k]; kept {
		m.viol(keySuccessLost, what+" (the expected value was written by a call that succeeded)")
		return
	}
	m.viol(keyStorageOther, what)
}

func (m *monitor) checkRead(addr, key, got []byte, where string) {
	k := akey{string(addr), string(key)}
	want := m.get(k)
	m.r.Eval(1)
	if !bytes.Equal(got, want) {
		m.storageMismatch(k, got, want, where)
	}
}

// ---- vm.SystemEI methods that the model has to see (everything else is inherited unchanged) ----

func (m *monitor) SetStorage(key []byte, value []byte) {
	m.logf("f%d %s SetStorage %s=%s", m.cur.id, sh([]byte(m.cur.addr)), sh(key), sh(value))
	m.modelWrite([]byte(m.cur.addr), key, value)
	m.ContextHandler.SetStorage(key, value)
}

func (m *monitor) SetStorageForAddress(address []byte, key []byte, value []byte) {
	m.logf("f%d %s SetStorageForAddress %s %s=%s", m.cur.id, sh([]byte(m.cur.addr)), sh(address), sh(key), sh(value))
	m.modelWrite(address, key, value)
	m.ContextHandler.SetStorageForAddress(address, key, value)
}

func (m *monitor) GetStorage(key []byte) []byte {
	got := m.ContextHandler.GetStorage(key)
	m.checkRead([]byte(m.cur.addr), key, got, fmt.Sprintf("GetStorage in frame %d", m.cur.id))
	return got
}

func (m *monitor) GetStorageFromAddress(address []byte, key []byte) []byte {
	got := m.ContextHandler.GetStorageFromAddress(address, key)
	m.checkRead(address, key, got, fmt.Sprintf("GetStorageFromAddress in frame %d", m.cur.id))
	return got
}

func (m *monitor) CleanStorageUpdates() {
	// not used by the contracts driven here; keep the model honest if it ever is
	m.overlay = map[akey][]byte{}
	for f := m.cur; f != nil; f = f.parent {
		f.undo, f.writes = nil, nil
	}
	m.ContextHandler.CleanStorageUpdates()
}

func (m *monitor) Transfer(destination []byte, sender []byte, value *big.Int, input []byte, gasLimit uint64) error {
	x := &xfer{dest: string(destination), sender: string(sender), value: new(big.Int).Set(value), data: string(input), gas: gasLimit, frame: m.cur.id}
	m.cur.xfers = append(m.cur.xfers, x)
	m.logf("f%d %s Transfer %s -> %s value %s data %s", m.cur.id, sh([]byte(m.cur.addr)), sh(sender), sh(destination), value, sh(input))
	return m.ContextHandler.Transfer(destination, sender, value, input, gasLimit)
}

func dests(lists ...[]*xfer) map[string]bool {
	out := map[string]bool{}
	for _, l := range lists {
		for _, x := range l {
			out[x.dest] = true
		}
	}
	return out
}

func levelDelta(addr string, lists ...[]*xfer) *big.Int {
	d := new(big.Int)
	for _, l := range lists {
		for _, x := range l {
			if x.dest == addr {
				d.Add(d, x.value)
			}
			if x.sender == addr {
				d.Sub(d, x.value)
			}
		}
	}
	return d
}

func (m *monitor) ExecuteOnDestContext(destination []byte, sender []byte, value *big.Int, input []byte) (*vmcommon.VMOutput, error) {
	parent := m.cur
	m.nextID++
	child := &frame{id: m.nextID, parent: parent, addr: string(destination), depth: parent.depth + 1}
	if child.depth > m.maxDepth {
		m.maxDepth = child.depth
	}
	px := &xfer{dest: string(destination), sender: string(sender), value: new(big.Int).Set(value), precall: true, frame: child.id}
	child.inPx = px
	m.logf("f%d %s CALL -> f%d %s value %s data %s", parent.id, sh([]byte(parent.addr)), child.id, sh(destination), value, sh(input))

	m.cur = child
	out, err := m.ContextHandler.ExecuteOnDestContext(destination, sender, value, input)
	m.cur = parent

	failed := err != nil || out == nil || out.ReturnCode != vmcommon.Ok
	touched := map[akey]bool{}
	for _, w := range child.writes {
		touched[w.k] = true
	}
	involved := dests(child.xfers, child.deadPre)
	involved[px.dest] = true
	involved[px.sender] = true
	for _, x := range child.xfers {
		involved[x.sender] = true
	}

	if failed {
		m.nestedFailed++
		parent.nFailed++
		if len(child.writes) > 0 || len(child.xfers) > 0 {
			m.failedWithEffects++
		}
		m.logf("f%d FAILED (err=%v)", child.id, err)
		for i := len(child.undo) - 1; i >= 0; i-- {
			u := child.undo[i]
			if u.present {
				m.overlay[u.k] = u.val
			} else {
				delete(m.overlay, u.k)
			}
		}
		for _, w := range child.writes {
			if m.deadWrites[w.k] == nil {
				m.deadWrites[w.k] = map[string]bool{}
			}
			m.deadWrites[w.k][w.val] = true
		}
		m.deadInner = append(m.deadInner, child.xfers...)
		m.deadInner = append(m.deadInner, child.deadPre...)
		parent.deadPre = append(parent.deadPre, px)
		parent.sig += "F(" + child.sig + ")"
	} else {
		m.nestedOK++
		m.logf("f%d ok", child.id)
		// accounts that received transfers on both sides of the merge: the order/merge of their
		// OutputTransfers is outside this property, they are excluded from the "missing transfer" check
		l := dests(child.xfers, child.deadPre)
		rr := dests(parent.xfers, parent.deadPre)
		for d := range l {
			if rr[d] {
				m.ambiguous[d] = true
			}
		}
		if l[px.dest] || rr[px.dest] {
			m.ambiguous[px.dest] = true
		}
		parent.undo = append(parent.undo, child.undo...)
		parent.writes = append(parent.writes, child.writes...)
		parent.xfers = append(parent.xfers, px)
		parent.xfers = append(parent.xfers, child.xfers...)
		parent.deadPre = append(parent.deadPre, child.deadPre...)
		parent.sig += "S(" + child.sig + ")"
	}

	// (b) probes right after the call returned, as the continuing caller would see the state
	n := 0
	keys := make([]akey, 0, len(touched))
	for k := range touched {
		keys = append(keys, k)
	}
	sort.Slice(keys, func(i, j int) bool {
		if keys[i].addr != keys[j].addr {
			return keys[i].addr < keys[j].addr
		}
		return keys[i].key < keys[j].key
	})
	for _, k := range keys {
		if n >= m.probeCap {
			break
		}
		n++
		got := m.ContextHandler.GetStorageFromAddress([]byte(k.addr), []byte(k.key))
		state := "successful"
		if failed {
			state = "failed"
		}
		m.checkRead([]byte(k.addr), []byte(k.key), got, fmt.Sprintf("probe after %s nested call f%d->f%d", state, parent.id, child.id))
		m.r.Count("probe_storage_after_"+state, 1)
	}
	accs := make([]string, 0, len(involved))
	for a := range involved {
		accs = append(accs, a)
	}
	sort.Strings(accs)
	for i, a := range accs {
		if i >= 16 {
			break
		}
		if parent == m.top && a == m.txRcpt {
			// the entry AddTxValueToSmartContract creates for the transaction recipient has a nil Balance and
			// vmContext.GetBalance dereferences it (separate defect, outside this property): not probed
			m.r.Count("probe_balance_skipped_tx_recipient", 1)
			continue
		}
		gotB := m.ContextHandler.GetBalance([]byte(a))
		if gotB == nil {
			continue
		}
		want := levelDelta(a, parent.xfers)
		m.r.Eval(1)
		m.r.Count("probe_balance", 1)
		if gotB.Cmp(want) == 0 {
			continue
		}
		// whether the value moved for the call that created the current frame is already visible inside that
		// frame is not part of the property: both views are accepted
		var own []*xfer
		if parent.inPx != nil {
			own = []*xfer{parent.inPx}
		}
		if gotB.Cmp(new(big.Int).Add(want, levelDelta(a, own))) == 0 {
			continue
		}
		wantP := new(big.Int).Add(want, levelDelta(a, parent.deadPre))
		what := fmt.Sprintf("GetBalance(%x) at call level f%d after nested call f%d returned (failed=%v) is %s, expected %s", a, parent.id, child.id, failed, gotB, want)
		switch {
		case gotB.Cmp(wantP) == 0 || gotB.Cmp(new(big.Int).Add(wantP, levelDelta(a, own))) == 0:
			m.viol(keyPrecallSurvives, what+" (difference = value moved by ExecuteOnDestContext before a call that failed)")
		case failed:
			m.viol(keyBalanceFailed, what)
		default:
			m.viol(keyBalanceOther, what)
		}
	}
	return out, err
}

// endTx compares the final VMOutput of a successful top-level call with the model and returns the
// expected new committed state (model): store + kept writes
func (m *monitor) endTx(out *vmcommon.VMOutput) {
	// storage
	keys := map[akey]bool{}
	for k := range m.overlay {
		keys[k] = true
	}
	for k := range m.deadWrites {
		keys[k] = true
	}
	for addr, oa := range out.OutputAccounts {
		for key := range oa.StorageUpdates {
			keys[akey{addr, key}] = true
		}
	}
	sorted := make([]akey, 0, len(keys))
	for k := range keys {
		sorted = append(sorted, k)
	}
	sort.Slice(sorted, func(i, j int) bool {
		if sorted[i].addr != sorted[j].addr {
			return sorted[i].addr < sorted[j].addr
		}
		return sorted[i].key < sorted[j].key
	})
	for _, k := range sorted {
		eff := m.store[k]
		if oa, ok := out.OutputAccounts[k.addr]; ok && oa != nil {
			if su, ok2 := oa.StorageUpdates[k.key]; ok2 && su != nil {
				eff = su.Data
			}
		}
		want := m.get(k)
		m.r.Eval(1)
		m.r.Count("final_storage_keys_checked", 1)
		if !bytes.Equal(eff, want) {
			m.storageMismatch(k, eff, want, "final CreateVMOutput")
		}
	}

	// transfers
	kept := map[string]map[string]int{}
	addTo := func(mm map[string]map[string]int, x *xfer) {
		if mm[x.dest] == nil {
			mm[x.dest] = map[string]int{}
		}
		mm[x.dest][x.sig()]++
	}
	for _, x := range m.top.xfers {
		addTo(kept, x)
	}
	knownPre := map[string]map[string]int{}
	for _, x := range m.top.deadPre {
		addTo(knownPre, x)
	}
	deadIn := map[string]map[string]int{}
	for _, x := range m.deadInner {
		addTo(deadIn, x)
	}
	accNames := map[string]bool{}
	for a := range out.OutputAccounts {
		accNames[a] = true
	}
	for a := range kept {
		accNames[a] = true
	}
	accList := make([]string, 0, len(accNames))
	for a := range accNames {
		accList = append(accList, a)
	}
	sort.Strings(accList)
	for _, a := range accList {
		obs := map[string]int{}
		if oa := out.OutputAccounts[a]; oa != nil {
			for _, t := range oa.OutputTransfers {
				v := t.Value
				if v == nil {
					v = new(big.Int)
				}
				x := &xfer{dest: a, value: v, data: string(t.Data), gas: t.GasLimit}
				obs[x.sig()]++
			}
		}
		sigs := map[string]bool{}
		for s := range obs {
			sigs[s] = true
		}
		for s := range kept[a] {
			sigs[s] = true
		}
		sl := make([]string, 0, len(sigs))
		for s := range sigs {
			sl = append(sl, s)
		}
		sort.Strings(sl)
		for _, s := range sl {
			o, k := obs[s], kept[a][s]
			m.r.Eval(1)
			m.r.Count("final_transfers_checked", 1)
			if o < k {
				if m.ambiguous[a] {
					m.r.Count("obs_transfer_entry_dropped_by_merge_on_shared_destination(not judged)", k-o)
				} else {
					m.viol(keySuccessLost, fmt.Sprintf("final CreateVMOutput: account %x has %d output transfer(s) %s, %d were made by calls that succeeded", a, o, s, k))
				}
				continue
			}
			extra := o - k
			if extra == 0 {
				continue
			}
			what := fmt.Sprintf("final CreateVMOutput: account %x has %d extra output transfer(s) [dest|value|data|gas]=%s", a, extra, s)
			if c := knownPre[a][s]; c > 0 {
				use := extra
				if use > c {
					use = c
				}
				m.viol(keyPrecallSurvives, what+" made by ExecuteOnDestContext before a call that failed")
				extra -= use
			}
			if extra > 0 {
				if c := deadIn[a][s]; c > 0 {
					m.viol(keyInnerTransfer, what+" made inside a nested call that failed")
					if extra > c {
						extra -= c
					} else {
						extra = 0
					}
				}
			}
			if extra > 0 {
				m.viol(keyTransferOther, what+" that no call made")
			}
		}
	}

	// balance deltas (additive under every merge, so judged strictly)
	for _, x := range m.top.xfers {
		accNames[x.sender] = true
	}
	for _, x := range m.top.deadPre {
		accNames[x.sender] = true
		accNames[x.dest] = true
	}
	accNames[m.txRcpt] = true
	accList = accList[:0]
	for a := range accNames {
		accList = append(accList, a)
	}
	sort.Strings(accList)
	for _, a := range accList {
		obs := new(big.Int)
		if oa := out.OutputAccounts[a]; oa != nil && oa.BalanceDelta != nil {
			obs.Set(oa.BalanceDelta)
		}
		k := levelDelta(a, m.top.xfers)
		if a == m.txRcpt {
			k.Add(k, m.txValue)
		}
		m.r.Eval(1)
		m.r.Count("final_balance_deltas_checked", 1)
		if obs.Cmp(k) == 0 {
			continue
		}
		p := new(big.Int).Add(k, levelDelta(a, m.top.deadPre))
		what := fmt.Sprintf("final CreateVMOutput: BalanceDelta of %x is %s, the calls that succeeded moved %s", a, obs, k)
		if obs.Cmp(p) == 0 {
			m.viol(keyPrecallSurvives, what+" (difference = value moved by ExecuteOnDestContext before calls that failed)")
		} else {
			withInner := new(big.Int).Add(p, levelDelta(a, m.deadInner))
			if obs.Cmp(withInner) == 0 || obs.Cmp(new(big.Int).Add(k, levelDelta(a, m.deadInner))) == 0 {
				m.viol(keyInnerTransfer, what+" (difference = transfers made inside nested calls that failed)")
			} else {
				m.viol(keyBalanceOther, what)
			}
		}
	}
}

// commit applies the model's kept writes to the committed store (the state the chain SHOULD have)
func (m *monitor) commit() {
	for k, v := range m.overlay {
		if len(v) == 0 {
			delete(m.store, k)
		} else {
			m.store[k] = v
		}
	}
	m.overlay = map[akey][]byte{}
}

func hx(b []byte) string { return hex.EncodeToString(b) }

// sh renders bytes for traces: printable text with trailing zero padding removed, else hex; long values cut
func sh(b []byte) string {
	t := bytes.TrimRight(b, "\x00")
	if len(b) == 32 && len(t) > 0 && t[len(t)-1] == 0xff {
		t = bytes.TrimRight(t[:len(t)-1], "\x00")
	}
	printable := len(t) > 0
	for _, c := range t {
		if c < 0x20 || c > 0x7e {
			printable = false
			break
		}
	}
	var out string
	if printable {
		out = fmt.Sprintf("%q", t)
	} else {
		out = "0x" + hex.EncodeToString(b)
	}
	if len(out) > 72 {
		out = fmt.Sprintf("%s...(%d bytes)", out[:72], len(b))
	}
	return out
}
