package main

// Synthetic phase: harness-defined system smart contracts that execute generated scripts through the
// monitored eei. All of them are registered in a real system SC container; the top-level call goes
// through the real system VM (RunSmartContractCall -> CreateVMOutput), nested calls through the real
// vmContext.ExecuteOnDestContext.

import (
	"fmt"
	"math/big"

	"github.com/ElrondNetwork/elrond-go/core"
	"github.com/ElrondNetwork/elrond-go/data/state"
	"github.com/ElrondNetwork/elrond-go/process/smartContract/hooks"
	"github.com/ElrondNetwork/elrond-go/testscommon"
	"github.com/ElrondNetwork/elrond-go/vm"
	vmFactory "github.com/ElrondNetwork/elrond-go/vm/factory"
	"github.com/ElrondNetwork/elrond-go/vm/mock"
	vmProcess "github.com/ElrondNetwork/elrond-go/vm/process"
	"github.com/ElrondNetwork/elrond-go/vm/systemSmartContracts"
	vmcommon "github.com/ElrondNetwork/elrond-vm-common"
	"github.com/ElrondNetwork/elrond-vm-common/parsers"
	"verif/internal/vk"
)

const (
	opWrite = iota
	opWriteForeign
	opTransfer
	opRead
	opCall
	opFinish
)

type op struct {
	kind  int
	addr  []byte
	key   []byte
	val   []byte
	value *big.Int
	data  []byte
	gas   uint64
	child *script
}

type script struct {
	id       int
	contract []byte
	ops      []op
	rc       vmcommon.ReturnCode
	value    *big.Int
	unknown  bool // call to an address without contract
	depth    int
}

type env struct {
	mon     *monitor
	scripts map[int]*script
	bad     string
}

type scriptSC struct {
	addr []byte
	e    *env
}

func (c *scriptSC) CanUseContract() bool       { return true }
func (c *scriptSC) SetNewGasCost(_ vm.GasCost) {}
func (c *scriptSC) IsInterfaceNil() bool       { return c == nil }
func (c *scriptSC) Execute(in *vmcommon.ContractCallInput) vmcommon.ReturnCode {
	if len(in.Arguments) != 1 {
		c.e.bad = "script contract called without script id"
		return vmcommon.ExecutionFailed
	}
	id := int(new(big.Int).SetBytes(in.Arguments[0]).Int64())
	s := c.e.scripts[id]
	if s == nil || string(s.contract) != string(c.addr) || string(in.RecipientAddr) != string(c.addr) {
		c.e.bad = fmt.Sprintf("script %d reached the wrong contract", id)
		return vmcommon.ExecutionFailed
	}
	m := c.e.mon
	for _, o := range s.ops {
		switch o.kind {
		case opWrite:
			m.SetStorage(o.key, o.val)
		case opWriteForeign:
			m.SetStorageForAddress(o.addr, o.key, o.val)
		case opTransfer:
			_ = m.Transfer(o.addr, c.addr, o.value, o.data, o.gas)
		case opRead:
			if o.addr == nil {
				m.GetStorage(o.key)
			} else {
				m.GetStorageFromAddress(o.addr, o.key)
			}
			m.r.Count("contract_reads_checked", 1)
		case opFinish:
			m.Finish(o.data)
		case opCall:
			ch := o.child
			data := fmt.Sprintf("run@%04x", ch.id)
			out, err := m.ExecuteOnDestContext(ch.contract, c.addr, ch.value, []byte(data))
			failed := err != nil || out.ReturnCode != vmcommon.Ok
			if failed != (ch.rc != vmcommon.Ok) {
				c.e.bad = fmt.Sprintf("nested call %d: failed=%v, script says rc=%v (err=%v)", ch.id, failed, ch.rc, err)
			}
		}
	}
	return s.rc
}

var failCodes = []vmcommon.ReturnCode{vmcommon.UserError, vmcommon.UserError, vmcommon.OutOfGas, vmcommon.ExecutionFailed, vmcommon.FunctionNotFound, vmcommon.OutOfFunds}

type gen struct {
	rng       *vk.Rand
	contracts [][]byte // [0] is the outer contract
	users     [][]byte
	nextID    int
	scripts   map[int]*script
	opSeq     int
}

func addrOf(name string) []byte {
	b := make([]byte, 32)
	copy(b, name)
	b[31] = 0xff
	return b
}

func (g *gen) keyFor() []byte { return []byte(fmt.Sprintf("k%d", g.rng.Intn(5))) }

func (g *gen) value(frame int) []byte {
	g.opSeq++
	if g.rng.Chance(1, 12) {
		return []byte{} // deletion
	}
	return []byte(fmt.Sprintf("f%d.%d:%x", frame, g.opSeq, g.rng.Bytes(g.rng.Intn(6))))
}

func (g *gen) anyAddr() []byte {
	if g.rng.Chance(1, 4) {
		return g.users[g.rng.Intn(len(g.users))]
	}
	return g.contracts[g.rng.Intn(len(g.contracts))]
}

// build generates the script of one frame. mustFail/mustEffect are used to guarantee that every
// transaction has at least one failing nested call with effects.
func (g *gen) build(depth int, contract []byte, fail bool, maxDepth int) *script {
	s := &script{id: g.nextID, contract: contract, depth: depth, rc: vmcommon.Ok, value: new(big.Int)}
	g.nextID++
	g.scripts[s.id] = s
	if fail {
		s.rc = failCodes[g.rng.Intn(len(failCodes))]
	}
	nCalls := 0
	switch depth {
	case 0:
		nCalls = g.rng.Range(1, 4)
	case 1:
		if maxDepth >= 2 && g.rng.Chance(1, 2) {
			nCalls = g.rng.Range(1, 2)
		}
	case 2:
		if maxDepth >= 3 && g.rng.Chance(1, 4) {
			nCalls = 1
		}
	}
	nPlain := g.rng.Range(1, 6)
	if depth > 0 && g.rng.Chance(1, 10) {
		nPlain = 0 // a nested call without effects (trivial when it fails)
	}
	kinds := make([]int, 0, nCalls+nPlain)
	for i := 0; i < nCalls; i++ {
		kinds = append(kinds, opCall)
	}
	for i := 0; i < nPlain; i++ {
		switch x := g.rng.Intn(10); {
		case x < 3:
			kinds = append(kinds, opWrite)
		case x < 5:
			kinds = append(kinds, opWriteForeign)
		case x < 7:
			kinds = append(kinds, opTransfer)
		case x < 9:
			kinds = append(kinds, opRead)
		default:
			kinds = append(kinds, opFinish)
		}
	}
	// the position of the calls among the other operations is random: first / middle / last
	p := g.rng.Perm(len(kinds))
	for _, i := range p {
		k := kinds[i]
		switch k {
		case opWrite:
			s.ops = append(s.ops, op{kind: opWrite, key: g.keyFor(), val: g.value(s.id)})
		case opWriteForeign:
			s.ops = append(s.ops, op{kind: opWriteForeign, addr: g.anyAddr(), key: g.keyFor(), val: g.value(s.id)})
		case opTransfer:
			g.opSeq++
			var dest []byte
			switch x := g.rng.Intn(10); {
			case x < 6:
				dest = addrOf(fmt.Sprintf("priv-%d-%d", s.id, g.opSeq)) // destination private to this frame
			case x < 8:
				dest = g.users[g.rng.Intn(len(g.users))]
			default:
				dest = g.contracts[g.rng.Intn(len(g.contracts))]
			}
			v := big.NewInt(int64(g.rng.Range(1, 100000)))
			if g.rng.Chance(1, 8) {
				v = big.NewInt(0)
			}
			s.ops = append(s.ops, op{kind: opTransfer, addr: dest, value: v, data: []byte(fmt.Sprintf("d%d.%d", s.id, g.opSeq)), gas: uint64(g.rng.Intn(1000))})
		case opRead:
			o := op{kind: opRead, key: g.keyFor()}
			if g.rng.Bool() {
				o.addr = g.anyAddr()
			}
			s.ops = append(s.ops, o)
		case opFinish:
			s.ops = append(s.ops, op{kind: opFinish, data: g.rng.Bytes(4)})
		case opCall:
			var ch *script
			if g.rng.Chance(1, 25) {
				// no contract behind the destination: ExecuteOnDestContext returns an error after it moved the value
				ch = &script{id: g.nextID, contract: addrOf("nocontract"), rc: vmcommon.ExecutionFailed, unknown: true, depth: depth + 1}
				g.nextID++
				g.scripts[ch.id] = ch
			} else {
				var dst []byte
				for {
					dst = g.contracts[1+g.rng.Intn(len(g.contracts)-1)]
					if string(dst) != string(contract) {
						break
					}
				}
				ch = g.build(depth+1, dst, g.rng.Chance(1, 2), maxDepth)
			}
			ch.value = big.NewInt(int64(g.rng.Range(1, 100000)))
			if g.rng.Chance(1, 4) {
				ch.value = big.NewInt(0)
			}
			s.ops = append(s.ops, op{kind: opCall, child: ch})
		}
	}
	return s
}

// counts nested failing frames that have at least one write or transfer in their subtree
func failingWithEffects(s *script, top bool) int {
	n := 0
	for _, o := range s.ops {
		if o.kind == opCall {
			n += failingWithEffects(o.child, false)
		}
	}
	if !top && s.rc != vmcommon.Ok && hasEffects(s) {
		n++
	}
	return n
}

func hasEffects(s *script) bool {
	for _, o := range s.ops {
		switch o.kind {
		case opWrite, opWriteForeign, opTransfer:
			return true
		case opCall:
			if hasEffects(o.child) {
				return true
			}
		}
	}
	return false
}

type synthWorld struct {
	store map[akey][]byte
	eei   vm.ContextHandler
	mon   *monitor
	e     *env
	sysVM vmcommon.VMExecutionHandler
	hook  *mock.BlockChainHookStub
}

func gasSchedule() map[string]map[string]uint64 {
	return map[string]map[string]uint64{core.ElrondAPICost: {core.AsyncCallStepField: 1000, core.AsyncCallbackGasLockField: 3000}}
}

func newHook(store map[akey][]byte) *mock.BlockChainHookStub {
	return &mock.BlockChainHookStub{
		GetStorageDataCalled: func(a []byte, k []byte) ([]byte, error) {
			return store[akey{string(a), string(k)}], nil
		},
		GetUserAccountCalled: func(_ []byte) (vmcommon.UserAccountHandler, error) {
			return nil, state.ErrAccNotFound
		},
		CurrentNonceCalled:   func() uint64 { return 10 },
		CurrentRoundCalled:   func() uint64 { return 10 },
		CurrentEpochCalled:   func() uint32 { return 1 },
		NumberOfShardsCalled: func() uint32 { return 1 },
	}
}

func newSynthWorld(r *vk.Run, c *vk.Case, contracts [][]byte) (*synthWorld, error) {
	w := &synthWorld{store: map[akey][]byte{}}
	w.hook = newHook(w.store)
	eei, err := systemSmartContracts.NewVMContext(w.hook, hooks.NewVMCryptoHook(), parsers.NewCallArgsParser(), &testscommon.AccountsStub{}, &mock.RaterMock{})
	if err != nil {
		return nil, err
	}
	w.eei = eei
	w.mon = newMonitor(eei, r, c.Idx, "synthetic", w.store)
	w.e = &env{mon: w.mon}
	cont := vmFactory.NewSystemSCContainer()
	for _, a := range contracts {
		if err = cont.Add(a, &scriptSC{addr: a, e: w.e}); err != nil {
			return nil, err
		}
	}
	if err = eei.SetSystemSCContainer(cont); err != nil {
		return nil, err
	}
	sysVM, err := vmProcess.NewSystemVM(vmProcess.ArgsNewSystemVM{
		SystemEI: eei, SystemContracts: cont, VmType: []byte{0, 1}, GasSchedule: mock.NewGasScheduleNotifierMock(gasSchedule()),
	})
	if err != nil {
		return nil, err
	}
	w.sysVM = sysVM
	return w, nil
}

func treeSig(s *script) string {
	out := ""
	for _, o := range s.ops {
		switch o.kind {
		case opCall:
			c := "S"
			if o.child.rc != vmcommon.Ok {
				c = "F"
			}
			if o.child.unknown {
				c = "U"
			}
			out += c + "(" + treeSig(o.child) + ")"
		case opWrite:
			out += "w"
		case opWriteForeign:
			out += "x"
		case opTransfer:
			out += "t"
		}
	}
	return out
}

// classify the positions / nesting patterns that the design asks for
func countPatterns(r *vk.Run, s *script) {
	var calls []*script
	for _, o := range s.ops {
		if o.kind == opCall {
			calls = append(calls, o.child)
		}
	}
	for i, ch := range calls {
		if ch.rc != vmcommon.Ok && s.depth == 0 {
			switch {
			case len(calls) == 1:
				r.Count("pattern_failed_call_is_only_call", 1)
			case i == 0:
				r.Count("pattern_failed_call_first", 1)
			case i == len(calls)-1:
				r.Count("pattern_failed_call_last", 1)
			default:
				r.Count("pattern_failed_call_middle", 1)
			}
		}
		for _, o := range ch.ops {
			if o.kind != opCall {
				continue
			}
			g := o.child
			switch {
			case ch.rc == vmcommon.Ok && g.rc != vmcommon.Ok:
				r.Count("pattern_inner_fails_mid_succeeds", 1)
			case ch.rc != vmcommon.Ok && g.rc == vmcommon.Ok:
				r.Count("pattern_mid_fails_after_inner_succeeded", 1)
			case ch.rc != vmcommon.Ok && g.rc != vmcommon.Ok:
				r.Count("pattern_inner_and_mid_fail", 1)
			}
		}
		countPatterns(r, ch)
	}
}

func runSynthCase(r *vk.Run, c *vk.Case, nTx int) {
	rng := c.Rng
	contracts := [][]byte{addrOf("outer"), addrOf("scB"), addrOf("scC"), addrOf("scD"), addrOf("scE")}
	nContracts := rng.Range(3, 5)
	contracts = contracts[:nContracts]
	users := [][]byte{addrOf("userX"), addrOf("userY")}
	w, err := newSynthWorld(r, c, contracts)
	if err != nil {
		r.Violation(c.Idx, "constructor", err.Error(), nil)
		return
	}
	// some committed state so that "pre-call value" is not always empty
	for _, a := range append(append([][]byte{}, contracts...), users...) {
		for k := 0; k < 5; k++ {
			if rng.Bool() {
				w.store[akey{string(a), fmt.Sprintf("k%d", k)}] = []byte(fmt.Sprintf("base-%x", rng.Bytes(3)))
			}
		}
	}
	caller := addrOf("txsender")
	for t := 0; t < nTx; t++ {
		g := &gen{rng: rng, contracts: contracts, users: users, scripts: map[int]*script{}, nextID: 1}
		maxDepth := rng.Range(1, 3)
		top := g.build(0, contracts[0], false, maxDepth)
		w.e.scripts = g.scripts
		txValue := big.NewInt(int64(rng.Intn(1000)))
		w.mon.trace = w.mon.trace[:0]
		w.mon.beginTx(contracts[0], txValue)
		out, err := w.sysVM.RunSmartContractCall(&vmcommon.ContractCallInput{
			VMInput:       vmcommon.VMInput{CallerAddr: caller, CallValue: txValue, GasProvided: 1000000, Arguments: [][]byte{big.NewInt(int64(top.id)).Bytes()}},
			RecipientAddr: contracts[0],
			Function:      "run",
		})
		r.Count("transactions", 1)
		if err != nil || out == nil || out.ReturnCode != vmcommon.Ok || w.e.bad != "" {
			r.Inconclusive(fmt.Sprintf("harness problem: top-level call did not run as scripted: err=%v bad=%q", err, w.e.bad))
			return
		}
		w.mon.endTx(out)
		r.Count("nested_calls_succeeded", w.mon.nestedOK)
		r.Count("nested_calls_failed", w.mon.nestedFailed)
		r.Count("nested_calls_failed_with_effects", w.mon.failedWithEffects)
		r.Max("max_nesting_depth", int64(w.mon.maxDepth))
		countPatterns(r, top)
		if failingWithEffects(top, true) > 0 {
			r.Shape("syn:" + treeSig(top))
		} else {
			r.Trivial()
		}
		if w.mon.failedWithEffects > 0 && w.mon.maxDepth >= 2 && r.Counter("syn_samples") < 3 {
			r.Count("syn_samples", 1)
			tr := append([]string{}, w.mon.trace...)
			if len(tr) > 40 {
				tr = tr[:40]
			}
			r.Sample(map[string]interface{}{"phase": "synthetic", "case": c.Idx, "tx": t, "tree": treeSig(top), "trace": tr})
		}
		w.mon.commit()
	}
}
