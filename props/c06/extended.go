// Extended histories of C06 (case index >= the base case count). On top of the base workload:
//   - suffix families: addresses and storage keys that share their ENDING over a controlled
//     length (the trie walks a key from its last nibble), so creations/removals and their reverts
//     happen below extension nodes, next to sub-families that share a longer path;
//   - un-journaled changes before RevertToSnapshot(0): a Commit during which one storage Put fails
//     (fault injected through the database decorator the harness hands to the trie storage manager;
//     Commit empties the journal before it writes), followed by the caller's protocol
//     RevertToSnapshot(0); and accounts written with ImportAccount (never journaled) that are then
//     discarded with RevertToSnapshot(0). Either way the state must be the last committed one;
//   - kept reader handles: a handle obtained with GetExistingAccount is kept and read again after
//     later saves (model-validity check) and after every revert: it shares the account's data trie
//     with every other handle, so it must read what the snapshot recorded.
package main

import (
	"bytes"
	"fmt"
	"math/big"

	"github.com/ElrondNetwork/elrond-go/data/state"

	"verif/internal/acctmodel"
	"verif/internal/vk"
)

type witness struct {
	addr []byte
	name string
	h    state.UserAccountHandler
}

type extState struct {
	r      *vk.Run
	c      *vk.Case
	env    *acctmodel.Env
	w      *acctmodel.World
	u      *acctmodel.Universe
	fdb    *acctmodel.FaultDB
	detail func(extra map[string]interface{}) map[string]interface{}
	check  func(point string, wantRoot []byte, info acctmodel.RevertInfo, afterRevert bool) bool

	stack      *[]*acctmodel.Snapshot
	shapeParts *[]string
	nonTrivial *bool
	witnesses  []*witness
	nWitness   int
	// addresses on which RemoveAccount was called since the last Commit / RevertToSnapshot(0): a
	// re-created account gets a new data trie and a revert across the removal puts the old one
	// back, so a handle of such an address may legitimately belong to another incarnation
	removed map[string]bool
}

func bcp(b []byte) []byte { return append([]byte{}, b...) }

// step possibly runs one of the extended step kinds; handled = the step was consumed, ok = go on
func (ex *extState) step(rng *vk.Rand) (handled bool, ok bool) {
	switch y := rng.Intn(100); {
	case y < 6:
		return true, ex.faultyCommit(rng)
	case y < 10:
		return true, ex.importDiscard(rng)
	case y < 18:
		return true, ex.takeWitness(rng)
	}
	return false, true
}

// faultyCommit arms one of the next Puts to fail and commits. A Commit that reports the error is
// followed by RevertToSnapshot(0) (what the block processor does): the last committed state is back.
func (ex *extState) faultyCommit(rng *vk.Rand) bool {
	r, w := ex.r, ex.w
	undone := append([]acctmodel.LiveEvent(nil), w.Live...)
	k := rng.Range(1, 8)
	w.Note("arm: Put number %d from now fails", k)
	ex.fdb.Arm(k)
	_, errC := w.Commit()
	fired := ex.fdb.Disarm()
	*ex.stack = nil
	ex.dropAll()
	if errC == nil {
		if fired {
			// a lost write error is not this property's matter (C08 looks at it); the database now
			// misses a node, so this history has no meaning any more
			r.Count("histories_abandoned_commit_succeeded_although_a_put_failed", 1)
			return false
		}
		r.Count("armed_commits_fault_not_reached", 1)
		return ex.check("after-commit", nil, acctmodel.RevertInfo{}, false)
	}
	if !fired {
		r.Violation(ex.c.Idx, "commit-error", errC.Error(), ex.detail(nil))
		return false
	}
	r.Count("commits_failed_by_injected_put_fault", 1)
	info, errV := w.RevertToCommitted()
	if errV != nil {
		r.Violation(ex.c.Idx, "revert-error", fmt.Sprintf("RevertToSnapshot(0) after a failed Commit returned %v", errV), ex.detail(nil))
		return false
	}
	r.Count("reverts_to_zero_after_failed_commit", 1)
	r.Count("ops_undone", len(undone))
	if len(undone) > 0 {
		*ex.nonTrivial = true
		*ex.shapeParts = append(*ex.shapeParts, "F:"+undoneShape(undone))
	}
	return ex.check("after-failed-commit-revert-to-0", w.CommittedRoot, info, true)
}

// importDiscard writes one or two accounts with ImportAccount (no journal entry), optionally right
// after a commit (empty journal), and discards them with RevertToSnapshot(0)
func (ex *extState) importDiscard(rng *vk.Rand) bool {
	r, w, adb := ex.r, ex.w, ex.env.ADB
	if rng.Bool() {
		if _, errC := w.Commit(); errC != nil {
			r.Violation(ex.c.Idx, "commit-error", errC.Error(), ex.detail(nil))
			return false
		}
		*ex.stack = nil
		ex.dropAll()
	}
	undone := append([]acctmodel.LiveEvent(nil), w.Live...)
	for i, n := 0, rng.Range(1, 2); i < n; i++ {
		addr := ex.u.Addrs[rng.Intn(len(ex.u.Addrs))]
		h, errL := adb.LoadAccount(bcp(addr))
		if errL != nil {
			// the account cannot be loaded: the regular oracle reports that
			return ex.check("before-import", nil, acctmodel.RevertInfo{}, false)
		}
		ua, isUser := h.(state.UserAccountHandler)
		if !isUser {
			continue
		}
		_ = ua.AddToBalance(big.NewInt(int64(rng.Range(1, 1000))))
		ua.IncreaseNonce(1)
		errI := adb.ImportAccount(ua)
		w.Note("ImportAccount(%s balance+ nonce+1) -> %v", ex.addrName(addr), errI)
		r.Count("accounts_imported_then_discarded", 1)
	}
	info, errV := w.RevertToCommitted()
	if errV != nil {
		r.Violation(ex.c.Idx, "revert-error", fmt.Sprintf("RevertToSnapshot(0) returned %v", errV), ex.detail(nil))
		return false
	}
	*ex.stack = nil
	ex.dropAll()
	r.Count("reverts_to_zero_after_import", 1)
	r.Count("ops_undone", len(undone))
	*ex.nonTrivial = true
	*ex.shapeParts = append(*ex.shapeParts, "I:"+undoneShape(undone))
	return ex.check("after-import-discard-revert-to-0", w.CommittedRoot, info, true)
}

func (ex *extState) addrName(a []byte) string {
	for i, x := range ex.u.Addrs {
		if bytes.Equal(x, a) {
			return fmt.Sprintf("A%d", i)
		}
	}
	return "?"
}

// takeWitness keeps a handle of an existing account that has storage (so it holds the data trie
// cached under the address) and reads every key through it
func (ex *extState) takeWitness(rng *vk.Rand) bool {
	if len(ex.witnesses) >= 3 {
		return true
	}
	var cands [][]byte
	for _, a := range ex.u.Addrs {
		if m := ex.w.Model.Accounts[string(a)]; m != nil && len(m.Storage) > 0 && !ex.removed[string(a)] {
			cands = append(cands, a)
		}
	}
	if len(cands) == 0 {
		return true
	}
	addr := cands[rng.Intn(len(cands))]
	h, err := ex.env.ADB.GetExistingAccount(bcp(addr))
	if err != nil {
		return ex.check("before-keeping-a-handle", nil, acctmodel.RevertInfo{}, false)
	}
	ua, isUser := h.(state.UserAccountHandler)
	if !isUser {
		return true
	}
	ex.nWitness++
	wi := &witness{addr: addr, name: fmt.Sprintf("R%d", ex.nWitness), h: ua}
	ex.witnesses = append(ex.witnesses, wi)
	ex.w.Note("%s := GetExistingAccount(%s) (kept reader handle)", wi.name, ex.addrName(addr))
	ex.r.Count("reader_handles_kept", 1)
	return ex.readWitnesses("taken")
}

// dropAll is called at every Commit / RevertToSnapshot(0): the data tries are reloaded afterwards
func (ex *extState) dropAll() {
	ex.witnesses = nil
	ex.removed = map[string]bool{}
}

// removal notes a RemoveAccount call (successful or not) on addr
func (ex *extState) removal(addr []byte) {
	if ex.removed == nil {
		ex.removed = map[string]bool{}
	}
	ex.removed[string(addr)] = true
	ex.dropAddr(addr)
}

func (ex *extState) dropAddr(addr []byte) {
	var keep []*witness
	for _, wi := range ex.witnesses {
		if !bytes.Equal(wi.addr, addr) {
			keep = append(keep, wi)
		}
	}
	ex.witnesses = keep
}

// readWitnesses reads every key through every kept handle whose account has existed with storage
// ever since the handle was taken (otherwise the handle is dropped: an account without storage has
// no data trie to share)
func (ex *extState) readWitnesses(at string) bool {
	var keep []*witness
	keys := ex.w.SortedKeys()
	for _, wi := range ex.witnesses {
		m := ex.w.Model.Accounts[string(wi.addr)]
		if m == nil || len(m.Storage) == 0 {
			continue
		}
		keep = append(keep, wi)
		ex.r.Eval(1)
		ex.r.Count("reader_handle_reads_"+at, 1)
		for _, k := range keys {
			got, _ := wi.h.DataTrieTracker().RetrieveValue(bcp(k))
			if !bytes.Equal(got, m.Storage[string(k)]) {
				ex.witnesses = keep
				ex.r.Violation(ex.c.Idx, "kept-handle-storage-mismatch at="+at,
					fmt.Sprintf("%s: kept reader handle %s of %s reads key %x = %x, want %x", at, wi.name, ex.addrName(wi.addr), k, got, m.Storage[string(k)]),
					ex.detail(map[string]interface{}{"point": at, "handle": wi.name, "key": vk.Hex(k), "got": vk.Hex(got), "want": vk.Hex(m.Storage[string(k)])}))
				return false
			}
		}
	}
	ex.witnesses = keep
	return true
}
