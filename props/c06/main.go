// C06 — reverting the accounts database to a recorded journal length restores the state root and
// every account field (balance, nonce, owner, code, code metadata, username, storage values);
// reverting to zero restores the last committed state.
// Monitor shape: reference model (RM). A real AccountsDB (real tries over memorydb, real account
// factory, real or disabled pruning manager) and a model receive the same random history of
// creates / saves / removals / storage writes+deletes / code changes (shared blobs), with a stack
// of JournalLen snapshots and nested / repeated RevertToSnapshot calls, commits and
// RevertToSnapshot(0). After every revert the root hash and every observable field are compared
// with the copy taken when the length was recorded.
package main

import (
	"bytes"
	"fmt"
	"sort"
	"strings"

	logger "github.com/ElrondNetwork/elrond-go-logger"
	"github.com/ElrondNetwork/elrond-go/data"

	"verif/internal/acctmodel"
	"verif/internal/vk"
)

func diffStrings(d []acctmodel.Diff) []string {
	var out []string
	for i, x := range d {
		if i >= 12 {
			out = append(out, fmt.Sprintf("... %d more", len(d)-i))
			break
		}
		out = append(out, x.String())
	}
	return out
}

// classify turns the differences seen right after a revert into a witness-class key
func classify(diffs []acctmodel.Diff, rootOK bool, info acctmodel.RevertInfo) string {
	if len(diffs) == 0 {
		if !rootOK {
			return "root-mismatch-after-revert fields-equal"
		}
		return ""
	}
	fields := map[string]bool{}
	for _, d := range diffs {
		fields[d.Field] = true
	}
	// shape: every mismatching address had, since the last commit, a successful removal that this
	// revert undoes and that was followed by a re-creation with storage writes
	shape := func() string {
		for _, d := range diffs {
			hit := false
			for _, r := range info.Crossed {
				if r.Addr == string(d.A) && r.RecreatedWithData {
					hit = true
				}
			}
			if !hit {
				return "other"
			}
		}
		return "remove-recreate-revert"
	}
	if len(fields) == 1 && fields["storage"] {
		return "storage-mismatch-after-revert shape=" + shape()
	}
	if len(fields) == 1 && fields["load-error"] {
		return "load-error-after-revert shape=" + shape()
	}
	// several fields: the key names the first one in a fixed priority order (stable witness classes)
	for _, f := range []string{"exists", "load-error", "balance", "nonce", "owner", "codehash", "code", "codemeta", "username", "storage"} {
		if fields[f] {
			return f + "-mismatch-after-revert"
		}
	}
	return "mismatch-after-revert"
}

func main() {
	logger.SetLogLevel("*:NONE")
	r := vk.Start("C06")
	r.Rule("each case = one history of 20-80 steps over 3-6 addresses (shared prefixes), 3 code blobs, 5-8 storage keys: " +
		"ops (load+modify balance/nonce/owner/codeMetadata/username, SetCode new/shared/changed/cleared, storage write/overwrite/delete, SaveAccount, RemoveAccount, re-create), " +
		"JournalLen snapshots (stack), RevertToSnapshot to any recorded length (nested, repeated), Commit, RevertToSnapshot(0); trie level-in-memory 1/2/5, pruning manager real or disabled. " +
		"A case is non-trivial when at least one revert undid at least one successful operation; shape = multiset of operation kinds undone by each revert (+ whether a removal / re-creation / code change / storage delete was undone). " +
		"Extended histories (appended cases): 3 in 4 draw addresses and storage keys in suffix families (members copy the last 1-4/16/31 bytes, and half of the time one more nibble, of an earlier member: the trie walks keys from the last nibble, so creations and their reverts happen below extension nodes next to sub-families sharing a longer path); " +
		"extra steps: Commit during which the n-th storage Put (n 1-8) fails (database decorator handed to the trie storage manager) followed by RevertToSnapshot(0); 1-2 accounts written with ImportAccount (un-journaled), optionally right after a Commit, then RevertToSnapshot(0); " +
		"kept reader handles (GetExistingAccount of an account with storage) read again after every later operation and every revert.")
	r.Assume("the reference model (map address -> record) is the trusted base",
		"an operation that returns an error is followed by RevertToSnapshot(pre-op JournalLen), as scProcessor does; the state must then equal the pre-op model",
		"account handles are never reused across SaveAccount calls (load, modify, save)",
		"only the value returned by RetrieveValue is compared (an error next to an empty value is ignored)",
		"a Commit that returns an error is followed by RevertToSnapshot(0), as the block processor does; the state must then be the last committed one (a history in which Commit reports success although the armed Put failed is abandoned and counted: a C08 matter)",
		"a kept reader handle is taken only of an account on which RemoveAccount was not called since the last Commit / RevertToSnapshot(0), and is read only while the account has existed with non-empty storage ever since and no Commit / RevertToSnapshot(0) / RemoveAccount of it happened meanwhile (all such handles share the data trie cached under the address)",
		"snapshots are only reverted to while valid: taken since the last Commit/RevertToSnapshot(0) and not above a length already reverted below")
	r.MinShapes(r.N(40, 200))

	nCases := r.N(1000, 30000)
	// extended histories (case index >= nCases; the first nCases cases keep their generator): see extended.go
	nExtended := r.N(700, 15000)
	r.Parallel(nCases+nExtended, func(c *vk.Case) {
		rng := c.Rng
		opt := acctmodel.Options{MaxTrieLevelInMemory: uint([]int{1, 2, 5}[rng.Intn(3)])}
		if rng.Chance(1, 3) {
			opt.Pruning = true
			opt.EWLCacheSize = uint(rng.Range(1, 3))
		}
		extended := c.Idx >= nCases
		var fdb *acctmodel.FaultDB
		if extended {
			// the database handed to the trie storage manager is decorated: transparent until a Put is armed to fail
			opt.WrapDB = func(db data.DBWriteCacher) data.DBWriteCacher {
				fdb = acctmodel.NewFaultDB(db)
				return fdb
			}
			r.Count("extended_cases", 1)
		}
		env, err := acctmodel.NewEnv(opt)
		if err != nil {
			r.Inconclusive("environment: " + err.Error())
			return
		}
		defer env.Close()
		newUniverse := acctmodel.NewUniverse
		if extended && rng.Chance(3, 4) {
			// addresses and storage keys in families sharing their ENDING (the trie walks keys from the last nibble)
			newUniverse = acctmodel.NewSuffixUniverse
			r.Count("suffix_family_cases", 1)
		}
		u := newUniverse(rng, rng.Range(3, 6), 3, rng.Range(5, 8))
		wt := acctmodel.DefaultWeights()
		focused := rng.Chance(1, 3)
		if focused {
			// few accounts and keys, many removals and deletes: data tries empty out, accounts are
			// removed and re-created within one journal
			u = newUniverse(rng, rng.Range(2, 3), 3, rng.Range(2, 3))
			wt.Remove, wt.Storage, wt.Delete, wt.MaxKV = 25, 70, 50, 2
			r.Count("focused_cases", 1)
		}
		w := acctmodel.NewWorld(env, u)
		compareEveryStep := rng.Bool()

		detail := func(extra map[string]interface{}) map[string]interface{} {
			m := map[string]interface{}{"trace": w.Trace, "pruning": opt.Pruning, "maxTrieLevelInMemory": opt.MaxTrieLevelInMemory}
			for k, v := range extra {
				m[k] = v
			}
			return m
		}

		var stack []*acctmodel.Snapshot
		var shapeParts []string
		reverted := map[*acctmodel.Snapshot]bool{}
		nonTrivial := false
		steps := rng.Range(20, 80)

		// oracle applied after every revert (and, as a model-validity check, at other points)
		check := func(point string, wantRoot []byte, info acctmodel.RevertInfo, afterRevert bool) bool {
			r.Eval(1)
			root, errR := env.ADB.RootHash()
			rootOK := errR == nil && bytes.Equal(root, wantRoot)
			if wantRoot == nil {
				rootOK = errR == nil
			}
			diffs := w.Compare()
			if len(diffs) == 0 && rootOK {
				return true
			}
			var key string
			if afterRevert {
				key = classify(diffs, rootOK, info)
			} else {
				fields := map[string]bool{}
				for _, d := range diffs {
					fields[d.Field] = true
				}
				var fs []string
				for f := range fields {
					fs = append(fs, f)
				}
				sort.Strings(fs)
				key = "state-differs-from-model-without-revert at=" + point + " fields=" + strings.Join(fs, "+")
			}
			r.Violation(c.Idx, key, fmt.Sprintf("%s: rootOK=%v; %s", point, rootOK, strings.Join(diffStrings(diffs), "; ")),
				detail(map[string]interface{}{"point": point, "root_got": vk.Hex(root), "root_want": vk.Hex(wantRoot), "diffs": diffs, "crossed_removals": crossedStrings(u, info)}))
			return false
		}

		var ex *extState
		if extended {
			ex = &extState{r: r, c: c, env: env, w: w, u: u, fdb: fdb, detail: detail, check: check,
				stack: &stack, shapeParts: &shapeParts, nonTrivial: &nonTrivial}
		}

		// prologue: usually some committed state (committed storage is what removals need)
		if rng.Chance(4, 5) {
			for i, n := 0, rng.Range(2, 8); i < n; i++ {
				res := w.Apply(w.RandomOp(rng, wt))
				if res.Err != nil && res.RecoverErr != nil {
					r.Violation(c.Idx, "revert-error-after-failed-op", fmt.Sprintf("op failed (%v) and RevertToSnapshot(pre-op length) failed too: %v", res.Err, res.RecoverErr), detail(nil))
					return
				}
				if res.Err != nil && !check("after-failed-op-revert", nil, acctmodel.RevertInfo{}, true) {
					return
				}
			}
			if _, err = w.Commit(); err != nil {
				r.Violation(c.Idx, "commit-error", err.Error(), detail(nil))
				return
			}
		}

		for s := 0; s < steps; s++ {
			if ex != nil {
				handled, ok := ex.step(rng)
				if !ok {
					return
				}
				if handled {
					continue
				}
			}
			x := rng.Intn(100)
			switch {
			case x < 58: // operation
				op := w.RandomOp(rng, wt)
				jlBefore := env.ADB.JournalLen()
				var preRoot []byte
				if compareEveryStep {
					preRoot, _ = env.ADB.RootHash()
				}
				res := w.Apply(op)
				r.Count("ops", 1)
				if res.Err != nil {
					r.Count("ops_failed_then_reverted", 1)
					if res.RecoverErr != nil {
						r.Violation(c.Idx, "revert-error-after-failed-op", fmt.Sprintf("op failed (%v) and RevertToSnapshot(%d) failed too: %v", res.Err, jlBefore, res.RecoverErr), detail(nil))
						return
					}
					// snapshots above the pre-op length cannot exist; lengths stay valid. The state
					// must equal the pre-op model.
					if jlBefore == 0 {
						stack = nil
					}
					if ex != nil {
						ex.dropAddr(op.Addr)
						if jlBefore == 0 {
							ex.dropAll()
						} else if op.Kind == acctmodel.OpRemove {
							ex.removal(op.Addr)
						}
					}
					if !check("after-failed-op-revert", preRoot, acctmodel.RevertInfo{}, true) {
						return
					}
				} else if compareEveryStep {
					if !check("after-op", nil, acctmodel.RevertInfo{}, false) {
						return
					}
				}
				if ex != nil {
					if op.Kind == acctmodel.OpRemove && res.Err == nil {
						ex.removal(op.Addr)
					}
					if !ex.readWitnesses("after-op") {
						return
					}
				}
			case x < 75: // snapshot
				sn, errS := w.Snapshot()
				if errS != nil {
					r.Violation(c.Idx, "roothash-error", errS.Error(), detail(nil))
					return
				}
				stack = append(stack, sn)
				r.Max("max_snapshot_stack", int64(len(stack)))
			case x < 90: // revert to any recorded length
				if len(stack) == 0 {
					continue
				}
				i := rng.Intn(len(stack))
				if rng.Chance(1, 3) {
					i = len(stack) - 1
				}
				sn := stack[i]
				if i < len(stack)-1 {
					r.Count("reverts_over_inner_snapshots", 1)
				}
				if reverted[sn] {
					r.Count("reverts_repeated_to_same_snapshot", 1)
				}
				reverted[sn] = true
				undone := append([]acctmodel.LiveEvent(nil), w.Live[minInt(sn.LiveLen, len(w.Live)):]...)
				info, errV := w.Revert(sn)
				if errV != nil {
					r.Violation(c.Idx, "revert-error", fmt.Sprintf("RevertToSnapshot(%d) with journal length >= it returned %v", sn.JournalLen, errV), detail(nil))
					return
				}
				stack = stack[:i+1] // the snapshot itself stays valid (repeated reverts)
				if sn.JournalLen == 0 {
					// RevertToSnapshot(0) == back to the committed state; all recorded lengths stay 0-valid only
					stack = stack[:0]
				}
				r.Count("reverts", 1)
				r.Count("ops_undone", len(undone))
				if len(undone) > 0 {
					nonTrivial = true
					shapeParts = append(shapeParts, undoneShape(undone))
				}
				if !check(fmt.Sprintf("after-revert-to-%d", sn.JournalLen), sn.Root, info, true) {
					return
				}
				if ex != nil {
					if sn.JournalLen == 0 {
						ex.dropAll()
					}
					if !ex.readWitnesses("after-revert") {
						return
					}
				}
			case x < 96: // commit
				if _, errC := w.Commit(); errC != nil {
					r.Violation(c.Idx, "commit-error", errC.Error(), detail(nil))
					return
				}
				stack = nil
				if ex != nil {
					ex.dropAll()
				}
				if !check("after-commit", nil, acctmodel.RevertInfo{}, false) {
					return
				}
			default: // revert to zero
				undone := append([]acctmodel.LiveEvent(nil), w.Live...)
				info, errV := w.RevertToCommitted()
				if errV != nil {
					r.Violation(c.Idx, "revert-error", fmt.Sprintf("RevertToSnapshot(0) returned %v", errV), detail(nil))
					return
				}
				stack = nil
				if ex != nil {
					ex.dropAll()
				}
				r.Count("reverts_to_zero", 1)
				r.Count("ops_undone", len(undone))
				if len(undone) > 0 {
					nonTrivial = true
					shapeParts = append(shapeParts, "Z:"+undoneShape(undone))
				}
				if !check("after-revert-to-0", w.CommittedRoot, info, true) {
					return
				}
			}
		}
		for k, v := range w.Counts {
			r.Count("w_"+k, v)
		}
		if nonTrivial {
			r.ShapeHash(shapeParts...)
		} else {
			r.Trivial()
		}
		if nonTrivial && r.NeedSample() {
			tr := w.Trace
			if len(tr) > 40 {
				tr = tr[:40]
			}
			r.Sample(map[string]interface{}{"case": c.Idx, "pruning": opt.Pruning, "addresses": len(u.Addrs), "first_steps": tr})
		}
	})
	r.Finish()
}

func crossedStrings(u *acctmodel.Universe, info acctmodel.RevertInfo) []string {
	var out []string
	for _, x := range info.Crossed {
		name := "?"
		for i, a := range u.Addrs {
			if string(a) == x.Addr {
				name = fmt.Sprintf("A%d", i)
			}
		}
		out = append(out, fmt.Sprintf("remove %s (live index %d, had storage %v, re-created with storage afterwards %v, already undone by an earlier revert %v)", name, x.LiveIdx, x.HadStorage, x.RecreatedWithData, x.UndoneBefore))
	}
	return out
}

func minInt(a, b int) int {
	if a < b {
		return a
	}
	return b
}

// undoneShape summarises the operations a revert undid
func undoneShape(ev []acctmodel.LiveEvent) string {
	var p []string
	for _, e := range ev {
		s := "s"
		if e.Op.Kind == acctmodel.OpRemove {
			s = "R"
			if e.HadDataTrie {
				s = "Rd"
			}
		} else {
			if !e.Existed {
				s = "c"
			}
			if e.Op.Code != nil {
				s += "k"
			}
			for _, kv := range e.Op.Storage {
				if len(kv.Value) == 0 {
					s += "-"
				} else {
					s += "+"
				}
			}
		}
		p = append(p, s)
	}
	return strings.Join(p, ",")
}
