package main

import (
	"sync"
	"sync/atomic"
	"time"

	"github.com/ElrondNetwork/elrond-go/core"
	"github.com/ElrondNetwork/elrond-go/sharding"
	sg "verif/internal/shufflegen"
	"verif/internal/vk"
)

// countingCache decorates the consensus group cache the harness supplies to coordinator A: it counts
// hits and puts, and it can be armed with an action that runs once, at the beginning of the next Get.
// ComputeConsensusGroup looks the cache up after it has released the coordinator's lock and before it
// selects the group: a goroutine that is pre-empted at that point while the epoch start subscriber
// delivers another epoch start block for the same epoch is an interleaving the real node can see
// (interceptors compute groups concurrently with the epoch start notifications). The armed action runs
// in a goroutine of its own and Get waits for it, bounded by a timeout, so that code that (wrongly)
// held a lock across the lookup would not dead-lock the harness.
type countingCache struct {
	inner sharding.Cacher
	hits  int64
	puts  int64

	mutArmed sync.Mutex
	armed    func()
	fired    int64
	lastDone chan struct{}
}

func (c *countingCache) Clear() { c.inner.Clear() }
func (c *countingCache) Put(k []byte, v interface{}, s int) bool {
	atomic.AddInt64(&c.puts, 1)
	return c.inner.Put(k, v, s)
}
func (c *countingCache) Get(k []byte) (interface{}, bool) {
	c.mutArmed.Lock()
	action := c.armed
	c.armed = nil
	c.mutArmed.Unlock()
	if action != nil {
		done := make(chan struct{})
		c.mutArmed.Lock()
		c.lastDone = done
		c.mutArmed.Unlock()
		go func() {
			defer close(done)
			action()
		}()
		select {
		case <-done:
		case <-time.After(20 * time.Second):
		}
		atomic.AddInt64(&c.fired, 1)
	}
	v, ok := c.inner.Get(k)
	if ok {
		atomic.AddInt64(&c.hits, 1)
	}
	return v, ok
}

// arm installs the action for the next Get
func (c *countingCache) arm(action func()) {
	c.mutArmed.Lock()
	c.armed = action
	c.mutArmed.Unlock()
}

// waitAction waits until the action taken by a Get (if any) has returned
func (c *countingCache) waitAction() {
	c.mutArmed.Lock()
	done := c.lastDone
	c.lastDone = nil
	c.mutArmed.Unlock()
	if done != nil {
		<-done
	}
}

// disarm removes an action that was not taken; it reports whether there was one
func (c *countingCache) disarm() bool {
	c.mutArmed.Lock()
	was := c.armed != nil
	c.armed = nil
	c.mutArmed.Unlock()
	return was
}

// lowerShufflerMinimums makes the spec one whose shuffler minimums (nodes per shard / metachain) are below
// the consensus group sizes: with such a configuration the shuffler can hand the coordinator lists that
// are too small for a consensus group, which the coordinator has to refuse. It reports whether any group size allowed it (sizes >= 2).
func lowerShufflerMinimums(spec *sg.CoordSpec, rng *vk.Rand) bool {
	changed := false
	if spec.ShardCons >= 2 {
		spec.NodesShard = uint32(1 + rng.Intn(spec.ShardCons-1))
		changed = true
	}
	if spec.MetaCons >= 2 {
		spec.NodesMeta = uint32(1 + rng.Intn(spec.MetaCons-1))
		changed = true
	}
	return changed
}

// truncateInfos is the validator info of a competing epoch start block that lacks records: for one or more
// shards (those with a group size >= 2) only 1..size-1 of the eligible/leaving records are kept, as eligible
// ones, so that the eligible list that comes out of the shuffle cannot hold a
// consensus group. It returns the records and the shards that were cut.
func truncateInfos(spec *sg.CoordSpec, infos []sg.Info, rng *vk.Rand) ([]sg.Info, []uint32) {
	var candidates []uint32
	for _, s := range spec.Shards() {
		if spec.Cons(s) >= 2 {
			candidates = append(candidates, s)
		}
	}
	if len(candidates) == 0 {
		return infos, nil
	}
	cut := map[uint32]int{}
	first := candidates[rng.Intn(len(candidates))]
	cut[first] = 1 + rng.Intn(spec.Cons(first)-1)
	for _, s := range candidates {
		if _, in := cut[s]; !in && rng.Chance(1, 4) {
			cut[s] = 1 + rng.Intn(spec.Cons(s)-1)
		}
	}
	var out []sg.Info
	var shards []uint32
	kept := map[uint32]int{}
	for _, inf := range infos {
		keep, isCut := cut[inf.Shard]
		if isCut && (inf.List == string(core.EligibleList) || inf.List == string(core.LeavingList)) {
			// the first records of the shard stay, as eligible ones (every shard keeps at least one eligible
			// record: the coordinator takes the number of shards from the records)
			if kept[inf.Shard] >= keep {
				continue
			}
			kept[inf.Shard]++
			inf.List = string(core.EligibleList)
		}
		out = append(out, inf)
	}
	for _, s := range spec.Shards() {
		if _, in := cut[s]; in {
			shards = append(shards, s)
		}
	}
	return out, shards
}

// sameLists compares two per-shard key lists (same shards, same keys in the same order)
func sameLists(a, b map[uint32][]string) bool {
	if len(a) != len(b) {
		return false
	}
	for s, la := range a {
		lb, ok := b[s]
		if !ok || !eq(la, lb) {
			return false
		}
	}
	return true
}

// wellFormed checks size, distinctness and membership of a group; it returns "" or what is wrong
func wellFormed(keys []string, want int, eligible []string) string {
	if len(keys) != want {
		return "wrong size"
	}
	in := map[string]bool{}
	for _, k := range eligible {
		in[k] = true
	}
	seen := map[string]bool{}
	for _, k := range keys {
		if seen[k] {
			return "duplicate member"
		}
		seen[k] = true
		if !in[k] {
			return "member not eligible"
		}
	}
	return ""
}
