// C15 — consensus groups are well-formed and reproducible.
// Monitor shape: invariant + metamorphic over the real nodes coordinators (plain and rater variant).
// Per case two coordinators are built independently from the same description: A with the real LRU
// group cache (sizes 1..10000, so hits and evictions both happen), B with maps inserted in another
// order and a cache that never stores anything. Half of the cases also go through one real epoch change
// (EpochStartPrepare/EpochStartAction with the same body on both), so that two epochs are known.
// An epoch may be prepared twice on A (replaced epoch start block); B, which only saw the final block,
// is the reference. At the end a new instance is restored from A's boot storage with LoadState.
// For every call (randomness and rounds drawn from small pools so that keys repeat and collide in all
// but one component): size == configured group size, pairwise distinct keys, subset of the shard's
// eligible list of that epoch, group[0] == first key of GetConsensusValidatorsPublicKeys, A == B,
// and A asked again (warm cache) == first answer. Half of the second prepares are delivered while a
// ComputeConsensusGroup call of A for that epoch is in flight (the harness-supplied cache decorator runs the
// prepare at the call's cache lookup, where the coordinator holds no lock): the call must return the
// group of the first block's configuration or the group of the surviving one, and the same call asked
// again afterwards must equal the reference. A quarter of the coordinators have shuffler minimums below
// the group sizes; there the second block may lack records, so that the coordinator has to refuse it for
// the already known epoch: the eligible lists A reports must then still be those of a coordinator that
// was only given the first block (B is made that coordinator), and so must the groups. Each case ends with a concurrent burst: 4-8 goroutines ask A
// for groups of one shard/epoch with fresh randomness; every answer must equal B's sequential answer.
package main

import (
	"fmt"
	"sync"
	"sync/atomic"

	logger "github.com/ElrondNetwork/elrond-go-logger"
	"github.com/ElrondNetwork/elrond-go/sharding"
	"github.com/ElrondNetwork/elrond-go/sharding/mock"
	"github.com/ElrondNetwork/elrond-go/storage/lrucache"
	sg "verif/internal/shufflegen"
	"verif/internal/vk"
)

func groupKeys(g []sharding.Validator) []string {
	out := make([]string, len(g))
	for i, v := range g {
		out[i] = string(v.PubKey())
	}
	return out
}

func eq(a, b []string) bool {
	if len(a) != len(b) {
		return false
	}
	for i := range a {
		if a[i] != b[i] {
			return false
		}
	}
	return true
}

func main() {
	_ = logger.SetLogLevel("*:NONE")
	r := vk.Start("C15")
	r.Rule("coordinators with 1-3 shards + metachain, group sizes 1-7, eligible sizes from the group size to 3x the group size, waiting 0-4, plain or rater variant (chance table with minimum 1/2/5, entries below the minimum, and very skewed entries 200-2000), sha256 or blake2b, LRU cache size 1/3/50/10000; 0-3 real epoch changes, half of them prepared twice on A (a replaced epoch start block with other validator info and randomness, groups computed in between and asked again afterwards; half of the second prepares run while a call for that epoch is held at its cache lookup; in the quarter of the coordinators whose shuffler minimums are below the group sizes two thirds of the second blocks lack records of 1+ shards and must be refused), the last one sometimes without EpochStartAction; a concurrent burst; finally a new instance over the same real boot storage unit restored with LoadState(saved key) and compared on 16-25 calls; per case 40-90 sequential calls with randomness from a pool of 3 values (1-40 bytes, may contain '_' and digits), rounds from a pool of 4, every shard, every known epoch; every call is non-trivial; distinct = distinct (rater, skewed, shard kind, group size, eligible size, epoch kind, cache state)")
	r.Assume("randomness is non-empty (empty randomness is rejected by the coordinator)", "a coordinator that refuses an epoch start block for an epoch it already knows keeps the configuration it had for that epoch (reference: a coordinator that was never given the refused block)", "the eligible list of the start epoch is the harness's own copy of the constructor input; for the epoch created by the epoch change it is what GetAllEligibleValidatorsPublicKeys reports")
	r.MinShapes(60)
	n := r.N(1500, 36000)

	r.Parallel(n, func(c *vk.Case) {
		rng := c.Rng
		spec := sg.GenCoord(rng, sg.CoordOpts{MaxShards: 3, MaxCons: 7, MaxEpoch: 3, EpochsAhead: 2})
		// a quarter of the coordinators have a shuffler whose minimum nodes per shard are below the group
		// sizes: there an epoch start block that lacks records makes lists the coordinator has to refuse
		lowMin := false
		if rng.Chance(1, 4) {
			lowMin = lowerShufflerMinimums(spec, rng)
		}
		if lowMin {
			r.Count("cases_with_shuffler_minimum_below_group_size", 1)
		}
		size := []int{1, 3, 50, 10000}[rng.Intn(4)]
		lru, err := lrucache.NewCache(size)
		if err != nil {
			panic(err)
		}
		cache := &countingCache{inner: lru}
		storer := sg.NewBootStorer() // real storage unit: a restarted instance loads from it
		a, err := spec.BuildWith(nil, cache, storer)
		if err != nil {
			r.Violation(c.Idx, "constructor-error", "coordinator A: "+err.Error(), map[string]interface{}{"spec": spec.Dump()})
			return
		}
		b, err := spec.Build(rng.Fork(), &mock.NodesCoordinatorCacheMock{})
		if err != nil {
			r.Violation(c.Idx, "constructor-error", "coordinator B: "+err.Error(), map[string]interface{}{"spec": spec.Dump()})
			return
		}
		if spec.Rater {
			r.Count("cases_with_rater", 1)
			if spec.Skewed {
				r.Count("cases_with_skewed_weights", 1)
			}
		}

		// eligible lists per epoch
		eligible := map[uint32]map[uint32][]string{spec.StartEpoch: {}}
		for _, s := range spec.Shards() {
			for _, v := range spec.Eligible[s] {
				eligible[spec.StartEpoch][s] = append(eligible[spec.StartEpoch][s], v.Key)
			}
		}
		epochs := []uint32{spec.StartEpoch}

		pool := make([][]byte, 3)
		for i := range pool {
			switch rng.Intn(3) {
			case 0:
				pool[i] = rng.Bytes(32)
			case 1:
				pool[i] = []byte(fmt.Sprintf("seed_%d_%d", rng.Intn(3), rng.Intn(3)))
			default:
				pool[i] = rng.Bytes(1 + rng.Intn(40))
			}
		}
		rounds := []uint64{0, 1, uint64(rng.Intn(50)), rng.U64()}
		shards := spec.Shards()
		var infosDump []string

		// calls answered by A between the first and the second EpochStartPrepare of an epoch: if one of
		// them is later answered differently from the reference, the answer is a left-over of the first block
		staleCandidates := map[string][]string{}
		preparedTwice := map[uint32]bool{}
		callKey := func(rnd []byte, round uint64, shard, epoch uint32) string {
			return fmt.Sprintf("%x/%d/%d/%d", rnd, round, shard, epoch)
		}
		callWith := func(phase string, rnd []byte, round uint64, shard, epoch uint32) bool {
			want := spec.Cons(shard)
			answeredBefore, wasAsked := staleCandidates[callKey(rnd, round, shard, epoch)]
			stale := false // set once A's answer is known: it repeats the answer given under the replaced block
			el := eligible[epoch][shard]
			hitsBefore := atomic.LoadInt64(&cache.hits)
			detail := func(extra map[string]interface{}) map[string]interface{} {
				m := map[string]interface{}{"spec": spec.Dump(), "randomness": vk.Hex(rnd), "round": round, "shard": sg.ShardName(shard), "epoch": epoch, "phase": phase, "cacheSize": size, "epochChangeInfos": infosDump}
				for k, v := range extra {
					m[k] = v
				}
				return m
			}
			gA, err := a.ComputeConsensusGroup(append([]byte(nil), rnd...), round, shard, epoch)
			r.Eval(1)
			r.Count("calls", 1)
			if err != nil {
				r.Violation(c.Idx, "error-on-valid-input", fmt.Sprintf("ComputeConsensusGroup(shard %s, epoch %d): %v", sg.ShardName(shard), epoch, err), detail(nil))
				return false
			}
			kA := groupKeys(gA)
			stale = wasAsked && eq(kA, answeredBefore)
			warmFirst := atomic.LoadInt64(&cache.hits) > hitsBefore
			if warmFirst {
				r.Count("first_answer_served_from_cache", 1)
			}
			epochKind := "start"
			if epoch != spec.StartEpoch {
				epochKind = "after-change"
			}
			if preparedTwice[epoch] {
				epochKind = "prepared-twice"
			}
			sk := "shard"
			if shard == sg.Meta {
				sk = "meta"
			}
			r.Shape(fmt.Sprintf("rater%v skew%v %s g%d e%d %s warm%v", spec.Rater, spec.Skewed, sk, want, len(el), epochKind, warmFirst))
			if len(el) == want {
				r.Count("calls_selecting_the_whole_list", 1)
			}
			ok := true
			if len(kA) != want {
				r.Violation(c.Idx, "wrong-size", fmt.Sprintf("group has %d members, configured %d", len(kA), want), detail(map[string]interface{}{"group": sg.HexList(kA)}))
				ok = false
			}
			seen := map[string]bool{}
			inEl := map[string]bool{}
			for _, k := range el {
				inEl[k] = true
			}
			for _, k := range kA {
				if seen[k] && ok {
					r.Violation(c.Idx, "duplicate-member", fmt.Sprintf("validator %x selected twice", k), detail(map[string]interface{}{"group": sg.HexList(kA)}))
					ok = false
				}
				seen[k] = true
				if !inEl[k] && ok && stale {
					r.Violation(c.Idx, "stale-group-after-epoch-prepared-again", fmt.Sprintf("validator %x is not eligible in shard %s epoch %d according to the last prepared block; the same call was answered after the first prepare", k, sg.ShardName(shard), epoch), detail(map[string]interface{}{"group": sg.HexList(kA), "eligible": sg.HexList(el)}))
					ok = false
				}
				if !inEl[k] && ok {
					r.Violation(c.Idx, "member-not-eligible", fmt.Sprintf("validator %x is not in the eligible list of shard %s epoch %d", k, sg.ShardName(shard), epoch), detail(map[string]interface{}{"group": sg.HexList(kA), "eligible": sg.HexList(el)}))
					ok = false
				}
			}
			r.Eval(3)
			// leader from the public-key API (a warm-cache call on A)
			pk, err := a.GetConsensusValidatorsPublicKeys(append([]byte(nil), rnd...), round, shard, epoch)
			r.Eval(1)
			if err != nil {
				r.Violation(c.Idx, "error-on-valid-input", "GetConsensusValidatorsPublicKeys: "+err.Error(), detail(nil))
				return false
			}
			if len(pk) == 0 || len(kA) == 0 || pk[0] != kA[0] {
				r.Violation(c.Idx, "leader-mismatch", fmt.Sprintf("group[0]=%x, public-key API leader %s", first(kA), sg.HexList(pk[:minI(1, len(pk))])), detail(map[string]interface{}{"group": sg.HexList(kA), "publicKeys": sg.HexList(pk)}))
				ok = false
			} else if !eq(pk, kA) {
				r.Violation(c.Idx, "warm-cache-differs", "GetConsensusValidatorsPublicKeys returns another group than ComputeConsensusGroup just did", detail(map[string]interface{}{"group": sg.HexList(kA), "publicKeys": sg.HexList(pk)}))
				ok = false
			}
			// independent coordinator without cache
			gB, err := b.ComputeConsensusGroup(append([]byte(nil), rnd...), round, shard, epoch)
			r.Eval(1)
			if err != nil {
				r.Violation(c.Idx, "error-on-valid-input", "coordinator B: "+err.Error(), detail(nil))
				return false
			}
			if kB := groupKeys(gB); !eq(kA, kB) {
				key := "coordinators-disagree"
				if warmFirst {
					key = "cached-differs-from-fresh"
				}
				if stale && warmFirst {
					key = "stale-group-after-epoch-prepared-again"
				}
				r.Violation(c.Idx, key, fmt.Sprintf("A (cache size %d, answer from cache: %v) and B (no cache) compute different groups", size, warmFirst), detail(map[string]interface{}{"groupA": sg.HexList(kA), "groupB": sg.HexList(kB)}))
				ok = false
			}
			// warm cache on A
			gA2, err := a.ComputeConsensusGroup(append([]byte(nil), rnd...), round, shard, epoch)
			r.Eval(1)
			if err != nil {
				r.Violation(c.Idx, "error-on-valid-input", "second call: "+err.Error(), detail(nil))
				return false
			}
			if k2 := groupKeys(gA2); !eq(kA, k2) {
				r.Violation(c.Idx, "warm-cache-differs", "the same coordinator answers differently the second time", detail(map[string]interface{}{"first": sg.HexList(kA), "second": sg.HexList(k2)}))
				ok = false
			}
			if ok && r.NeedSample() && spec.Rater && want >= 3 && spec.NbShards == 1 {
				r.Sample(detail(map[string]interface{}{"group": sg.HexList(kA)}))
			}
			return ok
		}
		call := func(phase string) bool {
			return callWith(phase, pool[rng.Intn(len(pool))], rounds[rng.Intn(len(rounds))], shards[rng.Intn(len(shards))], epochs[rng.Intn(len(epochs))])
		}

		n1 := 12 + rng.Intn(8)
		for i := 0; i < n1; i++ {
			if !call("before-epoch-change") {
				return
			}
		}
		// 0-3 epoch changes. A change may be "prepared twice": A first sees a block that is later replaced
		// (rollback of the epoch start block) by a competing block with other validator info and another
		// PrevRandSeed, computes groups for the new epoch in between, and only then sees the final block;
		// B only ever sees the final block. The last change may stay without EpochStartAction.
		curEpoch := spec.StartEpoch
		nChanges := []int{0, 1, 1, 1, 2, 2, 3}[rng.Intn(7)]
		type pending struct {
			rnd   []byte
			round uint64
			shard uint32
		}
		for ch := 1; ch <= nChanges; ch++ {
			prev, err := sg.ReadConfig(b, curEpoch)
			if err != nil {
				panic(err)
			}
			newEpoch := curEpoch + 1
			var between []pending
			var infos1 []sg.Info
			var rand1 []byte
			var seed1 uint64
			if rng.Chance(1, 2) {
				infos1 = sg.GenInfos(spec, prev, nil, rng)
				rand1, seed1 = rng.Bytes(32), rng.U64()
				a.EpochStartPrepare(sg.Header(newEpoch, rand1), sg.MakeBody(infos1, vk.NewRand(seed1)))
				if _, errCfg := sg.ReadConfig(a, newEpoch); errCfg == nil {
					preparedTwice[newEpoch] = true
					r.Count("epochs_prepared_twice", 1)
					for i, nb := 0, 4+rng.Intn(8); i < nb; i++ {
						q := pending{rnd: pool[rng.Intn(len(pool))], round: rounds[rng.Intn(len(rounds))], shard: shards[rng.Intn(len(shards))]}
						gOld, errG := a.ComputeConsensusGroup(append([]byte(nil), q.rnd...), q.round, q.shard, newEpoch)
						if errG != nil {
							r.Violation(c.Idx, "error-on-valid-input", fmt.Sprintf("ComputeConsensusGroup for the prepared epoch %d: %v", newEpoch, errG), map[string]interface{}{"spec": spec.Dump(), "firstBlockInfos": sg.DumpInfos(infos1)})
							return
						}
						staleCandidates[callKey(q.rnd, q.round, q.shard, newEpoch)] = groupKeys(gOld)
						between = append(between, q)
						r.Count("calls_between_the_two_prepares", 1)
					}
				}
			}
			infos := sg.GenInfos(spec, prev, nil, rng)
			// in coordinators with low shuffler minimums the block that replaces the first one may lack records
			var cutShards []uint32
			if preparedTwice[newEpoch] && lowMin && rng.Chance(2, 3) {
				infos, cutShards = truncateInfos(spec, infos, rng)
				if len(cutShards) > 0 {
					r.Count("second_blocks_lacking_records", 1)
				}
			}
			blockLabel := "final block"
			if len(cutShards) > 0 {
				blockLabel = fmt.Sprintf("second block, records of shards %v cut below the group size", cutShards)
			}
			infosDump = append(infosDump, fmt.Sprintf("--- epoch %d (%s) ---", newEpoch, blockLabel))
			infosDump = append(infosDump, sg.DumpInfos(infos)...)
			seed := rng.U64()
			prevRand := rng.Bytes(32)
			hdr := sg.Header(newEpoch, prevRand)
			deliverToA := func() { a.EpochStartPrepare(hdr, sg.MakeBody(infos, vk.NewRand(seed))) }

			// half of the second prepares arrive while a ComputeConsensusGroup call for that epoch is in flight:
			// the call is held at its cache lookup (no coordinator lock is held there) until the prepare is over.
			// The same call was answered just before (configuration of the first block); its answer is compared
			// further down with that and with the reference's answer under the surviving configuration.
			type overlapped struct {
				q          pending
				before     []string
				during     []string
				err        error
				panicked   bool
				panicVal   string
				panicFrame string
			}
			var ov *overlapped
			if preparedTwice[newEpoch] && rng.Chance(1, 2) {
				ov = &overlapped{q: pending{rnd: rng.Bytes(9 + rng.Intn(24)), round: rounds[rng.Intn(len(rounds))], shard: shards[rng.Intn(len(shards))]}}
				cfg1, errCfg := sg.ReadConfig(a, newEpoch)
				gBefore, errG := a.ComputeConsensusGroup(append([]byte(nil), ov.q.rnd...), ov.q.round, ov.q.shard, newEpoch)
				if errCfg != nil || errG != nil {
					r.Violation(c.Idx, "error-on-valid-input", fmt.Sprintf("ComputeConsensusGroup / config for the prepared epoch %d: %v %v", newEpoch, errG, errCfg), map[string]interface{}{"spec": spec.Dump(), "firstBlockInfos": sg.DumpInfos(infos1)})
					return
				}
				ov.before = groupKeys(gBefore)
				r.Eval(1)
				if bad := wellFormed(ov.before, spec.Cons(ov.q.shard), cfg1.Eligible[ov.q.shard]); bad != "" {
					r.Violation(c.Idx, "malformed-group under-first-block", fmt.Sprintf("group for epoch %d prepared from the first block: %s", newEpoch, bad), map[string]interface{}{"spec": spec.Dump(), "firstBlockInfos": sg.DumpInfos(infos1), "group": sg.HexList(ov.before), "eligible": sg.HexList(cfg1.Eligible[ov.q.shard])})
					return
				}
				cache.arm(deliverToA)
				var gDuring []sharding.Validator
				panicked, val, stack := vk.Guard(func() {
					gDuring, ov.err = a.ComputeConsensusGroup(append([]byte(nil), ov.q.rnd...), ov.q.round, ov.q.shard, newEpoch)
				})
				cache.waitAction()
				if cache.disarm() {
					// the call never looked the cache up: deliver the block now
					r.Count("second_prepare_not_taken_by_the_call_in_flight", 1)
					deliverToA()
				} else {
					r.Count("second_prepares_during_a_call_in_flight", 1)
				}
				if panicked {
					ov.panicked, ov.panicVal, ov.panicFrame = true, fmt.Sprint(val), vk.TopFrame(stack)
				} else if ov.err == nil {
					ov.during = groupKeys(gDuring)
				}
			} else {
				deliverToA()
			}
			b.EpochStartPrepare(sg.Header(newEpoch, prevRand), sg.MakeBody(infos, vk.NewRand(seed)))
			cfg, err := sg.ReadConfig(b, newEpoch)
			survivor := "second"
			if err != nil && preparedTwice[newEpoch] {
				// the reference refuses the block; A knows the epoch from the first block, which is what a
				// coordinator that was only ever given the first block has: make B that coordinator
				b.EpochStartPrepare(sg.Header(newEpoch, rand1), sg.MakeBody(infos1, vk.NewRand(seed1)))
				cfg, err = sg.ReadConfig(b, newEpoch)
				if err != nil {
					r.Violation(c.Idx, "coordinators-disagree on-accepting-a-block", fmt.Sprintf("A installed epoch %d from the first block, the reference coordinator refuses the same block", newEpoch), map[string]interface{}{"spec": spec.Dump(), "firstBlockInfos": sg.DumpInfos(infos1)})
					return
				}
				survivor = "first"
				r.Count("second_prepares_refused_on_a_known_epoch", 1)
				infosDump = append(infosDump, fmt.Sprintf("--- epoch %d (first block; the second one is refused by a coordinator that does not know the epoch) ---", newEpoch))
				infosDump = append(infosDump, sg.DumpInfos(infos1)...)
			}
			if err != nil {
				r.Count("epoch_change_not_installed", 1)
				break
			}
			if len(cfg.Eligible) != len(spec.Shards()) {
				// a block without any eligible record of a shard changes the number of shards of the epoch
				r.Count("epoch_installed_with_other_shard_count", 1)
				break
			}
			// quiescent: what A reports for the epoch is what the reference reports
			cfgA, errA := sg.ReadConfig(a, newEpoch)
			r.Eval(1)
			if errA != nil || !sameLists(cfgA.Eligible, cfg.Eligible) {
				key := "eligible-lists-differ-from-reference"
				if survivor == "first" {
					key = "eligible-lists-changed-by-refused-prepare"
				}
				det := map[string]interface{}{"spec": spec.Dump(), "epoch": newEpoch, "epochChangeInfos": infosDump, "survivingBlock": survivor, "referenceConfig": cfg.Dump()}
				if errA == nil {
					det["configOfA"] = cfgA.Dump()
				}
				r.Violation(c.Idx, key, fmt.Sprintf("epoch %d: the eligible lists A reports (err=%v) are not those of a coordinator that was given the %s block only", newEpoch, errA, survivor), det)
				return
			}
			r.Count("epoch_changes", 1)
			eligible[newEpoch] = cfg.Eligible
			epochs = append(epochs, newEpoch)
			if ov != nil {
				det := map[string]interface{}{"spec": spec.Dump(), "epoch": newEpoch, "randomness": vk.Hex(ov.q.rnd), "round": ov.q.round, "shard": sg.ShardName(ov.q.shard), "cacheSize": size, "firstBlockInfos": sg.DumpInfos(infos1), "epochChangeInfos": infosDump, "survivingBlock": survivor, "groupUnderFirstBlock": sg.HexList(ov.before)}
				r.Eval(1)
				if ov.panicked {
					det["panic"] = ov.panicVal
					r.Violation(c.Idx, "panic mode=call-overlapping-second-prepare", fmt.Sprintf("ComputeConsensusGroup panicked while epoch %d was prepared again: %s at %s", newEpoch, ov.panicVal, ov.panicFrame), det)
					return
				}
				if ov.err != nil {
					r.Violation(c.Idx, "error-on-valid-input mode=call-overlapping-second-prepare", fmt.Sprintf("ComputeConsensusGroup while epoch %d was prepared again: %v", newEpoch, ov.err), det)
					return
				}
				gRef, errRef := b.ComputeConsensusGroup(append([]byte(nil), ov.q.rnd...), ov.q.round, ov.q.shard, newEpoch)
				if errRef != nil {
					r.Violation(c.Idx, "error-on-valid-input", "coordinator B: "+errRef.Error(), det)
					return
				}
				after := groupKeys(gRef)
				det["groupDuringSecondPrepare"], det["groupOfReference"] = sg.HexList(ov.during), sg.HexList(after)
				isOld, isNew := eq(ov.during, ov.before), eq(ov.during, after)
				switch {
				case isOld && isNew:
					r.Count("overlapping_call_same_group_under_both_blocks", 1)
				case isOld:
					r.Count("overlapping_call_answered_from_first_block", 1)
				case isNew:
					r.Count("overlapping_call_answered_from_surviving_block", 1)
				default:
					r.Violation(c.Idx, "group-of-neither-configuration mode=call-overlapping-second-prepare", fmt.Sprintf("a group computed while epoch %d was prepared again is neither the group of the first block's configuration nor the group of the surviving one", newEpoch), det)
					return
				}
				// quiescent: the same call once more
				gAgain, errAgain := a.ComputeConsensusGroup(append([]byte(nil), ov.q.rnd...), ov.q.round, ov.q.shard, newEpoch)
				r.Eval(1)
				if errAgain != nil {
					r.Violation(c.Idx, "error-on-valid-input", "after the second prepare: "+errAgain.Error(), det)
					return
				}
				if again := groupKeys(gAgain); !eq(again, after) {
					det["groupAskedAgain"] = sg.HexList(again)
					key := "coordinators-disagree after-call-overlapping-second-prepare"
					if eq(again, ov.before) {
						key = "stale-group-cached-by-call-overlapping-second-prepare"
					}
					r.Violation(c.Idx, key, fmt.Sprintf("after epoch %d was prepared again A answers a call, that was in flight during the prepare, differently from the reference", newEpoch), det)
					if key != "stale-group-cached-by-call-overlapping-second-prepare" {
						return
					}
					// the stale entry is keyed by a randomness that is never asked again: the case goes on
				}
			}
			// the prepared epoch can be asked for before EpochStartAction: first the very calls A already
			// answered under the replaced block, then random ones
			for _, q := range between {
				r.Count("calls_repeated_after_the_second_prepare", 1)
				if !callWith("after-second-prepare", q.rnd, q.round, q.shard, newEpoch) {
					return
				}
			}
			for i, nb := 0, 3+rng.Intn(6); i < nb; i++ {
				if !call("prepared-not-yet-started") {
					return
				}
			}
			if ch == nChanges && rng.Chance(1, 4) {
				r.Count("last_change_without_EpochStartAction", 1)
				break
			}
			a.EpochStartAction(hdr)
			b.EpochStartAction(sg.Header(newEpoch, prevRand))
			curEpoch = newEpoch
			// EpochStartAction drops old epochs
			kept := epochs[:0]
			for _, e := range epochs {
				if _, errB := sg.ReadConfig(b, e); errB == nil {
					kept = append(kept, e)
				}
			}
			epochs = kept
			for i, nb := 0, 3+rng.Intn(6); i < nb; i++ {
				if !call("after-epoch-change") {
					return
				}
			}
		}
		n2 := 12 + rng.Intn(20)
		for i := 0; i < n2; i++ {
			if !call("final") {
				return
			}
		}
		// concurrent burst: several goroutines ask coordinator A for groups of the SAME shard and epoch with
		// fresh randomness (cache misses), as interceptors verifying headers do; every answer must equal what
		// coordinator B computes sequentially for the same input, and be well formed
		{
			shard := shards[rng.Intn(len(shards))]
			epoch := epochs[rng.Intn(len(epochs))]
			want := spec.Cons(shard)
			workers := 4 + rng.Intn(5)
			per := 6
			type q struct {
				rnd   []byte
				round uint64
				got   []string
				err   error
			}
			qs := make([][]q, workers)
			for w := range qs {
				qs[w] = make([]q, per)
				for i := range qs[w] {
					qs[w][i] = q{rnd: rng.Bytes(8 + rng.Intn(25)), round: rounds[rng.Intn(len(rounds))]}
				}
			}
			var wg sync.WaitGroup
			start := make(chan struct{})
			for w := 0; w < workers; w++ {
				wg.Add(1)
				go func(w int) {
					defer wg.Done()
					<-start
					for i := range qs[w] {
						g, errC := a.ComputeConsensusGroup(append([]byte(nil), qs[w][i].rnd...), qs[w][i].round, shard, epoch)
						qs[w][i].err = errC
						if errC == nil {
							qs[w][i].got = groupKeys(g)
						}
					}
				}(w)
			}
			close(start)
			wg.Wait()
			r.Count("concurrent_bursts", 1)
			for w := range qs {
				for _, e := range qs[w] {
					r.Eval(1)
					r.Count("concurrent_calls", 1)
					det := map[string]interface{}{"spec": spec.Dump(), "randomness": vk.Hex(e.rnd), "round": e.round, "shard": sg.ShardName(shard), "epoch": epoch, "workers": workers, "epochChangeInfos": infosDump}
					if e.err != nil {
						r.Violation(c.Idx, "error-on-valid-input mode=concurrent", fmt.Sprintf("concurrent ComputeConsensusGroup(shard %s, epoch %d): %v", sg.ShardName(shard), epoch, e.err), det)
						return
					}
					gB, errB := b.ComputeConsensusGroup(append([]byte(nil), e.rnd...), e.round, shard, epoch)
					if errB != nil {
						r.Violation(c.Idx, "error-on-valid-input", "coordinator B: "+errB.Error(), det)
						return
					}
					kB := groupKeys(gB)
					dup := false
					seen := map[string]bool{}
					for _, k := range e.got {
						if seen[k] {
							dup = true
						}
						seen[k] = true
					}
					det["groupA"] = sg.HexList(e.got)
					det["groupB"] = sg.HexList(kB)
					if len(e.got) != want || dup {
						r.Violation(c.Idx, "malformed-group mode=concurrent", fmt.Sprintf("group computed under concurrency has %d members (configured %d), duplicate member: %v", len(e.got), want, dup), det)
						return
					}
					if !eq(e.got, kB) {
						r.Violation(c.Idx, "concurrent-differs-from-sequential", fmt.Sprintf("a group computed while %d goroutines used the coordinator differs from the sequentially computed group for the same input", workers), det)
						return
					}
				}
			}
		}
		// restart: a NEW instance over the same boot storer loads the state saved under A's key (what
		// storageBootstrap does with the key recorded in the boot info) and must compute what A computes
		{
			key := append([]byte(nil), a.GetSavedStateKey()...)
			rc, errR := spec.BuildWith(rng.Fork(), &mock.NodesCoordinatorCacheMock{}, storer)
			if errR != nil {
				r.Violation(c.Idx, "constructor-error", "restarted coordinator: "+errR.Error(), map[string]interface{}{"spec": spec.Dump()})
				return
			}
			if errR = rc.LoadState(key); errR != nil {
				r.Violation(c.Idx, "restore-failed", fmt.Sprintf("LoadState(%x) on a new instance over the same storer: %v", key, errR), map[string]interface{}{"spec": spec.Dump(), "epochChangeInfos": infosDump})
				return
			}
			r.Count("restores", 1)
			if spec.Rater {
				r.Count("restores_with_rater", 1)
			}
			for i, nb := 0, 16+rng.Intn(10); i < nb; i++ {
				rnd := pool[rng.Intn(len(pool))]
				if rng.Bool() {
					rnd = rng.Bytes(1 + rng.Intn(32))
				}
				round, shard, epoch := rounds[rng.Intn(len(rounds))], shards[rng.Intn(len(shards))], epochs[rng.Intn(len(epochs))]
				det := map[string]interface{}{"spec": spec.Dump(), "savedStateKey": vk.Hex(key), "randomness": vk.Hex(rnd), "round": round, "shard": sg.ShardName(shard), "epoch": epoch, "epochChangeInfos": infosDump}
				gA, errA := a.ComputeConsensusGroup(append([]byte(nil), rnd...), round, shard, epoch)
				gR, errR := rc.ComputeConsensusGroup(append([]byte(nil), rnd...), round, shard, epoch)
				r.Eval(1)
				r.Count("calls_compared_with_restored_instance", 1)
				if errA != nil {
					r.Violation(c.Idx, "error-on-valid-input", "coordinator A: "+errA.Error(), det)
					return
				}
				if errR != nil {
					r.Violation(c.Idx, "restored-coordinator-error", fmt.Sprintf("the restored instance cannot compute a group for shard %s epoch %d known to the original: %v", sg.ShardName(shard), epoch, errR), det)
					return
				}
				kA, kR := groupKeys(gA), groupKeys(gR)
				if !eq(kA, kR) {
					// is it the original that is off (answer from its cache)? ask the cache-less reference
					if gB, errB := b.ComputeConsensusGroup(append([]byte(nil), rnd...), round, shard, epoch); errB == nil && !eq(kA, groupKeys(gB)) && eq(kR, groupKeys(gB)) {
						det["groupA"], det["groupB"] = sg.HexList(kA), sg.HexList(kR)
						r.Violation(c.Idx, "cached-differs-from-fresh", "A answers differently from both the cache-less coordinator and the restored instance", det)
						return
					}
					det["groupOriginal"] = sg.HexList(kA)
					det["groupRestored"] = sg.HexList(kR)
					r.Violation(c.Idx, "restored-coordinator-disagrees", fmt.Sprintf("after LoadState a new instance computes another group (leader %x vs %x) for shard %s epoch %d", first(kR), first(kA), sg.ShardName(shard), epoch), det)
					return
				}
			}
		}
		r.Count("cache_hits_on_A", int(atomic.LoadInt64(&cache.hits)))
		r.Count("cache_puts_on_A", int(atomic.LoadInt64(&cache.puts)))
	})
	if r.ReplayCase < 0 && (r.Counter("second_prepares_during_a_call_in_flight") == 0 || r.Counter("second_prepares_refused_on_a_known_epoch") == 0 || r.Counter("overlapping_call_answered_from_first_block")+r.Counter("overlapping_call_answered_from_surviving_block") == 0) {
		r.Inconclusive("no second prepare overlapped a call with distinguishable groups, or none was refused on a known epoch")
	}
	if r.Counter("cache_hits_on_A") == 0 && r.ReplayCase < 0 {
		r.Inconclusive("the group cache was never hit")
	}
	r.Finish()
}

func first(l []string) string {
	if len(l) == 0 {
		return ""
	}
	return l[0]
}

func minI(a, b int) int {
	if a < b {
		return a
	}
	return b
}
