// C30 — epoch-partitioned storage keeps and removes data as promised.
// Monitor shape: RM. The real PruningStorer / FullHistoryPruningStorer and a model (epoch -> keys, active
// window, retained window) receive the same operations; after every operation reads are compared.
// Keys are content-addressed (value = f(key)), as in the node.
package main

import (
	"fmt"
	"os"
	"path/filepath"
	"sort"
	"strings"
	"sync"
	"sync/atomic"
	"time"

	logger "github.com/ElrondNetwork/elrond-go-logger"
	"github.com/ElrondNetwork/elrond-go/config"
	"github.com/ElrondNetwork/elrond-go/data/block"
	"github.com/ElrondNetwork/elrond-go/epochStart"
	"github.com/ElrondNetwork/elrond-go/storage"
	"github.com/ElrondNetwork/elrond-go/storage/factory"
	"github.com/ElrondNetwork/elrond-go/storage/memorydb"
	"github.com/ElrondNetwork/elrond-go/storage/mock"
	"github.com/ElrondNetwork/elrond-go/storage/pruning"
	"github.com/ElrondNetwork/elrond-go/storage/storageUnit"
	"github.com/ElrondNetwork/elrond-go/testscommon"
	"verif/internal/vk"
)

// storer is the surface shared by PruningStorer and FullHistoryPruningStorer
type storer interface {
	Put(key, data []byte) error
	PutInEpoch(key, data []byte, epoch uint32) error
	Get(key []byte) ([]byte, error)
	GetFromEpoch(key []byte, epoch uint32) ([]byte, error)
	SearchFirst(key []byte) ([]byte, error)
	Has(key []byte) error
	Remove(key []byte) error
	ClearCache()
	SetEpochForPutOperation(epoch uint32)
	Close() error
}

// ------------------------------------------------------------------------------------------------
// persister factory: path -> one long-lived memorydb (quick) or real LvlDBSerial in a scratch dir

type pFactory struct {
	mu      sync.Mutex
	level   bool
	real    *factory.PersisterFactory
	mem     map[string]storage.Persister
	opened  []storage.Persister
	creates int
}

func (f *pFactory) Create(path string) (storage.Persister, error) {
	f.mu.Lock()
	defer f.mu.Unlock()
	f.creates++
	if f.level {
		p, err := f.real.Create(path)
		if err == nil {
			f.opened = append(f.opened, p)
		}
		return p, err
	}
	if p, ok := f.mem[path]; ok {
		return p, nil
	}
	p := memorydb.New()
	f.mem[path] = p
	return p, nil
}

func (f *pFactory) CreateDisabled() storage.Persister { return f.real.CreateDisabled() }
func (f *pFactory) IsInterfaceNil() bool              { return f == nil }

func (f *pFactory) closeAll() {
	f.mu.Lock()
	defer f.mu.Unlock()
	for _, p := range f.opened {
		_ = p.Close()
	}
	f.opened = nil
}

// ------------------------------------------------------------------------------------------------
// model

type metaInfo struct {
	epoch  uint32
	oldest uint32 // min(epoch, finalized epochs)
}

type model struct {
	fh        bool
	numActive uint32
	numKeep   uint32
	clean     bool

	cur      uint32
	putEpoch uint32
	exists   map[uint32]bool // epochs that have an entry in the storer's epoch map
	closed   map[uint32]bool
	active   []uint32 // newest first; mirrors the order of the storer's active list
	prepare  *metaInfo

	must    map[uint32]map[string]bool // put while the epoch was open, no Remove since: reads are owed
	maybe   map[uint32]map[string]bool // may physically be there (suppresses removed-key checks)
	removed map[string]bool

	extensions, leaks, phantoms int
	preCreated                  map[uint32]bool // epochs whose persister was created by a full-history read before the epoch started
}

func newModel(fh bool, numActive, numKeep, start uint32, clean bool) *model {
	m := &model{fh: fh, numActive: numActive, numKeep: numKeep, clean: clean, cur: start, putEpoch: start,
		exists: map[uint32]bool{}, closed: map[uint32]bool{}, must: map[uint32]map[string]bool{}, maybe: map[uint32]map[string]bool{}, removed: map[string]bool{}, preCreated: map[uint32]bool{}}
	oldestKeep := int64(start) - int64(numKeep) + 1
	if oldestKeep < 0 {
		oldestKeep = 0
	}
	oldestActive := int64(start) - int64(numActive) + 1
	if oldestActive < 0 {
		oldestActive = 0
	}
	for e := int64(start); e >= oldestKeep; e-- {
		m.exists[uint32(e)] = true
		if e < oldestActive {
			m.closed[uint32(e)] = true
		} else {
			m.active = append(m.active, uint32(e))
		}
	}
	return m
}

func set(m map[uint32]map[string]bool, e uint32, k string) {
	if m[e] == nil {
		m[e] = map[string]bool{}
	}
	m[e][k] = true
}

// inL: the epoch is one of the last numActive epochs (the configured active window)
func (m *model) inL(e uint32) bool {
	return e <= m.cur && uint64(e)+uint64(m.numActive) > uint64(m.cur)
}

// inKeep: the epoch is one of the last numKeep epochs (the configured retention window)
func (m *model) inKeep(e uint32) bool {
	return e <= m.cur && (m.fh || uint64(e)+uint64(m.numKeep) > uint64(m.cur))
}

func (m *model) inActiveList(e uint32) bool {
	for _, a := range m.active {
		if a == e {
			return true
		}
	}
	return false
}

// mayBeActive: upper bound of the active set
func (m *model) mayBeActive(e uint32) bool { return m.inL(e) || m.inActiveList(e) }

func (m *model) lEpochs() []uint32 {
	var out []uint32
	for e := int64(m.cur); e >= 0 && m.inL(uint32(e)); e-- {
		out = append(out, uint32(e))
	}
	return out
}

// activeEpochs: every epoch of the storer's active list (configured window + epochs the stuck-shard
// extension re-activated), newest first
func (m *model) activeEpochs() []uint32 {
	out := m.lEpochs()
	if m.fh {
		return out
	}
	for _, e := range m.active {
		if !m.inL(e) {
			out = append(out, e)
		}
	}
	return out
}

// changeEpoch mirrors the documented behaviour of the storer for consecutive epochs
func (m *model) changeEpoch(inForce *metaInfo) {
	e := m.cur + 1
	m.cur = e
	if m.exists[e] { // only the full-history storer can have created the next epoch already (read miss in the newest epoch)
		var a []uint32
		ok := true
		for x := int64(e); x >= 0 && x > int64(e)-int64(m.numActive); x-- {
			if !m.exists[uint32(x)] {
				ok = false
			}
			a = append(a, uint32(x))
		}
		if ok {
			m.active = a
		}
		return
	}
	m.exists[e] = true
	m.active = append([]uint32{e}, m.active...)
	if inForce != nil {
		oldestCur := m.active[len(m.active)-1]
		if inForce.oldest <= oldestCur && e-inForce.oldest < 5 {
			m.extensions++
			all := true
			for x := int64(oldestCur); x >= int64(inForce.oldest); x-- {
				if !m.exists[uint32(x)] {
					all = false
				}
			}
			if all {
				for x := int64(oldestCur); x >= int64(inForce.oldest); x-- {
					if m.closed[uint32(x)] {
						delete(m.closed, uint32(x))
						m.active = append(m.active, uint32(x))
					}
				}
			}
			return // nothing is closed or cleaned in this round
		}
	}
	if int(m.numActive) < len(m.active) {
		toClose := m.active[m.numActive]
		if len(m.active) > int(m.numActive)+1 {
			m.leaks++ // dropped from the active list without being closed
		}
		m.active = m.active[:m.numActive]
		m.closed[toClose] = true
	}
	if m.clean && uint32(len(m.exists)) > m.numKeep {
		idx := e - m.numKeep
		for m.exists[idx] {
			delete(m.exists, idx)
			delete(m.must, idx)
			idx--
		}
	}
}

// ------------------------------------------------------------------------------------------------

func valueOf(k string) []byte {
	return []byte("value-of-" + k + "-" + strings.Repeat(k[len(k)-1:], 1+len(k)%5))
}

type history struct {
	r     *vk.Run
	c     *vk.Case
	ps    storer
	m     *model
	cfg   map[string]interface{}
	trace []string
	keys  []string
	level bool
	fail  bool
	kinds map[string]int
}

func (h *history) violation(key, what string) {
	h.fail = true
	h.r.Violation(h.c.Idx, key, fmt.Sprintf("%s [%s]", what, cfgLine(h.cfg)), map[string]interface{}{"config": h.cfg, "ops": h.trace, "failed_check": what})
}

// missClass qualifies a read miss: an epoch whose persister was pre-created by a full-history read miss
// in the then-newest epoch takes another path at its epoch change (witness class of its own)
func (h *history) missClass(e uint32, dflt string) string {
	if h.m.preCreated[e] {
		return "epoch-precreated-by-read"
	}
	return dflt
}

// missKey builds the violation key of a read miss; the pre-created-epoch class has one key for all read kinds
func (h *history) missKey(op string, e uint32, dflt string) string {
	if c := h.missClass(e, dflt); c == "epoch-precreated-by-read" {
		return "read-miss class=" + c
	}
	return "read-miss op=" + op + " class=" + dflt
}

func cfgLine(cfg map[string]interface{}) string {
	var ks []string
	for k := range cfg {
		ks = append(ks, k)
	}
	sort.Strings(ks)
	var parts []string
	for _, k := range ks {
		parts = append(parts, fmt.Sprintf("%s=%v", k, cfg[k]))
	}
	return strings.Join(parts, " ")
}

func cp(b []byte) []byte { return append([]byte{}, b...) }

// owedEpoch returns an epoch of the configured active window that owes key k, if any
func (h *history) owedEpoch(k string) (uint32, bool) {
	for _, e := range h.m.lEpochs() {
		if h.m.must[e][k] {
			return e, true
		}
	}
	return 0, false
}

func (h *history) owedExtended(k string) (uint32, bool) {
	if h.m.fh {
		return 0, false
	}
	for _, e := range h.m.active {
		if !h.m.inL(e) && h.m.must[e][k] {
			return e, true
		}
	}
	return 0, false
}

// suppressed: the removed key may legitimately be found again: a copy that was out of Remove's reach (its
// epoch was not active then) lives in an epoch that is active now. Get only reads the configured window.
func (h *history) suppressed(k string, windowOnly bool) bool {
	for e, ks := range h.m.maybe {
		if !ks[k] {
			continue
		}
		if windowOnly {
			if h.m.inL(e) {
				return true
			}
		} else if h.m.mayBeActive(e) {
			return true
		}
	}
	return false
}

// extendedHolds: a copy of k may live in an epoch that is active only through the stuck-shard extension
func (h *history) extendedHolds(k string) bool {
	if h.m.fh {
		return false
	}
	for _, e := range h.m.active {
		if !h.m.inL(e) && h.m.maybe[e][k] {
			return true
		}
	}
	return false
}

// extendedKeys lists the keys for which extendedHolds is true
func (h *history) extendedKeys() []string {
	var out []string
	for _, k := range h.keys {
		if h.extendedHolds(k) {
			out = append(out, k)
		}
	}
	return out
}

// stuckCandidates: closed, still known epochs that a meta block for epoch e may name as "last finalized"
// (within the 5-epoch limit), those holding owed keys first
func (h *history) stuckCandidates(e uint32) []uint32 {
	var with, without []uint32
	for x := range h.m.closed {
		if !h.m.exists[x] || e-x >= 5 {
			continue
		}
		if len(h.m.must[x]) > 0 {
			with = append(with, x)
		} else {
			without = append(without, x)
		}
	}
	sort.Slice(with, func(i, j int) bool { return with[i] < with[j] })
	sort.Slice(without, func(i, j int) bool { return without[i] < without[j] })
	if len(with) > 0 {
		return with
	}
	return without
}

func (h *history) checkValue(op, k string, got []byte) bool {
	if string(got) != string(valueOf(k)) {
		h.violation("wrong-value op="+op, fmt.Sprintf("%s(%s) returned %q, the only value ever stored under that key is %q", op, k, got, valueOf(k)))
		return false
	}
	return true
}

// classifyRemoved tells where a removed key is still found
func (h *history) classifyRemoved(k string) string {
	if h.m.fh {
		if len(h.m.lEpochs()) > 1 {
			return "older-active-epoch" // the full-history storer searches all active epochs at once; a removal always reaches the newest
		}
		return "unlocated"
	}
	for _, e := range h.m.activeEpochs() {
		h.ps.ClearCache()
		if v, err := h.ps.GetFromEpoch([]byte(k), e); err == nil && len(v) > 0 {
			return h.removedClass(e)
		}
	}
	return "unlocated"
}

func (h *history) removedClass(e uint32) string {
	switch {
	case e == h.m.cur:
		return "newest-active-epoch"
	case h.m.inL(e):
		return "older-active-epoch"
	default:
		return "extended-epoch"
	}
}

// checkKey applies every owed / forbidden read for one key
func (h *history) checkKey(k string, deep bool) {
	r, m, ps := h.r, h.m, h.ps
	rng := h.c.Rng
	key := []byte(k)
	if e, owed := h.owedEpoch(k); owed {
		if rng.Chance(1, 2) {
			ps.ClearCache()
		}
		for _, op := range []string{"Get", "SearchFirst", "Has"} {
			if rng.Chance(1, 3) {
				ps.ClearCache()
			}
			var v []byte
			var err error
			switch op {
			case "Get":
				v, err = ps.Get(cp(key))
			case "SearchFirst":
				v, err = ps.SearchFirst(cp(key))
			default:
				err = ps.Has(cp(key))
			}
			r.Eval(1)
			h.kinds["check_owed_"+op]++
			if err != nil {
				h.violation(h.missKey(op, e, "active"), fmt.Sprintf("%s(%s) fails (%v) although the key was put in epoch %d while it was open, was not removed since, and epoch %d is one of the last %d epochs (current %d)", op, k, err, e, e, m.numActive, m.cur))
				return
			}
			if op != "Has" && !h.checkValue(op, k, v) {
				return
			}
		}
	} else if e, owedX := h.owedExtended(k); owedX && !m.removed[k] {
		ps.ClearCache()
		v, err := ps.SearchFirst(cp(key))
		r.Eval(1)
		h.kinds["check_owed_extended_SearchFirst"]++
		if err != nil {
			h.violation("read-miss op=SearchFirst class=extended-epoch", fmt.Sprintf("SearchFirst(%s) fails (%v): the key lives in epoch %d which the stuck-shard extension re-activated (current epoch %d, active list %v)", k, err, e, m.cur, m.active))
			return
		}
		if !h.checkValue("SearchFirst", k, v) {
			return
		}
	}
	// epoch-specific reads while the epoch is retained
	for e, ks := range m.must {
		if !ks[k] || !m.inKeep(e) {
			continue
		}
		if h.level && m.closed[e] && (!deep || (r.Quick() && !rng.Chance(1, 3))) {
			continue // re-opening a level db for every probe is kept for the operation's own key (quick: a third of those)
		}
		if rng.Chance(1, 2) {
			ps.ClearCache()
		}
		v, err := ps.GetFromEpoch(cp(key), e)
		r.Eval(1)
		h.kinds["check_owed_GetFromEpoch"]++
		if m.fh {
			h.noteFullHistoryRead(e, err)
		}
		if err != nil {
			class := "retained"
			if m.inL(e) {
				class = "active"
			}
			h.violation(h.missKey("GetFromEpoch", e, class), fmt.Sprintf("GetFromEpoch(%s, %d) fails (%v) although the key was put in that epoch while it was open, was not removed since, and the epoch is one of the last %d (current %d)", k, e, err, m.numKeep, m.cur))
			return
		}
		if !h.checkValue("GetFromEpoch", k, v) {
			return
		}
	}
	// removed keys: no read finds the key in any epoch of the active list (Get reads the configured window only)
	if m.removed[k] {
		supAll, supWindow := h.suppressed(k, false), h.suppressed(k, true)
		if supAll {
			h.kinds["check_removed_suppressed"]++
		}
		for _, op := range []string{"Get", "SearchFirst", "Has"} {
			if (op == "Get" && supWindow) || (op != "Get" && supAll) {
				continue
			}
			ps.ClearCache()
			var err error
			switch op {
			case "Get":
				_, err = ps.Get(cp(key))
			case "SearchFirst":
				_, err = ps.SearchFirst(cp(key))
			default:
				err = ps.Has(cp(key))
			}
			r.Eval(1)
			h.kinds["check_removed_"+op]++
			if err == nil {
				class := h.classifyRemoved(k)
				h.violation("removed-key-still-readable class="+class, fmt.Sprintf("%s(%s) succeeds after Remove(%s) (no put of that key since; cache cleared; current epoch %d, %d active epochs, active list %v)", op, k, k, m.cur, m.numActive, m.active))
				return
			}
		}
		for _, e := range m.activeEpochs() {
			if m.maybe[e][k] {
				continue
			}
			if m.fh && supAll {
				continue // the full-history read searches all active epochs and epoch+1
			}
			ps.ClearCache()
			_, err := ps.GetFromEpoch(cp(key), e)
			r.Eval(1)
			h.kinds["check_removed_GetFromEpoch"]++
			if !m.inL(e) {
				h.kinds["check_removed_GetFromEpoch_extended"]++
			}
			if m.fh {
				h.noteFullHistoryRead(e, err)
			}
			if err == nil {
				h.violation("removed-key-still-readable class="+h.removedClass(e), fmt.Sprintf("GetFromEpoch(%s, %d) succeeds after Remove(%s) (epoch %d is in the active list %v, current %d)", k, e, k, e, m.active, m.cur))
				return
			}
		}
	}
}

// noteFullHistoryRead mirrors the side effect of FullHistoryPruningStorer.GetFromEpoch: epochs outside the
// active range are opened (created when missing); a miss continues in epoch+1
func (h *history) noteFullHistoryRead(e uint32, err error) {
	m := h.m
	lo, hi := m.active[len(m.active)-1], m.active[0]
	touch := func(x uint32) {
		if x >= lo && x <= hi {
			return
		}
		if !m.exists[x] {
			m.exists[x] = true
			if x > m.cur {
				m.phantoms++
				m.preCreated[x] = true
			}
		}
	}
	touch(e)
	if err != nil {
		touch(e + 1)
	}
}

var levelNanos int64

func runHistory(r *vk.Run, c *vk.Case, level bool, scratch string) {
	rng := c.Rng
	if level {
		t0 := time.Now()
		defer func() { atomic.AddInt64(&levelNanos, int64(time.Since(t0))) }()
	}
	fh := rng.Chance(1, 4)
	// a third of the plain-storer histories (a quarter of all) is steered towards the stuck-shard shape: an
	// extension re-activates an older epoch that holds live keys, then keys of that epoch are removed and read
	stuck := !fh && rng.Chance(1, 3)
	numActive := uint32(rng.Range(1, 3))
	numKeep := numActive + uint32(rng.Intn(4))
	if stuck {
		numActive = uint32(rng.Range(1, 2))
		numKeep = numActive + uint32(rng.Range(2, 4))
	}
	if numKeep < 2 && rng.Chance(2, 3) {
		numKeep = 2
	}
	clean := rng.Bool() && !fh
	start := uint32(0)
	if rng.Chance(1, 4) {
		start = uint32(rng.Range(1, 3))
	}
	withBloom := rng.Chance(1, 4)
	capacity := uint32([]int{3, 6, 12, 50, 100}[rng.Intn(5)])
	nKeys := rng.Range(4, 10)
	steps := rng.Range(30, r.N(90, 160))
	if level {
		steps = rng.Range(25, r.N(40, 60))
	}
	cfg := map[string]interface{}{"stuckShardBias": stuck, "fullHistory": fh, "numActive": numActive, "numKeep": numKeep, "shouldClean": clean, "startingEpoch": start, "bloom": withBloom, "cacheCapacity": capacity, "keys": nKeys, "db": map[bool]string{false: "memorydb-by-path", true: "LvlDBSerial"}[level]}

	dir := ""
	if level {
		dir = filepath.Join(scratch, fmt.Sprintf("c30-case-%d", c.Idx))
		_ = os.MkdirAll(dir, 0o755)
		defer os.RemoveAll(dir)
	}
	pf := &pFactory{level: level, mem: map[string]storage.Persister{},
		real: factory.NewPersisterFactory(config.DBConfig{Type: string(storageUnit.LvlDBSerial), BatchDelaySeconds: 2, MaxBatchSize: rng.Range(1, 30), MaxOpenFiles: 10})}
	defer pf.closeAll()
	pathFor := func(s string, e uint32, id string) string {
		return filepath.Join(dir, fmt.Sprintf("Epoch_%d", e), "Shard_"+s, id)
	}
	var handler epochStart.ActionHandler
	args := &pruning.StorerArgs{
		PruningEnabled: true, Identifier: "unit", ShardCoordinator: mock.NewShardCoordinatorMock(0, 2),
		PathManager: &testscommon.PathManagerStub{PathForEpochCalled: pathFor, PathForStaticCalled: func(s string, id string) string { return filepath.Join(dir, "Static", id) }},
		CacheConf:   storageUnit.CacheConfig{Capacity: capacity, Type: "LRU", Shards: 1},
		DbPath:      pathFor("0", start, "unit"), PersisterFactory: pf,
		NumOfEpochsToKeep: numKeep, NumOfActivePersisters: numActive, StartingEpoch: start,
		Notifier:               &mock.EpochStartNotifierStub{RegisterHandlerCalled: func(hd epochStart.ActionHandler) { handler = hd }},
		OldDataCleanerProvider: &testscommon.OldDataCleanerProviderStub{ShouldCleanCalled: func() bool { return clean }},
		MaxBatchSize:           int(minU(capacity, 10)),
	}
	if withBloom {
		args.BloomFilterConf = storageUnit.BloomConfig{Size: uint([]int{64, 2048}[rng.Intn(2)]), HashFunc: []storageUnit.HasherType{storageUnit.Keccak, storageUnit.Blake2b, storageUnit.Fnv}[:rng.Range(1, 3)]}
	}
	var ps storer
	var err error
	if fh {
		ps, err = pruning.NewFullHistoryPruningStorer(&pruning.FullHistoryStorerArgs{StorerArgs: args, NumOfOldActivePersisters: uint32(rng.Range(1, 3))})
	} else {
		ps, err = pruning.NewPruningStorer(args)
	}
	if err != nil || handler == nil {
		r.Violation(c.Idx, "constructor", fmt.Sprintf("storer not built: %v [%s]", err, cfgLine(cfg)), cfg)
		return
	}
	defer func() { _ = ps.Close() }()

	m := newModel(fh, numActive, numKeep, start, clean)
	h := &history{r: r, c: c, ps: ps, m: m, cfg: cfg, level: level, kinds: map[string]int{}}
	for i := 0; i < nKeys; i++ {
		h.keys = append(h.keys, fmt.Sprintf("key-%d", i))
	}
	for step := 0; step < steps && !h.fail; step++ {
		k := h.keys[rng.Intn(nKeys)]
		op := rng.Intn(100)
		if stuck {
			if xk := h.extendedKeys(); len(xk) > 0 && rng.Chance(1, 2) {
				k = xk[rng.Intn(len(xk))]
				if rng.Chance(3, 5) {
					op = 50 // Remove
				}
			}
		}
		switch {
		case op < 34:
			target := m.cur
			if m.inL(m.putEpoch) {
				target = m.putEpoch
			}
			h.trace = append(h.trace, fmt.Sprintf("Put(%s)  [put epoch %d]", k, target))
			h.kinds["Put"]++
			if err := ps.Put([]byte(k), valueOf(k)); err != nil {
				h.kinds["put_errors"]++
				h.trace[len(h.trace)-1] += " -> " + err.Error()
				break
			}
			set(m.must, target, k)
			set(m.maybe, target, k)
			delete(m.removed, k)
		case op < 44:
			// mostly an epoch of the active window, sometimes any retained / unknown epoch
			var e uint32
			if rng.Chance(3, 4) {
				l := m.lEpochs()
				e = l[rng.Intn(len(l))]
			} else {
				e = uint32(rng.Intn(int(m.cur) + 1))
			}
			h.trace = append(h.trace, fmt.Sprintf("PutInEpoch(%s, %d)", k, e))
			h.kinds["PutInEpoch"]++
			err := ps.PutInEpoch([]byte(k), valueOf(k), e)
			if err != nil {
				h.trace[len(h.trace)-1] += " -> " + err.Error()
				if m.inL(e) {
					h.kinds["put_errors"]++
				}
				break
			}
			if m.inL(e) || (!m.fh && m.inActiveList(e)) {
				set(m.must, e, k) // put while that epoch is open
			}
			set(m.maybe, e, k)
			delete(m.removed, k)
		case op < 56:
			h.trace = append(h.trace, fmt.Sprintf("Remove(%s)", k))
			h.kinds["Remove"]++
			if h.extendedHolds(k) {
				h.kinds["Remove_of_key_in_extended_epoch"]++
			}
			_ = ps.Remove([]byte(k))
			for e := range m.must {
				delete(m.must[e], k)
			}
			for _, e := range m.activeEpochs() {
				delete(m.maybe[e], k)
			}
			m.removed[k] = true
		case op < 62:
			h.trace = append(h.trace, "ClearCache()")
			h.kinds["ClearCache"]++
			ps.ClearCache()
		case op < 66:
			l := m.lEpochs()
			e := l[rng.Intn(len(l))]
			h.trace = append(h.trace, fmt.Sprintf("SetEpochForPutOperation(%d)", e))
			h.kinds["SetEpochForPutOperation"]++
			ps.SetEpochForPutOperation(e)
			m.putEpoch = e
		case op < 80:
			e := m.cur + 1
			var inForce *metaInfo
			variant := "shard-header"
			if !fh {
				var target *uint32
				if stuck {
					if cand := h.stuckCandidates(e); len(cand) > 0 && rng.Chance(3, 4) {
						x := cand[rng.Intn(len(cand))]
						target = &x
					}
				}
				mk := func() (*block.MetaBlock, *metaInfo) {
					oldest := e
					mb := &block.MetaBlock{Epoch: e}
					for s := 0; s < 2; s++ {
						fe := e
						if target != nil {
							if s == 0 {
								fe = *target // shard 0 is stuck: its last finalized header is still in that epoch
							}
						} else if rng.Chance(1, 2) {
							back := uint32(rng.Intn(7))
							if back > e {
								back = e
							}
							fe = e - back
						}
						mb.EpochStart.LastFinalizedHeaders = append(mb.EpochStart.LastFinalizedHeaders, block.EpochStartShardData{ShardID: uint32(s), Epoch: fe})
						if fe < oldest {
							oldest = fe
						}
					}
					return mb, &metaInfo{epoch: e, oldest: oldest}
				}
				x := rng.Intn(10)
				if target != nil {
					x = 4 + rng.Intn(6)
				}
				switch {
				case x < 4:
					inForce = m.prepare
					handler.EpochStartAction(&block.Header{Epoch: e})
				case x < 7:
					mb, mi := mk()
					variant = fmt.Sprintf("prepare(meta, oldest finalized epoch %d)+shard-header", mi.oldest)
					handler.EpochStartPrepare(mb, nil)
					m.prepare = mi
					inForce = mi
					handler.EpochStartAction(&block.Header{Epoch: e})
				default:
					mb, mi := mk()
					variant = fmt.Sprintf("meta-header(oldest finalized epoch %d)", mi.oldest)
					inForce = mi
					handler.EpochStartAction(mb)
				}
			} else {
				handler.EpochStartAction(&block.Header{Epoch: e})
			}
			h.kinds["EpochChange"]++
			m.changeEpoch(inForce)
			if rng.Chance(4, 5) || !m.inL(m.putEpoch) {
				ps.SetEpochForPutOperation(e)
				m.putEpoch = e
			}
			h.trace = append(h.trace, fmt.Sprintf("EpochStart(%d, %s); put epoch %d  [active list %v]", e, variant, m.putEpoch, m.active))
		default:
			// hostile reads of keys/epochs that owe nothing: any answer is allowed, a value must be the right one
			e := uint32(rng.Intn(int(m.cur) + 1))
			h.trace = append(h.trace, fmt.Sprintf("Get/GetFromEpoch(%s, %d) (free read)", k, e))
			h.kinds["free_reads"]++
			if v, err := ps.Get([]byte(k)); err == nil && !h.checkValue("Get", k, v) {
				break
			}
			v, err := ps.GetFromEpoch([]byte(k), e)
			if fh {
				h.noteFullHistoryRead(e, err)
			}
			if err == nil {
				h.checkValue("GetFromEpoch", k, v)
			}
		}
		if h.fail {
			break
		}
		h.checkKey(k, true)
		for i := 0; i < 2 && !h.fail; i++ {
			h.checkKey(h.keys[rng.Intn(nKeys)], !level)
		}
	}
	for k, v := range h.kinds {
		r.Count(k, v)
	}
	r.Count("histories", 1)
	r.Count("extension_rounds", m.extensions)
	r.Count("persisters_dropped_without_close", m.leaks)
	r.Count("future_epochs_created_by_full_history_reads", m.phantoms)
	r.Count("factory_creates", pf.creates)
	if level {
		r.Count("leveldb_histories", 1)
	}
	if h.fail {
		return
	}
	if h.kinds["EpochChange"] == 0 || h.kinds["Put"] == 0 {
		r.Trivial()
		return
	}
	remChecks := h.kinds["check_removed_Get"]
	r.Count("removed_checks_in_extended_epochs", h.kinds["check_removed_GetFromEpoch_extended"])
	r.Shape(fmt.Sprintf("stuck=%v fh=%v act=%d keep+%d clean=%v start=%v bloom=%v db=%v ext=%v leak=%v phantom=%v removedChecks=%v xRemoved=%v changes=%s",
		stuck, fh, numActive, numKeep-numActive, clean, start > 0, withBloom, level, m.extensions > 0, m.leaks > 0, m.phantoms > 0, remChecks > 0, h.kinds["check_removed_GetFromEpoch_extended"] > 0, bucket(h.kinds["EpochChange"])))
	if c.Idx < 4 && r.NeedSample() {
		n := len(h.trace)
		if n > 16 {
			n = 16
		}
		r.Sample(map[string]interface{}{"config": cfg, "first_ops": h.trace[:n], "epoch_changes": h.kinds["EpochChange"]})
	}
}

func minU(a, b uint32) uint32 {
	if a < b {
		return a
	}
	return b
}

func bucket(n int) string {
	switch {
	case n <= 2:
		return "1-2"
	case n <= 6:
		return "3-6"
	default:
		return ">6"
	}
}

func main() {
	_ = logger.SetLogLevel("*:NONE")
	r := vk.Start("C30")
	r.Rule("one history = one real PruningStorer (3/4) or FullHistoryPruningStorer (1/4): 1-3 active persisters, 0-3 more epochs to keep, cleaning on/off, starting epoch 0-3, bloom filter on/off, cache capacity 3..100, 4-10 content-addressed keys (value = f(key)); 30..90/160 ops: Put, PutInEpoch (active, retained or unknown epoch), Remove, ClearCache, SetEpochForPutOperation, epoch change through the registered notifier handler (shard header; EpochStartPrepare(meta)+shard header; meta header - finalized-header epochs up to 6 back drive the stuck-shard extension), free reads. After every op the op's key and two random keys are checked: owed reads (Get/SearchFirst/Has while the put epoch is among the last numActive epochs; GetFromEpoch while among the last numKeep) and forbidden reads (after Remove, until the next put, no Get/SearchFirst/Has and no GetFromEpoch of an active epoch finds the key; cache cleared first). quick: persister factory maps path -> one long-lived memorydb; thorough adds histories on real LvlDBSerial persisters in a scratch dir. non-trivial = at least one put and one epoch change; shape = configuration + events seen (extension, dropped persister, future epoch, removed-key checks)")
	r.Assume("epochs change by +1 only", "one value per key everywhere (content-addressed)", "a removed key is not checked while a copy of it may live in an epoch that the stuck-shard extension may have (re)activated", "Put/PutInEpoch errors are counted, the model then owes nothing for that put", "full-history storer: no stuck-shard extension, no cleaning", "memorydb / goleveldb persisters are trusted")
	r.MinShapes(60)

	scratch := os.Getenv("VERIF_SCRATCH")
	ownScratch := ""
	if scratch == "" {
		d, err := os.MkdirTemp("", "c30-")
		if err == nil {
			scratch, ownScratch = d, d
		}
	}
	nMem := r.N(4000, 24000)
	nLevel := r.N(120, 1600)
	r.Parallel(nMem+nLevel, func(c *vk.Case) {
		runHistory(r, c, c.Idx >= nMem, scratch)
	})
	r.Extra("leveldb_histories_cpu_seconds_summed_over_workers", float64(atomic.LoadInt64(&levelNanos))/1e9)
	if ownScratch != "" {
		_ = os.RemoveAll(ownScratch)
	}
	r.Finish()
}
