// C48 — address text encoding round-trips.
// Monitor shape: round trip (RT) + rejection classes. The real bech32 and hex pubkey converters are
// compared with an independent BIP-173 implementation written here (no btcutil): Encode(b) must be the
// canonical text, Decode(Encode(b)) == b, and for every hostile text s: if Decode accepts s then the
// result has the configured length and Encode(result) == lower(s) (so prefix, checksum, length and
// padding are right); a canonical text must never be rejected.
package main

import (
	"bytes"
	"encoding/hex"
	"fmt"
	"strings"

	logger "github.com/ElrondNetwork/elrond-go-logger"
	"github.com/ElrondNetwork/elrond-go/core"
	"github.com/ElrondNetwork/elrond-go/core/pubkeyConverter"
	"verif/internal/vk"
)

// ---------------------------------------------------------------------------------------
// independent bech32 (BIP-173) reference

const refCharset = "qpzry9x8gf2tvdw0s3jn54khce6mua7l"

func refPolymod(values []int) uint32 {
	gen := []uint32{0x3b6a57b2, 0x26508e6d, 0x1ea119fa, 0x3d4233dd, 0x2a1462b3}
	chk := uint32(1)
	for _, v := range values {
		top := chk >> 25
		chk = (chk&0x1ffffff)<<5 ^ uint32(v)
		for i := 0; i < 5; i++ {
			if (top>>uint(i))&1 == 1 {
				chk ^= gen[i]
			}
		}
	}
	return chk
}

func refHrpExpand(hrp string) []int {
	out := make([]int, 0, 2*len(hrp)+1)
	for i := 0; i < len(hrp); i++ {
		out = append(out, int(hrp[i])>>5)
	}
	out = append(out, 0)
	for i := 0; i < len(hrp); i++ {
		out = append(out, int(hrp[i])&31)
	}
	return out
}

// refEncode5 builds hrp + "1" + data(5-bit groups) + checksum with the given checksum constant (1 = bech32)
func refEncode5(hrp string, groups []int, constant uint32) string {
	vals := append(refHrpExpand(hrp), groups...)
	vals = append(vals, 0, 0, 0, 0, 0, 0)
	pm := refPolymod(vals) ^ constant
	var sb strings.Builder
	sb.WriteString(hrp)
	sb.WriteByte('1')
	for _, g := range groups {
		sb.WriteByte(refCharset[g])
	}
	for i := 0; i < 6; i++ {
		sb.WriteByte(refCharset[(pm>>uint(5*(5-i)))&31])
	}
	return sb.String()
}

// refTo5 regroups bytes into 5-bit groups, zero padded
func refTo5(b []byte) []int {
	var out []int
	acc, bits := 0, 0
	for _, x := range b {
		acc = acc<<8 | int(x)
		bits += 8
		for bits >= 5 {
			bits -= 5
			out = append(out, (acc>>uint(bits))&31)
		}
		acc &= (1 << uint(bits)) - 1
	}
	if bits > 0 {
		out = append(out, (acc<<uint(5-bits))&31)
	}
	return out
}

func refEncode(hrp string, b []byte) string { return refEncode5(hrp, refTo5(b), 1) }

// refDecode is the strict reference: returns the bytes when s is a well-formed bech32 text with the
// hrp "erd" whose data regroups to whole bytes with zero padding of fewer than 5 bits
func refDecode(s string) ([]byte, string) {
	if len(s) > 90 {
		return nil, "too-long"
	}
	if len(s) < 8 {
		return nil, "too-short"
	}
	lower, upper := false, false
	for i := 0; i < len(s); i++ {
		ch := s[i]
		if ch < 33 || ch > 126 {
			return nil, "bad-char"
		}
		if ch >= 'a' && ch <= 'z' {
			lower = true
		}
		if ch >= 'A' && ch <= 'Z' {
			upper = true
		}
	}
	if lower && upper {
		return nil, "mixed-case"
	}
	s = strings.ToLower(s)
	pos := strings.LastIndexByte(s, '1')
	if pos < 1 || pos+7 > len(s) {
		return nil, "separator"
	}
	hrp := s[:pos]
	var groups []int
	for i := pos + 1; i < len(s); i++ {
		idx := strings.IndexByte(refCharset, s[i])
		if idx < 0 {
			return nil, "non-charset"
		}
		groups = append(groups, idx)
	}
	if refPolymod(append(refHrpExpand(hrp), groups...)) != 1 {
		return nil, "checksum"
	}
	if hrp != "erd" {
		return nil, "prefix"
	}
	groups = groups[:len(groups)-6]
	var out []byte
	acc, bits := 0, 0
	for _, g := range groups {
		acc = acc<<5 | g
		bits += 5
		if bits >= 8 {
			bits -= 8
			out = append(out, byte(acc>>uint(bits)))
			acc &= (1 << uint(bits)) - 1
		}
	}
	if bits >= 5 || acc != 0 {
		return nil, "padding"
	}
	return out, ""
}

// ---------------------------------------------------------------------------------------

type hostile struct {
	class string
	text  string
}

func genBytes(rng *vk.Rand, n int) ([]byte, string) {
	switch rng.Intn(8) {
	case 0:
		return make([]byte, n), "zero"
	case 1:
		return bytes.Repeat([]byte{0xff}, n), "ones"
	case 2: // smart-contract shaped: leading zeros
		b := rng.Bytes(n)
		for i := 0; i < 8 && i < n; i++ {
			b[i] = 0
		}
		return b, "sc"
	case 3: // trailing zeros (padding side)
		b := rng.Bytes(n)
		for i := n / 2; i < n; i++ {
			b[i] = 0
		}
		return b, "tail0"
	default:
		return rng.Bytes(n), "rand"
	}
}

func replaceAt(s string, i int, ch byte) string {
	b := []byte(s)
	b[i] = ch
	return string(b)
}

func mixCase(rng *vk.Rand, s string) string {
	b := []byte(s)
	changed := false
	for i := range b {
		if b[i] >= 'a' && b[i] <= 'z' && rng.Bool() {
			b[i] -= 32
			changed = true
		}
	}
	if !changed {
		for i := range b {
			if b[i] >= 'a' && b[i] <= 'z' {
				b[i] -= 32
				break
			}
		}
	}
	return string(b)
}

func bech32Hostiles(rng *vk.Rand, L int, b []byte, canon string) []hostile {
	var hs []hostile
	add := func(c, t string) { hs = append(hs, hostile{c, t}) }
	dataStart := 4
	dataEnd := len(canon) - 6
	// all upper case: a valid alternative spelling
	add("upper", strings.ToUpper(canon))
	add("mixed-case", mixCase(rng, canon))
	// other prefixes with a correct checksum for that prefix
	for _, hrp := range []string{"eld", "er", "erdd", "btc", "e", "erd1", "xrd", "erc", "dre"} {
		add("prefix:"+hrp, refEncode(hrp, b))
	}
	add("prefix-random", refEncode(string([]byte{byte('a' + rng.Intn(26)), byte('a' + rng.Intn(26)), byte('a' + rng.Intn(26))}), b))
	// prefix text replaced without recomputing the checksum
	add("prefix-swapped-no-checksum", "erb"+canon[3:])
	// one character changed (data part, checksum part), stays in the charset
	for k := 0; k < 3; k++ {
		i := dataStart + rng.Intn(len(canon)-dataStart)
		ch := refCharset[rng.Intn(32)]
		if ch == canon[i] {
			ch = refCharset[(strings.IndexByte(refCharset, ch)+1)%32]
		}
		cl := "char-changed-data"
		if i >= dataEnd {
			cl = "char-changed-checksum"
		}
		add(cl, replaceAt(canon, i, ch))
	}
	// two adjacent characters swapped
	if i := dataStart + rng.Intn(len(canon)-dataStart-1); canon[i] != canon[i+1] {
		t := []byte(canon)
		t[i], t[i+1] = t[i+1], t[i]
		add("transposed", string(t))
	}
	// a character outside the charset
	add("non-charset-char", replaceAt(canon, dataStart+rng.Intn(len(canon)-dataStart), "bio1"[rng.Intn(4)]))
	add("non-ascii-char", replaceAt(canon, dataStart+rng.Intn(len(canon)-dataStart), byte(0x80+rng.Intn(0x7f))))
	add("control-char", replaceAt(canon, dataStart+rng.Intn(len(canon)-dataStart), byte(rng.Intn(33))))
	// well-formed texts of another decoded length
	for _, d := range []int{-2, -1, 1, 2, -L} {
		n := L + d
		if n < 0 {
			continue
		}
		nb := rng.Bytes(n)
		if n <= L {
			copy(nb, b[:n])
		} else {
			copy(nb, b)
			for i := L; i < n; i++ {
				nb[i] = 0
			}
		}
		add(fmt.Sprintf("wrong-length:%+d", d), refEncode("erd", nb))
	}
	add("wrong-length:double", refEncode("erd", append(append([]byte{}, b...), b...)))
	// 5-bit group manipulations with a correct checksum
	groups := refTo5(b)
	padBits := len(groups)*5 - 8*L
	if padBits > 0 {
		g := append([]int{}, groups...)
		g[len(g)-1] |= 1 + rng.Intn((1<<uint(padBits))-1)
		add("nonzero-padding", refEncode5("erd", g, 1))
	}
	add("extra-zero-group", refEncode5("erd", append(append([]int{}, groups...), 0), 1))
	add("extra-two-zero-groups", refEncode5("erd", append(append([]int{}, groups...), 0, 0), 1))
	if len(groups) > 1 {
		add("group-dropped", refEncode5("erd", groups[:len(groups)-1], 1))
	}
	// bech32m checksum constant
	add("bech32m-checksum", refEncode5("erd", groups, 0x2bc830a3))
	// the known bech32 weakness: a text ending in 'p' stays checksum-valid when 'q' is inserted/removed before it
	if canon[len(canon)-1] == 'p' {
		add("q-inserted-before-final-p", canon[:len(canon)-1]+"qp")
		if canon[len(canon)-2] == 'q' {
			add("q-removed-before-final-p", canon[:len(canon)-2]+"p")
		}
	}
	// framing damage
	add("truncated", canon[:len(canon)-1-rng.Intn(6)])
	add("extended", canon+string(refCharset[rng.Intn(32)]))
	add("leading-space", " "+canon)
	add("trailing-space", canon+" ")
	add("trailing-newline", canon+"\n")
	add("no-separator", strings.Replace(canon, "1", "", 1))
	add("separator-doubled", "erd11"+canon[4:])
	add("empty", "")
	add("only-prefix", "erd1")
	add("hex-text", hex.EncodeToString(b))
	add("over-90-chars", canon+strings.Repeat("q", 91-len(canon)))
	add("random-text", string(rng.Bytes(1+rng.Intn(60))))
	return hs
}

func hexHostiles(rng *vk.Rand, L int, b []byte, canon string) []hostile {
	var hs []hostile
	add := func(c, t string) { hs = append(hs, hostile{c, t}) }
	add("upper", strings.ToUpper(canon))
	add("mixed-case", mixCase(rng, canon))
	add("wrong-length:-1", canon[:len(canon)-2])
	add("wrong-length:+1", canon+"00")
	add("wrong-length:+2", canon+"0000")
	add("wrong-length:double", canon+canon)
	add("odd-nibbles-short", canon[:len(canon)-1])
	add("odd-nibbles-long", canon+"0")
	add("non-hex-char", replaceAt(canon, rng.Intn(len(canon)), "gxz-_ "[rng.Intn(6)]))
	add("non-ascii-char", replaceAt(canon, rng.Intn(len(canon)), byte(0x80+rng.Intn(0x7f))))
	add("0x-prefix", "0x"+canon)
	add("0x-prefix-same-length", "0x"+canon[2:])
	add("leading-space", " "+canon)
	add("trailing-space", canon+" ")
	add("trailing-newline", canon+"\n")
	add("empty", "")
	add("bech32-text", refEncode("erd", b))
	add("random-text", string(rng.Bytes(1+rng.Intn(2*L+2))))
	return hs
}

func main() {
	logger.SetLogLevel("*:NONE")
	r := vk.Start("C48")
	r.Rule("case = (converter kind, length L, byte string of a content class {random, zero, 0xff, leading zeros, trailing zeros}); L in {2..50 even} with 32 in half of the cases, both bech32 and hex converters. Per case: encode, compare with the harness's own BIP-173 / hex reference, decode back, then ~45 (bech32) / ~18 (hex) hostile texts derived from the canonical text (other prefix with correct checksum, changed/transposed characters, case variants, other decoded lengths, non-zero padding bits, extra/dropped 5-bit groups, bech32m constant, q-insertion, framing damage, > 90 chars). Shape = converter, L, hostile class, accepted/rejected.")
	r.Assume("bech32 lengths above 50 bytes are outside the domain (the library refuses texts longer than 90 characters)",
		"the reference bech32 codec in the harness follows BIP-173 and shares no code with btcutil",
		"upper-case spellings may be accepted or rejected; if accepted they must decode to the same bytes")
	r.MinShapes(300)

	n := r.N(40000, 800000)
	r.Parallel(n, func(c *vk.Case) {
		rng := c.Rng
		L := 2 * (1 + rng.Intn(25))
		if rng.Bool() {
			L = 32
		}
		isBech := rng.Chance(2, 3)
		var conv core.PubkeyConverter
		var err error
		kind := "hex"
		if isBech {
			kind = "bech32"
			conv, err = pubkeyConverter.NewBech32PubkeyConverter(L)
		} else {
			conv, err = pubkeyConverter.NewHexPubkeyConverter(L)
		}
		if err != nil {
			r.Violation(c.Idx, "constructor kind="+kind, fmt.Sprintf("constructor rejected length %d: %v", L, err), nil)
			return
		}
		if conv.Len() != L {
			r.Violation(c.Idx, "len-mismatch kind="+kind, fmt.Sprintf("Len()=%d want %d", conv.Len(), L), nil)
		}
		b, bclass := genBytes(rng, L)
		model := append([]byte{}, b...)
		text := conv.Encode(b)
		var canon string
		if isBech {
			canon = refEncode("erd", model)
		} else {
			canon = hex.EncodeToString(model)
		}
		r.Eval(1)
		r.Count(kind+".encode", 1)
		if !bytes.Equal(b, model) {
			r.Violation(c.Idx, "encode-modified-input kind="+kind, "Encode changed its argument", map[string]interface{}{"len": L, "bytes": vk.Hex(model)})
		}
		if text != canon {
			r.Violation(c.Idx, "encode-not-canonical kind="+kind, fmt.Sprintf("L=%d bytes=%x Encode=%q reference=%q", L, model, text, canon), map[string]interface{}{"len": L, "bytes": vk.Hex(model), "got": text, "want": canon})
		}
		back, derr := conv.Decode(text)
		r.Eval(1)
		if derr != nil {
			r.Violation(c.Idx, "roundtrip-rejected kind="+kind, fmt.Sprintf("L=%d bytes=%x Encode=%q Decode error: %v", L, model, text, derr), map[string]interface{}{"len": L, "bytes": vk.Hex(model), "text": text})
		} else if !bytes.Equal(back, model) {
			r.Violation(c.Idx, "roundtrip-mismatch kind="+kind, fmt.Sprintf("L=%d bytes=%x Encode=%q Decode=%x", L, model, text, back), map[string]interface{}{"len": L, "bytes": vk.Hex(model), "text": text, "decoded": vk.Hex(back)})
		}
		r.Shape(fmt.Sprintf("%s L%d roundtrip %s", kind, L, bclass))
		// the same converter instance keeps being used, and the caller recycles one buffer for successive
		// addresses (overwritten in place between calls), also re-encoding an address it encoded before
		if rng.Chance(1, 3) {
			buf := append([]byte{}, model...)
			prev := append([]byte{}, model...)
			for k := 0; k < 4; k++ {
				var nb []byte
				if k == 2 {
					nb = prev // an address seen two calls ago comes back
				} else {
					nb, _ = genBytes(rng, L)
				}
				prev = append([]byte{}, buf...)
				copy(buf, nb)
				want := append([]byte{}, buf...)
				t2 := conv.Encode(buf)
				var canon2 string
				if isBech {
					canon2 = refEncode("erd", want)
				} else {
					canon2 = hex.EncodeToString(want)
				}
				r.Eval(1)
				r.Count(kind+".encode_recycled_buffer", 1)
				if t2 != canon2 {
					r.Violation(c.Idx, "encode-not-canonical kind="+kind+" reuse=recycled-buffer", fmt.Sprintf("L=%d call %d on the same converter with the caller's buffer overwritten in place: bytes=%x Encode=%q reference=%q", L, k+2, want, t2, canon2), map[string]interface{}{"len": L, "bytes": vk.Hex(want), "got": t2, "want": canon2, "first_bytes": vk.Hex(model)})
					break
				}
				if b2, e2 := conv.Decode(t2); e2 != nil || !bytes.Equal(b2, want) {
					r.Violation(c.Idx, "roundtrip-mismatch kind="+kind+" reuse=recycled-buffer", fmt.Sprintf("L=%d call %d: bytes=%x Encode=%q Decode=%x err=%v", L, k+2, want, t2, b2, e2), map[string]interface{}{"len": L, "bytes": vk.Hex(want), "text": t2})
					break
				}
			}
		}
		if text != canon {
			// hostile texts are derived from the reference text, keep going with it
			text = canon
		}
		var hs []hostile
		if isBech {
			hs = bech32Hostiles(rng, L, model, canon)
		} else {
			hs = hexHostiles(rng, L, model, canon)
		}
		for _, h := range hs {
			got, e := conv.Decode(h.text)
			r.Eval(1)
			cl := h.class
			if i := strings.IndexByte(cl, ':'); i > 0 {
				cl = cl[:i] // the concrete prefix / length delta is detail, not class
			}
			var refBytes []byte
			var why string
			if isBech {
				refBytes, why = refDecode(h.text)
				if why == "" && len(refBytes) != L {
					why = "length"
				}
			} else {
				rb, he := hex.DecodeString(h.text)
				switch {
				case he != nil:
					why = "not-hex"
				case len(rb) != L:
					why = "length"
				default:
					refBytes = rb
				}
			}
			verdict := "rejected"
			if e == nil {
				verdict = "accepted"
			}
			r.Shape(fmt.Sprintf("%s L%d %s %s", kind, L, cl, verdict))
			r.Count(kind+"."+verdict, 1)
			if e == nil {
				r.Count(kind+".accepted."+cl, 1)
			}
			det := map[string]interface{}{"kind": kind, "len": L, "canonical": canon, "text": h.text, "class": h.class, "reference_reject_reason": why, "decoded": vk.Hex(got)}
			if e == nil {
				var re string
				if isBech {
					re = refEncode("erd", got)
				} else {
					re = hex.EncodeToString(got)
				}
				switch {
				case len(got) != L:
					r.Violation(c.Idx, fmt.Sprintf("accepted-wrong-length kind=%s class=%s", kind, cl), fmt.Sprintf("L=%d Decode(%q) accepted with %d bytes", L, h.text, len(got)), det)
				case why != "":
					r.Violation(c.Idx, fmt.Sprintf("accepted-invalid kind=%s reason=%s", kind, why), fmt.Sprintf("L=%d Decode(%q) accepted (-> %x) but the text is invalid: %s (hostile class %s)", L, h.text, got, why, h.class), det)
				case re != strings.ToLower(h.text):
					r.Violation(c.Idx, fmt.Sprintf("accepted-noncanonical kind=%s class=%s", kind, cl), fmt.Sprintf("L=%d Decode(%q) = %x whose encoding is %q", L, h.text, got, re), det)
				case !bytes.Equal(got, refBytes):
					r.Violation(c.Idx, fmt.Sprintf("decoded-wrong-bytes kind=%s class=%s", kind, cl), fmt.Sprintf("L=%d Decode(%q) = %x want %x", L, h.text, got, refBytes), det)
				}
				if conv.Encode(got) != strings.ToLower(h.text) && why == "" {
					r.Violation(c.Idx, fmt.Sprintf("reencode-mismatch kind=%s class=%s", kind, cl), fmt.Sprintf("L=%d Encode(Decode(%q)) = %q", L, h.text, conv.Encode(got)), det)
				}
			} else if why == "" && h.text == strings.ToLower(h.text) {
				// a canonical lower-case text of the right length was rejected
				r.Violation(c.Idx, fmt.Sprintf("canonical-rejected kind=%s", kind), fmt.Sprintf("L=%d Decode(%q) rejected: %v", L, h.text, e), det)
			} else if why == "" {
				r.Count(kind+".valid_uppercase_rejected", 1)
			}
		}
		if r.NeedSample() && L == 32 && c.Idx%7 == 0 {
			r.Sample(map[string]interface{}{"kind": kind, "len": L, "bytes": vk.Hex(model), "text": canon, "hostile_examples": []string{hs[0].class + " " + hs[0].text, hs[3].class + " " + hs[3].text}})
		}
	})
	r.Finish()
}
