// C26 — SelectTransactions returns at most the requested number of distinct pooled transactions; per sender a
// prefix of its nonce-ordered list without nonce gaps; a sender with an initial gap (lowest nonce above the notified
// account nonce) contributes nothing, at most one transaction while in its grace period.
// Monitor shape: RM — a selection oracle evaluated on the quiescent pre-selection snapshot (verif hook) and a small
// model of the per-sender notification state (known account nonce, set of possible failed-selection counts).
package main

import (
	"fmt"
	"runtime"
	"sort"
	"strings"

	logger "github.com/ElrondNetwork/elrond-go-logger"
	"github.com/ElrondNetwork/elrond-go/storage/txcache"
	"verif/internal/txkit"
	"verif/internal/vk"
)

// grace period of the cache: a sender with an initial gap gets one transaction at its 2nd consecutive failed
// selection (constants senderGracePeriodLowerBound = senderGracePeriodUpperBound = 2), is swept after the 3rd
const graceAt = 2
const sweptAt = 3

type senderModel struct {
	known    bool
	accNonce uint64
	failed   uint8 // bit i set: "i consecutive failed selections so far" is possible (3 = more than the grace period)
}

func bump(set uint8) uint8 {
	out := uint8(0)
	for v := 0; v <= sweptAt; v++ {
		if set&(1<<uint(v)) != 0 {
			n := v + 1
			if n > sweptAt {
				n = sweptAt
			}
			out |= 1 << uint(n)
		}
	}
	return out
}

func setString(set uint8) string {
	var p []string
	for v := 0; v <= sweptAt; v++ {
		if set&(1<<uint(v)) != 0 {
			p = append(p, fmt.Sprint(v))
		}
	}
	return "{" + strings.Join(p, ",") + "}"
}

func describeList(txs []txcache.VerifTx) string {
	var p []string
	for _, t := range txs {
		p = append(p, fmt.Sprintf("n%d@%d", t.Nonce, t.GasPrice/txkit.MinGasPrice))
	}
	return "[" + strings.Join(p, " ") + "]"
}

func main() {
	_ = logger.SetLogLevel("*:NONE")
	r := vk.Start("C26")
	r.Rule("per case one TxCache (eviction off, generous per-sender limits, 1/4/16 chunks), 1..5 senders, nonces 0..8 with gaps anywhere incl. after nonce 0, 3 gas prices, random AddTx / RemoveTxByHash / NotifyAccountNonce / SelectTransactions(numRequested in {0,1,2,3,5,10,50,200}, batch in {1,2,3,10}); every selection is one oracle evaluation on the quiescent pre-selection snapshot. A selection is non-trivial when some sender has an initial or a middle gap or the request was filled; distinct = multiset of per-sender classes (nonce known, initial gap, possible grace, starts at 0, middle gap, list length bucket) + filled flag. Concurrent phase (conc.go, cases after the sequential ones): 1..6 victim senders with gaps anywhere + 1..3 pacer senders, short lists (copied whole by pass 0) or long lists (15..150 txs, drained over many passes), one SelectTransactions(3..1000, batch 1/2/3/10) runs in its own goroutine and is parked at every pacer transaction it examines (GetNonce of a data.TransactionHandler decorator); while parked, the harness removes the lowest nonces of a random victim through RemoveTxByHash (2/3: exactly everything in front of its first gap); every such selection is one oracle evaluation (<= requested, distinct, pooled at call start, per sender a contiguous run starting right behind the removed prefix, no skipped nonce); non-trivial when at least one removal step happened inside the call. Front-removal phase (front.go): 1..5 senders with notified account nonces (mostly = lowest pooled nonce), up to 4 calls per cache; the selection goroutine is parked in its FIRST look at the front transaction of 2/3 of the senders (the look that decides 'initial gap or not'), another goroutine then calls RemoveTxByHash(front) and is given time to reach the list mutex before the selection resumes; oracle as above plus: a sender whose first returned nonce is above its notified account nonce may only contribute one transaction and only in a possible grace period; non-trivial when a front with nonce = account nonce was removed during the initial-gap verification. Free-running phase (storm.go): 2..3 goroutines add/remove score-changing transactions (prices 1..100x, so the sender moves between score chunks) of senders they own while one goroutine runs 1000 selections per cache; each selection is one evaluation (<= requested, distinct, workload transactions only, per sender nonces in order without skipping); non-trivial when an add/remove was in progress at the start or the end of the selection or completed in between")
	r.Assume("eviction is disabled and per-sender limits are not reached, so a sender's list object (with its notified nonce and failed-selection counter) only disappears when its last transaction is removed or when it is swept; both are observed through the snapshot",
		"when a request is filled the first pass may not reach every sender: the model keeps the set of possible failed-selection counts",
		"grace period = exactly the 2nd consecutive selection with an initial gap (repository constants 2..2); sweep after the 3rd",
		"selection order between senders depends on Go map iteration, so a replay may fill a small request from other senders; recorded details are self-contained",
		"concurrent phase: the selection goroutine is only ever parked inside the list critical section of a pacer sender, whose transactions are never removed; the remover touches other senders only, so each produced interleaving is admitted by the unchanged code (pre-emption of the selecting goroutine at that point); no oracle reads the clock",
		"front-removal phase: the remover goroutine blocks on the sender's list mutex for as long as the cache holds it, so 'removal before' or 'removal after' the examination of the sender are the only orders the oracle has to admit, and both are admitted; the pause before the selection is resumed only widens the window",
		"free-running phase: one selection at a time per cache (the cache keeps its copy state in the sender lists) and one mutating goroutine per sender; base transactions are never removed, so sender lists are not re-created")
	r.MinShapes(60)

	cases := r.N(6000, 250000)
	opsPerCase := r.N(60, 120)
	prices := []uint64{txkit.MinGasPrice, 2 * txkit.MinGasPrice, 3 * txkit.MinGasPrice}

	concCases := r.N(4000, 120000)
	frontCases := r.N(3000, 60000)
	stormCases := r.N(32, 200)
	driven := cases + concCases + frontCases

	r.Parallel(driven, func(c *vk.Case) {
		if c.Idx >= driven {
			stormCase(r, c) // only reached when a storm case is replayed
			return
		}
		if c.Idx >= cases+concCases {
			frontCase(r, c) // front.go: the front transaction is removed while the selection takes its first look at it
			return
		}
		if c.Idx >= cases {
			concCase(r, c) // conc.go: removals between the passes of one running selection
			return
		}
		rng := c.Rng
		cfg := txcache.ConfigSourceMe{
			Name: "c26", NumChunks: []uint32{1, 4, 16}[rng.Intn(3)], EvictionEnabled: false,
			NumBytesPerSenderThreshold: 1 << 20, CountPerSenderThreshold: 1000,
		}
		cache, err := txkit.NewCache(cfg)
		if err != nil {
			r.Violation(c.Idx, "constructor", fmt.Sprintf("NewTxCache: %v", err), nil)
			return
		}
		nSenders := rng.Range(1, 5)
		maxNonce := rng.Range(3, 8)
		zeroBias := rng.Intn(3) // how often nonce 0 is used
		models := make([]senderModel, nSenders)
		for i := range models {
			models[i].failed = 1 // {0}
		}
		var added []txkit.TxSpec
		var trace []string
		failed := false
		report := func(key, what string, extra map[string]interface{}) {
			tr := trace
			if len(tr) > 200 {
				tr = tr[len(tr)-200:]
			}
			d := map[string]interface{}{"trace_tail": tr}
			for k, v := range extra {
				d[k] = v
			}
			r.Violation(c.Idx, key, what, d)
			failed = true
		}
		syncModel := func() (txcache.VerifSnapshotData, bool) {
			snap, cleared := txkit.Quiesce(cache) // runs the pending sweep synchronously
			if !cleared {
				r.Count("obs_sweep_list_not_cleared_after_sweep", 1) // C25's concern; senders that vanish are handled below
			}
			for i := range models {
				if _, here := txkit.SenderView(snap, i); !here {
					models[i] = senderModel{failed: 1}
				}
			}
			return snap, true
		}

		for step := 0; step < opsPerCase && !failed; step++ {
			p := rng.Intn(100)
			switch {
			case p < 45: // AddTx
				nonce := uint64(rng.Intn(maxNonce + 1))
				if zeroBias > 0 && rng.Chance(zeroBias, 6) {
					nonce = 0
				}
				spec := txkit.TxSpec{Sender: rng.Intn(nSenders), Nonce: nonce, GasPrice: prices[rng.Intn(3)], Size: 200, Variant: rng.Intn(2)}
				if len(added) > 0 && rng.Chance(1, 10) {
					spec = added[rng.Intn(len(added))]
				}
				ok, add := cache.AddTx(spec.Wrap())
				added = append(added, spec)
				trace = append(trace, fmt.Sprintf("%d AddTx(%s) -> %v,%v", step, spec.Hash(), ok, add))
				r.Count("op_add", 1)
				if _, ok := syncModel(); !ok {
					return
				}
			case p < 55: // RemoveTxByHash
				if len(added) == 0 {
					continue
				}
				spec := added[rng.Intn(len(added))]
				res := cache.RemoveTxByHash([]byte(spec.Hash()))
				trace = append(trace, fmt.Sprintf("%d RemoveTxByHash(%s) -> %v", step, spec.Hash(), res))
				r.Count("op_remove", 1)
				if _, ok := syncModel(); !ok {
					return
				}
			case p < 70: // NotifyAccountNonce
				s := rng.Intn(nSenders)
				n := uint64(rng.Intn(maxNonce + 1))
				if rng.Chance(1, 3) {
					n = 0
				}
				snap, ok := syncModel()
				if !ok {
					return
				}
				cache.NotifyAccountNonce(txkit.SenderAddr(s), n)
				if _, here := txkit.SenderView(snap, s); here {
					models[s].known = true
					models[s].accNonce = n
				}
				trace = append(trace, fmt.Sprintf("%d NotifyAccountNonce(s%d,%d)", step, s, n))
				r.Count("op_notify", 1)
			default: // SelectTransactions
				pre, ok := syncModel()
				if !ok {
					return
				}
				numRequested := []int{0, 1, 2, 3, 5, 10, 50, 200}[rng.Intn(8)]
				batch := []int{1, 2, 3, 10}[rng.Intn(4)]
				result := cache.SelectTransactions(numRequested, batch)
				r.Eval(1)
				r.Count("op_select", 1)
				r.Count("selected_txs", len(result))

				bySender := map[int][]string{}
				seen := map[string]bool{}
				var resDesc []string
				for _, w := range result {
					h := string(w.TxHash)
					resDesc = append(resDesc, h)
					if seen[h] {
						report("duplicate-selected", fmt.Sprintf("SelectTransactions(%d,%d) returned %s twice", numRequested, batch, h), map[string]interface{}{"result": resDesc})
					}
					seen[h] = true
					si := txkit.SenderIndex(string(w.Tx.GetSndAddr()))
					bySender[si] = append(bySender[si], h)
				}
				trace = append(trace, fmt.Sprintf("%d SelectTransactions(%d,%d) -> %v", step, numRequested, batch, resDesc))
				if failed {
					break
				}
				if len(result) > numRequested {
					report("more-than-requested", fmt.Sprintf("SelectTransactions(%d,%d) returned %d transactions", numRequested, batch, len(result)), map[string]interface{}{"result": resDesc})
					break
				}
				full := len(result) == numRequested
				if full {
					r.Count("selections_filled", 1)
				}
				for si := range bySender {
					if si < 0 || si >= nSenders {
						report("not-pooled-selected", "selected a transaction of an unknown sender", map[string]interface{}{"result": resDesc})
					} else if _, here := txkit.SenderView(pre, si); !here {
						report("not-pooled-selected", fmt.Sprintf("selected %v of sender s%d which has no pooled transaction", bySender[si], si), map[string]interface{}{"result": resDesc})
					}
				}
				if failed {
					break
				}

				var classes []string
				nontrivial := full
				for si := 0; si < nSenders && !failed; si++ {
					view, here := txkit.SenderView(pre, si)
					if !here {
						continue
					}
					m := &models[si]
					sel := bySender[si]
					cnt := len(sel)
					list := view.Txs
					detail := map[string]interface{}{
						"sender": si, "list": describeList(list), "selected": sel, "account_nonce_known": m.known, "account_nonce": m.accNonce,
						"possible_failed_selections_before": setString(m.failed), "num_requested": numRequested, "batch": batch, "result": resDesc,
					}
					// selected = the first cnt transactions of the list
					if cnt > len(list) {
						report("not-pooled-selected", fmt.Sprintf("sender s%d: %d selected, %d pooled", si, cnt, len(list)), detail)
						break
					}
					selSet := map[string]bool{}
					for _, h := range sel {
						selSet[h] = true
					}
					inList := map[string]bool{}
					for _, t := range list {
						inList[t.Hash] = true
					}
					for _, h := range sel {
						if !inList[h] {
							report("not-pooled-selected", fmt.Sprintf("sender s%d: selected %s which is not in its list %s", si, h, describeList(list)), detail)
							break
						}
					}
					if failed {
						break
					}
					for i := 0; i < cnt; i++ {
						if !selSet[list[i].Hash] {
							report("non-prefix", fmt.Sprintf("sender s%d: selected %v are not the first %d of its list %s", si, sel, cnt, describeList(list)), detail)
							break
						}
					}
					if failed {
						break
					}
					// consecutive selected nonces never skip a value
					for i := 1; i < cnt; i++ {
						if list[i].Nonce > list[i-1].Nonce+1 {
							class := "middle"
							if list[i-1].Nonce == 0 {
								class = "after-nonce-0"
							}
							report("nonce-gap-selected class="+class, fmt.Sprintf("sender s%d list %s: selected the first %d, nonce %d follows nonce %d", si, describeList(list), cnt, list[i].Nonce, list[i-1].Nonce), detail)
							break
						}
					}
					if failed {
						break
					}
					hasMiddleGap := false
					for i := 1; i < len(list); i++ {
						if list[i].Nonce > list[i-1].Nonce+1 {
							hasMiddleGap = true
						}
					}
					initialGap := m.known && list[0].Nonce > m.accNonce
					visitedForSure := !full || cnt > 0
					mayBeGrace := m.failed&(1<<(graceAt-1)) != 0
					if initialGap {
						nontrivial = true
						r.Count("senders_with_initial_gap_at_selection", 1)
						switch {
						case cnt == 0:
						case cnt == 1 && mayBeGrace:
							r.Count("grace_period_single_tx_selected", 1)
						case cnt >= 2 && mayBeGrace:
							report("grace-period-overshoot", fmt.Sprintf("sender s%d (account nonce %d, list %s, possible failed selections before %s) is in its grace period and contributed %d transactions", si, m.accNonce, describeList(list), setString(m.failed), cnt), detail)
						default:
							report("initial-gap-selected", fmt.Sprintf("sender s%d has an initial gap (account nonce %d, list %s, possible failed selections before %s: not in grace period) and contributed %d transactions", si, m.accNonce, describeList(list), setString(m.failed), cnt), detail)
						}
						if failed {
							break
						}
						switch {
						case cnt >= 1 && mayBeGrace:
							m.failed = 1 << graceAt
						case visitedForSure:
							m.failed = bump(m.failed)
						default:
							m.failed |= bump(m.failed)
						}
					} else {
						if visitedForSure {
							m.failed = 1
						} else {
							m.failed |= 1
						}
					}
					if hasMiddleGap {
						nontrivial = true
						r.Count("senders_with_middle_gap_at_selection", 1)
						if list[0].Nonce == 0 && len(list) > 1 && list[1].Nonce > 1 {
							r.Count("senders_with_gap_right_after_nonce_0", 1)
						}
					}
					lb := len(list)
					if lb > 4 {
						lb = 4
					}
					classes = append(classes, fmt.Sprintf("k%v.i%v.g%v.z%v.m%v.l%d", m.known, initialGap, initialGap && mayBeGrace, list[0].Nonce == 0, hasMiddleGap, lb))
				}
				if failed {
					break
				}
				// wait for the asynchronous sweep; senders swept away lose their state; a sender still here was not swept
				post, ok := syncModel()
				if !ok {
					return
				}
				for si := range models {
					if _, here := txkit.SenderView(post, si); here && models[si].failed&^(1<<sweptAt) != 0 {
						models[si].failed &^= 1 << sweptAt
					}
				}
				if len(post.Senders) < len(pre.Senders) {
					r.Count("senders_swept", len(pre.Senders)-len(post.Senders))
				}
				if !nontrivial {
					r.Trivial()
					break
				}
				sort.Strings(classes)
				sig := fmt.Sprintf("full%v|%s", full, strings.Join(classes, "|"))
				r.Shape(sig)
				if r.NeedSample() && len(pre.Senders) >= 2 && len(result) >= 2 && c.Idx%11 == 0 {
					var lists []string
					for si := 0; si < nSenders; si++ {
						if v, here := txkit.SenderView(pre, si); here {
							lists = append(lists, fmt.Sprintf("s%d acc=%v/%d %s", si, models[si].known, models[si].accNonce, describeList(v.Txs)))
						}
					}
					r.Sample(map[string]interface{}{"pool": lists, "num_requested": numRequested, "batch": batch, "selected": resDesc})
				}
			}
		}
	})
	if r.ReplayCase < 0 {
		// storm.go: free-running selections against senders that keep changing their score chunk; few caches at a
		// time, so that the selecting goroutine and the movers of one cache really run simultaneously
		workers := runtime.GOMAXPROCS(0) / 4
		if workers < 1 {
			workers = 1
		}
		r.ParallelW(stormCases, workers, func(c *vk.Case) {
			idx := driven + c.Idx
			sc := &vk.Case{Idx: idx, Rng: r.Rng(idx), R: r}
			if p, v, st := vk.Guard(func() { stormCase(r, sc) }); p {
				r.Violation(idx, "panic:"+vk.TopFrame(st), fmt.Sprintf("panic in case %d: %v", idx, v), map[string]interface{}{"panic": fmt.Sprint(v), "stack": st})
			}
		})
	}
	if r.ReplayCase < 0 {
		if r.Counter("senders_with_gap_right_after_nonce_0") < 50 || r.Counter("grace_period_single_tx_selected") < 20 {
			r.Inconclusive("the generator did not produce enough gap-after-nonce-0 or grace-period selections")
		}
		if r.Counter("conc_removal_steps") < 1000 || r.Counter("conc_gap_prefix_removed_after_examined") < 200 {
			r.Inconclusive("the concurrent phase removed too few gap prefixes between the passes of a running selection")
		}
		if r.Counter("front_removed_at_account_nonce_while_initial_gap_is_verified") < 500 {
			r.Inconclusive("the front-removal phase removed too few front transactions (nonce = account nonce) during the initial-gap verification of a running selection")
		}
		if r.Counter("storm_selections_overlapping_mover_ops") < 5000 || r.Counter("storm_mover_ops") < 100000 {
			r.Inconclusive("the free-running phase saw too few selections overlapping score-changing adds/removes")
		}
	}
	r.Finish()
}
