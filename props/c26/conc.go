// C26, concurrent phase: one SelectTransactions call runs in its own goroutine while the harness removes
// transactions (RemoveTxByHash of the lowest nonces of a sender, as a block commit / pool cleaner does) BETWEEN
// the passes of that selection. The interleaving is driven, not timed: every pooled transaction is handed to the
// cache behind a data.TransactionHandler decorator whose GetNonce() (the call selectBatchTo makes for every list
// element it examines) records the examination and, for the transactions of the "pacer" senders, hands control to
// the harness until the harness resumes it. The selection goroutine is then parked inside the pacer's own list
// critical section, exactly where the scheduler may pre-empt it; the remover only touches OTHER senders (whose
// list mutexes are free at that moment), so every interleaving produced is one the unchanged code admits.
// Oracle (on the result of each call, no clock): at most numRequested distinct transactions, all pooled at the
// start of the call; per sender the selected transactions are a contiguous run of its nonce-ordered list which
// starts right after the transactions removed during the call, and consecutive selected nonces never skip a value.
package main

import (
	"fmt"
	"sort"
	"strings"
	"sync/atomic"

	"github.com/ElrondNetwork/elrond-go/data/transaction"
	"github.com/ElrondNetwork/elrond-go/storage/txcache"
	"verif/internal/txkit"
	"verif/internal/vk"
)

type concCtl struct {
	armed    int32
	yield    chan struct{}
	resume   chan struct{}
	trace    []string       // examinations by the selection goroutine, in order; "|" marks a harness removal step
	examined map[string]int // hash -> number of examinations by the selection goroutine in the current call
}

// obsTx decorates a transaction; only GetNonce is intercepted
type obsTx struct {
	*transaction.Transaction
	ctl   *concCtl
	hash  string
	pacer bool
}

// GetNonce is what the cache calls for each list element it looks at
func (t *obsTx) GetNonce() uint64 {
	c := t.ctl
	if atomic.LoadInt32(&c.armed) == 1 {
		// only the selection goroutine runs while armed (the harness goroutine waits on yield/done)
		c.trace = append(c.trace, t.hash)
		c.examined[t.hash]++
		if t.pacer {
			c.yield <- struct{}{}
			<-c.resume
		}
	}
	return t.Transaction.GetNonce()
}

func concWrap(spec txkit.TxSpec, ctl *concCtl, pacer bool) *txcache.WrappedTransaction {
	w := spec.Wrap()
	w.Tx = &obsTx{Transaction: w.Tx.(*transaction.Transaction), ctl: ctl, hash: spec.Hash(), pacer: pacer}
	return w
}

func firstGapPrefix(list []txcache.VerifTx) int {
	for i := 1; i < len(list); i++ {
		if list[i].Nonce > list[i-1].Nonce+1 {
			return i
		}
	}
	return 0
}

func concCase(r *vk.Run, c *vk.Case) {
	rng := c.Rng
	cfg := txcache.ConfigSourceMe{
		Name: "c26c", NumChunks: []uint32{1, 4, 16}[rng.Intn(3)], EvictionEnabled: false,
		NumBytesPerSenderThreshold: 1 << 20, CountPerSenderThreshold: 1000,
	}
	cache, err := txkit.NewCache(cfg)
	if err != nil {
		r.Violation(c.Idx, "constructor", fmt.Sprintf("NewTxCache: %v", err), nil)
		return
	}
	ctl := &concCtl{yield: make(chan struct{}), resume: make(chan struct{}), examined: map[string]int{}}
	nVictims := rng.Range(1, 6)
	nPacers := rng.Range(1, 3)
	nSenders := nVictims + nPacers
	isPacer := func(s int) bool { return s >= nVictims }
	victimPrices := []uint64{txkit.MinGasPrice, 2 * txkit.MinGasPrice, 3 * txkit.MinGasPrice}
	pacerPrices := []uint64{txkit.MinGasPrice, 2 * txkit.MinGasPrice, 3 * txkit.MinGasPrice, 10 * txkit.MinGasPrice, 100 * txkit.MinGasPrice}
	specs := map[string]txkit.TxSpec{}
	add := func(spec txkit.TxSpec) {
		specs[spec.Hash()] = spec
		cache.AddTx(concWrap(spec, ctl, isPacer(spec.Sender)))
	}
	// short lists are copied whole by the first pass (a sender's batch is batch*(score+1) and few transactions
	// mean a high score); long lists have a low score, so that a sender is drained over many passes
	long := rng.Chance(1, 3)
	gapDen := 4
	if long {
		gapDen = 12
		r.Count("conc_cases_long_lists", 1)
	}
	for s := 0; s < nVictims; s++ {
		nonce := uint64([]int{0, 0, 1, 1, 2, 5}[rng.Intn(6)])
		n := rng.Range(2, 8)
		if long {
			n = rng.Range(15, 90)
		}
		price := victimPrices[rng.Intn(3)]
		for i := 0; i < n; i++ {
			add(txkit.TxSpec{Sender: s, Nonce: nonce, GasPrice: price, Size: 200})
			switch {
			case rng.Chance(1, 12): // same nonce again, lower price: sits right behind in the list
				if price > txkit.MinGasPrice {
					add(txkit.TxSpec{Sender: s, Nonce: nonce, GasPrice: price - txkit.MinGasPrice, Size: 200, Variant: 1})
				}
				nonce++
			case rng.Chance(1, gapDen):
				nonce += uint64(rng.Range(2, 3))
			default:
				nonce++
			}
		}
	}
	for s := nVictims; s < nSenders; s++ {
		nonce := uint64(rng.Intn(3))
		n := rng.Range(2, 12)
		if long {
			n = rng.Range(20, 150)
		}
		price := pacerPrices[rng.Intn(len(pacerPrices))]
		for i := 0; i < n; i++ {
			add(txkit.TxSpec{Sender: s, Nonce: nonce + uint64(i), GasPrice: price, Size: 200})
		}
	}

	rounds := rng.Range(1, 3)
	for round := 0; round < rounds; round++ {
		pre, _ := txkit.Quiesce(cache)
		lists := make([][]txcache.VerifTx, nSenders) // list at the start of the call
		removed := make([]int, nSenders)             // length of the prefix removed during the call
		for s := 0; s < nSenders; s++ {
			if v, here := txkit.SenderView(pre, s); here {
				lists[s] = v.Txs
			}
		}
		numRequested := []int{3, 5, 10, 20, 50, 200}[rng.Intn(6)]
		if long {
			numRequested = []int{20, 100, 400, 1000}[rng.Intn(4)]
		}
		batch := []int{1, 2, 3, 10}[rng.Intn(4)]
		actEvery := rng.Range(1, 4)
		if long {
			actEvery = rng.Range(4, 60) // a pacer yields at every transaction it gives; keep the remover slower than the selection
		}

		ctl.trace = ctl.trace[:0]
		ctl.examined = map[string]int{}
		done := make(chan []*txcache.WrappedTransaction, 1)
		atomic.StoreInt32(&ctl.armed, 1)
		go func() {
			done <- cache.SelectTransactions(numRequested, batch)
		}()
		var result []*txcache.WrappedTransaction
		var removals []string
		yields, removalSteps, hazards := 0, 0, 0
		for running := true; running; {
			select {
			case result = <-done:
				running = false
			case <-ctl.yield:
				// the selection goroutine is parked inside a pacer's GetNonce; nothing else touches the cache
				atomic.StoreInt32(&ctl.armed, 0)
				yields++
				if rng.Chance(1, actEvery) {
					var cand []int
					for s := 0; s < nVictims; s++ {
						if removed[s] < len(lists[s]) {
							cand = append(cand, s)
						}
					}
					var ready []int // victims whose transactions in front of their first gap were all examined by the running selection
					for _, s := range cand {
						rest := lists[s][removed[s]:]
						if g := firstGapPrefix(rest); g > 0 && ctl.examined[rest[g-1].Hash] > 0 {
							ready = append(ready, s)
						}
					}
					if len(ready) > 0 && rng.Chance(1, 2) {
						cand = ready // "the block with the transactions selected so far got committed"
					}
					if len(cand) > 0 {
						s := cand[rng.Intn(len(cand))]
						rest := lists[s][removed[s]:]
						k := rng.Range(1, len(rest))
						if g := firstGapPrefix(rest); g > 0 && rng.Chance(2, 3) {
							k = g // everything in front of the sender's first nonce gap
							if ctl.examined[rest[g-1].Hash] > 0 {
								hazards++ // ... all of which the running selection has already looked at
							}
						}
						var hs []string
						for i := 0; i < k; i++ {
							h := rest[i].Hash
							if !cache.RemoveTxByHash([]byte(h)) {
								r.Violation(c.Idx, "harness:remove-failed", "RemoveTxByHash of a pooled transaction returned false", map[string]interface{}{"hash": h})
							}
							hs = append(hs, h)
						}
						removed[s] += k
						removalSteps++
						removals = append(removals, fmt.Sprintf("after %d examinations: removed %v", len(ctl.trace), hs))
						ctl.trace = append(ctl.trace, "|")
						r.Count("conc_txs_removed_during_selection", k)
					}
				}
				atomic.StoreInt32(&ctl.armed, 1)
				ctl.resume <- struct{}{}
			}
		}
		atomic.StoreInt32(&ctl.armed, 0)
		r.Eval(1)
		r.Count("conc_selections", 1)
		r.Count("conc_yields", yields)
		r.Count("conc_removal_steps", removalSteps)
		r.Count("conc_gap_prefix_removed_after_examined", hazards)
		r.Count("conc_selected_txs", len(result))

		var resDesc []string
		for _, w := range result {
			resDesc = append(resDesc, string(w.TxHash))
		}
		var pool []string
		for s := 0; s < nSenders; s++ {
			role := "victim"
			if isPacer(s) {
				role = "pacer"
			}
			pool = append(pool, fmt.Sprintf("s%d(%s) %s", s, role, describeList(lists[s])))
		}
		tr := append([]string(nil), ctl.trace...)
		if len(tr) > 400 {
			tr = tr[len(tr)-400:]
		}
		detail := func(extra map[string]interface{}) map[string]interface{} {
			d := map[string]interface{}{
				"phase": "concurrent removal between the passes of one SelectTransactions call", "round": round,
				"pool_at_start": pool, "num_requested": numRequested, "batch": batch, "removals_during_call": removals,
				"examined_by_selection ('|' = removal step)": tr, "result": resDesc,
			}
			for k, v := range extra {
				d[k] = v
			}
			return d
		}

		failed := false
		report := func(key, what string, extra map[string]interface{}) {
			r.Violation(c.Idx, key, what, detail(extra))
			failed = true
		}
		if len(result) > numRequested {
			report("more-than-requested", fmt.Sprintf("SelectTransactions(%d,%d) returned %d transactions (concurrent removals)", numRequested, batch, len(result)), nil)
		}
		seen := map[string]bool{}
		bySender := make([][]string, nSenders)
		for _, w := range result {
			h := string(w.TxHash)
			if seen[h] && !failed {
				report("duplicate-selected", fmt.Sprintf("SelectTransactions(%d,%d) returned %s twice (concurrent removals)", numRequested, batch, h), nil)
			}
			seen[h] = true
			si := txkit.SenderIndex(string(w.Tx.GetSndAddr()))
			if si < 0 || si >= nSenders {
				if !failed {
					report("not-pooled-selected", "selected a transaction of an unknown sender (concurrent removals)", nil)
				}
				continue
			}
			bySender[si] = append(bySender[si], h)
		}
		full := len(result) == numRequested
		var classes []string
		for s := 0; s < nSenders && !failed; s++ {
			list, sel := lists[s], bySender[s]
			pos := map[string]int{}
			for i, t := range list {
				pos[t.Hash] = i
			}
			ext := map[string]interface{}{"sender": s, "list_at_start": describeList(list), "selected": sel, "removed_prefix_length": removed[s]}
			for i, h := range sel {
				p, ok := pos[h]
				if !ok {
					report("not-pooled-selected", fmt.Sprintf("sender s%d: selected %s which was not in its list %s at the start of the call", s, h, describeList(list)), ext)
					break
				}
				if i == 0 {
					if p > removed[s] {
						report("non-prefix", fmt.Sprintf("sender s%d: first selected %s is at position %d of %s but only the first %d were removed during the call", s, h, p, describeList(list), removed[s]), ext)
						break
					}
					continue
				}
				q := pos[sel[i-1]]
				if p != q+1 {
					report("non-prefix", fmt.Sprintf("sender s%d: selected %v is not a contiguous run of its list %s", s, sel, describeList(list)), ext)
					break
				}
				if list[p].Nonce > list[q].Nonce+1 {
					// witness class: had the selection already looked at (and refused) the transaction behind the gap?
					class := "concurrent-removal/gap-tx-first-examined-as-list-front"
					if ctl.examined[h] >= 2 {
						class = "concurrent-removal/gap-tx-refused-in-earlier-pass"
					}
					ext["examinations_of_the_tx_behind_the_gap"] = ctl.examined[h]
					report("nonce-gap-selected class="+class, fmt.Sprintf("sender s%d list %s, %d removed from the front during the call: one selection returned %v, nonce %d follows nonce %d", s, describeList(list), removed[s], sel, list[p].Nonce, list[q].Nonce), ext)
					break
				}
			}
			if !isPacer(s) && len(list) > 0 {
				g := firstGapPrefix(list)
				rb := 0
				switch {
				case removed[s] == 0:
				case g > 0 && removed[s] == g:
					rb = 2
				case g > 0 && removed[s] > g:
					rb = 3
				default:
					rb = 1
				}
				sb := len(sel)
				if sb > 3 {
					sb = 3
				}
				classes = append(classes, fmt.Sprintf("g%v.r%d.s%d", g > 0, rb, sb))
			}
		}
		if failed {
			return
		}
		if removalSteps == 0 {
			r.Trivial()
		} else {
			sort.Strings(classes)
			r.Shape(fmt.Sprintf("conc|full%v|b%d|%s", full, batch, strings.Join(classes, "|")))
		}

		// put the removed transactions back for the next round
		for s := 0; s < nVictims; s++ {
			for i := 0; i < removed[s]; i++ {
				add(specs[lists[s][i].Hash])
			}
		}
	}
}
