// C26, front-removal phase: one SelectTransactions call runs in its own goroutine; the FRONT transaction of some
// senders (the one whose nonce decides "initial gap or not") is removed by another goroutine while the selection is
// examining exactly that transaction for the first time in the call. The interleaving is driven through the
// data.TransactionHandler decorator the harness hands to the cache: GetNonce() of a target transaction parks the
// selection goroutine (inside the sender's own list critical section, where the scheduler may pre-empt it as well), the
// harness then starts a goroutine calling RemoveTxByHash(front) and waits until that goroutine is about to take the
// sender's list mutex (it announces itself through GetSndAddr(), the last call the cache makes on the transaction
// before locking the list); after a short pause (window widening only, never read by an oracle) the selection is
// resumed. Whatever order the cache's own locks impose on "verify the initial gap + copy from the front" versus
// "remove the front" is an order the unchanged code admits: the remover simply blocks on the list mutex as long as the
// cache holds it.
//
// Oracle per call and sender (no clock): the returned transactions of a sender are a contiguous run of its
// nonce-ordered list at the start of the call which begins at the front or right behind the removed front (the removal
// is ordered before or after the examination of the sender), consecutive nonces never skip a value, and - the point
// of this phase - when the account nonce N of the sender was notified and the first returned nonce is above N, the
// sender had an initial gap when its copy started: it may then contribute nothing, or exactly one transaction and only
// if this can be its grace period (2nd consecutive selection with an initial gap).
package main

import (
	"fmt"
	"runtime"
	"sort"
	"strings"
	"sync/atomic"
	"time"

	"github.com/ElrondNetwork/elrond-go/data/transaction"
	"github.com/ElrondNetwork/elrond-go/storage/txcache"
	"verif/internal/txkit"
	"verif/internal/vk"
)

type frontCtl struct {
	armed    int32
	selGoid  int64
	yield    chan *frontTx
	resume   chan struct{}
	atLock   chan struct{}   // the remover goroutine is about to lock the sender's list (buffered, never blocks)
	target   map[string]bool // park the selection at the first examination of these transactions
	examined map[string]int  // examinations by the selection goroutine in the current call
	trace    []string
}

type frontTx struct {
	*transaction.Transaction
	ctl      *frontCtl
	hash     string
	sender   int
	removing int32
}

// goid returns the id of the calling goroutine (parsed from the first line of its stack)
func goid() int64 {
	var buf [64]byte
	n := runtime.Stack(buf[:], false)
	id := int64(0)
	for _, ch := range buf[len("goroutine "):n] {
		if ch < '0' || ch > '9' {
			break
		}
		id = id*10 + int64(ch-'0')
	}
	return id
}

// GetNonce: examinations by the selection goroutine are recorded; the first examination of a target parks it
func (t *frontTx) GetNonce() uint64 {
	c := t.ctl
	if atomic.LoadInt32(&c.armed) == 1 && goid() == atomic.LoadInt64(&c.selGoid) {
		c.trace = append(c.trace, t.hash)
		c.examined[t.hash]++
		if c.examined[t.hash] == 1 && c.target[t.hash] {
			c.yield <- t
			<-c.resume
		}
	}
	return t.Transaction.GetNonce()
}

// GetSndAddr is what RemoveTxByHash calls right before it looks up and locks the sender's list
func (t *frontTx) GetSndAddr() []byte {
	if atomic.CompareAndSwapInt32(&t.removing, 1, 2) {
		select {
		case t.ctl.atLock <- struct{}{}:
		default:
		}
	}
	return t.Transaction.GetSndAddr()
}

func frontCase(r *vk.Run, c *vk.Case) {
	rng := c.Rng
	cfg := txcache.ConfigSourceMe{
		Name: "c26f", NumChunks: []uint32{1, 4, 16}[rng.Intn(3)], EvictionEnabled: false,
		NumBytesPerSenderThreshold: 1 << 20, CountPerSenderThreshold: 1000,
	}
	cache, err := txkit.NewCache(cfg)
	if err != nil {
		r.Violation(c.Idx, "constructor", fmt.Sprintf("NewTxCache: %v", err), nil)
		return
	}
	ctl := &frontCtl{yield: make(chan *frontTx), resume: make(chan struct{}), atLock: make(chan struct{}, 1)}
	nSenders := rng.Range(1, 5)
	prices := []uint64{txkit.MinGasPrice, 2 * txkit.MinGasPrice, 3 * txkit.MinGasPrice}
	specs := map[string]txkit.TxSpec{}
	add := func(spec txkit.TxSpec) {
		w := spec.Wrap()
		ft := &frontTx{Transaction: w.Tx.(*transaction.Transaction), ctl: ctl, hash: spec.Hash(), sender: spec.Sender}
		w.Tx = ft
		specs[spec.Hash()] = spec
		cache.AddTx(w)
	}
	models := make([]senderModel, nSenders)
	for i := range models {
		models[i].failed = 1
	}
	var history []string
	syncModel := func() txcache.VerifSnapshotData {
		snap, _ := txkit.Quiesce(cache)
		for i := range models {
			if _, here := txkit.SenderView(snap, i); !here {
				models[i] = senderModel{failed: 1} // a new list object starts without notified nonce and with 0 failed selections
			}
		}
		return snap
	}
	for s := 0; s < nSenders; s++ {
		nonce := uint64(rng.Intn(4))
		n := rng.Range(2, 6)
		price := prices[rng.Intn(3)]
		for i := 0; i < n; i++ {
			add(txkit.TxSpec{Sender: s, Nonce: nonce, GasPrice: price, Size: 200})
			switch {
			case rng.Chance(1, 8): // same nonce again at a lower price: sits right behind
				if price > txkit.MinGasPrice {
					add(txkit.TxSpec{Sender: s, Nonce: nonce, GasPrice: price - txkit.MinGasPrice, Size: 200, Variant: 1})
				}
				nonce++
			case rng.Chance(1, 8):
				nonce += 2
			default:
				nonce++
			}
		}
	}
	notify := func(s int, n uint64, why string) {
		snap := syncModel()
		cache.NotifyAccountNonce(txkit.SenderAddr(s), n)
		if _, here := txkit.SenderView(snap, s); here {
			models[s].known = true
			models[s].accNonce = n
		}
		history = append(history, fmt.Sprintf("NotifyAccountNonce(s%d,%d) %s", s, n, why))
	}
	{
		snap := syncModel()
		for s := 0; s < nSenders; s++ {
			v, here := txkit.SenderView(snap, s)
			if !here {
				continue
			}
			front := v.Txs[0].Nonce
			switch p := rng.Intn(10); {
			case p < 7:
				notify(s, front, "= lowest pooled nonce")
			case p < 8:
				if front > 0 {
					notify(s, front-1, "below the lowest pooled nonce: initial gap")
				}
			case p < 9:
				notify(s, front+1, "above the lowest pooled nonce")
			}
		}
	}

	rounds := rng.Range(1, 4)
	for round := 0; round < rounds; round++ {
		pre := syncModel()
		lists := make([][]txcache.VerifTx, nSenders)
		removed := make([]int, nSenders)
		parkedInVerification := make([]bool, nSenders)
		ctl.target = map[string]bool{}
		for s := 0; s < nSenders; s++ {
			if v, here := txkit.SenderView(pre, s); here {
				lists[s] = v.Txs
				if rng.Chance(2, 3) {
					ctl.target[v.Txs[0].Hash] = true
				}
			}
		}
		numRequested := []int{1, 2, 3, 5, 10, 50, 200}[rng.Intn(7)]
		batch := []int{1, 2, 3, 10}[rng.Intn(4)]
		before := make([]senderModel, nSenders)
		copy(before, models)

		ctl.trace = nil
		ctl.examined = map[string]int{}
		done := make(chan []*txcache.WrappedTransaction, 1)
		atomic.StoreInt64(&ctl.selGoid, -1)
		atomic.StoreInt32(&ctl.armed, 1)
		go func() {
			atomic.StoreInt64(&ctl.selGoid, goid())
			done <- cache.SelectTransactions(numRequested, batch)
		}()
		var result []*txcache.WrappedTransaction
		var removers []chan bool
		var removals []string
		for running := true; running; {
			select {
			case result = <-done:
				running = false
			case t := <-ctl.yield:
				// the selection goroutine is parked in its first look at the front transaction of t.sender
				s := t.sender
				parkedInVerification[s] = before[s].known
				select {
				case <-ctl.atLock:
				default:
				}
				atomic.StoreInt32(&t.removing, 1)
				rd := make(chan bool, 1)
				go func(h string) { rd <- cache.RemoveTxByHash([]byte(h)) }(t.hash)
				removers = append(removers, rd)
				select {
				case <-ctl.atLock:
				case ok := <-rd:
					rd <- ok
				}
				// let the remover reach (and, where the cache lets it, pass) the list mutex: window widening only
				for i, n := 0, rng.Intn(4); i < n; i++ {
					runtime.Gosched()
				}
				time.Sleep(time.Duration([]int{20, 50, 100, 200}[rng.Intn(4)]) * time.Microsecond)
				removed[s] = 1
				removals = append(removals, fmt.Sprintf("after %d examinations, selection parked in its first look at %s: RemoveTxByHash(%s) started", len(ctl.trace), t.hash, t.hash))
				ctl.trace = append(ctl.trace, "|")
				ctl.resume <- struct{}{}
			}
		}
		for _, rd := range removers {
			if !<-rd {
				r.Violation(c.Idx, "harness:remove-failed", "RemoveTxByHash of a pooled transaction returned false", nil)
			}
		}
		atomic.StoreInt32(&ctl.armed, 0)
		r.Eval(1)
		r.Count("front_selections", 1)
		r.Count("front_selected_txs", len(result))

		var resDesc []string
		for _, w := range result {
			resDesc = append(resDesc, string(w.TxHash))
		}
		var pool []string
		for s := 0; s < nSenders; s++ {
			m := before[s]
			pool = append(pool, fmt.Sprintf("s%d acc=%v/%d failed%s %s", s, m.known, m.accNonce, setString(m.failed), describeList(lists[s])))
		}
		detail := func(extra map[string]interface{}) map[string]interface{} {
			d := map[string]interface{}{
				"phase": "front transaction removed while the selection takes its first look at it", "round": round, "history": history,
				"pool_at_start": pool, "num_requested": numRequested, "batch": batch, "removals_during_call": removals,
				"examined_by_selection ('|' = removal started)": append([]string(nil), ctl.trace...), "result": resDesc,
			}
			for k, v := range extra {
				d[k] = v
			}
			return d
		}
		failed := false
		report := func(key, what string, extra map[string]interface{}) {
			if !failed {
				r.Violation(c.Idx, key, what, detail(extra))
			}
			failed = true
		}
		if len(result) > numRequested {
			report("more-than-requested", fmt.Sprintf("SelectTransactions(%d,%d) returned %d transactions (concurrent front removal)", numRequested, batch, len(result)), nil)
		}
		seen := map[string]bool{}
		bySender := make([][]string, nSenders)
		for _, w := range result {
			h := string(w.TxHash)
			if seen[h] {
				report("duplicate-selected", fmt.Sprintf("SelectTransactions(%d,%d) returned %s twice (concurrent front removal)", numRequested, batch, h), nil)
			}
			seen[h] = true
			si := txkit.SenderIndex(string(w.Tx.GetSndAddr()))
			if si < 0 || si >= nSenders {
				report("not-pooled-selected", "selected a transaction of an unknown sender (concurrent front removal)", nil)
				continue
			}
			bySender[si] = append(bySender[si], h)
		}
		var classes []string
		hazardsInCall := 0
		for s := 0; s < nSenders && !failed; s++ {
			list, sel := lists[s], bySender[s]
			if len(list) == 0 {
				if len(sel) > 0 {
					report("not-pooled-selected", fmt.Sprintf("sender s%d has no pooled transaction but %v were selected", s, sel), nil)
				}
				continue
			}
			m := before[s]
			pos := map[string]int{}
			for i, t := range list {
				pos[t.Hash] = i
			}
			ext := map[string]interface{}{
				"sender": s, "list_at_start": describeList(list), "selected": sel, "front_removed_during_call": removed[s] == 1,
				"account_nonce_known": m.known, "account_nonce": m.accNonce, "possible_failed_selections_before": setString(m.failed),
			}
			for i, h := range sel {
				p, ok := pos[h]
				if !ok {
					report("not-pooled-selected", fmt.Sprintf("sender s%d: selected %s which was not in its list %s at the start of the call", s, h, describeList(list)), ext)
					break
				}
				if i == 0 {
					if p > removed[s] {
						report("non-prefix", fmt.Sprintf("sender s%d: first selected %s is at position %d of %s; removed from the front during the call: %d", s, h, p, describeList(list), removed[s]), ext)
						break
					}
					continue
				}
				q := pos[sel[i-1]]
				if p != q+1 {
					report("non-prefix", fmt.Sprintf("sender s%d: selected %v is not a contiguous run of its list %s", s, sel, describeList(list)), ext)
					break
				}
				if list[p].Nonce > list[q].Nonce+1 {
					report("nonce-gap-selected class=concurrent-front-removal", fmt.Sprintf("sender s%d list %s: one selection returned %v, nonce %d follows nonce %d", s, describeList(list), sel, list[p].Nonce, list[q].Nonce), ext)
					break
				}
			}
			if failed {
				break
			}
			mayBeGrace := m.failed&(1<<(graceAt-1)) != 0
			cnt := len(sel)
			gapAtCopyStart := false
			if m.known && cnt > 0 {
				first := list[pos[sel[0]]]
				if first.Nonce > m.accNonce {
					// the copy started at a transaction above the account nonce: the lowest pooled nonce was above it
					gapAtCopyStart = true
					class := ""
					if removed[s] == 1 {
						class = " class=front-removed-during-first-examination"
					}
					switch {
					case cnt == 1 && mayBeGrace:
						r.Count("front_grace_period_single_tx_selected", 1)
					case mayBeGrace:
						report("grace-period-overshoot"+class, fmt.Sprintf("sender s%d (account nonce %d, list %s, front removed during the call: %v, possible failed selections before %s) contributed %d transactions starting at nonce %d", s, m.accNonce, describeList(list), removed[s] == 1, setString(m.failed), cnt, first.Nonce), ext)
					default:
						report("initial-gap-selected"+class, fmt.Sprintf("sender s%d (account nonce %d, list %s, front removed during the call: %v, possible failed selections before %s: not in its grace period) contributed %d transactions starting at nonce %d above its account nonce", s, m.accNonce, describeList(list), removed[s] == 1, setString(m.failed), cnt, first.Nonce), ext)
					}
				}
			}
			if failed {
				break
			}
			// model of the failed-selection counter: the sender was visited by the first pass iff its front was examined
			visited := ctl.examined[list[0].Hash] > 0 || cnt > 0
			gapBefore := m.known && list[0].Nonce > m.accNonce
			gapAfter := gapBefore
			if removed[s] == 1 {
				gapAfter = m.known && len(list) > 1 && list[1].Nonce > m.accNonce
			}
			if visited {
				next := uint8(0)
				for _, gap := range []bool{gapBefore, gapAfter} { // the removal is ordered after / before the sender's examination
					switch {
					case !gap:
						next |= 1
					case cnt >= 1 && gapAtCopyStart:
						next |= 1 << graceAt
					default:
						next |= bump(m.failed)
					}
				}
				models[s].failed = next
			}
			hazard := removed[s] == 1 && parkedInVerification[s] && !gapBefore && gapAfter
			if hazard {
				hazardsInCall++
				r.Count("front_removed_at_account_nonce_while_initial_gap_is_verified", 1)
				if cnt > 0 {
					r.Count("front_hazard_outcome_selected_from_account_nonce", 1)
				} else {
					r.Count("front_hazard_outcome_nothing_selected", 1)
				}
			}
			if removed[s] == 1 {
				r.Count("front_removals_during_first_examination", 1)
			}
			sb := cnt
			if sb > 3 {
				sb = 3
			}
			dup := len(list) > 1 && list[1].Nonce == list[0].Nonce
			classes = append(classes, fmt.Sprintf("k%v.gb%v.ga%v.r%d.d%v.g%v.s%d", m.known, gapBefore, gapAfter, removed[s], dup, mayBeGrace, sb))
		}
		if failed {
			return
		}
		post := syncModel() // senders swept after the call (or emptied) start afresh
		for si := range models {
			if _, here := txkit.SenderView(post, si); here && models[si].failed&^(1<<sweptAt) != 0 {
				models[si].failed &^= 1 << sweptAt
			}
		}
		if hazardsInCall == 0 {
			r.Trivial()
		} else {
			sort.Strings(classes)
			r.Shape(fmt.Sprintf("front|full%v|b%d|%s", len(result) == numRequested, batch, strings.Join(classes, "|")))
		}

		// what happens to the senders whose front was removed: the nonce notification of the "commit" arrives, the
		// transaction comes back, or the gap stays (next rounds: failed selection, grace period, sweep)
		for s := 0; s < nSenders; s++ {
			if removed[s] == 0 {
				continue
			}
			if _, here := txkit.SenderView(post, s); !here {
				continue
			}
			switch rng.Intn(3) {
			case 0:
				notify(s, lists[s][0].Nonce+1, "after the removal")
			case 1:
				add(specs[lists[s][0].Hash])
				history = append(history, fmt.Sprintf("AddTx(%s) again", lists[s][0].Hash))
			}
		}
	}
}
