// C26, free-running phase: SelectTransactions is called again and again by one goroutine (the cache does not support
// two selections at a time) while other goroutines add and remove transactions of senders they own exclusively. The
// added / removed transactions are priced so that (nearly) every operation changes the score of the sender, i.e. moves
// its list to another score chunk of the sender map, the structure a selection takes its snapshot of senders from.
// Nothing is driven here: the cache offers no harness-supplied call inside the move, so the phase relies on many
// selections against continuously moving senders (the goroutines of one cache start behind one barrier, every selection starts right after
// a mover was seen to make progress, and only a few caches are exercised at a time so that the goroutines of a cache
// really run simultaneously).
// Oracle per selection (no clock): at most numRequested transactions, no transaction twice, only transactions of the
// workload, and per sender the nonces in result order never decrease and never skip a value.
package main

import (
	"fmt"
	"runtime"
	"sync"
	"sync/atomic"

	"github.com/ElrondNetwork/elrond-go/storage/txcache"
	"verif/internal/txkit"
	"verif/internal/vk"
)

type stormSender struct {
	idx     int
	toggles []txkit.TxSpec
	pooled  []bool
}

func stormCase(r *vk.Run, c *vk.Case) {
	rng := c.Rng
	cfg := txcache.ConfigSourceMe{
		Name: "c26s", NumChunks: []uint32{1, 4, 16}[rng.Intn(3)], EvictionEnabled: false,
		NumBytesPerSenderThreshold: 1 << 20, CountPerSenderThreshold: 1000,
	}
	cache, err := txkit.NewCache(cfg)
	if err != nil {
		r.Violation(c.Idx, "constructor", fmt.Sprintf("NewTxCache: %v", err), nil)
		return
	}
	basePrices := []uint64{1, 1, 2, 3}
	togglePrices := []uint64{1, 2, 3, 10, 100}
	universe := map[string]txkit.TxSpec{}
	nMovers := rng.Range(2, 3)
	nStatic := rng.Intn(4)
	sender := 0
	movers := make([][]*stormSender, nMovers)
	var poolDesc []string
	for m := 0; m < nMovers; m++ {
		for k, n := 0, rng.Range(1, 3); k < n; k++ {
			s := &stormSender{idx: sender}
			sender++
			nonce := uint64(rng.Intn(3))
			price := basePrices[rng.Intn(len(basePrices))] * txkit.MinGasPrice
			desc := fmt.Sprintf("s%d(mover %d) base:", s.idx, m)
			for i, nb := 0, rng.Range(1, 3); i < nb; i++ { // the base transactions stay: the sender's list object stays
				spec := txkit.TxSpec{Sender: s.idx, Nonce: nonce, GasPrice: price, Size: 200}
				universe[spec.Hash()] = spec
				cache.AddTx(spec.Wrap())
				desc += fmt.Sprintf(" n%d@%d", nonce, price/txkit.MinGasPrice)
				nonce++
			}
			desc += " toggled:"
			for i, nt := 0, rng.Range(1, 3); i < nt; i++ {
				spec := txkit.TxSpec{Sender: s.idx, Nonce: nonce, GasPrice: togglePrices[rng.Intn(len(togglePrices))] * txkit.MinGasPrice, Size: 200, Variant: rng.Intn(3) * 25}
				if rng.Chance(1, 6) {
					spec.Nonce++ // behind a nonce gap
				}
				universe[spec.Hash()] = spec
				s.toggles = append(s.toggles, spec)
				s.pooled = append(s.pooled, false)
				desc += fmt.Sprintf(" n%d@%d", spec.Nonce, spec.GasPrice/txkit.MinGasPrice)
				nonce = spec.Nonce + 1
			}
			movers[m] = append(movers[m], s)
			poolDesc = append(poolDesc, desc)
		}
	}
	for i := 0; i < nStatic; i++ {
		nonce := uint64(rng.Intn(3))
		price := basePrices[rng.Intn(len(basePrices))] * txkit.MinGasPrice
		desc := fmt.Sprintf("s%d(static):", sender)
		for k, n := 0, rng.Range(1, 6); k < n; k++ {
			spec := txkit.TxSpec{Sender: sender, Nonce: nonce, GasPrice: price, Size: 200}
			universe[spec.Hash()] = spec
			cache.AddTx(spec.Wrap())
			desc += fmt.Sprintf(" n%d@%d", nonce, price/txkit.MinGasPrice)
			nonce++
		}
		poolDesc = append(poolDesc, desc)
		sender++
	}
	nSenders := sender

	selections := r.N(1000, 4000)
	numRequested := []int{10, 30, 100, 1000}[rng.Intn(4)]
	batch := []int{1, 2, 10}[rng.Intn(3)]

	var stop int32
	var ops int64
	inFlight := make([]int32, nMovers*16) // one flag per mover (own cache line): the mover is inside AddTx / RemoveTxByHash
	var start, wg sync.WaitGroup
	start.Add(1)
	for m := 0; m < nMovers; m++ {
		wg.Add(1)
		go func(own []*stormSender, rnd *vk.Rand, busy *int32) {
			defer wg.Done()
			start.Wait()
			for atomic.LoadInt32(&stop) == 0 {
				s := own[rnd.Intn(len(own))]
				k := rnd.Intn(len(s.toggles))
				atomic.StoreInt32(busy, 1)
				if s.pooled[k] {
					cache.RemoveTxByHash([]byte(s.toggles[k].Hash()))
				} else {
					cache.AddTx(s.toggles[k].Wrap())
				}
				atomic.StoreInt32(busy, 0)
				s.pooled[k] = !s.pooled[k]
				atomic.AddInt64(&ops, 1)
			}
		}(movers[m], rng.Fork(), &inFlight[m*16])
	}

	detail := func(result []string, extra map[string]interface{}) map[string]interface{} {
		d := map[string]interface{}{
			"phase": "free-running: selections while other goroutines add/remove score-changing transactions", "pool": poolDesc,
			"movers": nMovers, "num_requested": numRequested, "batch": batch, "result": result,
		}
		for k, v := range extra {
			d[k] = v
		}
		return d
	}
	start.Done()
	failed := false
	overlapped, completedInside := 0, 0
	anyInFlight := func() bool {
		for m := 0; m < nMovers; m++ {
			if atomic.LoadInt32(&inFlight[m*16]) == 1 {
				return true
			}
		}
		return false
	}
	lastNonce := make([]uint64, nSenders)
	has := make([]bool, nSenders)
	for i := 0; i < selections && !failed; i++ {
		// start the selection right after a mover has demonstrably made progress (both are on a CPU now); bounded wait
		for spin, seenOps := 0, atomic.LoadInt64(&ops); spin < 4000 && atomic.LoadInt64(&ops) == seenOps; spin++ {
			if spin%500 == 499 {
				runtime.Gosched()
			}
		}
		opsBefore := atomic.LoadInt64(&ops)
		busyBefore := anyInFlight()
		result := cache.SelectTransactions(numRequested, batch)
		busyAfter := anyInFlight()
		opsAfter := atomic.LoadInt64(&ops)
		r.Eval(1)
		if i%64 == 0 {
			runtime.Gosched()
		}
		var resDesc []string
		for _, w := range result {
			resDesc = append(resDesc, string(w.TxHash))
		}
		report := func(key, what string, extra map[string]interface{}) {
			if !failed {
				r.Violation(c.Idx, key, what, detail(resDesc, extra))
			}
			failed = true
		}
		if len(result) > numRequested {
			report("more-than-requested", fmt.Sprintf("SelectTransactions(%d,%d) returned %d transactions (concurrent adds/removes)", numRequested, batch, len(result)), nil)
		}
		seen := make(map[string]bool, len(result))
		for s := range has {
			has[s] = false
		}
		for _, w := range result {
			h := string(w.TxHash)
			if seen[h] {
				report("duplicate-selected", fmt.Sprintf("SelectTransactions(%d,%d) returned %s twice while other goroutines add/remove transactions that change their sender's score", numRequested, batch, h), map[string]interface{}{"selection_index": i})
				break
			}
			seen[h] = true
			spec, ok := universe[h]
			if !ok || txkit.SenderIndex(string(w.Tx.GetSndAddr())) != spec.Sender {
				report("not-pooled-selected", fmt.Sprintf("selected %s which the workload never added (concurrent adds/removes)", h), nil)
				break
			}
			s := spec.Sender
			if has[s] && (spec.Nonce < lastNonce[s] || spec.Nonce > lastNonce[s]+1) {
				key := "nonce-gap-selected class=concurrent-adds-removes"
				if spec.Nonce < lastNonce[s] {
					key = "nonce-order-violated class=concurrent-adds-removes"
				}
				report(key, fmt.Sprintf("sender s%d: nonce %d was selected after nonce %d in one selection", s, spec.Nonce, lastNonce[s]), nil)
				break
			}
			has[s], lastNonce[s] = true, spec.Nonce
		}
		// an add/remove was in progress when the selection started or ended, or completed in between: the two overlap
		if opsAfter != opsBefore || busyBefore || busyAfter {
			overlapped++
		}
		if opsAfter != opsBefore {
			completedInside++
		}
	}
	atomic.StoreInt32(&stop, 1)
	wg.Wait()
	r.Count("storm_selections", selections)
	r.Count("storm_selections_overlapping_mover_ops", overlapped)
	r.Count("storm_selections_with_mover_ops_completed_inside", completedInside)
	r.Count("storm_mover_ops", int(atomic.LoadInt64(&ops)))
	if failed {
		return
	}
	if overlapped == 0 {
		r.Trivial()
	} else {
		ob := 0
		for v := overlapped * 8 / selections; v > 0; v >>= 1 {
			ob++
		}
		r.Shape(fmt.Sprintf("storm|m%d|st%d|req%d|b%d|chunks%d|o%d", nMovers, nStatic, numRequested, batch, cfg.NumChunks, ob))
	}
}
