// C21 — transaction fees never exceed what the sender authorised.
// Monitor shape: invariant checks on the real economicsData (NewEconomicsData over generated accepted
// configurations, flags toggled through EpochConfirmed) for generated transactions that pass
// CheckValidityTxValues. Gas prices come from three bands (protocol 1e9..1e12, small, > 2^53); the band
// is the first part of every violation key: "band=<band> <check>".
package main

import (
	"fmt"
	"math/big"
	"strings"

	logger "github.com/ElrondNetwork/elrond-go-logger"
	"verif/internal/econ"
	"verif/internal/vk"
)

type failure struct {
	check string
	what  string
}

type txCtx struct {
	r        *vk.Run
	cfg      *econ.Cfg
	ed       econ.Handler
	bi       *econ.BuiltIn
	epoch    uint32
	pen, mod bool
	tx       *econ.Tx
	rng      *vk.Rand
	fails    []failure
	vals     map[string]interface{}
}

func (x *txCtx) fail(check, format string, args ...interface{}) {
	x.fails = append(x.fails, failure{check, fmt.Sprintf(format, args...)})
}

// gasSamples returns gas-used amounts: below, at and above the move-balance gas, up to the limit, and
// (for monotonicity only) a few above the limit.
func gasSamples(rng *vk.Rand, moveGas, limit uint64) []uint64 {
	out := []uint64{0, moveGas, limit}
	if moveGas > 0 {
		out = append(out, moveGas-1, rng.U64()%moveGas)
	}
	if limit > moveGas {
		span := limit - moveGas
		out = append(out, moveGas+1, moveGas+rng.U64()%(span+1), moveGas+rng.U64()%(span+1), limit-1)
	}
	out = append(out, limit+1, limit+uint64(rng.Intn(1000000)))
	return out
}

func (x *txCtx) run() {
	r, ed, tx := x.r, x.ed, x.tx
	h := tx.H
	limit, price := tx.GasLimit, tx.GasPrice
	x.bi.Is, x.bi.Cost = false, 0

	fee := ed.ComputeTxFee(h)
	mv := ed.ComputeMoveBalanceFee(h)
	cap := econ.Mul(limit, price)
	moveGas := ed.ComputeGasLimit(h)
	proc := ed.GasPriceForProcessing(h)
	x.vals["fee"], x.vals["moveBalanceFee"], x.vals["limit*price"] = fee.String(), mv.String(), cap.String()
	x.vals["moveGas"], x.vals["gasPriceForProcessing"] = moveGas, proc
	if proc == 0 {
		r.Count("txs_with_processing_price_zero", 1)
	}

	// O1: move-balance fee <= fee <= limit*price
	r.Eval(2)
	if fee.Cmp(mv) < 0 {
		x.fail("fee<movefee", "ComputeTxFee %s < ComputeMoveBalanceFee %s", fee, mv)
	}
	if fee.Cmp(cap) > 0 {
		x.fail("fee>limit*price", "ComputeTxFee %s > gasLimit*gasPrice %s (excess %s)", fee, cap, big.NewInt(0).Sub(fee, cap))
	}

	// O2: gas categories add up to the limit (valid transactions only, not SCRs)
	if !tx.IsSCR {
		a, b := ed.SplitTxGasInCategories(h)
		r.Eval(1)
		if a != moveGas || a+b != limit {
			x.fail("split-gas-sum", "SplitTxGasInCategories = (%d,%d), move gas %d, limit %d", a, b, moveGas, limit)
		}
	}

	// O3/O4: fee from gas used is monotone, at least the move-balance fee, and for gasUsed <= limit never
	// above the full fee (when neither flag is set ComputeTxFee is the legacy move-balance-only fee, so
	// the bound that applies is limit*price)
	gs := gasSamples(x.rng, moveGas, limit)
	type gf struct {
		g uint64
		f *big.Int
	}
	var pts []gf
	for _, g := range gs {
		pts = append(pts, gf{g, ed.ComputeTxFeeBasedOnGasUsed(h, g)})
	}
	bound, boundName := fee, "full-fee"
	if !x.pen && !x.mod {
		bound, boundName = cap, "limit*price"
	}
	for i, p := range pts {
		r.Eval(2)
		if p.f.Cmp(mv) < 0 {
			x.fail("gasused-fee<movefee", "ComputeTxFeeBasedOnGasUsed(%d)=%s < move-balance fee %s", p.g, p.f, mv)
		}
		if p.g <= limit && p.f.Cmp(bound) > 0 {
			x.fail("gasused-fee>"+boundName, "ComputeTxFeeBasedOnGasUsed(%d)=%s > %s %s (limit %d)", p.g, p.f, boundName, bound, limit)
		}
		for j, q := range pts {
			if i == j || p.g > q.g {
				continue
			}
			r.Eval(1)
			if p.f.Cmp(q.f) > 0 {
				x.fail("gasused-fee-not-monotone", "gasUsed %d -> %s but gasUsed %d -> %s", p.g, p.f, q.g, q.f)
			}
		}
	}

	if tx.IsSCR {
		return // the refund API describes the original transaction, never a smart contract result
	}

	// O5: refunds in [0, full - moveFee]: gas used <= limit and fee == full - refund
	room := big.NewInt(0).Sub(fee, mv)
	if room.Sign() >= 0 {
		refunds := []*big.Int{big.NewInt(0)}
		if room.Sign() > 0 {
			refunds = append(refunds, big.NewInt(0).Set(room), big.NewInt(1), econ.RandBelow(x.rng, room), econ.RandBelow(x.rng, room))
			refunds = append(refunds, big.NewInt(0).Sub(room, big.NewInt(1)))
			if proc > 0 { // refund of a whole number of gas units
				k := x.rng.U64() % (limit - moveGas + 1)
				rf := econ.Mul(k, proc)
				if rf.Cmp(room) <= 0 {
					refunds = append(refunds, rf)
				}
			}
			r.Count("txs_with_nonzero_refund_room", 1)
		}
		for _, rf := range refunds {
			if rf.Sign() < 0 || rf.Cmp(room) > 0 {
				continue
			}
			gu, f := ed.ComputeGasUsedAndFeeBasedOnRefundValue(h, big.NewInt(0).Set(rf))
			r.Eval(2)
			if rf.Sign() > 0 {
				r.Count("refund_nonzero_evaluations", 1)
			}
			if gu > limit {
				x.fail("refund-gasused>limit", "refund %s: gasUsed %d > gasLimit %d", rf, gu, limit)
			}
			if big.NewInt(0).Add(f, rf).Cmp(fee) != 0 {
				x.fail("refund-fee!=full-refund", "refund %s: fee %s, full fee %s", rf, f, fee)
			}
			if f.Cmp(mv) < 0 {
				x.fail("refund-fee<movefee", "refund %s: fee %s < move-balance fee %s", rf, f, mv)
			}
		}
	}

	// O6: built-in function call with refund 0 and enough gas for the built-in cost
	if limit >= moveGas {
		x.bi.Is = true
		x.bi.Cost = x.rng.U64() % (limit - moveGas + 1)
		if x.rng.Chance(1, 4) {
			x.bi.Cost = limit - moveGas
		}
		gu, f := ed.ComputeGasUsedAndFeeBasedOnRefundValue(h, big.NewInt(0))
		r.Eval(3)
		r.Count("builtin_evaluations", 1)
		if gu > limit {
			x.fail("builtin-gasused>limit", "built-in cost %d: gasUsed %d > gasLimit %d", x.bi.Cost, gu, limit)
		}
		if f.Cmp(bound) > 0 {
			x.fail("builtin-fee>"+boundName, "built-in cost %d: fee %s > %s %s", x.bi.Cost, f, boundName, bound)
		}
		if f.Cmp(mv) < 0 {
			x.fail("builtin-fee<movefee", "built-in cost %d: fee %s < move-balance fee %s", x.bi.Cost, f, mv)
		}
		// outside the domain (the built-in cost alone exceeds the provided gas: such a call fails at
		// execution): observed only, never a violation
		if x.rng.Chance(1, 8) && limit-moveGas < 1<<62 {
			x.bi.Cost = limit - moveGas + 1 + uint64(x.rng.Intn(1000))
			gu2, _ := ed.ComputeGasUsedAndFeeBasedOnRefundValue(h, big.NewInt(0))
			r.Count("observed_outside_domain_builtin_cost_over_limit", 1)
			if gu2 > limit {
				r.Count("observed_outside_domain_builtin_cost_over_limit_gasused>limit", 1)
			}
		}
		x.bi.Is, x.bi.Cost = false, 0
	}
}

func main() {
	_ = logger.SetLogLevel("*:NONE")
	r := vk.Start("C21")
	r.Rule("one case = one generated economics config (band protocol/small/>2^53 by case index; min gas price, min gas limit, gas per data byte, max gas per block, modifier classes one/0.01/fraction/tiny(1e-8..)/1-ulp/near-one/uniform/log-uniform, independent enable epochs 0..3 for the two flags) built by the real NewEconomicsData; epochs 0..3 visited in random order with EpochConfirmed; per epoch a fixed number of generated txs (gas limit = move / move+1 / max-1 / random / invalid; data 0..3300 bytes; 5% smart contract results). A tx is non-trivial when it passes CheckValidityTxValues; distinct = distinct (band, flags, modifier class, limit class, data class) tuples.")
	r.Assume(
		"config domain: minGasLimit <= 1e7, gasPerDataByte <= 1e5, data <= 3300 bytes (no uint64 overflow in ComputeGasLimit), maxGasLimitPerBlock <= ~1e12",
		"modifier domain (0,1] restricted to what the constructor accepts ([1e-8,1]); NaN is not generated",
		"gas-used fee <= full fee is checked when at least one of the two flags is set; with both flags off ComputeTxFee is the legacy move-balance-only fee and the bound checked is limit*price",
		"refunds only in [0, full fee - move-balance fee]; ComputeGasUsedAndFeeBasedOnRefundValue is not applied to smart contract results",
		"built-in call path (harness-side cost handler) only with built-in cost + move gas <= gas limit; larger costs are counted as observations",
	)
	r.MinShapes(100)
	nCases := r.N(900, 24000)
	txPerEpoch := 30

	r.Parallel(nCases, func(c *vk.Case) {
		band := []econ.Band{econ.BandProtocol, econ.BandProtocol, econ.BandSmall, econ.BandSmall, econ.BandHuge}[c.Idx%5]
		cfg := econ.GenCfg(c.Rng, band)
		bi := &econ.BuiltIn{}
		ed, err := cfg.Build(bi)
		if err != nil {
			r.Count("configs_rejected", 1)
			r.Trivial()
			if cfg.ExpectReject == "" {
				r.Count("configs_rejected_though_meant_valid", 1) // the property quantifies over accepted configs only
			}
			return
		}
		if cfg.ExpectReject != "" {
			// not part of the property (the quantifier is over accepted configs); recorded only
			r.Count("configs_accepted_though_meant_invalid:"+cfg.ExpectReject, 1)
			return
		}
		r.Count("configs_accepted", 1)
		r.Count("configs_accepted_band_"+band.String(), 1)
		for _, ep := range c.Rng.Perm(4) {
			epoch := uint32(ep)
			ed.EpochConfirmed(epoch, 0)
			pen, mod := cfg.Flags(epoch)
			r.Count("epoch_settings "+econ.FlagStr(pen, mod), 1)
			for i := 0; i < txPerEpoch; i++ {
				tx := econ.GenTx(c.Rng, cfg)
				if verr := ed.CheckValidityTxValues(tx.H); verr != nil {
					r.Trivial()
					r.Count("txs_invalid: "+verr.Error(), 1)
					continue
				}
				r.Count("txs_valid", 1)
				x := &txCtx{r: r, cfg: cfg, ed: ed, bi: bi, epoch: epoch, pen: pen, mod: mod, tx: tx, rng: c.Rng.Fork(), vals: map[string]interface{}{}}
				panicked, pv, stack := vk.Guard(x.run)
				if panicked {
					x.fail("panic:"+vk.TopFrame(stack), "panic: %v", pv)
					x.vals["stack"] = stack
				}
				r.Shape(fmt.Sprintf("%s %s mod=%s %s data=%s", band, econ.FlagStr(pen, mod), cfg.ModClass, tx.LimitClass, tx.DataClass))
				if len(x.fails) == 0 {
					if r.NeedSample() && tx.GasLimit > tx.MoveGas && mod {
						r.Sample(map[string]interface{}{"config": cfg.Map(), "epoch": epoch, "tx": tx.Map(), "observed": x.vals})
					}
					continue
				}
				seen := map[string]bool{}
				for _, f := range x.fails {
					if seen[f.check] {
						continue
					}
					seen[f.check] = true
					key := "band=" + band.String() + " " + f.check
					var all []string
					for _, g := range x.fails {
						all = append(all, g.check+": "+g.what)
					}
					r.Violation(c.Idx, key, fmt.Sprintf("%s [%s; modifier %v; tx price %d limit %d data %d]", f.what, econ.FlagStr(pen, mod), cfg.Modifier, tx.GasPrice, tx.GasLimit, tx.DataLen),
						map[string]interface{}{"config": cfg.Map(), "epoch": epoch, "flags": econ.FlagStr(pen, mod), "tx": tx.Map(), "observed": x.vals, "failed_checks": strings.Join(all, "\n")})
				}
			}
		}
	})
	r.Finish()
}
