// C13 — validator reshuffling is deterministic.
// Monitor shape: metamorphic. Every generated input is evaluated 6 times by the real shuffler: once as
// the reference (maps filled in ascending shard order) and five more times concurrently from five
// goroutines, each with a fresh shuffler instance, fresh validator objects and input maps rebuilt
// in a different insertion order / initial capacity / after unrelated insert+delete traffic (so that
// Go's randomised map iteration differs too). Oracle: deep equality of Eligible and Waiting (per shard,
// ordered) and of Leaving (ordered); an error must be the same error.
package main

import (
	"fmt"
	"sync"

	logger "github.com/ElrondNetwork/elrond-go-logger"
	sg "verif/internal/shufflegen"
	"verif/internal/vk"
)

const variants = 5

func main() {
	_ = logger.SetLogLevel("*:NONE")
	r := vk.Start("C13")
	r.Rule("same generator as C12 (1-4 shards + metachain, sizes 0-12 around the minimums, new nodes, leaving lists with eligible/waiting/unknown/new/duplicated keys, epochs around the activation epochs, both distributors, MaxNodesChangeConfig variants); each input evaluated 6x (reference + 5 concurrent re-evaluations with rebuilt maps and fresh shufflers); non-trivial = the reference call returned a result for a non-empty validator set; distinct = distinct input signatures (shards, minimums, flags, max swap, per-shard sizes, new count, leaving composition)")
	r.Assume("the order of validators inside each per-shard list, of the new list and of the leaving lists is part of the input (only the maps are rebuilt)", "MaxNodesChangeConfig lists are permuted only when their EpochEnable values are distinct")
	r.MinShapes(200)
	n := r.N(6000, 450000)

	r.Parallel(n, func(c *vk.Case) {
		in := sg.Gen(c.Rng, sg.Opts{})
		ref := in.Run(nil)
		outs := make([]*sg.Out, variants)
		orders := make([]*vk.Rand, variants)
		for i := range orders {
			orders[i] = c.Rng.Fork()
		}
		var wg sync.WaitGroup
		for i := 0; i < variants; i++ {
			wg.Add(1)
			go func(i int) {
				defer wg.Done()
				p, v, st := vk.Guard(func() {
					if i == 0 {
						outs[i] = in.Run(nil) // same construction again: only the runtime's map randomisation differs
					} else {
						outs[i] = in.Run(orders[i])
					}
				})
				if p {
					outs[i] = &sg.Out{Err: fmt.Sprintf("panic: %v at %s", v, vk.TopFrame(st))}
				}
			}(i)
		}
		wg.Wait()
		r.Count("shuffler_calls", variants+1)
		total := len(in.New)
		moving := 0
		for _, s := range in.Shards() {
			total += len(in.Eligible[s]) + len(in.Waiting[s])
		}
		if ref.Err != "" {
			r.Count("inputs_rejected_with_error", 1)
		}
		for i, o := range outs {
			r.Eval(1)
			comp, d := sg.Diff(ref, o)
			if comp != "" {
				r.Violation(c.Idx, "nondeterministic-"+comp, fmt.Sprintf("evaluation %d differs from the reference: %s", i+1, d),
					map[string]interface{}{"input": in.Dump(), "reference": ref.Dump(), "other": o.Dump(), "evaluation": i + 1})
				break
			}
		}
		if ref.Err != "" || total == 0 {
			r.Trivial()
			return
		}
		r.Shape(in.Sig())
		for _, s := range in.Shards() {
			moving += len(ref.Waiting[s])
		}
		r.Count("inputs_compared", 1)
		if in.ShuffleBetweenShards {
			r.Count("inputs_cross_shard", 1)
		}
		r.Count("validators_in_new_waiting_lists", moving)
		if r.NeedSample() && in.NbShards == 2 && len(in.New) > 0 && len(ref.Leaving) > 0 {
			r.Sample(map[string]interface{}{"input": in.Dump(), "result_all_6_evaluations": ref.Dump()})
		}
	})
	r.Finish()
}
