// C13 — validator reshuffling is deterministic.
// Monitor shape: metamorphic. Every generated input is evaluated 9 times by the real shuffler (the last 3
// on instances with a history of other epochs, see runOnVeteran): once as
// the reference (maps filled in ascending shard order) and five more times concurrently from five
// goroutines, each with a fresh shuffler instance, fresh validator objects and input maps rebuilt
// in a different insertion order / initial capacity / after unrelated insert+delete traffic (so that
// Go's randomised map iteration differs too). Oracle: deep equality of Eligible and Waiting (per shard,
// ordered) and of Leaving (ordered); an error must be the same error.
// Then 4 more evaluations with the input lists laid out differently in memory (layoutEvaluations: lists
// cut out of one shared array back to back, with gaps, capped, private spare capacity, grown by append,
// mixed), each call made twice with the same argument object: same result as the reference, and the
// caller's lists still hold what the caller put there.
// A second family of cases (coord.go) goes through the nodes coordinator: 6 fresh coordinators built from
// the same configuration process the same epoch-start blocks (leaving validators in several shards, equal
// Index values across shards, shards over their removal quota) and must report the same new-epoch
// eligible / waiting / leaving lists.
package main

import (
	"fmt"
	"sync"

	logger "github.com/ElrondNetwork/elrond-go-logger"
	"github.com/ElrondNetwork/elrond-go/sharding"
	sg "verif/internal/shufflegen"
	"verif/internal/vk"
)

const variants = 5
const veterans = 3
const layouts = 4 // evaluations with another memory layout of the input lists, each followed by a second call

// runOnVeteran evaluates the input on a shuffler instance that already processed 1-3 other calls at
// other epochs (the same validators at another epoch with another randomness, or unrelated inputs):
// mode 0 warms up at epochs at/above the highest EpochEnable (or above the input's epoch), mode 1 at
// epochs below the lowest EpochEnable (or below the input's epoch), mode 2 at random epochs.
func runOnVeteran(in *sg.Input, rng *vk.Rand, mode int) (*sg.Out, []uint32) {
	sa, _ := in.Build(nil)
	sh, err := sharding.NewHashValidatorsShuffler(sa)
	if err != nil {
		return &sg.Out{Err: "constructor: " + err.Error()}, nil
	}
	lo, hi := uint32(0), uint32(0)
	for i, c := range in.MaxNodesCfg {
		if i == 0 || c.EpochEnable < lo {
			lo = c.EpochEnable
		}
		if c.EpochEnable > hi {
			hi = c.EpochEnable
		}
	}
	if len(in.MaxNodesCfg) == 0 {
		lo, hi = in.Epoch, in.Epoch
	}
	var epochs []uint32
	for i, n := 0, 1+rng.Intn(3); i < n; i++ {
		var e uint32
		switch mode {
		case 0:
			e = hi + uint32(rng.Intn(3))
			if rng.Chance(1, 4) && len(in.MaxNodesCfg) > 0 {
				e = in.MaxNodesCfg[rng.Intn(len(in.MaxNodesCfg))].EpochEnable
			}
		case 1:
			e = uint32(rng.Intn(int(lo) + 1))
			if e > 0 && rng.Bool() {
				e--
			}
		default:
			e = uint32(rng.Intn(16))
		}
		epochs = append(epochs, e)
		src := in
		if rng.Bool() {
			src = sg.Gen(rng.Fork(), sg.Opts{})
		}
		_, wargs := src.Build(rng.Fork())
		wargs.Epoch = e
		wargs.Rand = rng.Bytes(32)
		_, _ = sh.UpdateNodeLists(wargs)
	}
	_, args := in.Build(rng.Fork())
	res, err := sh.UpdateNodeLists(args)
	return sg.Flatten(res, err), epochs
}

func main() {
	_ = logger.SetLogLevel("*:NONE")
	r := vk.Start("C13")
	r.Rule("same generator as C12 (1-4 shards + metachain, sizes 0-12 around the minimums, new nodes, leaving lists with eligible/waiting/unknown/new/duplicated keys, epochs around the activation epochs, both distributors, MaxNodesChangeConfig variants); most inputs with 1-3 MaxNodesChangeConfig entries (EpochEnable 0-12, so the first one is usually > 0); each input evaluated 9x: reference, 5 concurrent re-evaluations with rebuilt maps and fresh shufflers, and 3 on veteran shuffler instances that first processed 1-3 other calls (same validators or unrelated inputs) at epochs at/above the highest EpochEnable, below the lowest, or random; non-trivial = the reference call returned a result for a non-empty validator set; distinct = distinct input signatures (shards, minimums, flags, max swap, per-shard sizes, new count, leaving composition); plus 4 evaluations per input with another memory layout of the input lists (first always all lists as back-to-back sub-slices of one shared array; others drawn from exact / one-arena / arena-per-group / arena-gaps / arena-capped / private-spare / append / mixed), each made twice with the same argument object, with a check that the caller's lists are unchanged; plus coordinator cases: 6 fresh nodes coordinators (plain or rater, 1-3 shards + metachain) built from one configuration with maps in different insertion orders, driven through the same 1-3 epoch-start blocks whose validator-info records carry Index = position in the shard list / 0..2 / constant / 0..59 and leaving rates 0-80 %, compared after every EpochStartPrepare (non-trivial = the change was installed; distinct by shards, flags, leaving count and spread, index ties, over-quota, step)")
	r.Assume("the order of validators inside each per-shard list, of the new list and of the leaving lists is part of the input (only the maps are rebuilt)", "MaxNodesChangeConfig lists are permuted only when their EpochEnable values are distinct",
		"an input list is the validators visible through the caller's slice header: unused capacity between or behind the lists is not judged; a nil list equals an empty one",
		"coordinator cases: validator-info records are consistent with the previous configuration (a listed validator is reported with its own shard, no key twice in a body), all nodes receive byte-identical headers and bodies")
	r.MinShapes(200)
	n := r.N(6000, 450000)
	nCoord := r.N(1200, 60000)

	// cases 0..n-1 drive the shuffler directly, cases n..n+nCoord-1 go through the nodes coordinator
	r.Parallel(n+nCoord, func(c *vk.Case) {
		if c.Idx >= n {
			coordCase(r, c)
			return
		}
		in := sg.Gen(c.Rng, sg.Opts{CfgHeavy: true})
		ref := in.Run(nil)
		outs := make([]*sg.Out, variants+veterans)
		warm := make([][]uint32, variants+veterans)
		orders := make([]*vk.Rand, variants+veterans)
		for i := range orders {
			orders[i] = c.Rng.Fork()
		}
		var wg sync.WaitGroup
		for i := 0; i < variants+veterans; i++ {
			wg.Add(1)
			go func(i int) {
				defer wg.Done()
				p, v, st := vk.Guard(func() {
					if i == 0 {
						outs[i] = in.Run(nil) // same construction again: only the runtime's map randomisation differs
					} else if i >= variants {
						outs[i], warm[i] = runOnVeteran(in, orders[i], i-variants)
					} else {
						outs[i] = in.Run(orders[i])
					}
				})
				if p {
					outs[i] = &sg.Out{Err: fmt.Sprintf("panic: %v at %s", v, vk.TopFrame(st))}
				}
			}(i)
		}
		wg.Wait()
		r.Count("shuffler_calls", variants+veterans+1)
		for i := variants; i < variants+veterans; i++ {
			r.Count("warm_up_calls_on_veteran_instances", len(warm[i]))
			below, above := false, false
			for _, e := range warm[i] {
				if in.MaxSwapAt(e) != in.MaxSwap() {
					if e > in.Epoch {
						above = true
					} else {
						below = true
					}
				}
			}
			if above {
				r.Count("veterans_that_had_another_NodesToShuffle_active_at_a_higher_epoch", 1)
			}
			if below {
				r.Count("veterans_that_had_another_NodesToShuffle_active_at_a_lower_epoch", 1)
			}
		}
		total := len(in.New)
		moving := 0
		for _, s := range in.Shards() {
			total += len(in.Eligible[s]) + len(in.Waiting[s])
		}
		if ref.Err != "" {
			r.Count("inputs_rejected_with_error", 1)
		}
		for i, o := range outs {
			r.Eval(1)
			comp, d := sg.Diff(ref, o)
			if comp != "" && i >= variants {
				r.Violation(c.Idx, "nondeterministic-"+comp+" class=instance-history", fmt.Sprintf("a shuffler instance that processed epochs %v before gives another result than a fresh instance for the same arguments (epoch %d): %s", warm[i], in.Epoch, d),
					map[string]interface{}{"input": in.Dump(), "reference_fresh_instance": ref.Dump(), "veteran_instance": o.Dump(), "epochs_processed_before": warm[i]})
				break
			}
			if comp != "" {
				r.Violation(c.Idx, "nondeterministic-"+comp, fmt.Sprintf("evaluation %d differs from the reference: %s", i+1, d),
					map[string]interface{}{"input": in.Dump(), "reference": ref.Dump(), "other": o.Dump(), "evaluation": i + 1})
				break
			}
		}
		layoutEvaluations(r, c, in, ref)
		if ref.Err != "" || total == 0 {
			r.Trivial()
			return
		}
		r.Shape(in.Sig())
		for _, s := range in.Shards() {
			moving += len(ref.Waiting[s])
		}
		r.Count("inputs_compared", 1)
		if in.ShuffleBetweenShards {
			r.Count("inputs_cross_shard", 1)
		}
		r.Count("validators_in_new_waiting_lists", moving)
		if r.NeedSample() && in.NbShards == 2 && len(in.New) > 0 && len(ref.Leaving) > 0 {
			r.Sample(map[string]interface{}{"input": in.Dump(), "result_all_6_evaluations": ref.Dump()})
		}
	})
	if r.ReplayCase < 0 {
		if r.Counter("layout_evaluations_where_a_list_had_capacity_inside_a_shared_array") == 0 {
			r.Inconclusive("no evaluation with input lists cut out of a shared array")
		}
		if r.Counter("coordinator_epoch_changes_with_equal_index_leaving_in_2+_shards_and_a_shard_over_quota") == 0 {
			r.Inconclusive("no coordinator epoch change had leaving validators with equal indexes in two shards and a shard over its removal quota")
		}
	}
	r.Finish()
}

// layoutEvaluations re-evaluates the input with the per-shard lists, the new list and the leaving lists
// laid out in memory in other ways (sub-slices of one shared array lying back to back, with gaps, with
// capped capacity, private arrays with spare capacity, grown by append, nil for empty, mixed; see
// shufflegen.AllocStyles). The first layout is always "one-arena". Oracles: the result equals the
// reference (exact private arrays); after the call the caller still sees every input list (through its
// own slice headers and through the maps) holding the validators it put there; the same arguments
// handed to the same instance again give the reference result again.
func layoutEvaluations(r *vk.Run, c *vk.Case, in *sg.Input, ref *sg.Out) {
	for k := 0; k < layouts; k++ {
		style := "one-arena"
		if k > 0 {
			style = sg.AllocStyles[c.Rng.Intn(len(sg.AllocStyles))]
		}
		var order *vk.Rand
		if c.Rng.Bool() {
			order = c.Rng.Fork()
		}
		alloc := c.Rng.Fork()
		sa, args, lay := in.BuildAlloc(order, alloc, style)
		sh, err := sharding.NewHashValidatorsShuffler(sa)
		if err != nil {
			if ref.Err != "constructor: "+err.Error() {
				r.Violation(c.Idx, "nondeterministic-error class=list-allocation", fmt.Sprintf("constructor error %q vs reference %q", err.Error(), ref.Err), map[string]interface{}{"input": in.Dump()})
			}
			r.Eval(1)
			continue
		}
		r.Count("layout_evaluations_"+style, 1)
		if lay.SpareShared > 0 {
			r.Count("layout_evaluations_where_a_list_had_capacity_inside_a_shared_array", 1)
		}
		var first, second *sg.Out
		p, v, st := vk.Guard(func() {
			res, err := sh.UpdateNodeLists(args)
			first = sg.Flatten(res, err)
		})
		if p {
			first = &sg.Out{Err: fmt.Sprintf("panic: %v at %s", v, vk.TopFrame(st))}
		}
		r.Count("shuffler_calls", 1)
		detail := func(o *sg.Out) map[string]interface{} {
			return map[string]interface{}{"input": in.Dump(), "layout": lay.Dump(), "reference_private_exact_lists": ref.Dump(), "other": o.Dump()}
		}
		r.Eval(1)
		if comp, d := sg.Diff(ref, first); comp != "" {
			r.Violation(c.Idx, "nondeterministic-"+comp+" class=list-allocation", fmt.Sprintf("the same validators handed over in lists laid out as %q give another result than in private exact-size lists: %s", style, d), detail(first))
			return
		}
		r.Eval(1)
		if group, d := lay.Changed(args); group != "" {
			r.Violation(c.Idx, "input-modified-"+group, fmt.Sprintf("UpdateNodeLists changed its caller's input (layout %q): %s", style, d), detail(first))
			return
		}
		p, v, st = vk.Guard(func() {
			res, err := sh.UpdateNodeLists(args)
			second = sg.Flatten(res, err)
		})
		if p {
			second = &sg.Out{Err: fmt.Sprintf("panic: %v at %s", v, vk.TopFrame(st))}
		}
		r.Count("shuffler_calls", 1)
		r.Eval(1)
		if comp, d := sg.Diff(ref, second); comp != "" {
			r.Violation(c.Idx, "nondeterministic-"+comp+" class=same-arguments-again", fmt.Sprintf("the same argument object handed to the same instance a second time gives another result (layout %q): %s", style, d), detail(second))
			return
		}
		r.Eval(1)
		if group, d := lay.Changed(args); group != "" {
			r.Violation(c.Idx, "input-modified-"+group, fmt.Sprintf("the second UpdateNodeLists call changed its caller's input (layout %q): %s", style, d), detail(second))
			return
		}
	}
}
