package main

import (
	"fmt"
	"sort"

	"github.com/ElrondNetwork/elrond-go/core"
	"github.com/ElrondNetwork/elrond-go/sharding/mock"
	sg "verif/internal/shufflegen"
	"verif/internal/vk"
)

// Coordinator-level determinism (sharding/indexHashedNodesCoordinator.go is an anchor of C13): the
// shuffler's arguments are not built by a test but by the nodes coordinator of every node, from the
// validator-info miniblocks of the epoch-start block (computeNodesConfigFromList, ComputeAdditionalLeaving,
// createSortedListFromMap). nodes "nodes" are modelled by fresh coordinators (fresh shuffler, storer,
// validator objects, maps rebuilt in another insertion order) built from the same configuration; all of
// them receive the same epoch-start header and body for 1-3 consecutive epochs. Oracle: after every
// EpochStartPrepare all nodes report the same eligible, waiting and leaving lists (per shard, ordered)
// for the new epoch, or all refuse the change.
const nodes = 6

type nodeView struct {
	cfg     *sg.Config
	leaving map[uint32][]string
}

func readNode(co sg.Coord, epoch uint32) *nodeView {
	cfg, err := sg.ReadConfig(co, epoch)
	if err != nil {
		return nil
	}
	v := &nodeView{cfg: cfg, leaving: map[uint32][]string{}}
	lv, err := co.GetAllLeavingValidatorsPublicKeys(epoch)
	if err != nil {
		return nil
	}
	for s, l := range lv {
		for _, k := range l {
			v.leaving[s] = append(v.leaving[s], string(k))
		}
	}
	return v
}

func (v *nodeView) dump() map[string]interface{} {
	if v == nil {
		return map[string]interface{}{"refused": true}
	}
	d := v.cfg.Dump()
	lv := map[string]string{}
	for s, l := range v.leaving {
		lv[sg.ShardName(s)] = sg.HexList(l)
	}
	d["leaving"] = lv
	return d
}

func diffLists(name string, a, b map[uint32][]string) (string, string) {
	ids := map[uint32]bool{}
	for s := range a {
		ids[s] = true
	}
	for s := range b {
		ids[s] = true
	}
	var sorted []uint32
	for s := range ids {
		sorted = append(sorted, s)
	}
	sort.Slice(sorted, func(i, j int) bool { return sorted[i] < sorted[j] })
	for _, s := range sorted {
		if sg.HexList(a[s]) != sg.HexList(b[s]) {
			return name, fmt.Sprintf("%s[%s]: %s vs %s", name, sg.ShardName(s), sg.HexList(a[s]), sg.HexList(b[s]))
		}
	}
	return "", ""
}

func diffNodes(a, b *nodeView) (string, string) {
	if (a == nil) != (b == nil) {
		return "refusal", fmt.Sprintf("one node installed the new epoch, the other refused it (first refused: %v)", a == nil)
	}
	if a == nil {
		return "", ""
	}
	if c, d := diffLists("eligible", a.cfg.Eligible, b.cfg.Eligible); c != "" {
		return c, d
	}
	if c, d := diffLists("waiting", a.cfg.Waiting, b.cfg.Waiting); c != "" {
		return c, d
	}
	return diffLists("leaving", a.leaving, b.leaving)
}

// genInfos derives the validator-info records of the next epoch from the previous configuration as
// shufflegen.GenInfos does (eligible stay or leave, waiting stay or leave, new registrations, inactive /
// jailed records of validators that left, rarely a leaving record of a key never listed), but with the
// Index of the records drawn per idxMode: "position" = position in the shard's list (what a running
// chain has: equal across shards), "small" = 0..2, "constant", "wide" = 0..59.
func genInfos(cs *sg.CoordSpec, prev *sg.Config, gone []string, rng *vk.Rand, idxMode string) []sg.Info {
	var infos []sg.Info
	leaveP := []int{0, 15, 40, 60, 80}[rng.Intn(5)]
	index := func(pos int) uint32 {
		switch idxMode {
		case "position":
			return uint32(pos)
		case "small":
			return uint32(rng.Intn(3))
		case "constant":
			return 7
		}
		return uint32(rng.Intn(60))
	}
	rating := func() uint32 {
		if rng.Bool() {
			return uint32(rng.Intn(len(cs.ChanceTable)))
		}
		return uint32(rng.Intn(100))
	}
	ids := func(m map[uint32][]string) []uint32 {
		out := make([]uint32, 0, len(m))
		for s := range m {
			out = append(out, s)
		}
		sort.Slice(out, func(i, j int) bool { return out[i] < out[j] })
		return out
	}
	for _, s := range ids(prev.Eligible) {
		for i, k := range prev.Eligible[s] {
			list := string(core.EligibleList)
			if rng.Intn(100) < leaveP {
				list = string(core.LeavingList)
			}
			infos = append(infos, sg.Info{Key: k, Shard: s, List: list, Index: index(i), Rating: rating()})
		}
	}
	for _, s := range ids(prev.Waiting) {
		for i, k := range prev.Waiting[s] {
			list := string(core.WaitingList)
			if rng.Intn(100) < leaveP {
				list = string(core.LeavingList)
			}
			infos = append(infos, sg.Info{Key: k, Shard: s, List: list, Index: index(i), Rating: rating()})
		}
	}
	shards := cs.Shards()
	for i, n := 0, []int{0, 0, 1, 2, 4}[rng.Intn(5)]; i < n; i++ {
		infos = append(infos, sg.Info{Key: cs.NewKey(), Shard: shards[rng.Intn(len(shards))], List: string(core.NewList), Index: index(i), Rating: rating()})
	}
	for i, k := range gone {
		if rng.Chance(2, 3) {
			list := string(core.InactiveList)
			if rng.Bool() {
				list = string(core.JailedList)
			}
			infos = append(infos, sg.Info{Key: k, Shard: shards[rng.Intn(len(shards))], List: list, Index: index(i), Rating: rating()})
		}
	}
	if rng.Chance(1, 6) {
		infos = append(infos, sg.Info{Key: cs.NewKey(), Shard: shards[rng.Intn(len(shards))], List: string(core.LeavingList), Index: index(0), Rating: rating()})
	}
	out := make([]sg.Info, len(infos))
	for i, j := range rng.Perm(len(infos)) {
		out[i] = infos[j]
	}
	return out
}

func maxSwapAt(cs *sg.CoordSpec, epoch uint32) int {
	in := &sg.Input{NodesShard: cs.NodesShard, MaxNodesCfg: cs.MaxNodesCfg}
	return int(in.MaxSwapAt(epoch))
}

func coordCase(r *vk.Run, c *vk.Case) {
	rng := c.Rng
	spec := sg.GenCoord(rng, sg.CoordOpts{MaxShards: 3, MaxCons: 4, MaxEpoch: 2, EpochsAhead: 3})
	idxMode := []string{"position", "position", "small", "constant", "wide"}[rng.Intn(5)]
	cos := make([]sg.Coord, nodes)
	for i := range cos {
		var order *vk.Rand
		if i > 0 {
			order = rng.Fork()
		}
		co, err := spec.Build(order, &mock.NodesCoordinatorCacheMock{})
		if err != nil {
			r.Violation(c.Idx, "coordinator-constructor-error", err.Error(), map[string]interface{}{"spec": spec.Dump()})
			return
		}
		cos[i] = co
	}
	r.Count("coordinators_built", nodes)
	epoch := spec.StartEpoch
	prev, err := sg.ReadConfig(cos[0], epoch)
	if err != nil {
		panic(err)
	}
	steps := 1 + rng.Intn(3)
	goneSet := map[string]bool{}
	var history []interface{}
	for step := 1; step <= steps; step++ {
		var gone []string
		for k := range goneSet {
			gone = append(gone, k)
		}
		sort.Strings(gone)
		infos := genInfos(spec, prev, gone, rng, idxMode)
		newEpoch := epoch + 1
		prevRand := rng.Bytes(32)
		bodySeed := rng.U64()
		history = append(history, map[string]interface{}{"epoch": newEpoch, "prevRandSeed": vk.Hex(prevRand), "validatorInfos": sg.DumpInfos(infos)})

		// evidence: what this change exercises
		minChance := spec.ChanceTable[0]
		listed := map[string]bool{}
		for _, l := range prev.Eligible {
			for _, k := range l {
				listed[k] = true
			}
		}
		for _, l := range prev.Waiting {
			for _, k := range l {
				listed[k] = true
			}
		}
		leavingOf := map[uint32]int{}
		shardsOfIndex := map[uint32]map[uint32]bool{}
		nLeaving, nNew := 0, 0
		for _, inf := range infos {
			if inf.List == "new" {
				nNew++
			}
			isLeaving := inf.List == "leaving"
			if spec.Rater && inf.List != "inactive" && inf.List != "jailed" && spec.ChanceTable[int(inf.Rating)%len(spec.ChanceTable)] < minChance {
				isLeaving = true
			}
			if !isLeaving || !listed[inf.Key] {
				continue
			}
			nLeaving++
			leavingOf[inf.Shard]++
			if shardsOfIndex[inf.Index] == nil {
				shardsOfIndex[inf.Index] = map[uint32]bool{}
			}
			shardsOfIndex[inf.Index][inf.Shard] = true
		}
		ties := false
		for _, m := range shardsOfIndex {
			if len(m) >= 2 {
				ties = true
			}
		}
		overQuota := false
		swap := maxSwapAt(spec, newEpoch)
		for _, s := range spec.Shards() {
			min := int(spec.NodesShard)
			if s == sg.Meta {
				min = int(spec.NodesMeta)
			}
			quota := len(prev.Eligible[s]) + len(prev.Waiting[s]) - min
			if quota > swap {
				quota = swap
			}
			if leavingOf[s] > quota {
				overQuota = true
			}
		}

		views := make([]*nodeView, nodes)
		for i, co := range cos {
			co.EpochStartPrepare(sg.Header(newEpoch, prevRand), sg.MakeBody(infos, vk.NewRand(bodySeed)))
			views[i] = readNode(co, newEpoch)
		}
		r.Count("coordinator_epoch_start_prepare_calls", nodes)
		for i := 1; i < nodes; i++ {
			r.Eval(1)
			if comp, d := diffNodes(views[0], views[i]); comp != "" {
				r.Violation(c.Idx, "coordinator-nondeterministic-"+comp, fmt.Sprintf("two nodes built from the same configuration that process the same epoch-start block of epoch %d end with different lists: %s", newEpoch, d),
					map[string]interface{}{"spec": spec.Dump(), "history": history, "previousConfig": prev.Dump(), "node0": views[0].dump(), fmt.Sprintf("node%d", i): views[i].dump(), "indexMode": idxMode})
				return
			}
		}
		if views[0] == nil {
			r.Count("coordinator_epoch_changes_refused_by_all_nodes", 1)
			r.Trivial()
			return
		}
		r.Count("coordinator_epoch_changes_compared", 1)
		if ties && overQuota && len(leavingOf) >= 2 {
			r.Count("coordinator_epoch_changes_with_equal_index_leaving_in_2+_shards_and_a_shard_over_quota", 1)
		}
		if len(leavingOf) >= 2 {
			r.Count("coordinator_epoch_changes_with_leaving_in_2+_shards", 1)
		}
		r.Shape(fmt.Sprintf("coord n%d fix%v x%v rater%v lv%d lvShards%d ties%v over%v new%d idx=%s step%d", spec.NbShards, newEpoch >= spec.FixEpoch, spec.Cross, spec.Rater, nLeaving, len(leavingOf), ties, overQuota, nNew, idxMode, step))
		for _, co := range cos {
			co.EpochStartAction(sg.Header(newEpoch, prevRand))
		}
		now := map[string]bool{}
		for _, l := range views[0].cfg.Eligible {
			for _, k := range l {
				now[k] = true
			}
		}
		for _, l := range views[0].cfg.Waiting {
			for _, k := range l {
				now[k] = true
			}
		}
		for k := range listed {
			if !now[k] {
				goneSet[k] = true
			}
		}
		for k := range now {
			delete(goneSet, k)
		}
		prev, epoch = views[0].cfg, newEpoch
	}
}
