package main

import (
	"fmt"
	"sync"

	"github.com/ElrondNetwork/elrond-go/config"
	"github.com/ElrondNetwork/elrond-go/dataRetriever/dataPool/headersCache"
	"verif/internal/vk"
)

var hotOpNames = []string{"AddHeader", "RemoveHeaderByNonceAndShardId", "RemoveHeaderByHash", "GetNumHeaders"}

// hotCellCase: writers concentrated on one or two (shard, nonce) cells of ONE shard. Every round first
// makes sure (sequentially) that each hot cell holds at least one header, then releases 3-8 goroutines
// at once, each doing 1-3 operations out of {AddHeader of a hash of the cell, RemoveHeaderByNonceAndShardId
// of the cell, RemoveHeaderByHash of a hash of the cell, GetNumHeaders}; when all have returned the pool is
// quiescent and is read back in full (hash index <=> nonce index <=> per-shard counters). A counter read
// DURING the round must never be negative (every reachable state of the pool has counts >= 0).
func hotCellCase(r *vk.Run, c *vk.Case) {
	rng := c.Rng
	evicting := rng.Chance(1, 4)
	maxPer, rem := 100000, 1
	if evicting {
		maxPer = rng.Range(2, 5)
		rem = rng.Range(1, minInt(maxPer, 2))
	}
	pool, err := headersCache.NewHeadersPool(config.HeadersPoolConfig{MaxHeadersPerShard: maxPer, NumElementsToRemoveOnEviction: rem})
	if err != nil {
		r.Violation(c.Idx, "constructor", err.Error(), nil)
		return
	}
	shard := shardPool[rng.Intn(len(shardPool))]
	unseen := uint32(900 + rng.Intn(100))
	nNonces := rng.Range(1, 2)
	perCell := rng.Range(2, 4)
	var hashes []string
	cells := make([][]string, nNonces)
	for n := 0; n < nNonces; n++ {
		for i := 0; i < perCell; i++ {
			h := fmt.Sprintf("h-%d-%d-%d", shard, n, i)
			cells[n] = append(cells[n], h)
			hashes = append(hashes, h)
		}
	}
	goroutines := rng.Range(3, 8)
	rounds := rng.Range(4, r.N(10, 16))
	var sum [4]int
	for round := 0; round < rounds; round++ {
		for n := 0; n < nNonces; n++ { // every hot cell is populated when the round starts
			h := cells[n][rng.Intn(perCell)]
			pool.AddHeader([]byte(h), mkHeader(shard, uint64(n)))
		}
		counts := make([][4]int, goroutines)
		negative := make([]int, goroutines)
		sawNegative := make([]bool, goroutines)
		var wg sync.WaitGroup
		start := make(chan struct{})
		for g := 0; g < goroutines; g++ {
			wg.Add(1)
			grng := rng.Fork()
			go func(g int) {
				defer wg.Done()
				k := grng.Range(1, 3)
				type step struct {
					kind int
					n    uint64
					h    string
				}
				plan := make([]step, k)
				for i := range plan {
					n := grng.Intn(nNonces)
					x := grng.Intn(100)
					kind := 3
					switch {
					case x < 40:
						kind = 0
					case x < 75:
						kind = 1
					case x < 90:
						kind = 2
					}
					plan[i] = step{kind, uint64(n), cells[n][grng.Intn(perCell)]}
				}
				<-start
				for _, s := range plan {
					switch s.kind {
					case 0:
						pool.AddHeader([]byte(s.h), mkHeader(shard, s.n))
					case 1:
						pool.RemoveHeaderByNonceAndShardId(s.n, shard)
					case 2:
						pool.RemoveHeaderByHash([]byte(s.h))
					default:
						if v := pool.GetNumHeaders(shard); v < 0 && !sawNegative[g] {
							sawNegative[g] = true
							negative[g] = v
						}
					}
					counts[g][s.kind]++
				}
			}(g)
		}
		close(start)
		wg.Wait()
		total := 0
		for g := range counts {
			for k, v := range counts[g] {
				sum[k] += v
				total += v
			}
		}
		ctx := fmt.Sprintf("round %d of a hot-cell run (shard %d, %d nonces x %d hashes, %d goroutines, %d ops in the round, maxPerShard=%d)", round, shard, nNonces, perCell, goroutines, total, maxPer)
		for g := range negative {
			r.Eval(counts[g][3])
			if sawNegative[g] {
				r.Violation(c.Idx, "count-negative mode=concurrent", fmt.Sprintf("%s: GetNumHeaders(%d) returned %d while writers were running", ctx, shard, negative[g]), nil)
				return
			}
		}
		o, class, what := observe(pool, hashes, []uint32{shard, unseen}, uint64(nNonces))
		r.Eval(o.calls)
		if class != "" {
			r.Violation(c.Idx, class+" mode=concurrent-quiescent", fmt.Sprintf("after %s: %s", ctx, what), nil)
			return
		}
		r.Count("hot_rounds", 1)
	}
	for i, n := range hotOpNames {
		r.Count("hot_op_"+n, sum[i])
	}
	r.Count("hot_runs", 1)
	r.Shape(fmt.Sprintf("hot nonces=%d perCell=%d g=%d evict=%v", nNonces, perCell, goroutines, evicting))
}
