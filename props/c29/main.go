// C29 — headers pool: by-hash / by-nonce / counter indexes stay consistent; all operations race-free.
// Monitor shapes: RM (sequential reference model + index invariants after every operation, evictions
// included), HIST (porcupine over eviction-free concurrent histories, partitioned by shard), INV at the
// quiescent end of a concurrent stress, RACE (race reports inside package headersCache are violations).
package main

import (
	"fmt"
	"sort"
	"strings"
	"time"

	"github.com/ElrondNetwork/elrond-go/config"
	"github.com/ElrondNetwork/elrond-go/core"
	"github.com/ElrondNetwork/elrond-go/data"
	"github.com/ElrondNetwork/elrond-go/data/block"
	"github.com/ElrondNetwork/elrond-go/dataRetriever/dataPool/headersCache"
	"verif/internal/vk"
)

const pkgFrame = "dataRetriever/dataPool/headersCache."

type sn struct {
	shard uint32
	nonce uint64
}

func mkHeader(shard uint32, nonce uint64) data.HeaderHandler {
	if shard == core.MetachainShardId {
		return &block.MetaBlock{Nonce: nonce}
	}
	return &block.Header{ShardID: shard, Nonce: nonce}
}

// dataRetrieverPool is the read surface observe needs
type dataRetrieverPool = headersPoolIface

// observation of the whole pool through its exported API
type observation struct {
	byHash  map[string]sn
	byNonce map[sn][]string
	nonces  map[uint32][]uint64
	num     map[uint32]int
	length  int
	calls   int
}

// observe reads everything and returns the first index inconsistency found (class, text)
func observe(pool dataRetrieverPool, hashes []string, shards []uint32, maxNonce uint64) (*observation, string, string) {
	o := &observation{byHash: map[string]sn{}, byNonce: map[sn][]string{}, nonces: map[uint32][]uint64{}, num: map[uint32]int{}}
	for _, h := range hashes {
		hdr, err := pool.GetHeaderByHash([]byte(h))
		o.calls++
		if err == nil {
			if hdr == nil {
				return o, "wrong-header", fmt.Sprintf("GetHeaderByHash(%s) returned nil header and nil error", h)
			}
			o.byHash[h] = sn{hdr.GetShardID(), hdr.GetNonce()}
		}
	}
	listed := map[string]sn{}
	for _, s := range shards {
		ns := pool.Nonces(s)
		o.calls++
		seen := map[uint64]bool{}
		for _, n := range ns {
			if seen[n] {
				return o, "nonces-mismatch", fmt.Sprintf("Nonces(%d) lists nonce %d twice: %v", s, n, ns)
			}
			seen[n] = true
		}
		sorted := append([]uint64{}, ns...)
		sort.Slice(sorted, func(i, j int) bool { return sorted[i] < sorted[j] })
		o.nonces[s] = sorted
		for n := uint64(0); n <= maxNonce; n++ {
			hdrs, hs, err := pool.GetHeadersByNonceAndShardId(n, s)
			o.calls++
			if err != nil {
				if seen[n] {
					return o, "nonces-mismatch", fmt.Sprintf("Nonces(%d) lists nonce %d but GetHeadersByNonceAndShardId fails: %v", s, n, err)
				}
				continue
			}
			if !seen[n] {
				return o, "nonces-mismatch", fmt.Sprintf("shard %d nonce %d has headers but Nonces() = %v", s, n, ns)
			}
			if len(hdrs) != len(hs) || len(hs) == 0 {
				return o, "wrong-header", fmt.Sprintf("GetHeadersByNonceAndShardId(%d,%d): %d headers, %d hashes", n, s, len(hdrs), len(hs))
			}
			for i, hh := range hs {
				if hdrs[i] == nil || hdrs[i].GetNonce() != n || hdrs[i].GetShardID() != s {
					return o, "wrong-header", fmt.Sprintf("header listed under shard %d nonce %d (hash %s) carries other coordinates", s, n, hh)
				}
				if prev, dup := listed[string(hh)]; dup {
					return o, "index-mismatch hash-listed-twice", fmt.Sprintf("hash %s listed under %v and under {%d %d}", hh, prev, s, n)
				}
				listed[string(hh)] = sn{s, n}
				o.byNonce[sn{s, n}] = append(o.byNonce[sn{s, n}], string(hh))
			}
		}
		for n := range seen {
			if n > maxNonce {
				return o, "nonces-mismatch", fmt.Sprintf("Nonces(%d) lists nonce %d that was never added", s, n)
			}
		}
		o.num[s] = pool.GetNumHeaders(s)
		o.calls++
	}
	o.length = pool.Len()
	o.calls++
	// hash index <=> nonce index
	for h, at := range listed {
		got, ok := o.byHash[h]
		if !ok {
			return o, "index-mismatch listed-not-by-hash", fmt.Sprintf("hash %s is listed under shard %d nonce %d but GetHeaderByHash does not find it", h, at.shard, at.nonce)
		}
		if got != at {
			return o, "index-mismatch coordinates", fmt.Sprintf("hash %s: by hash %v, listed under %v", h, got, at)
		}
	}
	perShard := map[uint32]int{}
	for h, at := range o.byHash {
		if _, ok := listed[h]; !ok {
			return o, "index-mismatch hash-not-listed", fmt.Sprintf("hash %s found by hash (shard %d nonce %d) but not listed under that shard and nonce", h, at.shard, at.nonce)
		}
		perShard[at.shard]++
	}
	total := 0
	for _, s := range shards {
		if o.num[s] != perShard[s] {
			return o, "count-mismatch GetNumHeaders", fmt.Sprintf("GetNumHeaders(%d) = %d but %d headers are stored for that shard", s, o.num[s], perShard[s])
		}
		total += perShard[s]
	}
	if o.length != total {
		return o, "count-mismatch Len", fmt.Sprintf("Len() = %d but %d headers are stored", o.length, total)
	}
	return o, "", ""
}

// ------------------------------------------------------------------------------------------------
// reference model (exact while no eviction can happen)

type refModel struct {
	info  map[string]sn
	lists map[sn][]string
}

func newRef() *refModel { return &refModel{info: map[string]sn{}, lists: map[sn][]string{}} }

func (m *refModel) count(s uint32) int {
	c := 0
	for _, at := range m.info {
		if at.shard == s {
			c++
		}
	}
	return c
}

func (m *refModel) add(h string, at sn) bool {
	if _, ok := m.info[h]; ok {
		return false
	}
	m.info[h] = at
	m.lists[at] = append(m.lists[at], h)
	return true
}

func (m *refModel) removeHash(h string) {
	at, ok := m.info[h]
	if !ok {
		return
	}
	delete(m.info, h)
	l := m.lists[at]
	var nl []string
	for _, x := range l {
		if x != h {
			nl = append(nl, x)
		}
	}
	if len(nl) == 0 {
		delete(m.lists, at)
	} else {
		m.lists[at] = nl
	}
}

func (m *refModel) removeNonce(at sn) {
	for _, h := range m.lists[at] {
		delete(m.info, h)
	}
	delete(m.lists, at)
}

func (m *refModel) adoptShard(s uint32, o *observation) {
	for h, at := range m.info {
		if at.shard == s {
			delete(m.info, h)
		}
	}
	for at := range m.lists {
		if at.shard == s {
			delete(m.lists, at)
		}
	}
	for at, l := range o.byNonce {
		if at.shard != s {
			continue
		}
		m.lists[at] = append([]string{}, l...)
		for _, h := range l {
			m.info[h] = at
		}
	}
}

// diff compares the observation with the model (optionally skipping one shard)
func (m *refModel) diff(o *observation, skip *uint32) string {
	for h, at := range m.info {
		if skip != nil && at.shard == *skip {
			continue
		}
		got, ok := o.byHash[h]
		if !ok {
			return fmt.Sprintf("reference holds hash %s at shard %d nonce %d, the pool does not find it", h, at.shard, at.nonce)
		}
		if got != at {
			return fmt.Sprintf("hash %s: reference %v, pool %v", h, at, got)
		}
	}
	for h, at := range o.byHash {
		if skip != nil && at.shard == *skip {
			continue
		}
		if _, ok := m.info[h]; !ok {
			return fmt.Sprintf("pool finds hash %s at shard %d nonce %d, the reference does not hold it", h, at.shard, at.nonce)
		}
	}
	for at, l := range m.lists {
		if skip != nil && at.shard == *skip {
			continue
		}
		if strings.Join(l, ",") != strings.Join(o.byNonce[at], ",") {
			return fmt.Sprintf("shard %d nonce %d: reference lists [%s], pool lists [%s]", at.shard, at.nonce, strings.Join(l, ","), strings.Join(o.byNonce[at], ","))
		}
	}
	return ""
}

var shardPool = []uint32{0, 1, 2, 3, core.MetachainShardId}

const maxNonce = 6

func sequentialCase(r *vk.Run, c *vk.Case) {
	rng := c.Rng
	p := rng.Perm(len(shardPool))
	shards := []uint32{shardPool[p[0]], shardPool[p[1]], shardPool[p[2]]}
	var maxPer int
	switch rng.Intn(4) {
	case 0:
		maxPer = rng.Range(1, 3)
	case 1, 2:
		maxPer = rng.Range(4, 12)
	default:
		maxPer = rng.Range(13, 30)
	}
	rem := rng.Range(1, minInt(maxPer, 4))
	pool, err := headersCache.NewHeadersPool(config.HeadersPoolConfig{MaxHeadersPerShard: maxPer, NumElementsToRemoveOnEviction: rem})
	if err != nil {
		r.Violation(c.Idx, "constructor", fmt.Sprintf("NewHeadersPool(%d,%d): %v", maxPer, rem, err), nil)
		return
	}
	pool.RegisterHandler(func(data.HeaderHandler, []byte) {})
	// universe of hashes: 2-3 per (shard, nonce) + a few hashes that are offered under changing coordinates
	var hashes []string
	perSN := rng.Range(2, 3)
	for _, s := range shards {
		for n := 0; n <= maxNonce; n++ {
			for i := 0; i < perSN; i++ {
				hashes = append(hashes, fmt.Sprintf("h-%d-%d-%d", s, n, i))
			}
		}
	}
	roaming := []string{"x-0", "x-1", "x-2"}
	hashes = append(hashes, roaming...)
	coordsOf := func(h string) (sn, bool) {
		var s uint32
		var n uint64
		var i int
		if _, err := fmt.Sscanf(h, "h-%d-%d-%d", &s, &n, &i); err == nil {
			return sn{s, n}, true
		}
		return sn{}, false
	}

	m := newRef()
	steps := rng.Range(40, r.N(140, 260))
	var trace []string
	kinds := map[string]int{}
	evictions, resyncs := 0, 0
	fail := func(key, what string) {
		r.Violation(c.Idx, key, fmt.Sprintf("maxPerShard=%d evict=%d step=%d: %s", maxPer, rem, len(trace), what),
			map[string]interface{}{"maxHeadersPerShard": maxPer, "numToRemove": rem, "shards": shards, "ops": trace})
	}
	for step := 0; step < steps; step++ {
		h := hashes[rng.Intn(len(hashes))]
		at, fixed := coordsOf(h)
		if !fixed || rng.Chance(1, 25) { // roaming hash, or a fixed hash offered under other coordinates
			at = sn{shards[rng.Intn(3)], uint64(rng.Intn(maxNonce + 1))}
		}
		op := rng.Intn(100)
		var evictShard *uint32
		var before int
		kind := ""
		switch {
		case op < 52:
			kind = "AddHeader"
			trace = append(trace, fmt.Sprintf("AddHeader(%s, shard %d nonce %d)", h, at.shard, at.nonce))
			if m.count(at.shard) >= maxPer {
				s := at.shard
				evictShard = &s
				before = m.count(s)
			}
			pool.AddHeader([]byte(h), mkHeader(at.shard, at.nonce))
			if evictShard == nil {
				m.add(h, at)
			}
		case op < 64:
			kind = "RemoveHeaderByHash"
			trace = append(trace, fmt.Sprintf("RemoveHeaderByHash(%s)", h))
			pool.RemoveHeaderByHash([]byte(h))
			m.removeHash(h)
		case op < 74:
			kind = "RemoveHeaderByNonceAndShardId"
			trace = append(trace, fmt.Sprintf("RemoveHeaderByNonceAndShardId(%d, %d)", at.nonce, at.shard))
			pool.RemoveHeaderByNonceAndShardId(at.nonce, at.shard)
			m.removeNonce(at)
		case op < 82:
			kind = "GetHeaderByHash"
			trace = append(trace, fmt.Sprintf("GetHeaderByHash(%s)", h))
			hdr, err := pool.GetHeaderByHash([]byte(h))
			want, has := m.info[h]
			r.Eval(1)
			if has != (err == nil) || (has && (hdr.GetNonce() != want.nonce || hdr.GetShardID() != want.shard)) {
				fail("model-mismatch GetHeaderByHash", fmt.Sprintf("GetHeaderByHash(%s): err=%v, reference holds it: %v %v", h, err, has, want))
				return
			}
		case op < 89:
			kind = "GetHeadersByNonceAndShardId"
			trace = append(trace, fmt.Sprintf("GetHeadersByNonceAndShardId(%d, %d)", at.nonce, at.shard))
			_, hs, err := pool.GetHeadersByNonceAndShardId(at.nonce, at.shard)
			var got []string
			for _, x := range hs {
				got = append(got, string(x))
			}
			want := m.lists[at]
			r.Eval(1)
			if (err == nil) != (len(want) > 0) || strings.Join(got, ",") != strings.Join(want, ",") {
				fail("model-mismatch GetHeadersByNonceAndShardId", fmt.Sprintf("got [%s] err=%v, reference [%s]", strings.Join(got, ","), err, strings.Join(want, ",")))
				return
			}
		case op < 93:
			kind = "unseen-shard-lookups"
			u := uint32(100 + rng.Intn(1000))
			trace = append(trace, fmt.Sprintf("Nonces(%d); GetNumHeaders(%d); GetHeadersByNonceAndShardId(0,%d)", u, u, u))
			ns := pool.Nonces(u)
			nh := pool.GetNumHeaders(u)
			_, _, err := pool.GetHeadersByNonceAndShardId(0, u)
			r.Eval(1)
			if len(ns) != 0 || nh != 0 || err == nil {
				fail("model-mismatch unseen-shard", fmt.Sprintf("shard %d was never added: Nonces=%v GetNumHeaders=%d GetHeaders err=%v", u, ns, nh, err))
				return
			}
		case op < 96:
			kind = "invalid-add"
			trace = append(trace, "AddHeader(nil header) / AddHeader(empty hash) / RemoveHeaderByHash(empty)")
			pool.AddHeader([]byte(h), nil)
			var typedNil *block.Header
			pool.AddHeader([]byte(h), typedNil)
			pool.AddHeader([]byte{}, mkHeader(at.shard, at.nonce))
			pool.AddHeader(nil, mkHeader(at.shard, at.nonce))
			pool.RemoveHeaderByHash(nil)
		case op < 98:
			kind = "MaxSize"
			trace = append(trace, "MaxSize()")
			r.Eval(1)
			if pool.MaxSize() != maxPer {
				fail("model-mismatch MaxSize", fmt.Sprintf("MaxSize()=%d", pool.MaxSize()))
				return
			}
		default:
			kind = "Clear"
			trace = append(trace, "Clear()")
			pool.Clear()
			m = newRef()
		}
		kinds[kind]++

		o, class, what := observe(pool, hashes, shards, maxNonce)
		r.Eval(o.calls)
		if class != "" {
			fail(class, "after "+trace[len(trace)-1]+": "+what)
			return
		}
		if evictShard == nil {
			if d := m.diff(o, nil); d != "" {
				fail("model-mismatch "+kind, "after "+trace[len(trace)-1]+": "+d)
				return
			}
			continue
		}
		// the add may have evicted whole nonces of that shard: other shards are untouched, nothing
		// appears from nowhere, the offered hash is stored afterwards; then the model is re-synchronised
		resyncs++
		s := *evictShard
		if d := m.diff(o, &s); d != "" {
			fail("model-mismatch eviction-touched-other-shard", "after "+trace[len(trace)-1]+": "+d)
			return
		}
		for hh, got := range o.byHash {
			if got.shard != s {
				continue
			}
			old, had := m.info[hh]
			if had && old == got {
				continue
			}
			if hh == h && got == at {
				continue
			}
			fail("model-mismatch eviction-invented-header", fmt.Sprintf("after %s: pool holds %s at %v, reference had %v (held=%v)", trace[len(trace)-1], hh, got, old, had))
			return
		}
		if _, ok := o.byHash[h]; !ok {
			fail("model-mismatch added-header-missing", fmt.Sprintf("after %s the pool does not find %s", trace[len(trace)-1], h))
			return
		}
		_ = before
		for hh, old := range m.info {
			if _, still := o.byHash[hh]; old.shard == s && !still {
				evictions++
				break
			}
		}
		r.Max("headers_in_shard_minus_limit_after_add", int64(o.num[s]-maxPer))
		m.adoptShard(s, o)
	}
	for k, v := range kinds {
		r.Count("seq_op_"+k, v)
	}
	r.Count("seq_evicting_adds", evictions)
	r.Count("seq_adds_at_capacity", resyncs)
	r.Shape(fmt.Sprintf("seq max=%d rem=%d perSN=%d evict=%s clear=%v meta=%v", maxPer, rem, perSN, bucket(evictions), kinds["Clear"] > 0, hasMeta(shards)))
	if c.Idx < 2 && r.NeedSample() {
		n := minInt(len(trace), 14)
		r.Sample(map[string]interface{}{"mode": "sequential", "maxHeadersPerShard": maxPer, "numToRemove": rem, "shards": shards, "first_ops": trace[:n], "evicting_adds": evictions})
	}
}

func hasMeta(s []uint32) bool {
	for _, x := range s {
		if x == core.MetachainShardId {
			return true
		}
	}
	return false
}

func bucket(n int) string {
	switch {
	case n == 0:
		return "0"
	case n <= 3:
		return "1-3"
	case n <= 15:
		return "4-15"
	default:
		return ">15"
	}
}

func minInt(a, b int) int {
	if a < b {
		return a
	}
	return b
}

func main() {
	r := vk.Start("C29")
	r.Rule("sequential: 3 shards out of {0,1,2,3,META} x nonces 0..6 x 2-3 hashes per (shard,nonce) + 3 roaming hashes offered under changing coordinates; MaxHeadersPerShard 1..30, NumElementsToRemoveOnEviction 1..4; 40..140/260 ops (AddHeader 52%, RemoveHeaderByHash, RemoveHeaderByNonceAndShardId, GetHeaderByHash, GetHeadersByNonceAndShardId, lookups on never-added shard ids, nil/empty arguments, MaxSize, Clear); after EVERY op the whole pool is read back (by hash, by shard+nonce, Nonces, GetNumHeaders, Len), the index invariants are checked and the content is compared with a reference model (exact while below capacity; an add at capacity may evict whole nonces of that shard only, then the reference adopts the observed shard). shape = (limits, hashes per nonce, evictions bucket, Clear seen, META used). concurrent/history: 4-8 clients, eviction-free pool, all calls stamped by one atomic counter, porcupine partitioned by shard. concurrent/stress: 8-16 goroutines, all API methods incl. Nonces/GetNumHeaders on shard ids never added, small limits (evictions), two op mixes (balanced / read-lock heavy), invariants re-checked at the quiescent end. concurrent/hot-cell: one shard, 1-2 nonces x 2-4 hashes, eviction-free or limit 2..5; 4..10/16 rounds, each round re-populates every cell, then releases 3-8 goroutines at once doing 1-3 ops of {AddHeader, RemoveHeaderByNonceAndShardId, RemoveHeaderByHash, GetNumHeaders} on those cells; a count read during the round is never negative, the whole pool is read back and the index invariants checked at the quiescent end of every round; race reports inside package headersCache are violations")
	r.Assume("eviction order (timestamps) is not modelled: after an add at capacity the reference adopts the observed content of that shard after checking it is a sub-set of the previous content plus the new header", "a bound on the number of headers per shard is not part of the property: recorded in maxima only", "race detector (-race) and porcupine v1.3.0 are trusted", "a runtime fatal error (concurrent map writes) kills the process: check.sh reports it as a violation")
	r.MinShapes(40)

	nSeq := r.N(600, 5000)
	nHist := r.N(400, 3000)
	nGentle := r.N(64, 300)
	nStress := r.N(32, 200)
	nHot := r.N(400, 3000)
	base := nSeq + nHist + nGentle
	t0 := time.Now()
	r.Parallel(base, func(c *vk.Case) {
		switch {
		case c.Idx < nSeq:
			sequentialCase(r, c)
		case c.Idx < nSeq+nHist:
			historyCase(r, c)
		case c.Idx < base:
			gentleCase(r, c)
		}
	})

	reported := map[string]bool{}
	var other []vk.RaceReport
	inPkg := 0
	collect := func(caseIdx int) {
		other = nil
		for _, rr := range vk.CollectRaces() {
			hit := false
			for _, fn := range rr.Funcs {
				if strings.HasPrefix(fn, pkgFrame) {
					hit = true
				}
			}
			if !hit {
				other = append(other, rr)
				continue
			}
			if reported[rr.Key] {
				continue
			}
			reported[rr.Key] = true
			inPkg++
			r.Violation(caseIdx, "data-race "+rr.Key,
				fmt.Sprintf("race detector: %s (%d reports)", rr.Key, rr.Count),
				map[string]interface{}{"frames": rr.Funcs, "count": rr.Count, "first_report": rr.First})
		}
	}
	collect(nSeq + nHist)
	r.Extra("phase1_seconds", time.Since(t0).Seconds())
	t1 := time.Now()
	if inPkg > 0 && r.ReplayCase < 0 {
		// unsynchronised map writes were already seen: the heavy stress would most probably end in a
		// runtime fatal error (concurrent map writes) and take the keyed report with it
		r.Extra("heavy_stress", "skipped: the gentle phase already produced race reports inside headersCache")
	} else {
		r.ParallelW(base+nStress, 4, func(c *vk.Case) {
			if c.Idx >= base && c.Idx < base+nStress {
				stressCase(r, c)
			}
		})
		collect(base)
		r.Parallel(base+nStress+nHot, func(c *vk.Case) {
			if c.Idx >= base+nStress {
				hotCellCase(r, c)
			}
		})
		collect(base + nStress)
		r.Extra("heavy_stress", "run")
		r.Extra("phase2_seconds", time.Since(t1).Seconds())
	}
	r.Extra("race_reports_in_headersCache", inPkg)
	r.Extra("race_detector_active", raceEnabled)
	if len(other) > 0 {
		r.Extra("race_reports_elsewhere", other)
		r.Inconclusive(fmt.Sprintf("race report outside package headersCache: %s", other[0].Key))
	}
	if !raceEnabled && r.ReplayCase < 0 {
		r.Inconclusive("binary built without -race: the race-freedom half was not observed")
	}
	r.Finish()
}
