package main

import (
	"fmt"
	"runtime"
	"sort"
	"strconv"
	"strings"
	"sync"
	"sync/atomic"
	"time"

	"github.com/ElrondNetwork/elrond-go/config"
	"github.com/ElrondNetwork/elrond-go/core"
	"github.com/ElrondNetwork/elrond-go/data"
	"github.com/ElrondNetwork/elrond-go/dataRetriever/dataPool/headersCache"
	"github.com/anishathalye/porcupine"
	"verif/internal/vk"
)

// ------------------------------------------------------------------------------------------------
// eviction-free concurrent histories -> porcupine, partitioned by shard

const (
	opAdd = iota
	opRemoveHash
	opRemoveNonce
	opGetHash
	opGetNonce
	opNonces
	opNum
)

var opNames = []string{"AddHeader", "RemoveHeaderByHash", "RemoveHeaderByNonceAndShardId", "GetHeaderByHash", "GetHeadersByNonceAndShardId", "Nonces", "GetNumHeaders"}

type hIn struct {
	op    int
	shard uint32
	hash  string
	nonce uint64
}

// per-shard state: "nonce:h1,h2|nonce:h3" with nonces ascending, hashes in insertion order
func decodeState(s string) map[uint64][]string {
	m := map[uint64][]string{}
	if s == "" {
		return m
	}
	for _, part := range strings.Split(s, "|") {
		i := strings.IndexByte(part, ':')
		n, _ := strconv.ParseUint(part[:i], 10, 64)
		m[n] = strings.Split(part[i+1:], ",")
	}
	return m
}

func encodeState(m map[uint64][]string) string {
	var ns []uint64
	for n, l := range m {
		if len(l) > 0 {
			ns = append(ns, n)
		}
	}
	sort.Slice(ns, func(i, j int) bool { return ns[i] < ns[j] })
	var parts []string
	for _, n := range ns {
		parts = append(parts, fmt.Sprintf("%d:%s", n, strings.Join(m[n], ",")))
	}
	return strings.Join(parts, "|")
}

func poolStep(st, input, output interface{}) (bool, interface{}) {
	in := input.(hIn)
	s := st.(string)
	m := decodeState(s)
	find := func(h string) (uint64, bool) {
		for n, l := range m {
			for _, x := range l {
				if x == h {
					return n, true
				}
			}
		}
		return 0, false
	}
	switch in.op {
	case opAdd:
		if _, ok := find(in.hash); ok {
			return true, s
		}
		m[in.nonce] = append(append([]string{}, m[in.nonce]...), in.hash)
		return true, encodeState(m)
	case opRemoveHash:
		n, ok := find(in.hash)
		if !ok {
			return true, s
		}
		var nl []string
		for _, x := range m[n] {
			if x != in.hash {
				nl = append(nl, x)
			}
		}
		m[n] = nl
		return true, encodeState(m)
	case opRemoveNonce:
		delete(m, in.nonce)
		return true, encodeState(m)
	case opGetHash:
		n, ok := find(in.hash)
		want := "-"
		if ok {
			want = strconv.FormatUint(n, 10)
		}
		return output.(string) == want, s
	case opGetNonce:
		want := "-"
		if len(m[in.nonce]) > 0 {
			want = strings.Join(m[in.nonce], ",")
		}
		return output.(string) == want, s
	case opNonces:
		var ns []string
		var keys []uint64
		for n, l := range m {
			if len(l) > 0 {
				keys = append(keys, n)
			}
		}
		sort.Slice(keys, func(i, j int) bool { return keys[i] < keys[j] })
		for _, n := range keys {
			ns = append(ns, strconv.FormatUint(n, 10))
		}
		return output.(string) == strings.Join(ns, ","), s
	case opNum:
		c := 0
		for _, l := range m {
			c += len(l)
		}
		return output.(string) == strconv.Itoa(c), s
	}
	return false, s
}

var poolModel = porcupine.Model{
	Partition: func(h []porcupine.Operation) [][]porcupine.Operation {
		m := map[uint32][]porcupine.Operation{}
		var ks []uint32
		for _, o := range h {
			k := o.Input.(hIn).shard
			if _, ok := m[k]; !ok {
				ks = append(ks, k)
			}
			m[k] = append(m[k], o)
		}
		sort.Slice(ks, func(i, j int) bool { return ks[i] < ks[j] })
		out := make([][]porcupine.Operation, 0, len(ks))
		for _, k := range ks {
			out = append(out, m[k])
		}
		return out
	},
	Init:  func() interface{} { return "" },
	Step:  poolStep,
	Equal: func(a, b interface{}) bool { return a.(string) == b.(string) },
}

func describeOp(o porcupine.Operation) string {
	in := o.Input.(hIn)
	out := ""
	if o.Output != nil {
		out = " -> " + o.Output.(string)
	}
	return fmt.Sprintf("[%d,%d] g%d %s(shard %d hash %q nonce %d)%s", o.Call, o.Return, o.ClientId, opNames[in.op], in.shard, in.hash, in.nonce, out)
}

func historyCase(r *vk.Run, c *vk.Case) {
	rng := c.Rng
	pool, err := headersCache.NewHeadersPool(config.HeadersPoolConfig{MaxHeadersPerShard: 100000, NumElementsToRemoveOnEviction: 1})
	if err != nil {
		r.Violation(c.Idx, "constructor", err.Error(), nil)
		return
	}
	nShards := rng.Range(1, 3)
	p := rng.Perm(len(shardPool))
	var shards []uint32
	for i := 0; i < nShards; i++ {
		shards = append(shards, shardPool[p[i]])
	}
	unseen := []uint32{uint32(500 + rng.Intn(100)), uint32(700 + rng.Intn(100))}
	nHashes := rng.Range(2, 5)
	nNonces := rng.Range(1, 3)
	clients := rng.Range(3, 8)
	opsPer := rng.Range(4, r.N(12, 16))
	var clock int64
	var mu sync.Mutex
	var hist []porcupine.Operation
	var wg sync.WaitGroup
	start := make(chan struct{})
	for g := 0; g < clients; g++ {
		wg.Add(1)
		grng := rng.Fork()
		go func(g int) {
			defer wg.Done()
			local := make([]porcupine.Operation, 0, opsPer)
			<-start
			for i := 0; i < opsPer; i++ {
				in := hIn{shard: shards[grng.Intn(len(shards))], nonce: uint64(grng.Intn(nNonces))}
				in.hash = fmt.Sprintf("h-%d-%d", in.shard, grng.Intn(nHashes))
				x := grng.Intn(100)
				switch {
				case x < 38:
					in.op = opAdd
				case x < 48:
					in.op = opRemoveHash
				case x < 56:
					in.op = opRemoveNonce
				case x < 68:
					in.op = opGetHash
				case x < 78:
					in.op = opGetNonce
				case x < 90:
					in.op = opNonces
				default:
					in.op = opNum
				}
				if in.op >= opGetNonce && grng.Chance(1, 4) { // lookups on a shard id that is never added
					in.shard = unseen[grng.Intn(len(unseen))]
				}
				var out interface{}
				hashArg := []byte(in.hash)
				call := atomic.AddInt64(&clock, 1)
				switch in.op {
				case opAdd:
					pool.AddHeader(hashArg, mkHeader(in.shard, in.nonce))
				case opRemoveHash:
					pool.RemoveHeaderByHash(hashArg)
				case opRemoveNonce:
					pool.RemoveHeaderByNonceAndShardId(in.nonce, in.shard)
				case opGetHash:
					hdr, err := pool.GetHeaderByHash(hashArg)
					if err != nil {
						out = "-"
					} else {
						out = strconv.FormatUint(hdr.GetNonce(), 10)
					}
				case opGetNonce:
					_, hs, err := pool.GetHeadersByNonceAndShardId(in.nonce, in.shard)
					if err != nil {
						out = "-"
					} else {
						var l []string
						for _, h := range hs {
							l = append(l, string(h))
						}
						out = strings.Join(l, ",")
					}
				case opNonces:
					ns := pool.Nonces(in.shard)
					sort.Slice(ns, func(i, j int) bool { return ns[i] < ns[j] })
					var l []string
					for _, n := range ns {
						l = append(l, strconv.FormatUint(n, 10))
					}
					out = strings.Join(l, ",")
				case opNum:
					out = strconv.Itoa(pool.GetNumHeaders(in.shard))
				}
				ret := atomic.AddInt64(&clock, 1)
				local = append(local, porcupine.Operation{ClientId: g, Input: in, Call: call, Output: out, Return: ret})
				if grng.Chance(1, 3) {
					runtime.Gosched()
				}
			}
			mu.Lock()
			hist = append(hist, local...)
			mu.Unlock()
		}(g)
	}
	close(start)
	wg.Wait()

	res := porcupine.CheckOperationsTimeout(poolModel, hist, 120*time.Second)
	r.Eval(len(hist))
	r.Count("hist_histories", 1)
	r.Count("hist_ops", len(hist))
	if res == porcupine.Unknown {
		r.Inconclusive("porcupine timeout on a headers-pool history")
		return
	}
	sort.Slice(hist, func(i, j int) bool { return hist[i].Call < hist[j].Call })
	if res == porcupine.Illegal {
		var d []string
		for _, o := range hist {
			d = append(d, describeOp(o))
		}
		r.Violation(c.Idx, "not-linearizable", fmt.Sprintf("history of %d ops by %d clients over shards %v is not linearizable w.r.t. the per-shard reference pool", len(hist), clients, shards),
			map[string]interface{}{"history": d})
		return
	}
	// quiescent end: indexes consistent
	var hashes []string
	for _, s := range shards {
		for i := 0; i < nHashes; i++ {
			hashes = append(hashes, fmt.Sprintf("h-%d-%d", s, i))
		}
	}
	o, class, what := observe(pool, hashes, append(append([]uint32{}, shards...), unseen...), uint64(nNonces))
	r.Eval(o.calls)
	if class != "" {
		r.Violation(c.Idx, class+" mode=concurrent-quiescent", what, nil)
		return
	}
	overlap := 0
	for i := 1; i < len(hist); i++ {
		if hist[i].Call < hist[i-1].Return {
			overlap++
		}
	}
	r.Count("hist_overlapping_calls", overlap)
	r.Shape(fmt.Sprintf("hist shards=%d hashes=%d nonces=%d clients=%d ops=%d", nShards, nHashes, nNonces, clients, opsPer))
	if r.NeedSample() && rng.Chance(1, 50) {
		var d []string
		for _, op := range hist[:minInt(10, len(hist))] {
			d = append(d, describeOp(op))
		}
		r.Sample(map[string]interface{}{"mode": "concurrent-history", "clients": clients, "ops": len(hist), "first_ops": d})
	}
}

// ------------------------------------------------------------------------------------------------
// race-detector phases. No harness-side synchronisation (atomics, channels) inside the loops: it would
// create happens-before edges that hide races of the pool.

var stressShards = []uint32{0, 1, core.MetachainShardId}

func stressHashes() []string {
	var hashes []string
	for _, s := range stressShards {
		for n := 0; n <= maxNonce; n++ {
			for i := 0; i < 2; i++ {
				hashes = append(hashes, fmt.Sprintf("h-%d-%d-%d", s, n, i))
			}
		}
	}
	return hashes
}

func parseHash(h string) (uint32, uint64) {
	var s uint32
	var n uint64
	var k int
	_, _ = fmt.Sscanf(h, "h-%d-%d-%d", &s, &n, &k)
	return s, n
}

var stressOpNames = []string{"AddHeader", "RemoveHeaderByHash", "RemoveHeaderByNonceAndShardId", "GetHeaderByHash", "GetHeadersByNonceAndShardId", "unseen-shard-lookups", "Nonces", "GetNumHeaders", "Len", "MaxSize", "RegisterHandler", "Clear"}

// doOp performs one pool operation of the given kind; fresh is a shard id nobody ever added
func doOp(pool headersPoolIface, kind int, h string, fresh uint32, sub int) {
	s, n := parseHash(h)
	switch kind {
	case 0:
		pool.AddHeader([]byte(h), mkHeader(s, n))
	case 1:
		pool.RemoveHeaderByHash([]byte(h))
	case 2:
		pool.RemoveHeaderByNonceAndShardId(n, s)
	case 3:
		_, _ = pool.GetHeaderByHash([]byte(h))
	case 4:
		_, _, _ = pool.GetHeadersByNonceAndShardId(n, s)
	case 5:
		switch sub % 3 {
		case 0:
			_ = pool.Nonces(fresh)
		case 1:
			_ = pool.GetNumHeaders(fresh)
		default:
			_, _, _ = pool.GetHeadersByNonceAndShardId(n, fresh)
		}
	case 6:
		_ = pool.Nonces(s)
	case 7:
		_ = pool.GetNumHeaders(s)
	case 8:
		_ = pool.Len()
	case 9:
		_ = pool.MaxSize()
	case 10:
		pool.RegisterHandler(func(data.HeaderHandler, []byte) {})
	default:
		pool.Clear()
	}
}

// headersPoolIface is the exported surface of the pool used by the stress
type headersPoolIface interface {
	AddHeader(headerHash []byte, header data.HeaderHandler)
	RemoveHeaderByHash(headerHash []byte)
	RemoveHeaderByNonceAndShardId(hdrNonce uint64, shardId uint32)
	GetHeadersByNonceAndShardId(hdrNonce uint64, shardId uint32) ([]data.HeaderHandler, [][]byte, error)
	GetHeaderByHash(hash []byte) (data.HeaderHandler, error)
	GetNumHeaders(shardId uint32) int
	Clear()
	RegisterHandler(handler func(headerHandler data.HeaderHandler, headerHash []byte))
	Nonces(shardId uint32) []uint64
	Len() int
	MaxSize() int
}

// runMix lets `goroutines` goroutines run `opsPer` operations drawn from a cumulative weight table
func runMix(pool headersPoolIface, rng *vk.Rand, goroutines, opsPer int, weights [12]int, hashes []string, freshBase uint32) [12]int {
	total := 0
	for _, w := range weights {
		total += w
	}
	counts := make([][12]int, goroutines)
	var wg sync.WaitGroup
	start := make(chan struct{})
	for g := 0; g < goroutines; g++ {
		wg.Add(1)
		grng := rng.Fork()
		go func(g int) {
			defer wg.Done()
			fresh := freshBase + uint32(g)*100000
			<-start
			for i := 0; i < opsPer; i++ {
				x := grng.Intn(total)
				kind := 0
				for ; kind < 12; kind++ {
					if x < weights[kind] {
						break
					}
					x -= weights[kind]
				}
				h := hashes[grng.Intn(len(hashes))]
				f := fresh
				if kind == 5 {
					if grng.Chance(2, 3) {
						fresh++
						f = fresh
					} else {
						f = freshBase + uint32(grng.Intn(goroutines))*100000 + 1 // somebody else's id
					}
				}
				doOp(pool, kind, h, f, i)
				counts[g][kind]++
			}
		}(g)
	}
	close(start)
	wg.Wait()
	var sum [12]int
	for _, c := range counts {
		for k, v := range c {
			sum[k] += v
		}
	}
	return sum
}

func newStressPool(r *vk.Run, c *vk.Case) (headersPoolIface, int, int, bool) {
	maxPer := c.Rng.Range(2, 9)
	rem := c.Rng.Range(1, minInt(maxPer, 3))
	pool, err := headersCache.NewHeadersPool(config.HeadersPoolConfig{MaxHeadersPerShard: maxPer, NumElementsToRemoveOnEviction: rem})
	if err != nil {
		r.Violation(c.Idx, "constructor", err.Error(), nil)
		return nil, 0, 0, false
	}
	return pool, maxPer, rem, true
}

func finishStress(r *vk.Run, c *vk.Case, pool headersPoolIface, label string, sum [12]int, maxPer, goroutines int, hashes []string) (*observation, bool) {
	total := 0
	for i, n := range stressOpNames {
		r.Count(label+"_op_"+n, sum[i])
		total += sum[i]
	}
	o, class, what := observe(pool, hashes, stressShards, maxNonce)
	r.Eval(o.calls)
	if class != "" {
		r.Violation(c.Idx, class+" mode=concurrent-quiescent", fmt.Sprintf("after a %s run of %d ops by %d goroutines (maxPerShard=%d): %s", label, total, goroutines, maxPer, what), nil)
		return o, false
	}
	r.Count(label+"_runs", 1)
	return o, true
}

// gentleCase: few goroutines, (a) only operations the pool runs under its read lock, incl. lookups on
// shard ids never added; (b) by-hash / by-nonce lookups mixed with the read-lock operations, no writers.
// Without writer-lock operations in between nothing orders two readers, so an unsynchronised write
// inside a read-side method is reported even when the two calls are far apart in time.
func gentleCase(r *vk.Run, c *vk.Case) {
	rng := c.Rng
	pool, maxPer, rem, ok := newStressPool(r, c)
	if !ok {
		return
	}
	hashes := stressHashes()
	for i := 0; i < 30; i++ { // pre-populate sequentially
		h := hashes[rng.Intn(len(hashes))]
		s, n := parseHash(h)
		pool.AddHeader([]byte(h), mkHeader(s, n))
	}
	goroutines := rng.Range(2, 4)
	//                 add rmH rmN getH getN unseen Nonces Num Len Max Reg Clear
	a := runMix(pool, rng, goroutines, rng.Range(10, 30), [12]int{0, 0, 0, 0, 0, 10, 30, 30, 20, 10, 0, 0}, hashes, 1000)
	b := runMix(pool, rng, goroutines, rng.Range(10, 30), [12]int{0, 0, 0, 30, 20, 5, 20, 15, 10, 0, 0, 0}, hashes, 5000000)
	var sum [12]int
	for i := range sum {
		sum[i] = a[i] + b[i]
	}
	if _, ok := finishStress(r, c, pool, "gentle", sum, maxPer, goroutines, hashes); !ok {
		return
	}
	r.Shape(fmt.Sprintf("gentle max=%d rem=%d g=%d", maxPer, rem, goroutines))
}

// stressCase: 8-16 goroutines, every API method, evictions, two mixes
func stressCase(r *vk.Run, c *vk.Case) {
	rng := c.Rng
	pool, maxPer, rem, ok := newStressPool(r, c)
	if !ok {
		return
	}
	hashes := stressHashes()
	readHeavy := rng.Chance(1, 2)
	goroutines := rng.Range(8, 16)
	opsPer := rng.Range(100, r.N(400, 800))
	var handlerCalls int64
	pool.RegisterHandler(func(data.HeaderHandler, []byte) { atomic.AddInt64(&handlerCalls, 1) })
	//                    add rmH rmN getH getN unseen Nonces Num Len Max Reg Clear
	weights := [12]int{40, 10, 7, 10, 7, 6, 6, 5, 5, 2, 1, 1}
	if readHeavy {
		weights = [12]int{6, 2, 0, 20, 0, 30, 17, 13, 12, 0, 0, 0}
	}
	sum := runMix(pool, rng, goroutines, opsPer, weights, hashes, 1000)
	o, ok := finishStress(r, c, pool, "stress", sum, maxPer, goroutines, hashes)
	if !ok {
		return
	}
	r.Shape(fmt.Sprintf("stress max=%d rem=%d g=%d readHeavy=%v", maxPer, rem, goroutines, readHeavy))
	if r.NeedSample() && rng.Chance(1, 8) {
		total := 0
		for _, v := range sum {
			total += v
		}
		r.Sample(map[string]interface{}{"mode": "concurrent-stress", "goroutines": goroutines, "ops": total, "maxHeadersPerShard": maxPer, "read_lock_heavy": readHeavy, "headers_left": o.length})
	}
}

var _ = vk.Hex
var _ = runtime.Gosched
