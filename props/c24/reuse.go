package main

// Reused-buffer phase of C24: ONE transaction object and ONE long-lived address converter are used for a whole
// sequence of GetDataForSigning calls, and between the calls the caller overwrites the transaction's buffers IN
// PLACE (address bytes, data, chain id, user names, the big.Int value) instead of allocating new ones — the way a
// wallet/API layer that recycles a request object, or a sender that is also the receiver (RcvAddr and SndAddr
// sharing one slice), uses the code. After every step the signing bytes must be those of the CURRENT field values:
//   - the 12 fields recovered from the bytes equal the model (O1),
//   - the bytes equal the bytes produced for the same field values held in fresh memory with a fresh converter (O2,
//     "identical for identical field values"),
//   - the bytes differ from those of the previous step when a field changed (O2).
// The converter itself is also called directly on a recycled scratch buffer (Encode must be a function of the bytes
// it is given: Decode(Encode(b)) == b at the time of the call).

import (
	"bytes"
	"fmt"
	"math/big"

	"github.com/ElrondNetwork/elrond-go/core/pubkeyConverter"
	"github.com/ElrondNetwork/elrond-go/marshal"
	"verif/internal/vk"
)

func overwrite(rng *vk.Rand, dst []byte) {
	if len(dst) == 0 {
		return
	}
	switch rng.Intn(3) {
	case 0: // a completely different content
		copy(dst, rng.Bytes(len(dst)))
	case 1: // one bit
		dst[rng.Intn(len(dst))] ^= 1 << uint(rng.Intn(8))
	default: // the tail only
		k := rng.Intn(len(dst))
		copy(dst[k:], rng.Bytes(len(dst)-k))
	}
}

func runReuse(r *vk.Run, c *vk.Case, signMarsh marshal.Marshalizer) {
	rng := c.Rng
	conv, err := pubkeyConverter.NewBech32PubkeyConverter(32)
	if err != nil {
		r.Inconclusive("converter: " + err.Error())
		return
	}
	m, _ := genModel(rng, 32, false, "")
	shared := rng.Bool()
	if shared {
		m.Rcv = cp(m.Snd)
	}
	tx := m.toTx(nil) // owns its memory; from here on only overwritten in place
	if shared {
		tx.RcvAddr = tx.SndAddr // self-addressed transaction: one buffer for both
	}
	scratch := make([]byte, 32)
	layout := "separate-address-buffers"
	if shared {
		layout = "sender-and-receiver-share-one-buffer"
	}
	var prev []byte
	var prevModel txModel
	steps := 4 + rng.Intn(6)
	var history []string
	for step := 0; step < steps; step++ {
		field := "initial"
		if step > 0 {
			switch rng.Intn(9) {
			case 0:
				field = "sender"
				overwrite(rng, tx.SndAddr)
				m.Snd = cp(tx.SndAddr)
				if shared {
					field = "sender+receiver"
					m.Rcv = cp(tx.SndAddr)
				}
			case 1:
				field = "receiver"
				overwrite(rng, tx.RcvAddr)
				m.Rcv = cp(tx.RcvAddr)
				if shared {
					field = "sender+receiver"
					m.Snd = cp(tx.RcvAddr)
				}
			case 2:
				field = "value"
				tx.Value.Add(tx.Value, big.NewInt(int64(1+rng.Intn(1000))))
				m.Value = new(big.Int).Set(tx.Value)
			case 3:
				if len(tx.Data) == 0 {
					continue
				}
				field = "data"
				overwrite(rng, tx.Data)
				m.Data = cp(tx.Data)
			case 4:
				if len(tx.ChainID) == 0 {
					continue
				}
				// replace one ASCII byte by an ASCII letter (the chain id stays valid UTF-8)
				pos := -1
				for off, k := rng.Intn(len(tx.ChainID)), 0; k < len(tx.ChainID); k++ {
					if p := (off + k) % len(tx.ChainID); tx.ChainID[p] < 0x80 {
						pos = p
						break
					}
				}
				if pos < 0 {
					continue
				}
				field = "chainID"
				tx.ChainID[pos] = "QRSTUVW"[rng.Intn(7)]
				m.ChainID = cp(tx.ChainID)
			case 5:
				if len(tx.SndUserName) == 0 {
					continue
				}
				field = "senderUsername"
				overwrite(rng, tx.SndUserName)
				m.SndUser = cp(tx.SndUserName)
			case 6:
				if len(tx.RcvUserName) == 0 {
					continue
				}
				field = "receiverUsername"
				overwrite(rng, tx.RcvUserName)
				m.RcvUser = cp(tx.RcvUserName)
			case 7:
				field = "nonce+gas"
				tx.Nonce++
				tx.GasLimit ^= 1 << uint(rng.Intn(64))
				m.Nonce, m.GasLimit = tx.Nonce, tx.GasLimit
			default:
				// another user of the same converter in between: a recycled scratch buffer, twice
				field = "none (converter used on a scratch buffer in between)"
				for k := 0; k < 2; k++ {
					copy(scratch, rng.Bytes(32))
					want := cp(scratch)
					s := conv.Encode(scratch)
					back, derr := conv.Decode(s)
					r.Eval(1)
					r.Count("reuse.direct_encode_calls", 1)
					if derr != nil || !bytes.Equal(back, want) {
						r.Violation(c.Idx, "converter-encode-stale-for-overwritten-buffer", fmt.Sprintf("Encode of a recycled buffer holding %x returned %q, which decodes to %x (%v)", want, s, back, derr),
							map[string]interface{}{"buffer": vk.Hex(want), "encoded": s, "decoded": vk.Hex(back), "call": k, "history": append([]string(nil), history...)})
					}
				}
			}
		}
		history = append(history, field)
		got, gerr := tx.GetDataForSigning(conv, signMarsh)
		got = cp(got)
		r.Eval(1)
		r.Count("reuse.steps", 1)
		if gerr != nil {
			r.Violation(c.Idx, "signing-error", fmt.Sprintf("GetDataForSigning on a reused transaction object: %v", gerr), m.dump())
			return
		}
		freshConv, err := pubkeyConverter.NewBech32PubkeyConverter(32)
		if err != nil {
			r.Inconclusive("converter: " + err.Error())
			return
		}
		ref, rerr := m.toTx(nil).GetDataForSigning(freshConv, signMarsh)
		detail := map[string]interface{}{"layout": layout, "step": step, "changed_in_place": field, "history": append([]string(nil), history...), "tx_now": m.dump(),
			"signing_bytes": string(got), "bytes_for_same_values_in_fresh_memory": string(ref)}
		if rerr != nil {
			r.Violation(c.Idx, "signing-error", fmt.Sprintf("GetDataForSigning (fresh copy): %v", rerr), m.dump())
			return
		}
		stale := false
		if rec, bad := recoverFields(freshConv, got); bad != "" {
			stale = true
			r.Violation(c.Idx, "reused-object field-not-recoverable field="+bad, fmt.Sprintf("reused transaction object, %s, after in-place change of %s: field %s cannot be recovered from %s", layout, field, bad, got), detail)
		} else if d := firstDifference(rec, m); d != "" {
			stale = true
			detail["recovered"] = rec.dump()
			r.Violation(c.Idx, "reused-object signing-bytes-do-not-follow-field field="+d, fmt.Sprintf("reused transaction object, %s, after in-place change of %s: the signing bytes carry another %s than the transaction", layout, field, d), detail)
		}
		if !stale && !bytes.Equal(got, ref) {
			r.Violation(c.Idx, "reused-object equal-fields-different-bytes", fmt.Sprintf("reused transaction object (%s): same field values sign %s, in fresh memory %s", layout, got, ref), detail)
		}
		if step > 0 && !stale && !m.same(prevModel) && bytes.Equal(got, prev) {
			r.Violation(c.Idx, "reused-object mutation-not-reflected", fmt.Sprintf("reused transaction object (%s): %s changed in place but the signing bytes did not", layout, field), detail)
		}
		prev, prevModel = got, m.clone()
	}
	r.Count("reuse.cases."+layout, 1)
	r.Shape(fmt.Sprintf("reuse %s steps=%d", layout, len(history)))
}
