// C24 — a transaction signature covers every semantic field.
// Three oracles on the real code:
//
//	O1 (round trip => injective): the bytes of Transaction.GetDataForSigning are parsed as generic JSON by
//	   the harness and all 12 semantic fields are recovered and compared with the transaction.
//	O2 (metamorphic): a transaction that differs in one field (or by a swap of two fields) signs different
//	   bytes; equal field values (nil vs empty slices, other allocations, another signature) sign equal bytes.
//	O3 (end to end): real ed25519 keys and signer, real InterceptedTransaction: a correctly signed
//	   transaction passes CheckValidity; with any field changed and the signature kept it fails. The same for
//	   the user transaction inside relayed v1 / v2 transactions whose outer transaction is re-signed by the
//	   relayer. All receptions of a case go through ONE real whitelist of verified transactions (as on a
//	   node, where a second peer or the API delivers the same bytes again); every mutated transaction is
//	   received two or three times, before and after the genuine one, and must be rejected every time.
package main

import (
	"bytes"
	"encoding/base64"
	"encoding/hex"
	"encoding/json"
	"errors"
	"fmt"
	"io"
	"math"
	"math/big"
	"strconv"
	"strings"
	"unicode/utf8"

	logger "github.com/ElrondNetwork/elrond-go-logger"
	"github.com/ElrondNetwork/elrond-go/core"
	"github.com/ElrondNetwork/elrond-go/core/pubkeyConverter"
	"github.com/ElrondNetwork/elrond-go/core/versioning"
	"github.com/ElrondNetwork/elrond-go/crypto"
	"github.com/ElrondNetwork/elrond-go/crypto/signing"
	"github.com/ElrondNetwork/elrond-go/crypto/signing/ed25519"
	"github.com/ElrondNetwork/elrond-go/crypto/signing/ed25519/singlesig"
	"github.com/ElrondNetwork/elrond-go/data/transaction"
	"github.com/ElrondNetwork/elrond-go/hashing/blake2b"
	"github.com/ElrondNetwork/elrond-go/hashing/keccak"
	"github.com/ElrondNetwork/elrond-go/marshal"
	"github.com/ElrondNetwork/elrond-go/process"
	"github.com/ElrondNetwork/elrond-go/process/interceptors"
	"github.com/ElrondNetwork/elrond-go/process/mock"
	"github.com/ElrondNetwork/elrond-go/process/smartContract"
	processTx "github.com/ElrondNetwork/elrond-go/process/transaction"
	"github.com/ElrondNetwork/elrond-go/sharding"
	"github.com/ElrondNetwork/elrond-go/storage/storageUnit"
	"verif/internal/vk"
)

// txModel is the harness-owned record of the 12 semantic fields
type txModel struct {
	Nonce    uint64
	Value    *big.Int
	Rcv      []byte
	Snd      []byte
	SndUser  []byte
	RcvUser  []byte
	GasPrice uint64
	GasLimit uint64
	Data     []byte
	ChainID  []byte
	Version  uint32
	Options  uint32
}

func cp(b []byte) []byte {
	if b == nil {
		return nil
	}
	return append([]byte{}, b...)
}

func (m txModel) clone() txModel {
	c := m
	c.Value = new(big.Int).Set(m.Value)
	c.Rcv, c.Snd, c.SndUser, c.RcvUser, c.Data, c.ChainID = cp(m.Rcv), cp(m.Snd), cp(m.SndUser), cp(m.RcvUser), cp(m.Data), cp(m.ChainID)
	return c
}

// toTx builds a fresh Transaction that shares no memory with the model
func (m txModel) toTx(sig []byte) *transaction.Transaction {
	c := m.clone()
	return &transaction.Transaction{Nonce: c.Nonce, Value: c.Value, RcvAddr: c.Rcv, SndAddr: c.Snd, SndUserName: c.SndUser, RcvUserName: c.RcvUser,
		GasPrice: c.GasPrice, GasLimit: c.GasLimit, Data: c.Data, ChainID: c.ChainID, Version: c.Version, Options: c.Options, Signature: cp(sig)}
}

func (m txModel) same(o txModel) bool {
	return m.Nonce == o.Nonce && m.Value.Cmp(o.Value) == 0 && bytes.Equal(m.Rcv, o.Rcv) && bytes.Equal(m.Snd, o.Snd) && bytes.Equal(m.SndUser, o.SndUser) &&
		bytes.Equal(m.RcvUser, o.RcvUser) && m.GasPrice == o.GasPrice && m.GasLimit == o.GasLimit && bytes.Equal(m.Data, o.Data) && bytes.Equal(m.ChainID, o.ChainID) &&
		m.Version == o.Version && m.Options == o.Options
}

func (m txModel) dump() map[string]interface{} {
	return map[string]interface{}{"nonce": m.Nonce, "value": m.Value.String(), "receiver": vk.Hex(m.Rcv), "sender": vk.Hex(m.Snd), "senderUsername": vk.Hex(m.SndUser),
		"receiverUsername": vk.Hex(m.RcvUser), "gasPrice": m.GasPrice, "gasLimit": m.GasLimit, "data": vk.Hex(m.Data), "dataIsNil": m.Data == nil, "chainID": string(m.ChainID), "version": m.Version, "options": m.Options}
}

// ---------------------------------------------------------------------------------------
// generators

var chainIDs = []string{"1", "T", "D", "local-testnet", "é\"\\<>&", "10", "chain id", "中文", " x", "a\tb"}

func genU64(rng *vk.Rand) (uint64, byte) {
	switch rng.Intn(7) {
	case 0:
		return 0, '0'
	case 1:
		return []uint64{1, 9, 10, 1<<53 - 1, 1 << 53, 1<<53 + 1, 1<<63 - 1, 1 << 63, math.MaxUint64 - 1, math.MaxUint64}[rng.Intn(10)], 'b'
	case 2:
		return uint64(rng.Intn(100000)), 's'
	default:
		return rng.U64() >> uint(rng.Intn(64)), 'r'
	}
}

func genValue(rng *vk.Rand, allowNegative bool) (*big.Int, byte) {
	switch rng.Intn(7) {
	case 0:
		return big.NewInt(0), '0'
	case 1:
		return big.NewInt(int64(1 + rng.Intn(1000))), 's'
	case 2:
		if allowNegative {
			x := new(big.Int).SetBytes(rng.Bytes(1 + rng.Intn(10)))
			return x.Neg(x), '-'
		}
		return new(big.Int).Exp(big.NewInt(10), big.NewInt(int64(rng.Intn(30))), nil), 'p'
	case 3:
		return new(big.Int).Exp(big.NewInt(10), big.NewInt(int64(rng.Intn(30))), nil), 'p'
	default:
		return new(big.Int).SetBytes(rng.Bytes(1 + rng.Intn(26))), 'r'
	}
}

func genOptBytes(rng *vk.Rand, maxLen int) ([]byte, byte) {
	switch rng.Intn(5) {
	case 0:
		return nil, 'n'
	case 1:
		return []byte{}, 'e'
	case 2:
		t := []byte(fmt.Sprintf("fn%d@%x@%x", rng.Intn(100), rng.Bytes(1+rng.Intn(4)), rng.Bytes(rng.Intn(5))))
		return t[:minInt(maxLen, len(t))], 't'
	default:
		return rng.Bytes(1 + rng.Intn(maxLen)), 'r'
	}
}

func minInt(a, b int) int {
	if a < b {
		return a
	}
	return b
}

// genModel draws a transaction; e2e restricts it to what CheckValidity's integrity part accepts
func genModel(rng *vk.Rand, addrLen int, e2e bool, chainID string) (txModel, string) {
	var sig strings.Builder
	m := txModel{}
	var c byte
	m.Nonce, c = genU64(rng)
	sig.WriteByte(c)
	m.Value, c = genValue(rng, !e2e)
	sig.WriteByte(c)
	m.Rcv = rng.Bytes(addrLen)
	m.Snd = rng.Bytes(addrLen)
	switch rng.Intn(6) {
	case 0:
		m.Rcv = make([]byte, addrLen)
		sig.WriteByte('z')
	case 1:
		m.Rcv = cp(m.Snd)
		sig.WriteByte('=')
	default:
		sig.WriteByte('r')
	}
	m.SndUser, c = genOptBytes(rng, 32)
	sig.WriteByte(c)
	m.RcvUser, c = genOptBytes(rng, 32)
	sig.WriteByte(c)
	m.GasPrice, c = genU64(rng)
	sig.WriteByte(c)
	m.GasLimit, c = genU64(rng)
	sig.WriteByte(c)
	m.Data, c = genOptBytes(rng, 100)
	sig.WriteByte(c)
	if e2e {
		m.ChainID = []byte(chainID)
		m.Version = uint32(1 + rng.Intn(3))
		if m.Version > 1 {
			m.Options = uint32(rng.Intn(4))
		}
	} else {
		m.ChainID = []byte(chainIDs[rng.Intn(len(chainIDs))])
		if rng.Chance(1, 10) {
			m.ChainID = []byte{}
		}
		switch rng.Intn(4) {
		case 0:
			m.Version = uint32(rng.U64())
		default:
			m.Version = uint32(rng.Intn(4))
		}
		switch rng.Intn(4) {
		case 0:
			m.Options = uint32(rng.U64())
		default:
			m.Options = uint32(rng.Intn(4))
		}
	}
	sig.WriteString(fmt.Sprintf("c%d v%d o%d", len(m.ChainID), minInt(int(m.Version), 4), minInt(int(m.Options), 4)))
	return m, sig.String()
}

type mutation struct {
	field string
	m     txModel
}

func flipBit(rng *vk.Rand, b []byte) []byte {
	o := cp(b)
	o[rng.Intn(len(o))] ^= 1 << uint(rng.Intn(8))
	return o
}

// mutations returns transactions that differ from m in one semantic field, or by a swap of two fields
func mutations(rng *vk.Rand, m txModel) []mutation {
	var out []mutation
	add := func(field string, f func(x *txModel)) {
		x := m.clone()
		f(&x)
		if !x.same(m) {
			out = append(out, mutation{field, x})
		}
	}
	add("nonce", func(x *txModel) { x.Nonce++ })
	add("nonce", func(x *txModel) { x.Nonce ^= 1 << uint(rng.Intn(64)) })
	add("value", func(x *txModel) { x.Value.Add(x.Value, big.NewInt(1)) })
	add("value", func(x *txModel) { x.Value.Mul(x.Value, big.NewInt(10)) })
	if m.Value.Sign() > 0 {
		add("value", func(x *txModel) { x.Value.Sub(x.Value, big.NewInt(1)) })
	}
	add("receiver", func(x *txModel) { x.Rcv = flipBit(rng, x.Rcv) })
	add("sender", func(x *txModel) { x.Snd = flipBit(rng, x.Snd) })
	add("senderUsername", func(x *txModel) { x.SndUser = append(cp(x.SndUser), 'x') })
	add("receiverUsername", func(x *txModel) { x.RcvUser = append(cp(x.RcvUser), 'x') })
	if len(m.SndUser) > 0 {
		add("senderUsername", func(x *txModel) { x.SndUser = flipBit(rng, x.SndUser) })
		add("senderUsername", func(x *txModel) { x.SndUser = x.SndUser[:len(x.SndUser)-1] })
	}
	if len(m.RcvUser) > 0 {
		add("receiverUsername", func(x *txModel) { x.RcvUser = flipBit(rng, x.RcvUser) })
		add("receiverUsername", func(x *txModel) { x.RcvUser = x.RcvUser[:len(x.RcvUser)-1] })
	}
	add("gasPrice", func(x *txModel) { x.GasPrice++ })
	add("gasPrice", func(x *txModel) { x.GasPrice ^= 1 << uint(rng.Intn(64)) })
	add("gasLimit", func(x *txModel) { x.GasLimit++ })
	add("gasLimit", func(x *txModel) { x.GasLimit ^= 1 << uint(rng.Intn(64)) })
	add("data", func(x *txModel) { x.Data = append(cp(x.Data), 0) })
	if len(m.Data) > 0 {
		add("data", func(x *txModel) { x.Data = flipBit(rng, x.Data) })
		add("data", func(x *txModel) { x.Data = x.Data[:len(x.Data)-1] })
	}
	add("chainID", func(x *txModel) { x.ChainID = append(cp(x.ChainID), "x0 "[rng.Intn(3)]) })
	if len(m.ChainID) > 0 && m.ChainID[0] < 0x80 {
		add("chainID", func(x *txModel) {
			x.ChainID = cp(x.ChainID)
			if x.ChainID[0] == 'Q' {
				x.ChainID[0] = 'R'
			} else {
				x.ChainID[0] = 'Q'
			}
		})
	}
	add("version", func(x *txModel) { x.Version++ })
	add("version", func(x *txModel) { x.Version ^= 1 << uint(rng.Intn(32)) })
	add("options", func(x *txModel) { x.Options++ })
	add("options", func(x *txModel) { x.Options ^= 2 })
	// swaps of two fields of the same kind: the multiset of values stays, the assignment changes
	add("swap:sender/receiver", func(x *txModel) { x.Snd, x.Rcv = x.Rcv, x.Snd })
	add("swap:gasPrice/gasLimit", func(x *txModel) { x.GasPrice, x.GasLimit = x.GasLimit, x.GasPrice })
	add("swap:nonce/gasLimit", func(x *txModel) { x.Nonce, x.GasLimit = x.GasLimit, x.Nonce })
	add("swap:senderUsername/receiverUsername", func(x *txModel) { x.SndUser, x.RcvUser = x.RcvUser, x.SndUser })
	add("swap:version/options", func(x *txModel) { x.Version, x.Options = x.Options, x.Version })
	if len(m.Data) <= 32 {
		add("swap:data/receiverUsername", func(x *txModel) { x.Data, x.RcvUser = x.RcvUser, x.Data })
	}
	return out
}

// ---------------------------------------------------------------------------------------
// O1: recover the fields from the signing bytes

func recoverFields(conv core.PubkeyConverter, b []byte) (txModel, string) {
	var m txModel
	dec := json.NewDecoder(bytes.NewReader(b))
	dec.UseNumber()
	var mp map[string]interface{}
	if err := dec.Decode(&mp); err != nil {
		return m, "not-json"
	}
	if _, err := dec.Token(); err != io.EOF {
		return m, "trailing-data"
	}
	num := func(key string, bits int, optional bool) (uint64, string) {
		v, ok := mp[key]
		if !ok {
			if optional {
				return 0, ""
			}
			return 0, key
		}
		n, ok := v.(json.Number)
		if !ok {
			return 0, key
		}
		u, err := strconv.ParseUint(n.String(), 10, bits)
		if err != nil {
			return 0, key
		}
		return u, ""
	}
	str := func(key string, optional bool) (string, string) {
		v, ok := mp[key]
		if !ok {
			if optional {
				return "", ""
			}
			return "", key
		}
		s, ok := v.(string)
		if !ok {
			return "", key
		}
		return s, ""
	}
	b64 := func(key string) ([]byte, string) {
		s, bad := str(key, true)
		if bad != "" {
			return nil, bad
		}
		d, err := base64.StdEncoding.DecodeString(s)
		if err != nil {
			return nil, key
		}
		return d, ""
	}
	var bad string
	var u uint64
	var s string
	if m.Nonce, bad = num("nonce", 64, false); bad != "" {
		return m, bad
	}
	if s, bad = str("value", false); bad != "" {
		return m, bad
	}
	var ok bool
	if m.Value, ok = new(big.Int).SetString(s, 10); !ok {
		return m, "value"
	}
	if s, bad = str("receiver", false); bad != "" {
		return m, bad
	}
	var err error
	if m.Rcv, err = conv.Decode(s); err != nil {
		return m, "receiver"
	}
	if s, bad = str("sender", false); bad != "" {
		return m, bad
	}
	if m.Snd, err = conv.Decode(s); err != nil {
		return m, "sender"
	}
	if m.SndUser, bad = b64("senderUsername"); bad != "" {
		return m, bad
	}
	if m.RcvUser, bad = b64("receiverUsername"); bad != "" {
		return m, bad
	}
	if m.GasPrice, bad = num("gasPrice", 64, false); bad != "" {
		return m, bad
	}
	if m.GasLimit, bad = num("gasLimit", 64, false); bad != "" {
		return m, bad
	}
	if m.Data, bad = b64("data"); bad != "" {
		return m, bad
	}
	if s, bad = str("chainID", false); bad != "" {
		return m, bad
	}
	m.ChainID = []byte(s)
	if u, bad = num("version", 32, false); bad != "" {
		return m, bad
	}
	m.Version = uint32(u)
	if u, bad = num("options", 32, true); bad != "" {
		return m, bad
	}
	m.Options = uint32(u)
	return m, ""
}

func firstDifference(a, b txModel) string {
	switch {
	case a.Nonce != b.Nonce:
		return "nonce"
	case a.Value.Cmp(b.Value) != 0:
		return "value"
	case !bytes.Equal(a.Rcv, b.Rcv):
		return "receiver"
	case !bytes.Equal(a.Snd, b.Snd):
		return "sender"
	case !bytes.Equal(a.SndUser, b.SndUser):
		return "senderUsername"
	case !bytes.Equal(a.RcvUser, b.RcvUser):
		return "receiverUsername"
	case a.GasPrice != b.GasPrice:
		return "gasPrice"
	case a.GasLimit != b.GasLimit:
		return "gasLimit"
	case !bytes.Equal(a.Data, b.Data):
		return "data"
	case !bytes.Equal(a.ChainID, b.ChainID):
		return "chainID"
	case a.Version != b.Version:
		return "version"
	case a.Options != b.Options:
		return "options"
	}
	return ""
}

// ---------------------------------------------------------------------------------------
// O3 environment

type env struct {
	conv        core.PubkeyConverter
	signMarsh   *marshal.TxJsonMarshalizer
	protoMarsh  *marshal.GogoProtoMarshalizer
	keyGen      crypto.KeyGenerator
	signer      *singlesig.Ed25519Signer
	coordinator sharding.Coordinator
	signHasher  interface{ Compute(string) []byte }
}

type keyPair struct {
	sk crypto.PrivateKey
	pk []byte
}

func (e *env) newKey(rng *vk.Rand) (keyPair, error) {
	sk, err := e.keyGen.PrivateKeyFromByteArray(rng.Bytes(32))
	if err != nil {
		return keyPair{}, err
	}
	pk, err := sk.GeneratePublic().ToByteArray()
	if err != nil {
		return keyPair{}, err
	}
	return keyPair{sk, cp(pk)}, nil
}

func (e *env) sign(m txModel, k keyPair) ([]byte, error) {
	b, err := m.toTx(nil).GetDataForSigning(e.conv, e.signMarsh)
	if err != nil {
		return nil, err
	}
	if m.Version > 1 && m.Options&versioning.MaskSignedWithHash != 0 {
		b = e.signHasher.Compute(string(b))
	}
	return e.signer.Sign(k.sk, b)
}

// newWhitelist builds the verified-transactions whitelist the way the node does (node/nodeRunner.go
// createWhiteListerVerifiedTxs): interceptors.NewWhiteListDataVerifier over a FIFO sharded cache
func (e *env) newWhitelist() (process.WhiteListHandler, error) {
	cache, err := storageUnit.NewCache(storageUnit.CacheConfig{Name: "WhiteListerVerifiedTxs", Type: storageUnit.FIFOShardedCache, Capacity: 2000, Shards: 4})
	if err != nil {
		return nil, err
	}
	return interceptors.NewWhiteListDataVerifier(cache)
}

// check is one reception: the real interceptor path on the wire form of the transaction, with the
// whitelist of already verified transactions that all receptions of the case share
func (e *env) check(m txModel, sig []byte, chainID string, wl process.WhiteListHandler) error {
	buff, err := e.protoMarsh.Marshal(m.toTx(sig))
	if err != nil {
		return fmt.Errorf("harness: proto marshal: %w", err)
	}
	inTx, err := processTx.NewInterceptedTransaction(buff, e.protoMarsh, e.signMarsh, blake2b.NewBlake2b(), e.keyGen, e.signer, e.conv, e.coordinator,
		&mock.FeeHandlerStub{}, wl, smartContract.NewArgumentParser(), []byte(chainID), true, keccak.NewKeccak(), versioning.NewTxVersionChecker(1))
	if err != nil {
		return fmt.Errorf("constructor: %w", err)
	}
	return inTx.CheckValidity()
}

// wireTx is one transaction as it travels: field == "" marks the genuine one, anything else names what
// differs from the transaction that the (outer or inner) signature was made for
type wireTx struct {
	field  string
	m      txModel
	sig    []byte
	detail map[string]interface{}
}

// receive runs the reception schedule of one case over ONE shared whitelist. Every mutated transaction is
// received at least twice; in half of the cases the genuine one comes first (it legitimately whitelists its
// own hash), in the other half the mutated ones come first, then the genuine one, then the mutated ones a
// third time. Oracle: a transaction whose outer or inner signature does not cover its fields is rejected at
// EVERY reception; the genuine one is accepted at every reception.
func (e *env) receive(r *vk.Run, c *vk.Case, scenario, chainID string, genuine wireTx, mutants []wireTx) {
	wl, err := e.newWhitelist()
	if err != nil {
		r.Inconclusive("whitelist: " + err.Error())
		return
	}
	ident := func(w wireTx) string { return vk.Hex(w.sig) + fmt.Sprint(w.m.dump()) }
	// two mutations may coincide (nonce+1 and nonce^1): keep one wire transaction of each kind
	uniq := map[string]bool{ident(genuine): true}
	var list []wireTx
	for _, w := range mutants {
		if id := ident(w); !uniq[id] {
			uniq[id] = true
			list = append(list, w)
		}
	}
	mutants = list
	seen := map[string]int{}
	ok := true
	recv := func(w wireTx) {
		id := ident(w)
		seen[id]++
		n := seen[id]
		err := e.check(w.m, w.sig, chainID, wl)
		r.Eval(1)
		d := map[string]interface{}{"chainID": chainID, "reception": n, "tx": w.m.dump(), "signature": vk.Hex(w.sig)}
		for k, v := range w.detail {
			d[k] = v
		}
		if w.field == "" {
			r.Count("o3."+scenario+".genuine_receptions", 1)
			if err != nil {
				ok = false
				r.Violation(c.Idx, fmt.Sprintf("valid-signed-tx-rejected scenario=%s reception=%d", scenario, n), fmt.Sprintf("correctly signed transaction rejected at reception %d: %v", n, err), d)
			}
			return
		}
		r.Count("o3."+scenario+".mutant_receptions", 1)
		r.Count(fmt.Sprintf("o3.mutant_receptions.n%d", n), 1)
		if err == nil {
			r.Violation(c.Idx, fmt.Sprintf("mutated-tx-accepted scenario=%s field=%s reception=%d", scenario, w.field, n),
				fmt.Sprintf("%s: a signature made for one transaction is accepted for another that differs in %s (reception %d of that transaction by the same node)", scenario, w.field, n), d)
		} else {
			r.Count("o3.reject."+errClass(err), 1)
		}
	}
	if c.Rng.Bool() {
		r.Count("o3.order.genuine-first", 1)
		recv(genuine)
		if !ok {
			return
		}
		for _, w := range mutants {
			recv(w)
			recv(w)
		}
		recv(genuine)
		return
	}
	r.Count("o3.order.mutated-first", 1)
	for _, w := range mutants {
		recv(w)
	}
	for _, w := range mutants {
		recv(w)
	}
	recv(genuine)
	for _, w := range mutants {
		recv(w)
	}
	recv(genuine)
}

func errClass(err error) string {
	if errors.Is(err, crypto.ErrEd25519InvalidSignature) {
		return "invalid-signature"
	}
	s := err.Error()
	if len(s) > 48 {
		s = s[:48]
	}
	return s
}

func main() {
	logger.SetLogLevel("*:NONE")
	r := vk.Start("C24")
	r.Rule("case = random transaction: nonce / gas price / gas limit from {0, JSON-number boundaries 2^53+-1, 2^63, 2^64-1, small, random}, value from {0, small, powers of ten, negative (O1/O2 only), up to 2^208}, receiver random / all-zero / equal to sender, user names and data nil / empty / call-data text / random bytes, chain ids incl. quotes, HTML characters, non-ASCII, U+2028, version and options 0..3 or random. Address length 32 (bech32 converter), other even lengths 2..50 in 1/8 of the O1/O2 cases. O1+O2 run on every case with ~30 one-field mutations and 6 two-field swaps; O3 runs on every eighth case in one of three scenarios (direct, relayed v1 inner, relayed v2 inner) with fresh ed25519 keys derived from the case PRNG; all receptions of a case share one real verified-transactions whitelist (WhiteListDataVerifier over a FIFO sharded cache, as the node wires it) and every mutated transaction (each one-field mutation, each swap, and the signature moved to an unrelated transaction of the same signer) is received two or three times, before and after the genuine one. Non-trivial = every case; shape = scenario + per-field value classes.")
	r.Rule("reused-buffer phase (every fourth case): ONE transaction object and ONE converter instance for 4-9 GetDataForSigning calls; between the calls the sender / receiver buffer (separate, or one slice shared by both for a self-addressed transaction), data, chain id, user names are overwritten IN PLACE, the big.Int value is added to in place, nonce / gas limit change, or the same converter encodes a recycled scratch buffer twice; after every step the bytes must carry the current fields (recovered), equal the bytes for the same values in fresh memory with a fresh converter, and differ from the previous step's when a field changed.")
	r.Assume("domain: addresses of the configured length, chain id valid UTF-8, Value non-nil",
		"nil and empty byte slices are the same field value",
		"O3 uses a stub fee handler (accepts all) and the real whitelist of verified transactions, one instance per case shared by all receptions; a genuine transaction legitimately whitelists its own hash, a mutated one has another hash; the relayer may re-sign its own outer transaction, the user signature is never recomputed after a mutation",
		"ed25519 from the Go standard library (through the repo's wrapper) is trusted")
	r.MinShapes(1000)

	e := &env{signMarsh: &marshal.TxJsonMarshalizer{}, protoMarsh: &marshal.GogoProtoMarshalizer{}, keyGen: signing.NewKeyGenerator(ed25519.NewEd25519()), signer: &singlesig.Ed25519Signer{}, signHasher: keccak.NewKeccak()}
	var err error
	if e.conv, err = pubkeyConverter.NewBech32PubkeyConverter(32); err != nil {
		r.Inconclusive("converter: " + err.Error())
		r.Finish()
	}
	if e.coordinator, err = sharding.NewMultiShardCoordinator(3, 1); err != nil {
		r.Inconclusive("coordinator: " + err.Error())
		r.Finish()
	}
	convs := map[int]core.PubkeyConverter{32: e.conv}
	for l := 2; l <= 50; l += 2 {
		if l != 32 {
			if convs[l], err = pubkeyConverter.NewBech32PubkeyConverter(l); err != nil {
				r.Inconclusive("converter: " + err.Error())
				r.Finish()
			}
		}
	}

	n := r.N(30000, 400000)
	r.Parallel(n, func(c *vk.Case) {
		rng := c.Rng
		// ------------------------------------------------------------------ O1 + O2
		addrLen := 32
		if rng.Chance(1, 8) {
			addrLen = 2 * (1 + rng.Intn(25))
		}
		conv := convs[addrLen]
		m, shape := genModel(rng, addrLen, false, "")
		if !utf8.Valid(m.ChainID) {
			r.Inconclusive("generator produced an invalid chain id")
			return
		}
		signBytes := func(x txModel, sig []byte) ([]byte, error) {
			b, err := x.toTx(sig).GetDataForSigning(conv, e.signMarsh)
			return cp(b), err
		}
		b0, err := signBytes(m, rng.Bytes(64))
		r.Eval(1)
		if err != nil {
			r.Violation(c.Idx, "signing-error", fmt.Sprintf("GetDataForSigning: %v", err), m.dump())
			return
		}
		rec, bad := recoverFields(conv, b0)
		if bad != "" {
			r.Violation(c.Idx, "field-not-recoverable field="+bad, fmt.Sprintf("signing bytes %s: field %s cannot be recovered", b0, bad), map[string]interface{}{"tx": m.dump(), "signing_bytes": string(b0)})
		} else if d := firstDifference(rec, m); d != "" {
			r.Violation(c.Idx, "field-not-recoverable field="+d, fmt.Sprintf("signing bytes %s: recovered %s differs from the transaction's", b0, d), map[string]interface{}{"tx": m.dump(), "recovered": rec.dump(), "signing_bytes": string(b0)})
		}
		muts := mutations(rng, m)
		for _, mu := range muts {
			b1, err1 := signBytes(mu.m, nil)
			r.Eval(1)
			r.Count("o2.mutations", 1)
			if err1 != nil {
				r.Violation(c.Idx, "signing-error", fmt.Sprintf("GetDataForSigning (mutated %s): %v", mu.field, err1), mu.m.dump())
				continue
			}
			if bytes.Equal(b0, b1) {
				r.Violation(c.Idx, "mutation-not-reflected field="+mu.field, fmt.Sprintf("two transactions that differ in %s sign the same bytes %s", mu.field, b0), map[string]interface{}{"tx": m.dump(), "other": mu.m.dump(), "signing_bytes": string(b0)})
			}
		}
		// equal field values in other representations
		variants := []struct {
			name string
			f    func(x *txModel)
		}{
			{"nil-vs-empty", func(x *txModel) {
				tog := func(b []byte) []byte {
					if len(b) > 0 {
						return b
					}
					if b == nil {
						return []byte{}
					}
					return nil
				}
				x.Data, x.SndUser, x.RcvUser = tog(x.Data), tog(x.SndUser), tog(x.RcvUser)
			}},
			{"spare-capacity", func(x *txModel) {
				grow := func(b []byte) []byte {
					if b == nil {
						return nil
					}
					o := make([]byte, len(b), len(b)+9)
					copy(o, b)
					return o
				}
				x.Data, x.SndUser, x.RcvUser, x.Rcv, x.Snd, x.ChainID = grow(x.Data), grow(x.SndUser), grow(x.RcvUser), grow(x.Rcv), grow(x.Snd), grow(x.ChainID)
			}},
			{"value-reparsed", func(x *txModel) {
				v, _ := new(big.Int).SetString(x.Value.Text(16), 16)
				x.Value = v
			}},
		}
		for _, v := range variants {
			x := m.clone()
			v.f(&x)
			b1, err1 := x.toTxShared(rng.Bytes(64)).GetDataForSigning(conv, e.signMarsh)
			r.Eval(1)
			if err1 != nil || !bytes.Equal(b0, b1) {
				r.Violation(c.Idx, "equal-fields-different-bytes variant="+v.name, fmt.Sprintf("same field values sign %s and %s (%v)", b0, b1, err1), map[string]interface{}{"tx": m.dump(), "signing_bytes": string(b0), "other_bytes": string(b1)})
			}
		}
		scenario := "sign-only"

		// ------------------------------------------------------------------ O3
		if c.Idx%8 == 0 {
			chainID := chainIDs[rng.Intn(len(chainIDs))]
			switch rng.Intn(4) {
			case 0:
				scenario = "relayed-v1"
				runRelayedV1(r, c, e, chainID)
			case 1:
				scenario = "relayed-v2"
				runRelayedV2(r, c, e, chainID)
			default:
				scenario = "direct"
				runDirect(r, c, e, chainID)
			}
		}
		// ------------------------------------------------------------------ reused buffers (reuse.go)
		if c.Idx%4 == 1 {
			runReuse(r, c, e.signMarsh)
		}
		r.Shape(fmt.Sprintf("%s L%d %s", scenario, addrLen, shape))
		if r.NeedSample() && c.Idx%13 == 0 {
			r.Sample(map[string]interface{}{"tx": m.dump(), "signing_bytes": string(b0), "mutations": len(muts), "scenario": scenario})
		}
	})
	r.Finish()
}

// toTxShared hands the model's own slices to the transaction (used for the representation variants, where
// the allocation shape is the point)
func (m txModel) toTxShared(sig []byte) *transaction.Transaction {
	return &transaction.Transaction{Nonce: m.Nonce, Value: m.Value, RcvAddr: m.Rcv, SndAddr: m.Snd, SndUserName: m.SndUser, RcvUserName: m.RcvUser,
		GasPrice: m.GasPrice, GasLimit: m.GasLimit, Data: m.Data, ChainID: m.ChainID, Version: m.Version, Options: m.Options, Signature: sig}
}

// otherTx draws an unrelated transaction of the same sender (whole-signature reuse)
func otherTx(rng *vk.Rand, like txModel, chainID string) txModel {
	for {
		o, _ := genModel(rng, 32, true, chainID)
		o.Snd = cp(like.Snd)
		if !o.same(like) {
			return o
		}
	}
}

func runDirect(r *vk.Run, c *vk.Case, e *env, chainID string) {
	rng := c.Rng
	k, err := e.newKey(rng)
	if err != nil {
		r.Inconclusive("key generation: " + err.Error())
		return
	}
	m, _ := genModel(rng, 32, true, chainID)
	m.Snd = cp(k.pk)
	if rng.Chance(1, 6) {
		m.Rcv = cp(k.pk)
	}
	sig, err := e.sign(m, k)
	if err != nil {
		r.Violation(c.Idx, "signing-error", fmt.Sprintf("signing failed: %v", err), m.dump())
		return
	}
	var mutants []wireTx
	for _, mu := range append(mutations(rng, m), mutation{"other-tx", otherTx(rng, m, chainID)}) {
		mutants = append(mutants, wireTx{field: mu.field, m: mu.m, sig: sig, detail: map[string]interface{}{"signed_tx": m.dump()}})
	}
	e.receive(r, c, "direct", chainID, wireTx{m: m, sig: sig}, mutants)
}

func notRelayedData(rng *vk.Rand) []byte {
	switch rng.Intn(4) {
	case 0:
		return nil
	case 1:
		return []byte(fmt.Sprintf("transfer@%x@%x", rng.Bytes(1+rng.Intn(8)), rng.Bytes(1+rng.Intn(3))))
	case 2:
		return []byte("hello world")
	default:
		return []byte(fmt.Sprintf("f%x", rng.Bytes(1+rng.Intn(20))))
	}
}

func runRelayedV1(r *vk.Run, c *vk.Case, e *env, chainID string) {
	rng := c.Rng
	user, err1 := e.newKey(rng)
	relayer, err2 := e.newKey(rng)
	if err1 != nil || err2 != nil {
		r.Inconclusive("key generation failed")
		return
	}
	inner, _ := genModel(rng, 32, true, chainID)
	inner.Snd = cp(user.pk)
	inner.Data = notRelayedData(rng)
	innerSig, err := e.sign(inner, user)
	if err != nil {
		r.Violation(c.Idx, "signing-error", fmt.Sprintf("signing failed: %v", err), inner.dump())
		return
	}
	outerBase, _ := genModel(rng, 32, true, chainID)
	outerBase.Snd = cp(relayer.pk)
	build := func(in txModel) (txModel, []byte, error) {
		ib, err := e.signMarsh.Marshal(in.toTx(innerSig))
		if err != nil {
			return txModel{}, nil, err
		}
		o := outerBase.clone()
		o.Rcv = cp(in.Snd) // the relayer addresses the outer transaction to whoever the inner sender is
		o.Data = []byte(core.RelayedTransaction + "@" + hex.EncodeToString(ib))
		osig, err := e.sign(o, relayer)
		return o, osig, err
	}
	o, osig, err := build(inner)
	if err != nil {
		r.Inconclusive("cannot build the relayed transaction: " + err.Error())
		return
	}
	var mutants []wireTx
	for _, mu := range append(mutations(rng, inner), mutation{"other-tx", otherTx(rng, inner, chainID)}) {
		mo, mosig, err := build(mu.m)
		if err != nil {
			continue
		}
		mutants = append(mutants, wireTx{field: mu.field, m: mo, sig: mosig, detail: map[string]interface{}{"signed_inner": inner.dump(), "carried_inner": mu.m.dump(), "inner_signature": vk.Hex(innerSig)}})
	}
	e.receive(r, c, "relayed-v1", chainID, wireTx{m: o, sig: osig, detail: map[string]interface{}{"inner": inner.dump()}}, mutants)
}

func runRelayedV2(r *vk.Run, c *vk.Case, e *env, chainID string) {
	rng := c.Rng
	user, err1 := e.newKey(rng)
	relayer, err2 := e.newKey(rng)
	if err1 != nil || err2 != nil {
		r.Inconclusive("key generation failed")
		return
	}
	outerBase, _ := genModel(rng, 32, true, chainID)
	outerBase.Snd = cp(relayer.pk)
	outerBase.Rcv = cp(user.pk)
	// the inner transaction as the interceptor reconstructs it from the outer one and the four arguments
	inner := txModel{Value: big.NewInt(0), Rcv: rng.Bytes(32), Snd: cp(user.pk), GasPrice: outerBase.GasPrice, GasLimit: 0, Data: notRelayedData(rng),
		ChainID: []byte(chainID), Version: outerBase.Version, Options: outerBase.Options}
	inner.Nonce, _ = genU64(rng)
	innerSig, err := e.sign(inner, user)
	if err != nil {
		r.Violation(c.Idx, "signing-error", fmt.Sprintf("signing failed: %v", err), inner.dump())
		return
	}
	build := func(in txModel) (txModel, []byte, error) {
		o := outerBase.clone()
		o.Rcv = cp(in.Snd)
		o.GasPrice, o.Version, o.Options, o.ChainID = in.GasPrice, in.Version, in.Options, cp(in.ChainID)
		o.Data = []byte(core.RelayedTransactionV2 + "@" + hex.EncodeToString(in.Rcv) + "@" + hex.EncodeToString(new(big.Int).SetUint64(in.Nonce).Bytes()) + "@" + hex.EncodeToString(in.Data) + "@" + hex.EncodeToString(innerSig))
		osig, err := e.sign(o, relayer)
		return o, osig, err
	}
	o, osig, err := build(inner)
	if err != nil {
		r.Inconclusive("cannot build the relayed v2 transaction: " + err.Error())
		return
	}
	// whole-signature reuse: another v2-expressible inner transaction of the same user
	other := inner.clone()
	other.Rcv, other.Data = rng.Bytes(32), notRelayedData(rng)
	other.Nonce += uint64(1 + rng.Intn(5))
	var mutants []wireTx
	for _, mu := range append(mutations(rng, inner), mutation{"other-tx", other}) {
		// only the fields that the v2 format can express: value, gas limit and user names are fixed by the format
		if mu.m.Value.Sign() != 0 || mu.m.GasLimit != 0 || len(mu.m.SndUser) != 0 || len(mu.m.RcvUser) != 0 {
			continue
		}
		mo, mosig, err := build(mu.m)
		if err != nil {
			continue
		}
		mutants = append(mutants, wireTx{field: mu.field, m: mo, sig: mosig, detail: map[string]interface{}{"signed_inner": inner.dump(), "carried_inner": mu.m.dump(), "inner_signature": vk.Hex(innerSig)}})
	}
	e.receive(r, c, "relayed-v2", chainID, wireTx{m: o, sig: osig, detail: map[string]interface{}{"inner": inner.dump()}}, mutants)
}
