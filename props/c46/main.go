// C46 — transaction lookup (history repository) reports the canonical block.
// Monitor shape: reference model over histories. The real historyRepository (core/dblookupext) runs over the
// epoch-aware genericMocks storers, and in a part of the cases over the production storer kinds (a real
// PruningStorer with db-lookup extensions for the miniblock metadata, real storage units for the two static
// indexes, all on in-memory persisters). Histories interleave RecordBlock (the same miniblock in competing
// blocks of one epoch and across epochs, transactions moving between miniblocks of competing blocks) with
// OnNotarizedBlocks (before and after the record, repeated, empty) and epoch changes.
package main

import (
	"bytes"
	"fmt"
	"strings"
	"sync"

	logger "github.com/ElrondNetwork/elrond-go-logger"
	"github.com/ElrondNetwork/elrond-go/core"
	"github.com/ElrondNetwork/elrond-go/core/dblookupext"
	"github.com/ElrondNetwork/elrond-go/data"
	"github.com/ElrondNetwork/elrond-go/data/block"
	"github.com/ElrondNetwork/elrond-go/epochStart"
	"github.com/ElrondNetwork/elrond-go/hashing/blake2b"
	"github.com/ElrondNetwork/elrond-go/marshal"
	"github.com/ElrondNetwork/elrond-go/storage"
	"github.com/ElrondNetwork/elrond-go/storage/memorydb"
	storagemock "github.com/ElrondNetwork/elrond-go/storage/mock"
	"github.com/ElrondNetwork/elrond-go/storage/pruning"
	"github.com/ElrondNetwork/elrond-go/storage/storageUnit"
	"github.com/ElrondNetwork/elrond-go/testscommon"
	"github.com/ElrondNetwork/elrond-go/testscommon/genericMocks"
	"verif/internal/vk"
)

const meta = core.MetachainShardId

var (
	msh = &marshal.GogoProtoMarshalizer{}
	hsh = blake2b.NewBlake2b()
)

type historyRepo interface {
	RecordBlock(blockHeaderHash []byte, blockHeader data.HeaderHandler, blockBody data.BodyHandler, scrResultsFromPool map[string]data.TransactionHandler, receiptsFromPool map[string]data.TransactionHandler) error
	OnNotarizedBlocks(shardID uint32, headers []data.HeaderHandler, headersHashes [][]byte)
	GetMiniblockMetadataByTxHash(hash []byte) (*dblookupext.MiniblockMetadata, error)
	GetEpochByHash(hash []byte) (uint32, error)
}

// ---- model

type mbTemplate struct {
	id       int
	mb       *block.MiniBlock
	hash     []byte
	src, dst uint32
	typ      block.Type
	txs      [][]byte
}

type record struct {
	opIdx      int
	opIdx2call int // number of OnNotarizedBlocks calls completed before this record
	headerHash []byte
	nonce      uint64
	round      uint64
	epoch      uint32
}

// a block as handed to RecordBlock; committing it again uses the same header hash, header and body
type blk struct {
	hh           []byte
	nonce, round uint64
	epoch        uint32
	tpls         []*mbTemplate
	peerSeq      int
	isNew        bool
}

type notif struct {
	seenAtCall int // index of the OnNotarizedBlocks call that delivered it first
	nonce      uint64
	hash       []byte
}

type mbState struct {
	records []record
	// expected notarization coordinates per side, nil until a notification was delivered
	source, dest *notif
	events       []string // for the shape signature
}

type side int

const (
	sideSource side = iota
	sideDest
	sideBoth
)

// which fields does a notification address: the statement of the rule, independent of the code
func sidesOf(src, dst uint32, containing uint32) (side, bool) {
	if src == dst || dst == meta {
		return sideBoth, true
	}
	if src == containing {
		return sideSource, true
	}
	if dst == containing {
		return sideDest, true
	}
	return 0, false
}

// ---- storers

type epochAware struct {
	handler epochStart.ActionHandler
	ps      *pruning.PruningStorer
	cur     uint32 // highest epoch the storer was told about
}

func realStorers(c *vk.Case) (mbMeta storage.Storer, txIdx storage.Storer, epIdx storage.Storer, evt storage.Storer, ea *epochAware, err error) {
	var mu sync.Mutex
	pm := map[string]storage.Persister{}
	ea = &epochAware{}
	args := &pruning.StorerArgs{
		PruningEnabled: true, Identifier: "mbmeta", ShardCoordinator: storagemock.NewShardCoordinatorMock(0, 3),
		PathManager: &testscommon.PathManagerStub{
			PathForEpochCalled:  func(s string, e uint32, id string) string { return fmt.Sprintf("E%d/S%s/%s", e, s, id) },
			PathForStaticCalled: func(s string, id string) string { return "static" }},
		CacheConf: storageUnit.CacheConfig{Capacity: uint32(2 + c.Rng.Intn(20)), Type: "LRU", Shards: 1}, DbPath: "E0/S0/mbmeta",
		PersisterFactory: &storagemock.PersisterFactoryStub{CreateCalled: func(path string) (storage.Persister, error) {
			mu.Lock()
			defer mu.Unlock()
			if p, ok := pm[path]; ok {
				return p, nil
			}
			p := memorydb.New()
			pm[path] = p
			return p, nil
		}},
		NumOfEpochsToKeep: 12, NumOfActivePersisters: 3,
		Notifier:                  &storagemock.EpochStartNotifierStub{RegisterHandlerCalled: func(h epochStart.ActionHandler) { ea.handler = h }},
		OldDataCleanerProvider:    &testscommon.OldDataCleanerProviderStub{ShouldCleanCalled: func() bool { return false }},
		MaxBatchSize:              2,
		EnabledDbLookupExtensions: true,
	}
	ps, err := pruning.NewPruningStorer(args)
	if err != nil {
		return nil, nil, nil, nil, nil, err
	}
	ea.ps = ps
	unit := func() (storage.Storer, error) {
		cache, errC := storageUnit.NewCache(storageUnit.CacheConfig{Capacity: uint32(2 + c.Rng.Intn(20)), Type: "LRU", Shards: 1})
		if errC != nil {
			return nil, errC
		}
		return storageUnit.NewStorageUnit(cache, memorydb.New())
	}
	txIdx, err = unit()
	if err != nil {
		return
	}
	epIdx, err = unit()
	if err != nil {
		return
	}
	evt, err = unit()
	return ps, txIdx, epIdx, evt, ea, err
}

func shardName(s uint32) string {
	if s == meta {
		return "M"
	}
	return fmt.Sprint(s)
}

func main() {
	_ = logger.SetLogLevel("*:NONE")
	r := vk.Start("C46")
	r.Rule("each case: self shard in {0,1,META}; 3..6 miniblock templates over a pool of 6..12 tx hashes (templates may share transactions), every template from or to the self shard; 12..45 operations: RecordBlock of a fresh header (competing height or next height, current epoch, body of 1..3 templates sharing no transaction, biased to already recorded ones) or, 1 in 4, of a block of the current epoch that was recorded before (A,B,A; A,B,C,A; A,A), OnNotarizedBlocks with 1..2 meta blocks notarizing templates at source/destination/both (a fixed meta block per template and side, possibly delivered again), empty OnNotarizedBlocks, epoch +1 (rarely -1 = rollback over the boundary). After every operation every transaction seen so far is looked up. One evaluation = one lookup compared with the model. A template history is non-trivial when the miniblock was recorded at least twice or notarized; distinct = distinct (self kind, storer kind, direction, event sequence). Concurrent cases (a fixed number appended after the sequential ones): 3..8 miniblocks with disjoint transactions, most of them cross-shard; about 3 in 4 are recorded first (some twice, some across an epoch change), then 2..4 goroutines make 1..3 OnNotarizedBlocks calls each, with 1..2 meta blocks per call; the source listing and the destination listing of a cross-shard miniblock sit in different meta blocks, 3 times in 4 delivered by different goroutines; a meta block may be delivered by two goroutines; the miniblock-metadata storer is decorated so that reads and writes yield or sleep 20..420 microseconds at random; after all notifiers returned: one empty call, lookup of every transaction (block fields, each notified side reported with its coordinates, each side not notified empty), then the remaining miniblocks are recorded, one empty call, and the lookups are repeated. A concurrent case is non-trivial when at least one miniblock had its two listings on different goroutines and at least two calls were in flight together. Recorder-racing-notifiers cases (a fixed number appended last): same miniblocks, records and meta-block plan with 1..3 notifier goroutines, plus one recorder goroutine that commits 2..5 further blocks (new header hashes; 1..3 miniblocks each, 2 in 3 drawn from those already on record = a competing block replaces the one recorded before, the others not yet on record; 1 in 3 blocks is preceded by an epoch change, at most epoch 2) through the same decorated storer while the notifiers run; after recorder and notifiers returned: one empty call, then every transaction lookup must report the block the recorder committed last for its miniblock, GetEpochByHash its epoch, and every notified side its coordinates (witness classes concurrent-rerecord / concurrent-first-record); then the miniblocks still unrecorded are recorded, one empty call, lookups again. Such a case is non-trivial when at least one notified miniblock was recorded again while the notifiers ran.")
	r.Assume("the committed block of a miniblock is the last RecordBlock call containing it (the caller records blocks in commit order; a block that was replaced may be committed and recorded again, with the same header, epoch and body)",
		"bounded restatement of 'once the notarizing meta block has been seen': the notarization fields are demanded after one further OnNotarizedBlocks call (possibly empty) following both the notification and the latest record of the miniblock",
		"every (miniblock, side) has one notarizing meta block; records use epochs inside the active window of the metadata storer; the storers are told about a new epoch before blocks of that epoch are recorded",
		"sequential cases: interleavings at operation granularity; the asynchronous delivery of OnNotarizedBlocks in production is modelled by the arbitrary order of operations",
		"concurrent-notifier cases: only OnNotarizedBlocks calls overlap each other (the block processors start them with 'go'); RecordBlock calls are made while no notifier is running; the notarization fields are demanded after all notifiers have returned and one further (empty) OnNotarizedBlocks call was made; the pauses injected in the metadata storer change no value",
		"recorder-racing-notifiers cases: RecordBlock is called by ONE goroutine, block after block (the block processor calls it synchronously after each commit), so the committed block of a miniblock is the last one in the recorder's own order; OnNotarizedBlocks calls overlap it and each other; an epoch change is announced to the storers by the recorder goroutine right before the first block of the new epoch; same quiescence rule")
	r.MinShapes(40)
	nCases := r.N(3000, 100000)
	// cases nCases.. are the concurrent-notifier cases (concurrent.go); the sequential cases keep their indices
	// then the recorder-racing-notifiers cases
	nConc := r.N(1200, 20000)
	nRerec := r.N(1200, 20000)
	r.Parallel(nCases+nConc+nRerec, func(c *vk.Case) {
		if c.Idx >= nCases+nConc {
			runConcCase(r, c, true)
			return
		}
		if c.Idx >= nCases {
			runConcCase(r, c, false)
			return
		}
		runCase(r, c)
	})
	r.Finish()
}

func runCase(r *vk.Run, c *vk.Case) {
	rng := c.Rng
	selfs := []uint32{0, 1, meta}
	self := selfs[rng.Intn(3)]
	useReal := rng.Chance(1, 3)
	storerKind := "genericMocks"
	var repo historyRepo
	var ea *epochAware
	{
		var a dblookupext.HistoryRepositoryArguments
		if useReal {
			storerKind = "pruning+units"
			mbm, txi, epi, evt, e, err := realStorers(c)
			if err != nil {
				r.Inconclusive("real storers could not be built: " + err.Error())
				return
			}
			ea = e
			a = dblookupext.HistoryRepositoryArguments{SelfShardID: self, MiniblocksMetadataStorer: mbm, MiniblockHashByTxHashStorer: txi, EpochByHashStorer: epi, EventsHashesByTxHashStorer: evt, Marshalizer: msh, Hasher: hsh}
		} else {
			a = dblookupext.HistoryRepositoryArguments{SelfShardID: self,
				MiniblocksMetadataStorer: genericMocks.NewStorerMock("mb", 0), MiniblockHashByTxHashStorer: genericMocks.NewStorerMock("tx", 0),
				EpochByHashStorer: genericMocks.NewStorerMock("ep", 0), EventsHashesByTxHashStorer: genericMocks.NewStorerMock("ev", 0), Marshalizer: msh, Hasher: hsh}
		}
		hr, err := dblookupext.NewHistoryRepository(a)
		if err != nil {
			r.Violation(c.Idx, "constructor", err.Error(), nil)
			return
		}
		repo = hr
	}
	r.Count("cases storers="+storerKind, 1)

	// ---- templates
	nTx := rng.Range(6, 12)
	txPool := make([][]byte, nTx)
	for i := range txPool {
		txPool[i] = []byte(fmt.Sprintf("tx-%d-%d-%x", c.Idx, i, rng.Bytes(6)))
	}
	others := []uint32{0, 1, 2, meta}
	var tpls []*mbTemplate
	seenHash := map[string]bool{}
	nT := rng.Range(3, 6)
	for len(tpls) < nT {
		t := &mbTemplate{id: len(tpls)}
		// direction involving self
		o := others[rng.Intn(len(others))]
		switch rng.Intn(3) {
		case 0:
			t.src, t.dst = self, self
		case 1:
			t.src, t.dst = self, o
		default:
			t.src, t.dst = o, self
		}
		switch {
		case t.src == meta && t.dst != meta:
			t.typ = []block.Type{block.RewardsBlock, block.SmartContractResultBlock, block.TxBlock}[rng.Intn(3)]
		default:
			t.typ = []block.Type{block.TxBlock, block.TxBlock, block.SmartContractResultBlock, block.InvalidBlock}[rng.Intn(4)]
		}
		k := rng.Range(1, 4)
		perm := rng.Perm(nTx)
		for _, i := range perm[:k] {
			t.txs = append(t.txs, append([]byte{}, txPool[i]...))
		}
		t.mb = &block.MiniBlock{SenderShardID: t.src, ReceiverShardID: t.dst, Type: t.typ}
		for _, x := range t.txs {
			t.mb.TxHashes = append(t.mb.TxHashes, append([]byte{}, x...))
		}
		h, err := core.CalculateHash(msh, hsh, t.mb)
		if err != nil || seenHash[string(h)] {
			continue
		}
		seenHash[string(h)] = true
		t.hash = h
		tpls = append(tpls, t)
	}

	// ---- model state
	states := make([]*mbState, len(tpls))
	for i := range states {
		states[i] = &mbState{}
	}
	txIndex := map[string]int{} // tx -> template id of the last record containing it
	headerEpoch := map[string]uint32{}
	var headerOrder []string
	notifMeta := map[string]*notif{} // key "<tpl>/<containing shard>" -> fixed meta block
	var ops []string
	curEpoch := uint32(0)
	height := uint64(10)
	round := uint64(100)
	metaNonce := uint64(1)
	onNotarizedCalls := 0
	lastRecordCall := make([]int, len(tpls)) // value of onNotarizedCalls at the time of the latest record
	hdrSeq := 0
	everRecorded := make([]bool, len(tpls))
	var everSeenTx []string
	seenTx := map[string]bool{}

	logf := func(format string, a ...interface{}) { ops = append(ops, fmt.Sprintf(format, a...)) }
	detail := func(extra map[string]interface{}) map[string]interface{} {
		var tp []string
		for _, t := range tpls {
			var txs []string
			for _, x := range t.txs {
				txs = append(txs, string(x))
			}
			tp = append(tp, fmt.Sprintf("mb%d %s->%s type=%s hash=%x txs=%v", t.id, shardName(t.src), shardName(t.dst), t.typ.String(), t.hash[:6], txs))
		}
		m := map[string]interface{}{"self_shard": shardName(self), "storers": storerKind, "templates": tp, "ops": ops}
		for k, v := range extra {
			m[k] = v
		}
		return m
	}

	// one report per key and case (the first witness); later ones are only counted
	reported := map[string]bool{}
	violation := func(key, what string, det map[string]interface{}) {
		r.Count("violating observations key="+key, 1)
		if reported[key] {
			return
		}
		reported[key] = true
		r.Violation(c.Idx, key, what, det)
	}

	// cause analysis for a block mismatch on template t
	causeClass := func(t *mbTemplate) string {
		st := states[t.id]
		if len(st.records) == 0 {
			return "never-recorded"
		}
		last := st.records[len(st.records)-1]
		// the block that was committed last had been recorded before and replaced in between (A, B, A)
		for i := len(st.records) - 2; i >= 0; i-- {
			if !bytes.Equal(st.records[i].headerHash, last.headerHash) {
				for _, rc := range st.records[:i] {
					if bytes.Equal(rc.headerHash, last.headerHash) {
						return "rerecord-of-earlier-header"
					}
				}
				break
			}
		}
		otherEpoch := false
		for _, rc := range st.records[:len(st.records)-1] {
			if rc.epoch == last.epoch && !bytes.Equal(rc.headerHash, last.headerHash) {
				return "same-epoch-rerecord"
			}
			if rc.epoch != last.epoch {
				otherEpoch = true
			}
		}
		if otherEpoch {
			return "cross-epoch-rerecord"
		}
		return "single-record"
	}

	checkAll := func(after string) {
		for _, txs := range everSeenTx {
			tx := []byte(txs)
			tid := txIndex[txs]
			t := tpls[tid]
			st := states[tid]
			exp := st.records[len(st.records)-1]
			md, err := repo.GetMiniblockMetadataByTxHash(tx)
			r.Eval(1)
			if err != nil {
				violation("lookup-error class="+causeClass(t), fmt.Sprintf("%s: GetMiniblockMetadataByTxHash(%s) of a recorded transaction failed: %v", after, txs, err), detail(map[string]interface{}{"tx": txs}))
				continue
			}
			if !bytes.Equal(md.MiniblockHash, t.hash) {
				// the tx index points to another miniblock than the one of the last block containing the tx
				cl := causeClass(t)
				key := "wrong-block class=tx-index"
				if cl == "same-epoch-rerecord" || cl == "rerecord-of-earlier-header" {
					key = "stale-block class=" + cl
				}
				// the transaction sits in different miniblocks of competing blocks and the block committed last
				// had been recorded before for this miniblock: its (unchanged) record is skipped, and with it
				// the refresh of the transaction index
				for _, rc := range st.records[:len(st.records)-1] {
					if bytes.Equal(rc.headerHash, exp.headerHash) {
						key = "stale-tx-index class=tx-moved+block-committed-again"
						break
					}
				}
				violation(key, fmt.Sprintf("%s: tx %s was last recorded in miniblock mb%d (header %s) but the lookup reports miniblock %x (header %s)", after, txs, t.id, exp.headerHash, md.MiniblockHash[:6], md.HeaderHash), detail(map[string]interface{}{"tx": txs}))
				continue
			}
			if !bytes.Equal(md.HeaderHash, exp.headerHash) || md.HeaderNonce != exp.nonce || md.Round != exp.round || md.Epoch != exp.epoch {
				cl := causeClass(t)
				key := "wrong-block class=" + cl
				if cl == "same-epoch-rerecord" || cl == "cross-epoch-rerecord" || cl == "rerecord-of-earlier-header" {
					key = "stale-block class=" + cl
				}
				violation(key,
					fmt.Sprintf("%s: tx %s in mb%d: last recorded in header %s (nonce %d, round %d, epoch %d) but the lookup reports header %s (nonce %d, round %d, epoch %d); records of mb%d: %s",
						after, txs, t.id, exp.headerHash, exp.nonce, exp.round, exp.epoch, md.HeaderHash, md.HeaderNonce, md.Round, md.Epoch, t.id, fmtRecords(st.records)),
					detail(map[string]interface{}{"tx": txs}))
			}
			if md.SourceShardID != t.src || md.DestinationShardID != t.dst || md.Type != int32(t.typ) {
				violation("wrong-fields", fmt.Sprintf("%s: tx %s in mb%d (%s->%s type %d): lookup reports %d->%d type %d", after, txs, t.id, shardName(t.src), shardName(t.dst), t.typ, md.SourceShardID, md.DestinationShardID, md.Type), detail(nil))
			}
			// notarization
			checkSide := func(name string, n *notif, gotNonce uint64, gotHash []byte) {
				if n == nil {
					if gotNonce != 0 || len(gotHash) != 0 {
						violation("notarization-unexpected", fmt.Sprintf("%s: mb%d reports notarization at %s (meta nonce %d) but no such notification was delivered", after, t.id, name, gotNonce), detail(nil))
					}
					return
				}
				set := gotNonce == n.nonce && bytes.Equal(gotHash, n.hash)
				// n.seenAtCall is the index of the delivering call (completed calls then: index+1);
				// lastRecordCall is the number of completed calls when the latest record was made
				from := n.seenAtCall + 1
				if lastRecordCall[tid] > from {
					from = lastRecordCall[tid]
				}
				due := onNotarizedCalls > from // one further call after both the notification and the latest record
				if set {
					if !due {
						r.Count("notarization visible before it was due", 1)
					}
					return
				}
				if gotNonce != 0 || len(gotHash) != 0 {
					violation("notarization-wrong", fmt.Sprintf("%s: mb%d notarized at %s by meta block nonce %d hash %s, lookup reports nonce %d hash %s", after, t.id, name, n.nonce, n.hash, gotNonce, gotHash), detail(nil))
					return
				}
				if !due {
					r.Count("notarization pending (not yet due)", 1)
					return
				}
				// classify by the order of the notification and the records
				cl := "notified-after-record"
				lastRec := st.records[len(st.records)-1]
				if lastRec.opIdx2call > n.seenAtCall { // the latest record came after the notification
					cl = "notified-before-record"
					if len(st.records) > 1 {
						cl = "lost-on-rerecord"
					}
				}
				violation("notarization-missing class="+cl,
					fmt.Sprintf("%s: mb%d (%s->%s) was notarized at %s by meta block nonce %d (delivered in OnNotarizedBlocks call #%d), %d further call(s) happened after the notification and the latest record, lookup still reports no notarization; history of mb%d: %s",
						after, t.id, shardName(t.src), shardName(t.dst), name, n.nonce, n.seenAtCall, onNotarizedCalls-from, t.id, strings.Join(st.events, " ")),
					detail(map[string]interface{}{"tx": txs}))
			}
			checkSide("source", st.source, md.NotarizedAtSourceInMetaNonce, md.NotarizedAtSourceInMetaHash)
			checkSide("destination", st.dest, md.NotarizedAtDestinationInMetaNonce, md.NotarizedAtDestinationInMetaHash)
		}
		// epoch index
		for _, hh := range headerOrder {
			e, err := repo.GetEpochByHash([]byte(hh))
			r.Eval(1)
			if err != nil || e != headerEpoch[hh] {
				violation("epoch-by-hash class=header", fmt.Sprintf("%s: GetEpochByHash(header %s) = %d, %v; recorded in epoch %d", after, hh, e, err, headerEpoch[hh]), detail(nil))
			}
		}
		for _, t := range tpls {
			if !everRecorded[t.id] {
				continue
			}
			st := states[t.id]
			exp := st.records[len(st.records)-1]
			e, err := repo.GetEpochByHash(t.hash)
			r.Eval(1)
			if err != nil || e != exp.epoch {
				cl := causeClass(t)
				key := "epoch-by-hash class=" + cl
				if cl == "same-epoch-rerecord" || cl == "rerecord-of-earlier-header" {
					key = "stale-block class=" + cl // same witness class, seen through GetEpochByHash
				}
				violation(key, fmt.Sprintf("%s: GetEpochByHash(mb%d) = %d, %v; last recorded in epoch %d; records: %s", after, t.id, e, err, exp.epoch, fmtRecords(st.records)), detail(nil))
			}
		}
	}

	nOps := rng.Range(12, r.N(45, 70))
	maxEpoch := uint32(0)
	bothContaining := map[int]uint32{}
	var blocks []*blk
	for op := 0; op < nOps; op++ {
		what := ""
		switch x := rng.Intn(100); {
		case x < 50: // ---- RecordBlock
			// either a fresh block, or a block that was recorded before and is committed again after its
			// replacement was rolled back (same header hash, header and body; only blocks of the current epoch)
			var b *blk
			var cands []*blk
			for _, q := range blocks {
				if q.epoch == curEpoch {
					cands = append(cands, q)
				}
			}
			if len(cands) > 0 && rng.Chance(1, 4) {
				b = cands[rng.Intn(len(cands))]
				if len(cands) > 1 && rng.Chance(2, 3) {
					b = cands[rng.Intn(len(cands)-1)] // prefer one that is not the newest
				}
				r.Count("RecordBlock of a header recorded before", 1)
			} else {
				hdrSeq++
				if rng.Chance(1, 2) || hdrSeq == 1 {
					height++
				} // else a competing block at the same height
				round += uint64(rng.Range(1, 3))
				b = &blk{hh: []byte(fmt.Sprintf("hdr%d/e%d", hdrSeq, curEpoch)), nonce: height, round: round, epoch: curEpoch, isNew: true}
				nMb := rng.Range(1, 3)
				used := map[int]bool{}
				bodyTx := map[string]bool{}
				for len(b.tpls) < nMb {
					var t *mbTemplate
					// bias to templates that were already recorded (re-records)
					if rng.Chance(3, 5) {
						var rec []*mbTemplate
						for _, q := range tpls {
							if everRecorded[q.id] {
								rec = append(rec, q)
							}
						}
						if len(rec) > 0 {
							t = rec[rng.Intn(len(rec))]
						}
					}
					if t == nil {
						t = tpls[rng.Intn(len(tpls))]
					}
					if used[t.id] {
						if len(used) == len(tpls) {
							break
						}
						continue
					}
					used[t.id] = true
					// a transaction appears once per block: skip templates sharing a transaction with the body so far
					clash := false
					for _, x := range t.txs {
						if bodyTx[string(x)] {
							clash = true
						}
					}
					if clash {
						if len(used) == len(tpls) {
							break
						}
						continue
					}
					for _, x := range t.txs {
						bodyTx[string(x)] = true
					}
					b.tpls = append(b.tpls, t)
				}
				if rng.Chance(1, 6) {
					b.peerSeq = hdrSeq // a peer miniblock rides along; it is not indexed
				}
				blocks = append(blocks, b)
			}
			hh := b.hh
			chosen := b.tpls
			var hdr data.HeaderHandler
			if self == meta {
				hdr = &block.MetaBlock{Nonce: b.nonce, Round: b.round, Epoch: b.epoch}
			} else {
				hdr = &block.Header{Nonce: b.nonce, Round: b.round, Epoch: b.epoch, ShardID: self}
			}
			body := &block.Body{}
			var names []string
			for _, t := range chosen {
				cp := &block.MiniBlock{SenderShardID: t.src, ReceiverShardID: t.dst, Type: t.typ}
				for _, x := range t.txs {
					cp.TxHashes = append(cp.TxHashes, append([]byte{}, x...))
				}
				body.MiniBlocks = append(body.MiniBlocks, cp)
				names = append(names, fmt.Sprintf("mb%d", t.id))
			}
			if b.peerSeq > 0 {
				body.MiniBlocks = append(body.MiniBlocks, &block.MiniBlock{SenderShardID: meta, ReceiverShardID: core.AllShardId, Type: block.PeerBlock, TxHashes: [][]byte{[]byte(fmt.Sprintf("peer-%d", b.peerSeq))}})
				names = append(names, "peer-mb")
			}
			err := repo.RecordBlock(append([]byte{}, hh...), hdr, body, nil, nil)
			again := ""
			if !b.isNew {
				again = " [this block was recorded before and is committed again]"
			}
			what = fmt.Sprintf("RecordBlock(%s nonce %d round %d epoch %d: %s)%s", hh, b.nonce, b.round, b.epoch, strings.Join(names, ","), again)
			logf("%s", what)
			r.Count("RecordBlock", 1)
			if err != nil {
				violation("record-error", what+": "+err.Error(), detail(nil))
			}
			headerEpoch[string(hh)] = b.epoch
			if b.isNew {
				headerOrder = append(headerOrder, string(hh))
			}
			for _, t := range chosen {
				st := states[t.id]
				rc := record{opIdx: op, headerHash: hh, nonce: b.nonce, round: b.round, epoch: b.epoch, opIdx2call: onNotarizedCalls}
				ev := fmt.Sprintf("R(e%d)", curEpoch)
				if len(st.records) > 0 {
					last := st.records[len(st.records)-1]
					if !b.isNew {
						ev = fmt.Sprintf("Rr(e%d)", curEpoch)
						if bytes.Equal(last.headerHash, hh) {
							r.Count("same block recorded twice in a row (per miniblock)", 1)
						} else {
							for _, pr := range st.records {
								if bytes.Equal(pr.headerHash, hh) {
									r.Count("re-record of an earlier header after its replacement (per miniblock)", 1)
									break
								}
							}
						}
					}
					if last.epoch == curEpoch {
						r.Count("re-record same epoch", 1)
					} else {
						r.Count("re-record other epoch", 1)
					}
				}
				st.records = append(st.records, rc)
				st.events = append(st.events, ev)
				everRecorded[t.id] = true
				lastRecordCall[t.id] = onNotarizedCalls
				for _, x := range t.txs {
					if prev, ok := txIndex[string(x)]; ok && prev != t.id {
						r.Count("tx moved to another miniblock", 1)
					}
					txIndex[string(x)] = t.id
					if !seenTx[string(x)] {
						seenTx[string(x)] = true
						everSeenTx = append(everSeenTx, string(x))
					}
				}
			}
		case x < 80: // ---- OnNotarizedBlocks with notifications
			nMeta := rng.Range(1, 2)
			var hdrs []data.HeaderHandler
			var hashes [][]byte
			var descr []string
			type delivered struct {
				tid int
				sd  side
				n   *notif
			}
			var dl []delivered
			for m := 0; m < nMeta; m++ {
				t := tpls[rng.Intn(len(tpls))]
				// containing shard: where the miniblock shows up in the meta block
				var containing uint32
				if t.src == t.dst || t.dst == meta {
					// one notarizing meta block addresses both sides; the listing place is fixed per template
					cc, okc := bothContaining[t.id]
					if !okc {
						cc = t.src
						if t.dst == meta && rng.Bool() {
							cc = meta
						}
						bothContaining[t.id] = cc
					}
					containing = cc
				} else {
					containing = []uint32{t.src, t.dst}[rng.Intn(2)]
				}
				sd, ok := sidesOf(t.src, t.dst, containing)
				if !ok {
					continue
				}
				key := fmt.Sprintf("%d/%d", t.id, containing)
				n := notifMeta[key]
				if n == nil {
					metaNonce += uint64(rng.Range(1, 3))
					n = &notif{seenAtCall: -1, nonce: metaNonce, hash: []byte(fmt.Sprintf("meta%d", metaNonce))}
					notifMeta[key] = n
				} else {
					r.Count("notification delivered again", 1)
				}
				mbh := block.MiniBlockHeader{Hash: append([]byte{}, t.hash...), SenderShardID: t.src, ReceiverShardID: t.dst, Type: t.typ, TxCount: uint32(len(t.txs))}
				mbk := &block.MetaBlock{Nonce: n.nonce, Round: round, Epoch: curEpoch}
				if containing == meta {
					mbk.MiniBlockHeaders = []block.MiniBlockHeader{mbh}
				} else {
					mbk.ShardInfo = []block.ShardData{{ShardID: containing, HeaderHash: []byte("sh"), ShardMiniBlockHeaders: []block.MiniBlockHeader{mbh}}}
				}
				hdrs = append(hdrs, mbk)
				hashes = append(hashes, append([]byte{}, n.hash...))
				descr = append(descr, fmt.Sprintf("meta nonce %d: mb%d listed under shard %s (%s)", n.nonce, t.id, shardName(containing), []string{"source", "destination", "both"}[sd]))
				dl = append(dl, delivered{t.id, sd, n})
			}
			notifier := meta
			repo.OnNotarizedBlocks(notifier, hdrs, hashes)
			what = fmt.Sprintf("OnNotarizedBlocks#%d(%s)", onNotarizedCalls, strings.Join(descr, "; "))
			logf("%s", what)
			r.Count("OnNotarizedBlocks with notifications", 1)
			for _, d := range dl {
				st := states[d.tid]
				if d.n.seenAtCall < 0 {
					d.n.seenAtCall = onNotarizedCalls
				}
				if len(st.records) == 0 {
					r.Count("notification before first record", 1)
				} else {
					r.Count("notification after record", 1)
				}
				if d.sd == sideSource || d.sd == sideBoth {
					if st.source == nil {
						st.source = d.n
					}
				}
				if d.sd == sideDest || d.sd == sideBoth {
					if st.dest == nil {
						st.dest = d.n
					}
				}
				st.events = append(st.events, "N("+[]string{"src", "dst", "both"}[d.sd]+")")
			}
			onNotarizedCalls++
			for _, st := range states {
				if len(st.events) > 0 && st.events[len(st.events)-1] != "c" {
					st.events = append(st.events, "c")
				}
			}
		case x < 90: // ---- empty OnNotarizedBlocks
			repo.OnNotarizedBlocks(meta, []data.HeaderHandler{}, [][]byte{})
			what = fmt.Sprintf("OnNotarizedBlocks#%d(empty)", onNotarizedCalls)
			logf("%s", what)
			r.Count("OnNotarizedBlocks empty", 1)
			onNotarizedCalls++
			for _, st := range states {
				if len(st.events) > 0 && st.events[len(st.events)-1] != "c" {
					st.events = append(st.events, "c")
				}
			}
		default: // ---- epoch change
			if rng.Chance(1, 8) && curEpoch > 0 && curEpoch == maxEpoch {
				// never more than one epoch below the highest one: records stay inside the active persisters
				curEpoch--
				what = fmt.Sprintf("rollback over the epoch boundary: current epoch %d", curEpoch)
				r.Count("epoch step back", 1)
			} else if curEpoch < 9 {
				curEpoch++
				what = fmt.Sprintf("epoch change: current epoch %d", curEpoch)
				r.Count("epoch change", 1)
				if curEpoch > maxEpoch {
					maxEpoch = curEpoch
				}
				if ea != nil && curEpoch > ea.cur {
					ea.handler.EpochStartAction(&block.Header{Epoch: curEpoch})
					ea.ps.SetEpochForPutOperation(curEpoch)
					ea.cur = curEpoch
				}
			} else {
				continue
			}
			logf("%s", what)
			continue
		}
		for _, q := range blocks {
			q.isNew = false
		}
		checkAll("after op " + fmt.Sprint(op) + " " + what)
	}
	// a last empty notification call makes every delivered notification due
	repo.OnNotarizedBlocks(meta, []data.HeaderHandler{}, [][]byte{})
	logf("OnNotarizedBlocks#%d(empty, final)", onNotarizedCalls)
	onNotarizedCalls++
	checkAll("at the end")

	// ---- shapes
	for _, t := range tpls {
		st := states[t.id]
		if len(st.records) == 0 {
			continue
		}
		if len(st.records) < 2 && st.source == nil && st.dest == nil {
			r.Trivial()
			continue
		}
		// normalise epochs relative to the first record
		first := st.records[0].epoch
		ev := make([]string, 0, len(st.events))
		ri := 0
		for _, e := range st.events {
			if strings.HasPrefix(e, "R(") || strings.HasPrefix(e, "Rr(") {
				tag := "R"
				if strings.HasPrefix(e, "Rr(") {
					tag = "Rr" // a header recorded before
				}
				ev = append(ev, fmt.Sprintf("%s%+d", tag, int(st.records[ri].epoch)-int(first)))
				ri++
			} else {
				ev = append(ev, e)
			}
		}
		if len(ev) > 14 {
			ev = ev[:14]
		}
		selfKind := "shard"
		if self == meta {
			selfKind = "meta"
		}
		dir := "intra"
		switch {
		case t.src == t.dst:
		case t.dst == meta:
			dir = "to-meta"
		case t.src == meta:
			dir = "from-meta"
		case t.src == self:
			dir = "outgoing"
		default:
			dir = "incoming"
		}
		r.Shape(selfKind + " " + storerKind + " " + dir + " " + strings.Join(ev, " "))
	}
	if r.NeedSample() && c.Idx%211 == 0 {
		r.Sample(detail(nil))
	}
}

func fmtRecords(rs []record) string {
	var s []string
	for _, rc := range rs {
		s = append(s, fmt.Sprintf("%s(nonce %d, epoch %d)", rc.headerHash, rc.nonce, rc.epoch))
	}
	return strings.Join(s, " then ")
}
