// C46, concurrent phase: OnNotarizedBlocks is started with "go" by the block processors, so several notifier
// goroutines may be inside the history repository at the same time. A concurrent case records a set of miniblocks,
// then lets 2..4 goroutines deliver the meta blocks that notarize them (the source listing and the destination
// listing of one cross-shard miniblock usually travel with different goroutines), over a miniblock-metadata storer
// whose Get/Put yield or sleep for a short random time (the storer is a point where the real code may be
// pre-empted or wait for the disk). After quiescence (all notifiers returned, one further empty call) every
// notarization coordinate that was notified has to be reported by the lookup API, and nothing else.
package main

import (
	"bytes"
	"fmt"
	"runtime"
	"strings"
	"sync"
	"sync/atomic"
	"time"

	"github.com/ElrondNetwork/elrond-go/core"
	"github.com/ElrondNetwork/elrond-go/core/dblookupext"
	"github.com/ElrondNetwork/elrond-go/data"
	"github.com/ElrondNetwork/elrond-go/data/block"
	"github.com/ElrondNetwork/elrond-go/storage"
	"github.com/ElrondNetwork/elrond-go/testscommon/genericMocks"
	"verif/internal/vk"
)

// delayStorer decorates the miniblock-metadata storer: while switched on, every read returns after a random
// short pause and every write starts after one (nothing / yield / sleep of 20..420 microseconds).
// It changes no value and no error.
type delayStorer struct {
	storage.Storer
	on       int32
	ctr      uint64
	seed     uint64
	inFlight *int32 // OnNotarizedBlocks calls in flight (maintained by the case)
	overlap  int64  // storer operations that ran while two or more calls were in flight
	pauses   int64
}

func splitmix(x uint64) uint64 {
	x += 0x9e3779b97f4a7c15
	x = (x ^ (x >> 30)) * 0xbf58476d1ce4e5b9
	x = (x ^ (x >> 27)) * 0x94d049bb133111eb
	return x ^ (x >> 31)
}

func (d *delayStorer) pause() {
	if atomic.LoadInt32(&d.on) == 0 {
		return
	}
	if atomic.LoadInt32(d.inFlight) >= 2 {
		atomic.AddInt64(&d.overlap, 1)
	}
	x := splitmix(d.seed ^ atomic.AddUint64(&d.ctr, 1))
	switch m := x % 10; {
	case m < 3:
	case m < 6:
		runtime.Gosched()
	default:
		atomic.AddInt64(&d.pauses, 1)
		time.Sleep(time.Duration(20+(x>>16)%400) * time.Microsecond)
	}
}

func (d *delayStorer) GetFromEpoch(key []byte, epoch uint32) ([]byte, error) {
	v, err := d.Storer.GetFromEpoch(key, epoch)
	d.pause()
	return v, err
}

func (d *delayStorer) Get(key []byte) ([]byte, error) {
	v, err := d.Storer.Get(key)
	d.pause()
	return v, err
}

func (d *delayStorer) PutInEpoch(key, value []byte, epoch uint32) error {
	d.pause()
	return d.Storer.PutInEpoch(key, value, epoch)
}

func (d *delayStorer) Put(key, value []byte) error {
	d.pause()
	return d.Storer.Put(key, value)
}

// one listing of a miniblock in a notarizing meta block
type listing struct {
	t          *mbTemplate
	containing uint32
	sd         side
	mb         *concMeta
}

type concMeta struct {
	nonce    uint64
	hash     []byte
	listings []*listing
	hdr      *block.MetaBlock
}

// a block of the recorder
type concBlock struct {
	ts           []*mbTemplate
	hh           []byte
	nonce, round uint64
	epoch        uint32
	hdr          data.HeaderHandler
	body         *block.Body
	what         string
	epochBefore  bool // the epoch changes to .epoch right before this block
	stagger      int
}

type concCall struct {
	metas   []*concMeta
	stagger int // microseconds to wait before the call (0 = none, 1 = yield)
}

// rerecord = false: only notifiers overlap (records are made while no notifier runs).
// rerecord = true: one recorder goroutine (RecordBlock is called synchronously by the block processor, one block at a
// time) commits competing blocks that contain miniblocks already on record (same epoch or after an epoch change) and
// miniblocks not yet on record, while 1..3 notifier goroutines deliver the meta blocks that notarize them.
func runConcCase(r *vk.Run, c *vk.Case, rerecord bool) {
	rng := c.Rng
	pfx := "concurrent: "
	if rerecord {
		pfx = "rerecord: "
	}
	selfs := []uint32{0, 1, meta}
	self := selfs[rng.Intn(3)]
	useReal := rng.Chance(1, 3)
	storerKind := "genericMocks"
	var inFlight int32
	var ds *delayStorer
	var repo historyRepo
	var ea *epochAware
	{
		var a dblookupext.HistoryRepositoryArguments
		if useReal {
			storerKind = "pruning+units"
			mbm, txi, epi, evt, e, err := realStorers(c)
			if err != nil {
				r.Inconclusive("real storers could not be built: " + err.Error())
				return
			}
			ea = e
			ds = &delayStorer{Storer: mbm, seed: rng.U64(), inFlight: &inFlight}
			a = dblookupext.HistoryRepositoryArguments{SelfShardID: self, MiniblocksMetadataStorer: ds, MiniblockHashByTxHashStorer: txi, EpochByHashStorer: epi, EventsHashesByTxHashStorer: evt, Marshalizer: msh, Hasher: hsh}
		} else {
			ds = &delayStorer{Storer: genericMocks.NewStorerMock("mb", 0), seed: rng.U64(), inFlight: &inFlight}
			a = dblookupext.HistoryRepositoryArguments{SelfShardID: self,
				MiniblocksMetadataStorer: ds, MiniblockHashByTxHashStorer: genericMocks.NewStorerMock("tx", 0),
				EpochByHashStorer: genericMocks.NewStorerMock("ep", 0), EventsHashesByTxHashStorer: genericMocks.NewStorerMock("ev", 0), Marshalizer: msh, Hasher: hsh}
		}
		hr, err := dblookupext.NewHistoryRepository(a)
		if err != nil {
			r.Violation(c.Idx, "constructor", err.Error(), nil)
			return
		}
		repo = hr
	}
	r.Count(pfx+"cases storers="+storerKind, 1)

	// ---- templates: disjoint transactions, every template from or to the self shard
	var tpls []*mbTemplate
	nT := rng.Range(3, 8)
	seenHash := map[string]bool{}
	for len(tpls) < nT {
		t := &mbTemplate{id: len(tpls)}
		var peers []uint32
		for _, o := range []uint32{0, 1, 2, meta} {
			if o != self {
				peers = append(peers, o)
			}
		}
		o := peers[rng.Intn(len(peers))]
		switch x := rng.Intn(10); {
		case x < 2:
			t.src, t.dst = self, self
		case x < 6:
			t.src, t.dst = self, o
		default:
			t.src, t.dst = o, self
		}
		if t.src == meta && t.dst != meta {
			t.typ = []block.Type{block.RewardsBlock, block.SmartContractResultBlock, block.TxBlock}[rng.Intn(3)]
		} else {
			t.typ = []block.Type{block.TxBlock, block.TxBlock, block.SmartContractResultBlock, block.InvalidBlock}[rng.Intn(4)]
		}
		for k := rng.Range(1, 3); k > 0; k-- {
			t.txs = append(t.txs, []byte(fmt.Sprintf("ctx-%d-%d-%d-%x", c.Idx, t.id, k, rng.Bytes(5))))
		}
		t.mb = &block.MiniBlock{SenderShardID: t.src, ReceiverShardID: t.dst, Type: t.typ}
		for _, x := range t.txs {
			t.mb.TxHashes = append(t.mb.TxHashes, append([]byte{}, x...))
		}
		h, err := core.CalculateHash(msh, hsh, t.mb)
		if err != nil || seenHash[string(h)] {
			continue
		}
		seenHash[string(h)] = true
		t.hash = h
		tpls = append(tpls, t)
	}
	isCross := func(t *mbTemplate) bool { return t.src != t.dst && t.dst != meta }

	var ops []string
	logf := func(format string, a ...interface{}) { ops = append(ops, fmt.Sprintf(format, a...)) }
	detail := func(extra map[string]interface{}) map[string]interface{} {
		var tp []string
		for _, t := range tpls {
			var txs []string
			for _, x := range t.txs {
				txs = append(txs, string(x))
			}
			tp = append(tp, fmt.Sprintf("mb%d %s->%s type=%s hash=%x txs=%v", t.id, shardName(t.src), shardName(t.dst), t.typ.String(), t.hash[:6], txs))
		}
		m := map[string]interface{}{"phase": map[bool]string{false: "concurrent notifiers", true: "recorder racing notifiers"}[rerecord], "self_shard": shardName(self), "storers": storerKind, "templates": tp, "ops": ops}
		for k, v := range extra {
			m[k] = v
		}
		return m
	}
	reported := map[string]bool{}
	violation := func(key, what string, det map[string]interface{}) {
		r.Count("violating observations key="+key, 1)
		if reported[key] {
			return
		}
		reported[key] = true
		r.Violation(c.Idx, key, what, det)
	}

	// ---- records
	lastRec := make([]*record, len(tpls))
	nRecords := make([]int, len(tpls))
	curEpoch := uint32(0)
	height, round, hdrSeq := uint64(10), uint64(100), 0
	// a block is planned (all random choices), executed (no random choice, usable from the recorder goroutine)
	// and noted in the model
	mkBlock := func(ts []*mbTemplate) *concBlock {
		hdrSeq++
		if hdrSeq == 1 || rng.Chance(1, 2) {
			height++
		}
		round += uint64(rng.Range(1, 3))
		b := &concBlock{ts: ts, hh: []byte(fmt.Sprintf("chdr%d/e%d", hdrSeq, curEpoch)), nonce: height, round: round, epoch: curEpoch}
		if self == meta {
			b.hdr = &block.MetaBlock{Nonce: height, Round: round, Epoch: curEpoch}
		} else {
			b.hdr = &block.Header{Nonce: height, Round: round, Epoch: curEpoch, ShardID: self}
		}
		b.body = &block.Body{}
		var names []string
		for _, t := range ts {
			cp := &block.MiniBlock{SenderShardID: t.src, ReceiverShardID: t.dst, Type: t.typ}
			for _, x := range t.txs {
				cp.TxHashes = append(cp.TxHashes, append([]byte{}, x...))
			}
			b.body.MiniBlocks = append(b.body.MiniBlocks, cp)
			names = append(names, fmt.Sprintf("mb%d", t.id))
		}
		b.what = fmt.Sprintf("RecordBlock(%s nonce %d round %d epoch %d: %s)", b.hh, height, round, curEpoch, strings.Join(names, ","))
		return b
	}
	execBlock := func(b *concBlock) error {
		return repo.RecordBlock(append([]byte{}, b.hh...), b.hdr, b.body, nil, nil)
	}
	noteBlock := func(b *concBlock, err error) {
		r.Count("RecordBlock", 1)
		if err != nil {
			violation("record-error", b.what+": "+err.Error(), detail(nil))
		}
		for _, t := range b.ts {
			lastRec[t.id] = &record{headerHash: b.hh, nonce: b.nonce, round: b.round, epoch: b.epoch}
			nRecords[t.id]++
		}
	}
	epochAction := func(e uint32) {
		if ea != nil {
			ea.handler.EpochStartAction(&block.Header{Epoch: e})
			ea.ps.SetEpochForPutOperation(e)
			ea.cur = e
		}
	}
	recordBlock := func(ts []*mbTemplate) {
		b := mkBlock(ts)
		logf("%s", b.what)
		noteBlock(b, execBlock(b))
	}
	recordAll := func(ts []*mbTemplate) {
		for i := 0; i < len(ts); {
			k := rng.Range(1, 3)
			if i+k > len(ts) {
				k = len(ts) - i
			}
			recordBlock(ts[i : i+k])
			i += k
			if rng.Chance(1, 4) && curEpoch < 2 {
				curEpoch++
				logf("epoch change: current epoch %d", curEpoch)
				epochAction(curEpoch)
			}
		}
	}
	var early, late []*mbTemplate
	for _, t := range tpls {
		if rng.Chance(1, 4) {
			late = append(late, t)
		} else {
			early = append(early, t)
		}
	}
	if len(early) == 0 {
		early, late = late, nil
	}
	recordAll(early)
	// some of them are recorded again in a competing / later block
	var again []*mbTemplate
	for _, t := range early {
		if rng.Chance(1, 4) {
			again = append(again, t)
		}
	}
	if len(again) > 0 {
		recordAll(again)
	}

	// ---- plan of the notifiers
	G := rng.Range(2, 4)
	if rerecord {
		G = rng.Range(1, 3)
	}
	calls := make([][]*concCall, G)
	metaNonce := uint64(1)
	newMeta := func() *concMeta {
		metaNonce += uint64(rng.Range(1, 3))
		return &concMeta{nonce: metaNonce, hash: []byte(fmt.Sprintf("cmeta%d", metaNonce))}
	}
	for g := range calls {
		for k := rng.Range(1, 3); k > 0; k-- {
			cl := &concCall{}
			for m := rng.Range(1, 2); m > 0; m-- {
				cl.metas = append(cl.metas, newMeta())
			}
			switch x := rng.Intn(10); {
			case x < 4:
			case x < 7:
				cl.stagger = 1
			default:
				cl.stagger = rng.Range(20, 300)
			}
			calls[g] = append(calls[g], cl)
		}
	}
	pickMeta := func(g int) *concMeta {
		cl := calls[g][rng.Intn(len(calls[g]))]
		return cl.metas[rng.Intn(len(cl.metas))]
	}
	expSource := make([]*concMeta, len(tpls))
	expDest := make([]*concMeta, len(tpls))
	splitPairs := 0
	for _, t := range tpls {
		if isCross(t) {
			g1 := rng.Intn(G)
			g2 := g1
			if G > 1 && rng.Chance(3, 4) {
				g2 = (g1 + 1 + rng.Intn(G-1)) % G
			}
			if rng.Chance(9, 10) {
				m := pickMeta(g1)
				m.listings = append(m.listings, &listing{t: t, containing: t.src, sd: sideSource, mb: m})
				expSource[t.id] = m
			}
			if rng.Chance(9, 10) {
				m := pickMeta(g2)
				m.listings = append(m.listings, &listing{t: t, containing: t.dst, sd: sideDest, mb: m})
				expDest[t.id] = m
			}
			if expSource[t.id] != nil && expDest[t.id] != nil && g1 != g2 {
				splitPairs++
			}
		} else if rng.Chance(9, 10) {
			cc := t.src
			if t.dst == meta && rng.Bool() {
				cc = meta
			}
			m := pickMeta(rng.Intn(G))
			m.listings = append(m.listings, &listing{t: t, containing: cc, sd: sideBoth, mb: m})
			expSource[t.id], expDest[t.id] = m, m
		}
	}
	for g := range calls {
		for _, cl := range calls[g] {
			for _, m := range cl.metas {
				m.hdr = &block.MetaBlock{Nonce: m.nonce, Round: round, Epoch: curEpoch}
				for _, l := range m.listings {
					mbh := block.MiniBlockHeader{Hash: append([]byte{}, l.t.hash...), SenderShardID: l.t.src, ReceiverShardID: l.t.dst, Type: l.t.typ, TxCount: uint32(len(l.t.txs))}
					if l.containing == meta {
						m.hdr.MiniBlockHeaders = append(m.hdr.MiniBlockHeaders, mbh)
					} else {
						m.hdr.ShardInfo = append(m.hdr.ShardInfo, block.ShardData{ShardID: l.containing, HeaderHash: []byte("sh"), ShardMiniBlockHeaders: []block.MiniBlockHeader{mbh}})
					}
				}
			}
		}
	}
	// a meta block may reach the repository through two notifiers (the same header and hash)
	for g := range calls {
		if G > 1 && rng.Chance(1, 4) {
			o := (g + 1 + rng.Intn(G-1)) % G
			src := calls[o][rng.Intn(len(calls[o]))]
			cl := calls[g][rng.Intn(len(calls[g]))]
			cl.metas = append(cl.metas, src.metas[rng.Intn(len(src.metas))])
			r.Count(pfx+"meta block delivered by two notifiers", 1)
		}
	}
	for g := range calls {
		for k, cl := range calls[g] {
			var d []string
			for _, m := range cl.metas {
				var ls []string
				for _, l := range m.listings {
					ls = append(ls, fmt.Sprintf("mb%d under shard %s (%s)", l.t.id, shardName(l.containing), []string{"source", "destination", "both"}[l.sd]))
				}
				d = append(d, fmt.Sprintf("meta nonce %d [%s]", m.nonce, strings.Join(ls, ", ")))
			}
			logf("notifier %d call %d (stagger %d): OnNotarizedBlocks(%s)", g, k, cl.stagger, strings.Join(d, "; "))
		}
	}

	// ---- plan of the recorder: 2..5 blocks, each with 1..3 miniblocks: already on record (a competing block commits
	// them again under another header hash), not yet on record, or recorded by an earlier block of this plan
	reRecConc := make([]bool, len(tpls))    // recorded during the concurrent phase while already on record
	firstRecConc := make([]bool, len(tpls)) // recorded for the first time during the concurrent phase
	var plan []*concBlock
	raced := 0 // miniblocks recorded again during the concurrent phase that have a listing
	if rerecord {
		onRecord := make([]bool, len(tpls))
		for _, t := range early {
			onRecord[t.id] = true
		}
		for nB := rng.Range(2, 5); nB > 0; nB-- {
			epochBefore := false
			if rng.Chance(1, 3) && curEpoch < 2 {
				curEpoch++
				epochBefore = true
			}
			used := map[int]bool{}
			var ts []*mbTemplate
			for k := rng.Range(1, 3); k > 0; k-- {
				t := tpls[rng.Intn(len(tpls))]
				if rng.Chance(2, 3) { // prefer one that is on record
					for tries := 0; tries < 4 && !onRecord[t.id]; tries++ {
						t = tpls[rng.Intn(len(tpls))]
					}
				}
				if used[t.id] {
					continue
				}
				used[t.id] = true
				ts = append(ts, t)
			}
			b := mkBlock(ts)
			b.epochBefore = epochBefore
			switch x := rng.Intn(10); {
			case x < 4:
			case x < 7:
				b.stagger = 1
			default:
				b.stagger = rng.Range(20, 300)
			}
			for _, t := range ts {
				if onRecord[t.id] {
					reRecConc[t.id] = true
				} else {
					firstRecConc[t.id] = true
				}
				onRecord[t.id] = true
			}
			plan = append(plan, b)
			ep := ""
			if epochBefore {
				ep = fmt.Sprintf("epoch change to %d, then ", curEpoch)
			}
			logf("recorder block %d (stagger %d): %s%s", len(plan)-1, b.stagger, ep, b.what)
		}
		for _, t := range tpls {
			if reRecConc[t.id] && (expSource[t.id] != nil || expDest[t.id] != nil) {
				raced++
			}
		}
		// the miniblocks left for the sequential record after the concurrent phase
		var rest []*mbTemplate
		for _, t := range late {
			if !onRecord[t.id] {
				rest = append(rest, t)
			}
		}
		late = rest
	}

	// ---- concurrent phase
	atomic.StoreInt32(&ds.on, 1)
	start := make(chan struct{})
	var wg sync.WaitGroup
	var maxInFlight int32
	nCalls := 0
	planErr := make([]error, len(plan))
	if len(plan) > 0 {
		wg.Add(1)
		go func() {
			defer wg.Done()
			<-start
			for i, b := range plan {
				switch {
				case b.stagger == 1:
					runtime.Gosched()
				case b.stagger > 1:
					time.Sleep(time.Duration(b.stagger) * time.Microsecond)
				}
				if b.epochBefore {
					epochAction(b.epoch)
				}
				atomic.AddInt32(&inFlight, 1)
				planErr[i] = execBlock(b)
				atomic.AddInt32(&inFlight, -1)
			}
		}()
	}
	for g := range calls {
		nCalls += len(calls[g])
		wg.Add(1)
		go func(my []*concCall) {
			defer wg.Done()
			<-start
			for _, cl := range my {
				switch {
				case cl.stagger == 1:
					runtime.Gosched()
				case cl.stagger > 1:
					time.Sleep(time.Duration(cl.stagger) * time.Microsecond)
				}
				hdrs := make([]data.HeaderHandler, 0, len(cl.metas))
				hashes := make([][]byte, 0, len(cl.metas))
				for _, m := range cl.metas {
					hdrs = append(hdrs, m.hdr)
					hashes = append(hashes, append([]byte{}, m.hash...))
				}
				n := atomic.AddInt32(&inFlight, 1)
				for {
					old := atomic.LoadInt32(&maxInFlight)
					if n <= old || atomic.CompareAndSwapInt32(&maxInFlight, old, n) {
						break
					}
				}
				repo.OnNotarizedBlocks(meta, hdrs, hashes)
				atomic.AddInt32(&inFlight, -1)
			}
		}(calls[g])
	}
	close(start)
	wg.Wait()
	atomic.StoreInt32(&ds.on, 0)
	logf("all notifiers returned")
	for i, b := range plan {
		noteBlock(b, planErr[i])
	}
	if rerecord {
		logf("the recorder returned")
		r.Count(pfx+"RecordBlock calls racing notifiers", len(plan))
		r.Count(pfx+"notified miniblocks recorded again while notifiers ran", raced)
		nFirst := 0
		for _, f := range firstRecConc {
			if f {
				nFirst++
			}
		}
		r.Count(pfx+"miniblocks recorded for the first time while notifiers ran", nFirst)
	}
	r.Count(pfx+"OnNotarizedBlocks calls", nCalls)
	r.Count(pfx+"notifier goroutines", G)
	r.Count(pfx+"cross-shard miniblocks with source and destination listing on different notifiers", splitPairs)
	r.Count(pfx+"metadata storer operations while 2+ calls (OnNotarizedBlocks, RecordBlock) were in flight", int(atomic.LoadInt64(&ds.overlap)))
	r.Count(pfx+"injected sleeps", int(atomic.LoadInt64(&ds.pauses)))
	r.Max(pfx+"max OnNotarizedBlocks calls in flight", int64(maxInFlight))

	// ---- quiescence: one further (empty) call, then the oracle
	isLate := make([]bool, len(tpls))
	for _, t := range late {
		isLate[t.id] = true
	}
	quiet := "after the concurrent notifiers and one empty call"
	if rerecord {
		quiet = "after the recorder and the notifiers returned and one empty call"
	}
	check := func(after string) {
		for _, t := range tpls {
			exp := lastRec[t.id]
			if exp == nil {
				continue
			}
			// witness class: the miniblock was on record while the notifiers ran, or was recorded after they returned
			class := "concurrent-notifiers"
			switch {
			case reRecConc[t.id]:
				class = "concurrent-rerecord" // a competing block recorded it again while notifiers ran
			case firstRecConc[t.id]:
				class = "concurrent-first-record" // first record while notifiers ran
			case isLate[t.id]:
				class = "concurrent-notifiers+late-record"
			}
			if e, err := repo.GetEpochByHash(t.hash); err != nil || e != exp.epoch {
				violation("epoch-by-hash class="+class, fmt.Sprintf("%s: GetEpochByHash(mb%d) = %d, %v; last recorded in epoch %d", after, t.id, e, err, exp.epoch), detail(nil))
			}
			r.Eval(1)
			for _, x := range t.txs {
				md, err := repo.GetMiniblockMetadataByTxHash(x)
				r.Eval(1)
				if err != nil {
					violation("lookup-error class="+class, fmt.Sprintf("%s: GetMiniblockMetadataByTxHash(%s) of a recorded transaction failed: %v", after, x, err), detail(map[string]interface{}{"tx": string(x)}))
					continue
				}
				if !bytes.Equal(md.MiniblockHash, t.hash) || !bytes.Equal(md.HeaderHash, exp.headerHash) || md.HeaderNonce != exp.nonce || md.Round != exp.round || md.Epoch != exp.epoch ||
					md.SourceShardID != t.src || md.DestinationShardID != t.dst || md.Type != int32(t.typ) {
					violation("wrong-block class="+class, fmt.Sprintf("%s: tx %s in mb%d: last recorded in header %s (nonce %d, round %d, epoch %d), lookup reports miniblock %x header %s (nonce %d, round %d, epoch %d) %d->%d type %d",
						after, x, t.id, exp.headerHash, exp.nonce, exp.round, exp.epoch, md.MiniblockHash, md.HeaderHash, md.HeaderNonce, md.Round, md.Epoch, md.SourceShardID, md.DestinationShardID, md.Type), detail(map[string]interface{}{"tx": string(x)}))
					continue
				}
				one := func(name string, m *concMeta, gotNonce uint64, gotHash []byte) {
					r.Eval(1)
					if m == nil {
						if gotNonce != 0 || len(gotHash) != 0 {
							violation("notarization-unexpected class="+class, fmt.Sprintf("%s: mb%d reports notarization at %s (meta nonce %d) but no such notification was delivered", after, t.id, name, gotNonce), detail(nil))
						}
						return
					}
					if gotNonce == m.nonce && bytes.Equal(gotHash, m.hash) {
						r.Count(pfx+"notarization coordinates confirmed", 1)
						return
					}
					if gotNonce != 0 || len(gotHash) != 0 {
						violation("notarization-wrong class="+class, fmt.Sprintf("%s: mb%d notarized at %s by meta block nonce %d hash %s, lookup reports nonce %d hash %s", after, t.id, name, m.nonce, m.hash, gotNonce, gotHash), detail(nil))
						return
					}
					violation("notarization-missing class="+class,
						fmt.Sprintf("%s: mb%d (%s->%s) was notarized at %s by meta block nonce %d; every notifier has returned and a further OnNotarizedBlocks call was made, the lookup of tx %s still reports no notarization at %s (reported: source nonce %d, destination nonce %d)",
							after, t.id, shardName(t.src), shardName(t.dst), name, m.nonce, x, name, md.NotarizedAtSourceInMetaNonce, md.NotarizedAtDestinationInMetaNonce),
						detail(map[string]interface{}{"tx": string(x)}))
				}
				one("source", expSource[t.id], md.NotarizedAtSourceInMetaNonce, md.NotarizedAtSourceInMetaHash)
				one("destination", expDest[t.id], md.NotarizedAtDestinationInMetaNonce, md.NotarizedAtDestinationInMetaHash)
			}
		}
	}
	repo.OnNotarizedBlocks(meta, []data.HeaderHandler{}, [][]byte{})
	logf("OnNotarizedBlocks(empty)")
	check(quiet)
	if len(late) > 0 {
		recordAll(late)
		repo.OnNotarizedBlocks(meta, []data.HeaderHandler{}, [][]byte{})
		logf("OnNotarizedBlocks(empty)")
		check("after the record of the miniblocks notified before their record and one empty call")
	}

	// ---- shape
	nCross, nBoth, nRe := 0, 0, 0
	for _, t := range tpls {
		if isCross(t) {
			nCross++
		} else {
			nBoth++
		}
		if nRecords[t.id] > 1 {
			nRe++
		}
	}
	if rerecord {
		if raced == 0 {
			r.Trivial()
		} else {
			selfKind := "shard"
			if self == meta {
				selfKind = "meta"
			}
			nEp := 0
			for _, b := range plan {
				if b.epochBefore {
					nEp++
				}
			}
			nFirst := 0
			for _, f := range firstRecConc {
				if f {
					nFirst++
				}
			}
			r.Shape(fmt.Sprintf("rerecord %s %s notifiers=%d calls=%d blocks=%d epochchanges=%d cross=%d both=%d raced=%d first=%d late=%d", selfKind, storerKind, G, nCalls, len(plan), nEp, nCross, nBoth, raced, nFirst, len(late)))
		}
	} else if splitPairs == 0 || maxInFlight < 2 {
		r.Trivial()
	} else {
		selfKind := "shard"
		if self == meta {
			selfKind = "meta"
		}
		r.Shape(fmt.Sprintf("concurrent %s %s notifiers=%d calls=%d cross=%d both=%d split=%d late=%d rerecorded=%d", selfKind, storerKind, G, nCalls, nCross, nBoth, splitPairs, len(late), nRe))
	}
	if r.NeedSample() && c.Idx%97 == 0 {
		r.Sample(detail(nil))
	}
}
