package main

// A small protobuf wire-format toolkit: parse a message into its fields, re-encode it with
// non-canonical choices (field order, padded varints, extra fields), and a schema derived by
// reflection from the `protobuf:"..."` struct tags of the generated gogo types.

import (
	"errors"
	"reflect"
	"sort"
	"strconv"
	"strings"

	"verif/internal/vk"
)

type fld struct {
	num    uint64
	wt     int
	val    uint64 // wt 0
	raw    []byte // wt 1 (8 bytes), wt 5 (4 bytes), wt 2 (content without the length prefix)
	tagPad int    // extra (redundant) bytes in the tag varint
	valPad int    // extra bytes in the value varint (wt 0)
	lenPad int    // extra bytes in the length varint (wt 2)
	voff   int    // byte range [voff,vend) of the VALUE inside the parsed buffer (varint bytes, fixed bytes,
	vend   int    // or the content of a length-delimited field without its length prefix)
}

var errWire = errors.New("bad wire data")

func readVarint(b []byte, i int) (uint64, int, error) {
	var v uint64
	for shift := uint(0); shift < 64; shift += 7 {
		if i >= len(b) {
			return 0, 0, errWire
		}
		c := b[i]
		i++
		v |= uint64(c&0x7f) << shift
		if c < 0x80 {
			return v, i, nil
		}
	}
	return 0, 0, errWire
}

func parseMsg(b []byte) ([]fld, error) {
	var out []fld
	i := 0
	for i < len(b) {
		tag, j, err := readVarint(b, i)
		if err != nil {
			return nil, err
		}
		i = j
		f := fld{num: tag >> 3, wt: int(tag & 7)}
		if f.num == 0 {
			return nil, errWire
		}
		switch f.wt {
		case 0:
			f.voff = i
			f.val, i, err = readVarint(b, i)
			if err != nil {
				return nil, err
			}
			f.vend = i
		case 1:
			if i+8 > len(b) {
				return nil, errWire
			}
			f.raw = append([]byte(nil), b[i:i+8]...)
			f.voff, f.vend = i, i+8
			i += 8
		case 5:
			if i+4 > len(b) {
				return nil, errWire
			}
			f.raw = append([]byte(nil), b[i:i+4]...)
			f.voff, f.vend = i, i+4
			i += 4
		case 2:
			l, j, err := readVarint(b, i)
			if err != nil {
				return nil, err
			}
			i = j
			if l > uint64(len(b)-i) {
				return nil, errWire
			}
			f.raw = append([]byte(nil), b[i:i+int(l)]...)
			f.voff, f.vend = i, i+int(l)
			i += int(l)
		default:
			return nil, errWire
		}
		out = append(out, f)
	}
	return out, nil
}

func appendVarint(dst []byte, v uint64, pad int) []byte {
	n := 0
	for {
		c := byte(v & 0x7f)
		v >>= 7
		n++
		if v == 0 {
			if pad > 0 && n+pad <= 10 {
				dst = append(dst, c|0x80)
				for k := 1; k < pad; k++ {
					dst = append(dst, 0x80)
				}
				dst = append(dst, 0x00)
			} else {
				dst = append(dst, c)
			}
			return dst
		}
		dst = append(dst, c|0x80)
	}
}

func encodeMsg(fs []fld) []byte {
	var out []byte
	for _, f := range fs {
		out = appendVarint(out, f.num<<3|uint64(f.wt), f.tagPad)
		switch f.wt {
		case 0:
			out = appendVarint(out, f.val, f.valPad)
		case 1, 5:
			out = append(out, f.raw...)
		case 2:
			out = appendVarint(out, uint64(len(f.raw)), f.lenPad)
			out = append(out, f.raw...)
		}
	}
	return out
}

// ---------------------------------------------------------------------------------------
// schema

type fsch struct {
	num    int
	name   string
	kind   string // varint | bytes | fixed32 | fixed64 | zigzag32 | zigzag64
	rep    bool
	msg    *msch
	bits32 bool // go type is a 32-bit (or smaller) integer / bool
	bigint bool
}

type msch struct {
	name   string
	fields map[int]*fsch
	nums   []int
}

var schemaCache = map[reflect.Type]*msch{}

func schemaOf(t reflect.Type) *msch {
	for t.Kind() == reflect.Ptr || t.Kind() == reflect.Slice {
		t = t.Elem()
	}
	if s, ok := schemaCache[t]; ok {
		return s
	}
	if t.Kind() != reflect.Struct {
		return nil
	}
	s := &msch{name: t.Name(), fields: map[int]*fsch{}}
	schemaCache[t] = s
	for i := 0; i < t.NumField(); i++ {
		sf := t.Field(i)
		tag := sf.Tag.Get("protobuf")
		if tag == "" {
			continue
		}
		parts := strings.Split(tag, ",")
		if len(parts) < 3 {
			continue
		}
		num, err := strconv.Atoi(parts[1])
		if err != nil {
			continue
		}
		f := &fsch{num: num, name: sf.Name, kind: parts[0], rep: parts[2] == "rep", bigint: strings.Contains(tag, "math/big.Int")}
		ft := sf.Type
		if ft.Kind() == reflect.Slice && ft.Elem().Kind() != reflect.Uint8 {
			ft = ft.Elem()
		}
		for ft.Kind() == reflect.Ptr {
			ft = ft.Elem()
		}
		switch ft.Kind() {
		case reflect.Struct:
			if !f.bigint && f.kind == "bytes" {
				f.msg = schemaOf(ft)
				if f.msg != nil && len(f.msg.fields) == 0 {
					f.msg = nil
				}
			}
		case reflect.Uint32, reflect.Int32, reflect.Bool, reflect.Uint16, reflect.Uint8, reflect.Int16, reflect.Int8:
			f.bits32 = true
		}
		s.fields[num] = f
		s.nums = append(s.nums, num)
	}
	sort.Ints(s.nums)
	if len(s.fields) == 0 {
		delete(schemaCache, t)
		return nil
	}
	return s
}

// ---------------------------------------------------------------------------------------
// mutations. Every function returns the new field list and a sub-kind label ("" = not applicable).

const (
	clsReorder     = "reorder"
	clsUnknown     = "unknown-field" // split into -within-delta / -beyond-delta by the caller
	clsNonMinimal  = "non-minimal-varint"
	clsExplicitDef = "explicit-default"
	clsRepeated    = "repeated-scalar"
	clsEmptyLD     = "empty-length-delimited"
	clsHighBits    = "varint-high-bits"
	clsBigInt      = "bigint-leading-zeros"
)

var allClasses = []string{clsReorder, clsUnknown, clsNonMinimal, clsExplicitDef, clsRepeated, clsEmptyLD, clsHighBits, clsBigInt}

type mutCtx struct {
	rng      *vk.Rand
	class    string
	topSize  int // size of the canonical top-level encoding (to scale unknown payloads)
	unkMode  int // for clsUnknown: 0 tiny, 1 just within 10%, 2 beyond 10%, 3 huge, 4 one bytes field that grows the encoding by about `grow` bytes
	grow     int
	maxDepth int
}

// mutate applies the class once somewhere in the message tree; returns new bytes, sub-kind, depth.
func mutate(b []byte, s *msch, ctx *mutCtx, depth int) ([]byte, string, int) {
	fs, err := parseMsg(b)
	if err != nil {
		return nil, "", 0
	}
	// descend?
	var nested []int
	if s != nil {
		for i, f := range fs {
			if sc := s.fields[int(f.num)]; sc != nil && sc.msg != nil && f.wt == 2 {
				nested = append(nested, i)
			}
		}
	}
	if len(nested) > 0 && depth < ctx.maxDepth && ctx.rng.Chance(1, 3) {
		i := nested[ctx.rng.Intn(len(nested))]
		nb, sub, d := mutate(fs[i].raw, s.fields[int(fs[i].num)].msg, ctx, depth+1)
		if sub != "" {
			fs[i].raw = nb
			return encodeMsg(fs), sub, d
		}
	}
	nfs, sub := mutateLevel(fs, s, ctx)
	if sub == "" {
		return nil, "", 0
	}
	return encodeMsg(nfs), sub, depth
}

func mutateLevel(fs []fld, s *msch, ctx *mutCtx) ([]fld, string) {
	rng := ctx.rng
	switch ctx.class {
	case clsReorder:
		distinct := map[uint64]bool{}
		for _, f := range fs {
			distinct[f.num] = true
		}
		if len(distinct) < 2 {
			return nil, ""
		}
		switch rng.Intn(3) {
		case 0: // reverse the order of the field-number groups, keeping the order inside a group
			var order []uint64
			seen := map[uint64]bool{}
			for _, f := range fs {
				if !seen[f.num] {
					seen[f.num] = true
					order = append(order, f.num)
				}
			}
			var out []fld
			for k := len(order) - 1; k >= 0; k-- {
				for _, f := range fs {
					if f.num == order[k] {
						out = append(out, f)
					}
				}
			}
			return out, "reverse"
		case 1: // swap two adjacent fields with different numbers
			var cand []int
			for i := 0; i+1 < len(fs); i++ {
				if fs[i].num != fs[i+1].num {
					cand = append(cand, i)
				}
			}
			if len(cand) == 0 {
				return nil, ""
			}
			i := cand[rng.Intn(len(cand))]
			out := append([]fld(nil), fs...)
			out[i], out[i+1] = out[i+1], out[i]
			return out, "swap-adjacent"
		default: // move one field group member to the end, never crossing a field with the same number
			i := rng.Intn(len(fs))
			for j := i + 1; j < len(fs); j++ {
				if fs[j].num == fs[i].num {
					return nil, ""
				}
			}
			if i == len(fs)-1 {
				return nil, ""
			}
			out := append([]fld(nil), fs[:i]...)
			out = append(out, fs[i+1:]...)
			out = append(out, fs[i])
			return out, "move-to-end"
		}

	case clsUnknown:
		if s == nil {
			return nil, ""
		}
		num := uint64(0)
		for try := 0; try < 50 && num == 0; try++ {
			c := uint64(1 + rng.Intn(15))
			if rng.Chance(1, 4) {
				c = uint64(16 + rng.Intn(3000))
			}
			if s.fields[int(c)] == nil {
				num = c
			}
		}
		if num == 0 {
			num = 4001
		}
		var nf fld
		sub := ""
		switch ctx.unkMode {
		case 0:
			if rng.Bool() {
				nf = fld{num: num, wt: 0, val: uint64(rng.Intn(100))}
				sub = "tiny-varint"
			} else {
				nf = fld{num: num, wt: 2, raw: rng.Bytes(rng.Intn(3))}
				sub = "tiny-bytes"
			}
		case 1:
			n := ctx.topSize*8/100 - 3
			if n < 0 {
				n = 0
			}
			nf = fld{num: num, wt: 2, raw: rng.Bytes(n)}
			sub = "bytes-8pct"
		case 2:
			nf = fld{num: num, wt: 2, raw: rng.Bytes(ctx.topSize*12/100 + 2)}
			sub = "bytes-12pct"
		case 4:
			n := ctx.grow - 2 // tag + length prefix
			if num >= 16 {
				n--
			}
			if n >= 128 {
				n--
			}
			if n < 0 {
				n = 0
			}
			nf = fld{num: num, wt: 2, raw: rng.Bytes(n)}
			sub = "bytes-sized"
		default:
			if rng.Bool() {
				n := ctx.topSize + rng.Intn(ctx.topSize+1)
				if ctx.topSize < 16 {
					n += 8 + rng.Intn(60) // tiny or empty objects: still a sizeable blob
				}
				nf = fld{num: num, wt: 2, raw: rng.Bytes(n)}
				sub = "bytes-100pct"
			} else {
				nf = fld{num: num, wt: 1, raw: rng.Bytes(8)}
				sub = "fixed64"
			}
		}
		pos := len(fs)
		if rng.Chance(1, 3) {
			pos = rng.Intn(len(fs) + 1)
			sub += "-inserted"
		} else {
			sub += "-appended"
		}
		out := append([]fld(nil), fs[:pos]...)
		out = append(out, nf)
		out = append(out, fs[pos:]...)
		return out, sub

	case clsNonMinimal:
		if len(fs) == 0 {
			return nil, ""
		}
		out := append([]fld(nil), fs...)
		pad := 1 + rng.Intn(2)
		switch rng.Intn(3) {
		case 0:
			var cand []int
			for i, f := range fs {
				if f.wt == 0 {
					cand = append(cand, i)
				}
			}
			if len(cand) == 0 {
				return nil, ""
			}
			out[cand[rng.Intn(len(cand))]].valPad = pad
			return out, "value"
		case 1:
			out[rng.Intn(len(out))].tagPad = pad
			return out, "tag"
		default:
			var cand []int
			for i, f := range fs {
				if f.wt == 2 {
					cand = append(cand, i)
				}
			}
			if len(cand) == 0 {
				return nil, ""
			}
			out[cand[rng.Intn(len(cand))]].lenPad = pad
			return out, "length"
		}

	case clsHighBits:
		if s == nil {
			return nil, ""
		}
		var cand []int
		for i, f := range fs {
			if sc := s.fields[int(f.num)]; sc != nil && f.wt == 0 && sc.bits32 && sc.kind == "varint" {
				cand = append(cand, i)
			}
		}
		if len(cand) == 0 {
			return nil, ""
		}
		out := append([]fld(nil), fs...)
		i := cand[rng.Intn(len(cand))]
		if rng.Bool() {
			out[i].val |= uint64(1) << uint(32+rng.Intn(3)) // smallest growth
		} else {
			out[i].val |= uint64(1) << uint(32+rng.Intn(31))
		}
		return out, "uint32-bit>=32"

	case clsExplicitDef, clsEmptyLD:
		if s == nil {
			return nil, ""
		}
		present := map[int]bool{}
		for _, f := range fs {
			present[int(f.num)] = true
		}
		var cand []*fsch
		for _, n := range s.nums {
			sc := s.fields[n]
			if present[n] || sc.rep {
				continue
			}
			isScalar := sc.kind == "varint" || sc.kind == "fixed32" || sc.kind == "fixed64" || sc.kind == "zigzag32" || sc.kind == "zigzag64"
			if ctx.class == clsExplicitDef && isScalar {
				cand = append(cand, sc)
			}
			if ctx.class == clsEmptyLD && sc.kind == "bytes" {
				cand = append(cand, sc)
			}
		}
		if len(cand) == 0 {
			return nil, ""
		}
		sc := cand[rng.Intn(len(cand))]
		var nf fld
		switch sc.kind {
		case "fixed32":
			nf = fld{num: uint64(sc.num), wt: 5, raw: make([]byte, 4)}
		case "fixed64":
			nf = fld{num: uint64(sc.num), wt: 1, raw: make([]byte, 8)}
		case "bytes":
			nf = fld{num: uint64(sc.num), wt: 2}
		default:
			nf = fld{num: uint64(sc.num), wt: 0, val: 0}
		}
		// insert at its sorted position (so that only the extra field distinguishes the encodings)
		pos := len(fs)
		for i, f := range fs {
			if int(f.num) > sc.num {
				pos = i
				break
			}
		}
		out := append([]fld(nil), fs[:pos]...)
		out = append(out, nf)
		out = append(out, fs[pos:]...)
		return out, sc.kind

	case clsRepeated:
		if s == nil {
			return nil, ""
		}
		var cand []int
		for i, f := range fs {
			sc := s.fields[int(f.num)]
			if sc == nil || sc.rep || sc.msg != nil {
				continue
			}
			cand = append(cand, i)
		}
		if len(cand) == 0 {
			return nil, ""
		}
		i := cand[rng.Intn(len(cand))]
		decoy := fs[i]
		sub := ""
		switch decoy.wt {
		case 0:
			decoy.val = decoy.val ^ uint64(1+rng.Intn(3))
			sub = "varint"
		case 2:
			decoy.raw = rng.Bytes(rng.Intn(3))
			if s.fields[int(decoy.num)].bigint {
				decoy.raw = []byte{0, byte(1 + rng.Intn(200))}
			}
			sub = "bytes"
		default:
			decoy.raw = rng.Bytes(len(decoy.raw))
			sub = "fixed"
		}
		out := append([]fld(nil), fs[:i]...)
		out = append(out, decoy)
		out = append(out, fs[i:]...)
		return out, sub

	case clsBigInt:
		if s == nil {
			return nil, ""
		}
		var cand []int
		for i, f := range fs {
			if sc := s.fields[int(f.num)]; sc != nil && sc.bigint && f.wt == 2 && len(f.raw) >= 2 {
				cand = append(cand, i)
			}
		}
		if len(cand) == 0 {
			return nil, ""
		}
		out := append([]fld(nil), fs...)
		i := cand[rng.Intn(len(cand))]
		raw := out[i].raw
		nr := []byte{raw[0]}
		for k := 0; k <= rng.Intn(2); k++ {
			nr = append(nr, 0)
		}
		nr = append(nr, raw[1:]...)
		out[i].raw = nr
		return out, "magnitude-leading-zero"
	}
	return nil, ""
}

// ---------------------------------------------------------------------------------------
// siblings: buffers that differ from b in exactly one byte inside a VALUE (never a tag or a length)

type sibling struct {
	buf  []byte
	pos  int
	what string
}

func siblings(b []byte, s *msch) []sibling {
	fs, err := parseMsg(b)
	if err != nil || len(fs) == 0 {
		return nil
	}
	var out []sibling
	seen := map[int]bool{}
	add := func(pos int, what string) {
		if pos < 0 || pos >= len(b) || seen[pos] {
			return
		}
		seen[pos] = true
		nb := append([]byte(nil), b...)
		nb[pos] ^= 0x01
		out = append(out, sibling{nb, pos, what})
	}
	known := func(f fld) *fsch {
		if s == nil {
			return nil
		}
		return s.fields[int(f.num)]
	}
	// (1) the last byte of the buffer, when it belongs to a value
	if last := fs[len(fs)-1]; last.vend > last.voff && last.vend == len(b) {
		add(last.vend-1, "last byte of the buffer")
	}
	// (2) the tail of the last known plain bytes field (e.g. the signature), and of the last known scalar
	for i := len(fs) - 1; i >= 0; i-- {
		if sc := known(fs[i]); sc != nil && sc.msg == nil && fs[i].wt == 2 && fs[i].vend > fs[i].voff {
			add(fs[i].vend-1, "tail of field "+sc.name)
			break
		}
	}
	for i := len(fs) - 1; i >= 0; i-- {
		if sc := known(fs[i]); sc != nil && fs[i].wt == 0 {
			add(fs[i].vend-1, "last byte of varint field "+sc.name)
			break
		}
	}
	// (3) a value byte in the middle of the buffer
	mid := len(b) / 2
	for _, f := range fs {
		if f.vend <= f.voff || f.vend <= mid {
			continue
		}
		pos := mid
		if pos < f.voff {
			pos = f.voff
		}
		name := "?"
		if sc := known(f); sc != nil {
			name = sc.name
		}
		add(pos, "middle of the buffer (field "+name+")")
		break
	}
	return out
}
