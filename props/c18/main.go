// C18 — two accepted encodings that decode to the same content must have the same Hash().
// Monitor shape: metamorphic test on encodings. For every intercepted data type a valid object is
// built (headers carry real BLS signatures, transactions a real ed25519 signature), marshalled
// canonically, and non-canonical protobuf encodings of the SAME content are derived (wire.go). Both are fed
// to the real NewIntercepted... constructors + CheckValidity with the marshalizer wiring of the
// interceptors container (SizeCheckUnmarshalizer with the production delta of 10 %, and without it).
// Oracle: accepted(E) and accepted(E') and remarshal(decode(E')) == E  =>  Hash(E') == Hash(E).
// Secondary: constructor-accepted byte strings of different content never share a hash (siblings of the
// canonical encoding and of every accepted mutant, one value byte changed).
package main

import (
	"bytes"
	stded25519 "crypto/ed25519"
	"fmt"
	"math/big"
	"os"
	"reflect"
	"strings"
	gosync "sync"

	logger "github.com/ElrondNetwork/elrond-go-logger"
	"github.com/ElrondNetwork/elrond-go/core"
	"github.com/ElrondNetwork/elrond-go/core/versioning"
	"github.com/ElrondNetwork/elrond-go/crypto"
	"github.com/ElrondNetwork/elrond-go/crypto/signing"
	"github.com/ElrondNetwork/elrond-go/crypto/signing/ed25519"
	edsig "github.com/ElrondNetwork/elrond-go/crypto/signing/ed25519/singlesig"
	"github.com/ElrondNetwork/elrond-go/crypto/signing/mcl"
	llsig "github.com/ElrondNetwork/elrond-go/crypto/signing/mcl/multisig"
	blssig "github.com/ElrondNetwork/elrond-go/crypto/signing/mcl/singlesig"
	"github.com/ElrondNetwork/elrond-go/crypto/signing/multisig"
	"github.com/ElrondNetwork/elrond-go/data"
	"github.com/ElrondNetwork/elrond-go/data/block"
	"github.com/ElrondNetwork/elrond-go/data/rewardTx"
	"github.com/ElrondNetwork/elrond-go/data/smartContractResult"
	"github.com/ElrondNetwork/elrond-go/data/transaction"
	"github.com/ElrondNetwork/elrond-go/hashing"
	"github.com/ElrondNetwork/elrond-go/hashing/blake2b"
	"github.com/ElrondNetwork/elrond-go/marshal"
	"github.com/ElrondNetwork/elrond-go/process"
	"github.com/ElrondNetwork/elrond-go/process/block/interceptedBlocks"
	"github.com/ElrondNetwork/elrond-go/process/headerCheck"
	interceptorFactory "github.com/ElrondNetwork/elrond-go/process/interceptors/factory"
	"github.com/ElrondNetwork/elrond-go/process/mock"
	"github.com/ElrondNetwork/elrond-go/process/rewardTransaction"
	txproc "github.com/ElrondNetwork/elrond-go/process/transaction"
	"github.com/ElrondNetwork/elrond-go/process/unsigned"
	"github.com/ElrondNetwork/elrond-go/sharding"
	"github.com/ElrondNetwork/elrond-go/testscommon"
	"verif/internal/vk"
)

const sizeCheckDelta = 10 // cmd/node/config/config.toml [Marshalizer] SizeCheckDelta

type interceptedData interface {
	Hash() []byte
	CheckValidity() error
}

type tspec struct {
	name      string
	schema    *msch
	gen       func(rng *vk.Rand) interface{}
	minimal   func(rng *vk.Rand) interface{} // degenerate content: only what constructor + CheckValidity insist on
	empty     func() interface{}
	intercept func(buf []byte, m marshal.Marshalizer) (interceptedData, error)
}

type env struct {
	plain  marshal.Marshalizer
	onM    marshal.Marshalizer
	hasher hashing.Hasher
	coord  sharding.Coordinator

	// BLS consensus group for headers
	blsKg      crypto.KeyGenerator
	blsSks     []crypto.PrivateKey
	blsPks     []string
	llSigner   *llsig.BlsMultiSigner
	blsSingle  *blssig.BlsSingleSigner
	hsv        *headerCheck.HeaderSigVerifier
	hdrIntegr  process.HeaderIntegrityVerifier
	attester   process.ValidityAttester
	epochStart process.EpochStartTriggerHandler

	// ed25519 for transactions
	edKg     crypto.KeyGenerator
	edSigner *edsig.Ed25519Signer
	edSks    []crypto.PrivateKey
	edPks    [][]byte
	pubConv  core.PubkeyConverter
	signMsh  marshal.Marshalizer

	multiSig crypto.MultiSigner
	fakeSig  bool // light objects for the concurrent phase: headers get syntactic placeholders instead of BLS signatures
}

func newEnv(seed uint64) (*env, error) {
	e := &env{plain: &marshal.GogoProtoMarshalizer{}, hasher: blake2b.NewBlake2b(), signMsh: &marshal.JsonMarshalizer{}}
	e.onM = marshal.NewSizeCheckUnmarshalizer(e.plain, sizeCheckDelta)
	var err error
	e.coord, err = sharding.NewMultiShardCoordinator(3, 0)
	if err != nil {
		return nil, err
	}
	rng := vk.NewRand(seed ^ 0xc18c18)
	// BLS group of 3
	e.blsKg = signing.NewKeyGenerator(mcl.NewSuiteBLS12())
	msHasher, err := blake2b.NewBlake2bWithSize(multisig.BlsHashSize)
	if err != nil {
		return nil, err
	}
	e.llSigner = &llsig.BlsMultiSigner{Hasher: msHasher}
	e.blsSingle = blssig.NewBlsSigner()
	var validators []sharding.Validator
	for len(e.blsSks) < 3 {
		b := rng.Bytes(32)
		b[0] &= 0x3f
		b[31] &= 0x3f
		b[1] |= 1
		sk, err := e.blsKg.PrivateKeyFromByteArray(b)
		if err != nil {
			continue
		}
		pkb, err := sk.GeneratePublic().ToByteArray()
		if err != nil {
			continue
		}
		v, _ := sharding.NewValidator(pkb, 1, uint32(len(e.blsSks)))
		validators = append(validators, v)
		e.blsSks = append(e.blsSks, sk)
		e.blsPks = append(e.blsPks, string(pkb))
	}
	nc := &mock.NodesCoordinatorMock{
		GetValidatorsPublicKeysCalled: func(_ []byte, _ uint64, _ uint32, _ uint32) ([]string, error) {
			return append([]string(nil), e.blsPks...), nil
		},
		ComputeValidatorsGroupCalled: func(_ []byte, _ uint64, _ uint32, _ uint32) ([]sharding.Validator, error) {
			return validators, nil
		},
	}
	tmpl, err := multisig.NewBLSMultisig(e.llSigner, e.blsPks, e.blsSks[0], e.blsKg, 0)
	if err != nil {
		return nil, err
	}
	e.multiSig = tmpl
	e.hsv, err = headerCheck.NewHeaderSigVerifier(&headerCheck.ArgsHeaderSigVerifier{
		Marshalizer: e.plain, Hasher: e.hasher, NodesCoordinator: nc, MultiSigVerifier: tmpl,
		SingleSigVerifier: e.blsSingle, KeyGen: e.blsKg, FallbackHeaderValidator: &testscommon.FallBackHeaderValidatorStub{},
	})
	if err != nil {
		return nil, err
	}
	e.hdrIntegr = &mock.HeaderIntegrityVerifierStub{}
	e.attester = &mock.ValidityAttesterStub{}
	e.epochStart = &mock.EpochStartTriggerStub{}

	// ed25519 senders
	e.edKg = signing.NewKeyGenerator(ed25519.NewEd25519())
	e.edSigner = &edsig.Ed25519Signer{}
	for i := 0; i < 4; i++ {
		priv := stded25519.NewKeyFromSeed(rng.Bytes(32))
		sk, err := e.edKg.PrivateKeyFromByteArray([]byte(priv))
		if err != nil {
			return nil, err
		}
		pkb, err := sk.GeneratePublic().ToByteArray()
		if err != nil {
			return nil, err
		}
		e.edSks = append(e.edSks, sk)
		e.edPks = append(e.edPks, pkb)
	}
	e.pubConv = mock.NewPubkeyConverterMock(32)
	return e, nil
}

// signHeader fills RandSeed, Signature, PubKeysBitmap, LeaderSignature with real BLS signatures
func (e *env) signHeader(h data.HeaderHandler) error {
	if e.fakeSig {
		h.SetRandSeed(e.hasher.Compute("rs" + string(h.GetPrevRandSeed())))
		h.SetSignature(e.hasher.Compute("sig" + string(h.GetPrevHash())))
		h.SetPubKeysBitmap([]byte{0x07})
		h.SetLeaderSignature(e.hasher.Compute("ls" + string(h.GetPrevHash())))
		return nil
	}
	rs, err := e.blsSingle.Sign(e.blsSks[0], h.GetPrevRandSeed())
	if err != nil {
		return err
	}
	h.SetRandSeed(rs)
	cp := h.Clone()
	cp.SetSignature(nil)
	cp.SetPubKeysBitmap(nil)
	cp.SetLeaderSignature(nil)
	msg, err := core.CalculateHash(e.plain, e.hasher, cp)
	if err != nil {
		return err
	}
	ms, err := multisig.NewBLSMultisig(e.llSigner, e.blsPks, e.blsSks[0], e.blsKg, 0)
	if err != nil {
		return err
	}
	for i, sk := range e.blsSks {
		sh, err := e.llSigner.SignShare(sk, msg)
		if err != nil {
			return err
		}
		if err = ms.StoreSignatureShare(uint16(i), sh); err != nil {
			return err
		}
	}
	bitmap := []byte{0x07}
	agg, err := ms.AggregateSigs(bitmap)
	if err != nil {
		return err
	}
	h.SetSignature(agg)
	h.SetPubKeysBitmap(bitmap)
	cp2 := h.Clone()
	cp2.SetLeaderSignature(nil)
	b, err := e.plain.Marshal(cp2)
	if err != nil {
		return err
	}
	ls, err := e.blsSingle.Sign(e.blsSks[0], b)
	if err != nil {
		return err
	}
	h.SetLeaderSignature(ls)
	return nil
}

func optBytes(rng *vk.Rand, n int) []byte {
	if rng.Chance(1, 3) {
		return nil
	}
	return rng.Bytes(n)
}

func optU64(rng *vk.Rand) uint64 {
	switch rng.Intn(4) {
	case 0:
		return 0
	case 1:
		return uint64(rng.Intn(100))
	case 2:
		return uint64(rng.Intn(1 << 20))
	}
	return rng.U64()
}

func optBig(rng *vk.Rand, allowNil bool) *big.Int {
	switch rng.Intn(4) {
	case 0:
		if allowNil {
			return nil
		}
		return big.NewInt(0)
	case 1:
		return big.NewInt(0)
	case 2:
		return big.NewInt(int64(rng.Intn(1 << 30)))
	}
	return new(big.Int).SetBytes(rng.Bytes(1 + rng.Intn(12)))
}

func shardID(rng *vk.Rand) uint32 {
	switch rng.Intn(5) {
	case 0:
		return core.MetachainShardId
	default:
		return uint32(rng.Intn(3))
	}
}

func genMbHeaders(rng *vk.Rand, max int) []block.MiniBlockHeader {
	n := rng.Intn(max + 1)
	var out []block.MiniBlockHeader
	for i := 0; i < n; i++ {
		out = append(out, block.MiniBlockHeader{Hash: rng.Bytes(32), SenderShardID: shardID(rng), ReceiverShardID: shardID(rng),
			TxCount: uint32(rng.Intn(200)), Type: block.Type([]int{0, 0, 30, 60, 90, 255}[rng.Intn(6)])})
	}
	return out
}

func (e *env) genHeader(rng *vk.Rand) interface{} {
	h := &block.Header{
		Nonce: optU64(rng), PrevHash: rng.Bytes(32), PrevRandSeed: rng.Bytes(48), ShardID: uint32(rng.Intn(3)),
		TimeStamp: optU64(rng), Round: optU64(rng), Epoch: uint32(rng.Intn(3)), BlockBodyType: block.Type([]int{0, 0, 30}[rng.Intn(3)]),
		MiniBlockHeaders: genMbHeaders(rng, 3), RootHash: rng.Bytes(32), TxCount: uint32(rng.Intn(500)),
		EpochStartMetaHash: nil, ReceiptsHash: optBytes(rng, 32), ChainID: []byte("1"), SoftwareVersion: optBytes(rng, 2),
		AccumulatedFees: optBig(rng, false), DeveloperFees: optBig(rng, false),
	}
	for i := rng.Intn(3); i > 0; i-- {
		h.MetaBlockHashes = append(h.MetaBlockHashes, rng.Bytes(32))
	}
	if rng.Chance(1, 4) {
		h.PeerChanges = append(h.PeerChanges, block.PeerChange{PubKey: rng.Bytes(8), ShardIdDest: uint32(rng.Intn(3))})
	}
	if err := e.signHeader(h); err != nil {
		panic(err)
	}
	return h
}

func (e *env) genMeta(rng *vk.Rand) interface{} {
	h := &block.MetaBlock{
		Nonce: optU64(rng), Epoch: uint32(rng.Intn(3)), Round: optU64(rng), TimeStamp: optU64(rng),
		PrevHash: rng.Bytes(32), PrevRandSeed: rng.Bytes(48), RootHash: rng.Bytes(32), ValidatorStatsRootHash: optBytes(rng, 32),
		MiniBlockHeaders: genMbHeaders(rng, 2), ReceiptsHash: optBytes(rng, 32), ChainID: []byte("1"), SoftwareVersion: optBytes(rng, 2),
		AccumulatedFees: optBig(rng, false), AccumulatedFeesInEpoch: optBig(rng, false), DeveloperFees: optBig(rng, false), DevFeesInEpoch: optBig(rng, false),
		TxCount: uint32(rng.Intn(500)),
	}
	for i := rng.Intn(3); i > 0; i-- {
		h.ShardInfo = append(h.ShardInfo, block.ShardData{HeaderHash: rng.Bytes(32), ShardMiniBlockHeaders: genMbHeaders(rng, 2),
			PrevRandSeed: optBytes(rng, 8), PubKeysBitmap: optBytes(rng, 1), Signature: optBytes(rng, 8), Round: optU64(rng), PrevHash: optBytes(rng, 32),
			Nonce: optU64(rng), AccumulatedFees: optBig(rng, true), DeveloperFees: optBig(rng, true), NumPendingMiniBlocks: uint32(rng.Intn(3)),
			LastIncludedMetaNonce: optU64(rng), ShardID: uint32(rng.Intn(3)), TxCount: uint32(rng.Intn(100))})
	}
	if rng.Chance(1, 3) {
		h.PeerInfo = append(h.PeerInfo, block.PeerData{Address: rng.Bytes(8), PublicKey: rng.Bytes(8), Action: block.PeerAction(rng.Intn(3)), TimeStamp: optU64(rng), ValueChange: optBig(rng, true)})
	}
	if rng.Chance(1, 2) {
		for i := 1 + rng.Intn(2); i > 0; i-- {
			h.EpochStart.LastFinalizedHeaders = append(h.EpochStart.LastFinalizedHeaders, block.EpochStartShardData{
				ShardID: uint32(rng.Intn(3)), Epoch: uint32(rng.Intn(3)), Round: optU64(rng), Nonce: optU64(rng), HeaderHash: rng.Bytes(32), RootHash: rng.Bytes(32),
				FirstPendingMetaBlock: optBytes(rng, 32), LastFinishedMetaBlock: optBytes(rng, 32), PendingMiniBlockHeaders: genMbHeaders(rng, 1)})
		}
		h.EpochStart.Economics = block.Economics{TotalSupply: optBig(rng, true), TotalToDistribute: optBig(rng, true), TotalNewlyMinted: optBig(rng, true),
			RewardsPerBlock: optBig(rng, true), RewardsForProtocolSustainability: optBig(rng, true), NodePrice: optBig(rng, true),
			PrevEpochStartRound: optU64(rng), PrevEpochStartHash: optBytes(rng, 32)}
	}
	if err := e.signHeader(h); err != nil {
		panic(err)
	}
	return h
}

func (e *env) genMiniBlock(rng *vk.Rand) interface{} {
	mb := &block.MiniBlock{ReceiverShardID: shardID(rng), SenderShardID: shardID(rng), Type: block.Type([]int{0, 0, 30, 60, 90, 255}[rng.Intn(6)])}
	if rng.Chance(1, 8) {
		mb.ReceiverShardID = core.AllShardId
	}
	for i := 1 + rng.Intn(6); i > 0; i-- {
		mb.TxHashes = append(mb.TxHashes, rng.Bytes(32))
	}
	return mb
}

func (e *env) genTx(rng *vk.Rand) interface{} {
	k := rng.Intn(len(e.edSks))
	tx := &transaction.Transaction{
		Nonce: optU64(rng), Value: optBig(rng, false), RcvAddr: rng.Bytes(32), SndAddr: append([]byte(nil), e.edPks[k]...),
		GasPrice: optU64(rng), GasLimit: optU64(rng), ChainID: []byte("1"), Version: uint32(1 + rng.Intn(2)),
	}
	if rng.Bool() {
		tx.Data = []byte(fmt.Sprintf("transfer@%x", rng.Bytes(1+rng.Intn(20))))
	}
	if rng.Chance(1, 4) {
		tx.RcvUserName = rng.Bytes(6)
	}
	if rng.Chance(1, 4) {
		tx.SndUserName = rng.Bytes(6)
	}
	b, err := tx.GetDataForSigning(e.pubConv, e.signMsh)
	if err != nil {
		panic(err)
	}
	tx.Signature, err = e.edSigner.Sign(e.edSks[k], b)
	if err != nil {
		panic(err)
	}
	return tx
}

func (e *env) genRewardTx(rng *vk.Rand) interface{} {
	return &rewardTx.RewardTx{Round: optU64(rng), Epoch: uint32(rng.Intn(3)), Value: optBig(rng, false), RcvAddr: rng.Bytes(32)}
}

func (e *env) genSCR(rng *vk.Rand) interface{} {
	s := &smartContractResult.SmartContractResult{
		Nonce: optU64(rng), Value: optBig(rng, false), RcvAddr: rng.Bytes(32), SndAddr: rng.Bytes(32), RelayerAddr: optBytes(rng, 32),
		RelayedValue: optBig(rng, true), Code: optBytes(rng, 10), Data: optBytes(rng, 20), PrevTxHash: rng.Bytes(32), OriginalTxHash: optBytes(rng, 32),
		GasLimit: optU64(rng), GasPrice: optU64(rng), CodeMetadata: optBytes(rng, 2), ReturnMessage: optBytes(rng, 6), OriginalSender: optBytes(rng, 32),
	}
	if rng.Bool() {
		s.CallType = 1
	}
	return s
}

// minimal (degenerate) objects: every field that the constructors + CheckValidity do not insist on is left at
// its default value. The all-default miniblock has an EMPTY canonical encoding (Size() == 0).
func (e *env) minHeader(rng *vk.Rand) interface{} {
	h := &block.Header{PrevHash: rng.Bytes(32), PrevRandSeed: rng.Bytes(48), RootHash: rng.Bytes(32)}
	if err := e.signHeader(h); err != nil {
		panic(err)
	}
	return h
}

func (e *env) minMeta(rng *vk.Rand) interface{} {
	h := &block.MetaBlock{PrevHash: rng.Bytes(32), PrevRandSeed: rng.Bytes(48), RootHash: rng.Bytes(32)}
	if err := e.signHeader(h); err != nil {
		panic(err)
	}
	return h
}

func (e *env) minMiniBlock(rng *vk.Rand) interface{} { return &block.MiniBlock{} }

func (e *env) minTx(rng *vk.Rand) interface{} {
	k := rng.Intn(len(e.edSks))
	tx := &transaction.Transaction{Value: big.NewInt(0), RcvAddr: rng.Bytes(32), SndAddr: append([]byte(nil), e.edPks[k]...), ChainID: []byte("1"), Version: 1}
	b, err := tx.GetDataForSigning(e.pubConv, e.signMsh)
	if err != nil {
		panic(err)
	}
	tx.Signature, err = e.edSigner.Sign(e.edSks[k], b)
	if err != nil {
		panic(err)
	}
	return tx
}

func (e *env) minRewardTx(rng *vk.Rand) interface{} {
	return &rewardTx.RewardTx{Value: big.NewInt(0), RcvAddr: rng.Bytes(32)}
}

func (e *env) minSCR(rng *vk.Rand) interface{} {
	return &smartContractResult.SmartContractResult{Value: big.NewInt(0), RcvAddr: rng.Bytes(32), SndAddr: rng.Bytes(32), PrevTxHash: rng.Bytes(32)}
}

func (e *env) specs() []*tspec {
	txVer := versioning.NewTxVersionChecker(1)
	return []*tspec{
		{name: "Header", schema: schemaOf(reflect.TypeOf(block.Header{})), gen: e.genHeader, minimal: e.minHeader, empty: func() interface{} { return &block.Header{} },
			intercept: func(buf []byte, m marshal.Marshalizer) (interceptedData, error) {
				return interceptedBlocks.NewInterceptedHeader(&interceptedBlocks.ArgInterceptedBlockHeader{HdrBuff: buf, Marshalizer: m, Hasher: e.hasher,
					ShardCoordinator: e.coord, HeaderSigVerifier: e.hsv, HeaderIntegrityVerifier: e.hdrIntegr, ValidityAttester: e.attester, EpochStartTrigger: e.epochStart})
			}},
		{name: "MetaBlock", schema: schemaOf(reflect.TypeOf(block.MetaBlock{})), gen: e.genMeta, minimal: e.minMeta, empty: func() interface{} { return &block.MetaBlock{} },
			intercept: func(buf []byte, m marshal.Marshalizer) (interceptedData, error) {
				return interceptedBlocks.NewInterceptedMetaHeader(&interceptedBlocks.ArgInterceptedBlockHeader{HdrBuff: buf, Marshalizer: m, Hasher: e.hasher,
					ShardCoordinator: e.coord, HeaderSigVerifier: e.hsv, HeaderIntegrityVerifier: e.hdrIntegr, ValidityAttester: e.attester, EpochStartTrigger: e.epochStart})
			}},
		{name: "MiniBlock", schema: schemaOf(reflect.TypeOf(block.MiniBlock{})), gen: e.genMiniBlock, minimal: e.minMiniBlock, empty: func() interface{} { return &block.MiniBlock{} },
			intercept: func(buf []byte, m marshal.Marshalizer) (interceptedData, error) {
				return interceptedBlocks.NewInterceptedMiniblock(&interceptedBlocks.ArgInterceptedMiniblock{MiniblockBuff: buf, Marshalizer: m, Hasher: e.hasher, ShardCoordinator: e.coord})
			}},
		{name: "Transaction", schema: schemaOf(reflect.TypeOf(transaction.Transaction{})), gen: e.genTx, minimal: e.minTx, empty: func() interface{} { return &transaction.Transaction{} },
			intercept: func(buf []byte, m marshal.Marshalizer) (interceptedData, error) {
				return txproc.NewInterceptedTransaction(buf, m, e.signMsh, e.hasher, e.edKg, e.edSigner, e.pubConv, e.coord, &mock.FeeHandlerStub{},
					&testscommon.WhiteListHandlerStub{}, &mock.ArgumentParserMock{}, []byte("1"), false, e.hasher, txVer)
			}},
		{name: "RewardTx", schema: schemaOf(reflect.TypeOf(rewardTx.RewardTx{})), gen: e.genRewardTx, minimal: e.minRewardTx, empty: func() interface{} { return &rewardTx.RewardTx{} },
			intercept: func(buf []byte, m marshal.Marshalizer) (interceptedData, error) {
				return rewardTransaction.NewInterceptedRewardTransaction(buf, m, e.hasher, e.pubConv, e.coord)
			}},
		{name: "UnsignedTx", schema: schemaOf(reflect.TypeOf(smartContractResult.SmartContractResult{})), gen: e.genSCR, minimal: e.minSCR, empty: func() interface{} { return &smartContractResult.SmartContractResult{} },
			intercept: func(buf []byte, m marshal.Marshalizer) (interceptedData, error) {
				return unsigned.NewInterceptedUnsignedTransaction(buf, m, e.hasher, e.pubConv, e.coord)
			}},
	}
}

// ---------------------------------------------------------------------------------------
// concurrent phase: the REAL data factories of process/interceptors/factory, shared by several goroutines

type namedFactory struct {
	name    string
	f       process.InterceptedDataFactory
	light   func(rng *vk.Rand) interface{}
	content func(d process.InterceptedData) interface{}
}

func (e *env) factories() ([]*namedFactory, error) {
	coreC := &mock.CoreComponentsMock{IntMarsh: e.onM, TxMarsh: e.signMsh, Hash: e.hasher, TxSignHasherField: e.hasher,
		UInt64ByteSliceConv: &mock.Uint64ByteSliceConverterMock{}, AddrPubKeyConv: e.pubConv, ChainIdCalled: func() string { return "1" },
		TxVersionCheckField: versioning.NewTxVersionChecker(1), EpochNotifierField: &mock.EpochNotifierStub{}}
	cryptoC := &mock.CryptoComponentsMock{BlockSig: e.blsSingle, TxSig: e.edSigner, MultiSig: e.multiSig, BlKeyGen: e.blsKg, TxKeyGen: e.edKg}
	arg := &interceptorFactory.ArgInterceptedDataFactory{CoreComponents: coreC, CryptoComponents: cryptoC, ShardCoordinator: e.coord, NodesCoordinator: mock.NewNodesCoordinatorMock(),
		FeeHandler: &mock.FeeHandlerStub{}, WhiteListerVerifiedTxs: &testscommon.WhiteListHandlerStub{}, HeaderSigVerifier: e.hsv, ValidityAttester: e.attester,
		HeaderIntegrityVerifier: e.hdrIntegr, EpochStartTrigger: e.epochStart, ArgsParser: &mock.ArgumentParserMock{}}
	le := *e
	le.fakeSig = true
	hdrContent := func(d process.InterceptedData) interface{} {
		if x, ok := d.(interface{ HeaderHandler() data.HeaderHandler }); ok {
			return x.HeaderHandler()
		}
		return nil
	}
	txContent := func(d process.InterceptedData) interface{} {
		if x, ok := d.(interface {
			Transaction() data.TransactionHandler
		}); ok {
			return x.Transaction()
		}
		return nil
	}
	var out []*namedFactory
	add := func(name string, f process.InterceptedDataFactory, err error, light func(rng *vk.Rand) interface{}, content func(d process.InterceptedData) interface{}) error {
		if err != nil {
			return fmt.Errorf("%s factory: %w", name, err)
		}
		out = append(out, &namedFactory{name, f, light, content})
		return nil
	}
	f1, err := interceptorFactory.NewInterceptedShardHeaderDataFactory(arg)
	if err = add("Header", f1, err, le.genHeader, hdrContent); err != nil {
		return nil, err
	}
	f2, err := interceptorFactory.NewInterceptedMetaHeaderDataFactory(arg)
	if err = add("MetaBlock", f2, err, le.genMeta, hdrContent); err != nil {
		return nil, err
	}
	f3, err := interceptorFactory.NewInterceptedMiniblockDataFactory(arg)
	if err = add("MiniBlock", f3, err, le.genMiniBlock, func(d process.InterceptedData) interface{} {
		if x, ok := d.(interface{ Miniblock() *block.MiniBlock }); ok {
			return x.Miniblock()
		}
		return nil
	}); err != nil {
		return nil, err
	}
	f4, err := interceptorFactory.NewInterceptedTxDataFactory(arg)
	if err = add("Transaction", f4, err, le.genTx, txContent); err != nil {
		return nil, err
	}
	f5, err := interceptorFactory.NewInterceptedRewardTxDataFactory(arg)
	if err = add("RewardTx", f5, err, le.genRewardTx, txContent); err != nil {
		return nil, err
	}
	f6, err := interceptorFactory.NewInterceptedUnsignedTxDataFactory(arg)
	if err = add("UnsignedTx", f6, err, le.genSCR, txContent); err != nil {
		return nil, err
	}
	return out, nil
}

// concurrentCase: G goroutines create intercepted data for DIFFERENT buffers through one shared factory at the
// same time. Every created object must belong to the buffer it was created from: Hash() == hasher(buffer) and
// its decoded content re-marshals to that buffer.
func concurrentCase(r *vk.Run, c *vk.Case, e *env, ft *namedFactory, perGoroutine int) {
	rng := c.Rng
	G := 4 + rng.Intn(5)
	bufs := make([][][]byte, G)
	owner := map[string]string{}
	for g := 0; g < G; g++ {
		for i := 0; i < perGoroutine; i++ {
			b, err := e.plain.Marshal(ft.light(rng))
			if err != nil || len(b) == 0 {
				continue
			}
			bufs[g] = append(bufs[g], b)
			owner[string(b)] = fmt.Sprintf("goroutine %d item %d", g, len(bufs[g])-1)
		}
	}
	var wg gosync.WaitGroup
	start := make(chan struct{})
	var mu gosync.Mutex
	created, failed := 0, 0
	for g := 0; g < G; g++ {
		wg.Add(1)
		go func(g int) {
			defer wg.Done()
			<-start
			for i, buf := range bufs[g] {
				var d process.InterceptedData
				var err error
				p, pv, st := vk.Guard(func() { d, err = ft.f.Create(append([]byte(nil), buf...)) })
				if p {
					r.Violation(c.Idx, "panic:"+vk.TopFrame(st), fmt.Sprintf("factory %s Create panicked under concurrency: %v", ft.name, pv), map[string]interface{}{"stack": st})
					continue
				}
				r.Eval(1)
				if err != nil || d == nil || reflect.ValueOf(d).IsNil() {
					mu.Lock()
					failed++
					mu.Unlock()
					r.Count("concurrent_create_failed:"+ft.name, 1)
					continue
				}
				mu.Lock()
				created++
				mu.Unlock()
				h := append([]byte(nil), d.Hash()...)
				want := e.hasher.Compute(string(buf))
				var R []byte
				if o := ft.content(d); o != nil && !reflect.ValueOf(o).IsNil() {
					R, _ = e.plain.Marshal(o)
				}
				hashOK, contentOK := bytes.Equal(h, want), bytes.Equal(R, buf)
				if hashOK && contentOK {
					continue
				}
				what := ""
				det := map[string]interface{}{"type": ft.name, "goroutines": G, "created_from": fmt.Sprintf("goroutine %d item %d", g, i), "buffer": vk.Hex(buf),
					"hash": vk.Hex(h), "expected_hash": vk.Hex(want), "content_remarshalled": vk.Hex(R)}
				if !hashOK {
					what += "Hash() is not the hash of the buffer it was created from"
					for k, v := range owner {
						if bytes.Equal(e.hasher.Compute(k), h) {
							what += " (it is the hash of the buffer of " + v + ")"
							det["hash_belongs_to"] = v
						}
					}
				}
				if !contentOK {
					if what != "" {
						what += "; "
					}
					what += "content is not the content of its buffer"
					if v, ok := owner[string(R)]; ok {
						what += " (it is the content of " + v + ")"
						det["content_belongs_to"] = v
					}
				}
				r.Violation(c.Idx, "factory-object-mixes-buffers type="+ft.name, fmt.Sprintf("%s factory, %d goroutines: object created from goroutine %d item %d: %s", ft.name, G, g, i, what), det)
			}
		}(g)
	}
	close(start)
	wg.Wait()
	r.Count("concurrent_creates:"+ft.name, created)
	if created == 0 {
		r.Inconclusive(fmt.Sprintf("concurrent phase: no %s object could be created (%d failures)", ft.name, failed))
		return
	}
	r.Shape(fmt.Sprintf("concurrent %s goroutines=%d", ft.name, G))
}

// run feeds one buffer through constructor + CheckValidity; a panic in the code under test is an error of
// its own kind (reported by the caller)
func run(t *tspec, buf []byte, m marshal.Marshalizer) (hash []byte, ctorErr error, validErr error) {
	d, err := t.intercept(append([]byte(nil), buf...), m)
	if err != nil {
		return nil, err, nil
	}
	if d == nil || reflect.ValueOf(d).IsNil() {
		return nil, fmt.Errorf("nil intercepted data"), nil
	}
	h := append([]byte(nil), d.Hash()...)
	return h, nil, d.CheckValidity()
}

func main() {
	logger.SetLogLevel("*:NONE")
	r := vk.Start("C18")
	r.Rule("per case one valid object of one intercepted type (round-robin over Header, MetaBlock, MiniBlock, Transaction, RewardTx, UnsignedTx; headers carry real BLS group/leader/randomness signatures, transactions a real ed25519 signature; optional fields are left empty with probability 1/3 so that default-valued fields exist), its canonical gogo-proto encoding E, and for each of 8 mutation classes several non-canonical encodings E' (random position / nesting depth <= 2). Every fifth object of a type is MINIMAL: only the fields that constructor + CheckValidity insist on are set (the all-default miniblock has an empty canonical encoding, refused by the constructor; its reference is the first accepted mutant). A mutant is non-trivial when it differs from E, decodes, and re-marshals to exactly E (same content); shape = (type, class, sub-kind, depth, verdict with size check, verdict without).")
	r.Assume("content equality = byte equality of the canonical re-encoding of the decoded object (this is also what header signatures are computed over)",
		"accepted = constructor returned no error and CheckValidity() == nil, with stubs for header integrity (version/chain id), validity attester, epoch start trigger, fee handler and white lists; signature checks are real",
		"production wiring: SizeCheckUnmarshalizer(GogoProtoMarshalizer, delta=10); 'sizecheck=off' is the wiring with SizeCheckDelta = 0",
		"a witness under sizecheck=off is only reported when the same bytes were rejected with the size check on (otherwise it is the same witness)",
		"a mutant of another class that outgrows the size-check tolerance (always the case for the all-default miniblock, tolerance 0) is judged under the production wiring only, key class=growth-beyond-delta")
	r.Assume("concurrent phase: 4-8 goroutines call Create of one shared real data factory (process/interceptors/factory, production size-check wiring) for different canonical buffers; header signatures are placeholders there because only construction is exercised")
	r.MinShapes(60)

	e, err := newEnv(r.Seed)
	if err != nil {
		r.Inconclusive("environment: " + err.Error())
		r.Finish()
	}
	specs := e.specs()
	for _, t := range specs {
		if t.schema == nil {
			r.Inconclusive("no schema for " + t.name)
			r.Finish()
		}
	}
	attempts := r.N(3, 6)
	nCases := r.N(40, 400) * len(specs)

	facts, err := e.factories()
	if err != nil {
		r.Inconclusive("cannot build the intercepted data factories: " + err.Error())
		r.Finish()
	}
	nConc := r.N(8, 40) * len(facts)
	perGoroutine := r.N(200, 400)

	r.Parallel(nCases+nConc, func(c *vk.Case) {
		if c.Idx >= nCases {
			concurrentCase(r, c, e, facts[(c.Idx-nCases)%len(facts)], perGoroutine)
			return
		}
		rng := c.Rng
		t := specs[c.Idx%len(specs)]
		degenerate := (c.Idx/len(specs))%5 == 4
		var obj interface{}
		if degenerate {
			obj = t.minimal(rng)
		} else {
			obj = t.gen(rng)
		}
		E, err := e.plain.Marshal(obj)
		if err != nil {
			r.Inconclusive("cannot marshal generated " + t.name + ": " + err.Error())
			return
		}
		// reference hash per wiring = hash of the first ACCEPTED encoding of this content: the canonical one, or
		// (all-default content has an empty canonical encoding, which the constructors refuse) the first accepted mutant
		hOn, ce, ve := run(t, E, e.onM)
		hOff, ce2, ve2 := run(t, E, e.plain)
		var refOn, refOff []byte
		if len(E) == 0 {
			r.Count("empty_canonical_encoding:"+t.name, 1)
			if ce == nil && ve == nil {
				refOn = hOn
			}
			if ce2 == nil && ve2 == nil {
				refOff = hOff
			}
		} else {
			if ce != nil || ve != nil || ce2 != nil || ve2 != nil {
				r.Inconclusive(fmt.Sprintf("canonical %s (degenerate=%v) rejected: %v / %v / %v / %v", t.name, degenerate, ce, ve, ce2, ve2))
				return
			}
			refOn, refOff = hOn, hOff
			r.Count("canonical_accepted:"+t.name, 1)
			if degenerate {
				r.Count("canonical_accepted_minimal:"+t.name, 1)
			}
			if !bytes.Equal(hOn, hOff) {
				r.Violation(c.Idx, "hash-depends-on-marshalizer type="+t.name, "canonical bytes hash differently with/without size check", nil)
			}
		}
		maxSize := len(E) + len(E)*sizeCheckDelta/100
		short := func(h []byte) string {
			if len(h) > 6 {
				h = h[:6]
			}
			return vk.Hex(h)
		}

		// secondary oracle: received byte strings with DIFFERENT content never share a hash. Applied to every
		// encoding Ex that the constructor accepts in this case (the canonical one and every accepted mutant):
		// siblings differ from Ex in one byte inside a value.
		collisionCheck := func(Ex []byte, hx []byte, canonical bool, how string) {
			ox := t.empty()
			if e.plain.Unmarshal(ox, Ex) != nil {
				return
			}
			Rx, err := e.plain.Marshal(ox)
			if err != nil {
				return
			}
			for _, sb := range siblings(Ex, t.schema) {
				o2 := t.empty()
				if e.plain.Unmarshal(o2, sb.buf) != nil {
					r.Count("sibling_undecodable", 1)
					continue
				}
				R2, err := e.plain.Marshal(o2)
				if err != nil || bytes.Equal(R2, Rx) {
					r.Count("sibling_same_content", 1)
					continue
				}
				d, cerr := t.intercept(append([]byte(nil), sb.buf...), e.onM)
				if cerr != nil || d == nil || reflect.ValueOf(d).IsNil() {
					r.Count("sibling_rejected_by_constructor", 1)
					continue
				}
				h2 := d.Hash()
				r.Eval(1)
				if canonical {
					r.Count("different_content_pairs:canonical", 1)
				} else {
					r.Count("different_content_pairs:non-canonical", 1)
					if len(Ex) > len(Rx) {
						r.Count("different_content_pairs:non-canonical-longer-than-canonical", 1)
					}
				}
				r.Count("different_content_pairs:"+t.name, 1)
				if bytes.Equal(h2, hx) {
					r.Violation(c.Idx, "different-content-same-hash type="+t.name,
						fmt.Sprintf("%s: %d-byte %s encoding and its sibling with byte %d changed (%s) decode to different content but share hash %s..", t.name, len(Ex), how, sb.pos, sb.what, short(h2)),
						map[string]interface{}{"type": t.name, "encoding": vk.Hex(Ex), "encoding_is_canonical": canonical, "encoding_kind": how, "canonical_len": len(Rx),
							"sibling": vk.Hex(sb.buf), "changed_byte_position": sb.pos, "changed_byte_is": sb.what, "hash": vk.Hex(h2)})
				}
			}
		}
		if len(E) > 0 && ce == nil {
			collisionCheck(E, hOn, true, "canonical")
		}

		// fields that no signature covers (transaction Signature, header LeaderSignature): a copy that differs only
		// there has the same signed content; if it is accepted it is a second valid copy under another hash
		if len(E) > 0 && ce == nil && ve == nil {
			for _, uv := range e.unsignedVariants(t, E, rng) {
				Ev, err := e.plain.Marshal(uv.obj)
				if err != nil || bytes.Equal(Ev, E) {
					r.Trivial()
					continue
				}
				hv, cv, vv := run(t, Ev, e.onM)
				r.Eval(1)
				verdict := "rejected"
				if cv == nil && vv == nil {
					verdict = "accepted"
				}
				r.Count(fmt.Sprintf("%s|unsigned-field %s|%s", t.name, uv.sub, verdict), 1)
				r.Shape(fmt.Sprintf("%s unsigned-field %s %s", t.name, uv.sub, verdict))
				if verdict == "accepted" && !bytes.Equal(hv, hOn) {
					r.Violation(c.Idx, fmt.Sprintf("type=%s class=%s", t.name, uv.class),
						fmt.Sprintf("%s: a copy that differs only in a field outside the signed content (%s) is accepted under another hash: %s.. vs %s..", t.name, uv.sub, short(hOn), short(hv)),
						map[string]interface{}{"type": t.name, "class": uv.class, "sub_kind": uv.sub, "original": vk.Hex(E), "copy": vk.Hex(Ev), "hash_original": vk.Hex(hOn), "hash_copy": vk.Hex(hv)})
				}
			}
		}

		// the internal marshalizer wrapped several times (one chain per case): nothing longer than the strictest
		// bound of the chain may be accepted
		chain := wrapChains[(c.Idx/len(specs))%len(wrapChains)]
		chainM, strict := chain.build(e.plain)
		strictMax := len(E) + len(E)*int(strict)/100
		chainRef := refOn
		if len(E) > 0 {
			hC, cC, vC := run(t, E, chainM)
			if cC != nil || vC != nil || !bytes.Equal(hC, hOn) {
				r.Inconclusive(fmt.Sprintf("canonical %s not accepted under its own hash by the marshalizer chain %s: %v / %v", t.name, chain.name, cC, vC))
				return
			}
			r.Count("chain_canonical_accepted:"+chain.name, 1)
		}
		chainCheck := func(Em []byte, how string) {
			if len(Em) <= strictMax {
				r.Count("chain_mutant_within_strictest_bound", 1)
				return
			}
			hC, cC, vC := run(t, Em, chainM)
			r.Eval(1)
			verdict := "rejected"
			if cC == nil && vC == nil {
				verdict = "accepted"
			}
			r.Count("chain:"+chain.name+":beyond-strictest:"+verdict, 1)
			r.Count(fmt.Sprintf("%s|beyond-strictest-of-chain|%s", t.name, verdict), 1)
			pct := "far"
			if len(E) > 0 {
				switch g := (len(Em) - len(E)) * 100 / len(E); {
				case g <= 10:
					pct = "<=10%"
				case g <= 30:
					pct = "<=30%"
				case g <= 100:
					pct = "<=100%"
				}
			}
			r.Shape(fmt.Sprintf("%s chain=%s growth%s %s", t.name, chain.name, pct, verdict))
			if verdict != "accepted" {
				return
			}
			if chainRef == nil {
				chainRef = hC
				return
			}
			if !bytes.Equal(hC, chainRef) {
				r.Violation(c.Idx, fmt.Sprintf("type=%s class=beyond-strictest-delta-of-rewrapped-marshalizer", t.name),
					fmt.Sprintf("%s: marshalizer wrapped with size-check deltas %s: a %d-byte encoding (%s) of content whose canonical form has %d bytes is accepted although the strictest delta %d%% allows %d bytes; hashes %s.. vs %s..",
						t.name, chain.name, len(Em), how, len(E), strict, strictMax, short(chainRef), short(hC)),
					map[string]interface{}{"type": t.name, "chain": chain.name, "deltas": chain.deltas, "strictest_delta": strict, "canonical": vk.Hex(E), "mutant": vk.Hex(Em), "how": how,
						"canonical_len": len(E), "mutant_len": len(Em), "max_size_with_strictest_delta": strictMax, "hash_reference": vk.Hex(chainRef), "hash_mutant": vk.Hex(hC)})
			}
		}

		for _, class := range allClasses {
			for a := 0; a < attempts; a++ {
				ctx := &mutCtx{rng: rng, class: class, topSize: len(E), unkMode: a % 4, maxDepth: 2}
				if len(E) < 16 && a == attempts-1 {
					ctx.unkMode = 3 // tiny / empty objects: always try a sizeable blob of junk too
				}
				Em, sub, depth := mutate(E, t.schema, ctx, 0)
				if sub == "" || Em == nil {
					r.Count("no_mutation_site:"+class, 1)
					continue
				}
				cls := class
				onlyOn := false
				if class == clsUnknown {
					if len(Em) <= maxSize {
						cls = "unknown-field-within-delta"
					} else {
						cls = "unknown-field-beyond-delta"
					}
				} else if len(Em) > maxSize {
					// growth beyond the size-check tolerance by another class (e.g. explicit zero values on a tiny or
					// all-default object): only the production wiring is judged; without the size check it is the
					// same witness as the class itself
					cls = "growth-beyond-delta"
					onlyOn = true
				}
				if bytes.Equal(Em, E) {
					r.Trivial()
					continue
				}
				o := t.empty()
				if err := e.plain.Unmarshal(o, Em); err != nil {
					r.Count("mutant_undecodable:"+cls, 1)
					r.Trivial()
					continue
				}
				R, err := e.plain.Marshal(o)
				if err != nil || !bytes.Equal(R, E) {
					r.Count("mutant_other_content:"+cls, 1)
					r.Trivial()
					continue
				}
				// Em is a non-canonical encoding of the same content
				r.Eval(1)
				chainCheck(Em, class+"/"+sub)
				verd := func(acc bool, h []byte, ref *[]byte) string {
					if !acc {
						return "rejected"
					}
					if *ref == nil {
						*ref = h
						return "first-accepted"
					}
					if bytes.Equal(h, *ref) {
						return "same-hash"
					}
					return "other-hash"
				}
				hmOn, cOn, vOn := run(t, Em, e.onM)
				accOn := cOn == nil && vOn == nil
				if cOn == nil {
					collisionCheck(Em, hmOn, false, cls+"/"+sub)
				}
				refOnBefore := refOn
				vOnS := verd(accOn, hmOn, &refOn)
				var hmOff []byte
				var cOff, vOff error
				accOff := false
				vOffS := "not-run"
				if !onlyOn {
					hmOff, cOff, vOff = run(t, Em, e.plain)
					accOff = cOff == nil && vOff == nil
					vOffS = verd(accOff, hmOff, &refOff)
				}
				dg := ""
				if degenerate {
					dg = " minimal"
					r.Count(fmt.Sprintf("minimal:%s|%s|on:%s off:%s", t.name, cls, vOnS, vOffS), 1)
				}
				r.Shape(fmt.Sprintf("%s%s %s %s d%d on:%s off:%s", t.name, dg, cls, sub, depth, vOnS, vOffS))
				r.Count("on:"+vOnS, 1)
				r.Count("off:"+vOffS, 1)
				r.Count(fmt.Sprintf("%s|%s|on:%s", t.name, cls, vOnS), 1)
				if cOn != nil && cOn != marshal.ErrUnmarshallingBadSize {
					r.Count("on_rejected_other_reason", 1)
				}
				detail := map[string]interface{}{
					"type": t.name, "class": cls, "mutation": class, "sub_kind": sub, "depth": depth, "canonical": vk.Hex(E), "mutant": vk.Hex(Em), "minimal_object": degenerate,
					"canonical_len": len(E), "mutant_len": len(Em), "max_size_with_delta": maxSize,
					"hash_reference_sizecheck_on": vk.Hex(refOnBefore), "hash_mutant_sizecheck_on": vk.Hex(hmOn), "hash_mutant_sizecheck_off": vk.Hex(hmOff),
					"sizecheck_on": fmt.Sprintf("ctor=%v validity=%v", cOn, vOn), "sizecheck_off": fmt.Sprintf("ctor=%v validity=%v", cOff, vOff),
				}
				if vOnS == "other-hash" {
					r.Violation(c.Idx, fmt.Sprintf("type=%s class=%s", t.name, cls),
						fmt.Sprintf("%s: two accepted encodings of the same content (%d-byte canonical form; this one %d bytes, %s/%s, size check on; tolerance %d bytes), hashes %s.. vs %s..", t.name, len(E), len(Em), class, sub, maxSize, short(refOnBefore), short(hmOn)), detail)
				}
				if vOffS == "other-hash" && !accOn {
					r.Violation(c.Idx, fmt.Sprintf("type=%s class=%s sizecheck=off", t.name, cls),
						fmt.Sprintf("%s: two accepted encodings of the same content (%d-byte canonical form; this one %d bytes, %s/%s; size check off only), hashes differ", t.name, len(E), len(Em), class, sub), detail)
				}
				if !onlyOn && accOn && !accOff {
					r.Violation(c.Idx, "accepted-only-with-sizecheck type="+t.name, "size-checking marshalizer accepted what the plain one rejected", detail)
				}
				if r.NeedSample() && vOnS == "other-hash" && len(E) < 80 {
					r.Sample(detail)
				}
			}
		}
		// padded copies sized against the deltas of the chain: just beyond the strictest bound, between the strictest
		// and each looser delta, far beyond
		for _, g := range chain.growTargets(len(E), strict) {
			ctx := &mutCtx{rng: rng, class: clsUnknown, topSize: len(E), unkMode: 4, grow: g, maxDepth: 1}
			Em, sub, _ := mutate(E, t.schema, ctx, 0)
			if sub == "" || Em == nil || bytes.Equal(Em, E) {
				r.Trivial()
				continue
			}
			o := t.empty()
			if e.plain.Unmarshal(o, Em) != nil {
				r.Trivial()
				continue
			}
			if R, err := e.plain.Marshal(o); err != nil || !bytes.Equal(R, E) {
				r.Trivial()
				continue
			}
			chainCheck(Em, clsUnknown+"/"+sub)
		}
	})
	// race detector reports (only with the RACE marker): a race inside the interceptor factories or the intercepted
	// data packages is a violation of its own kind; anything else is evidence only
	if races := vk.CollectRaces(); len(races) > 0 {
		var other []vk.RaceReport
		for _, rr := range races {
			mine := false
			for _, f := range rr.Funcs {
				for _, pkg := range []string{"process/interceptors/factory", "process/block/interceptedBlocks", "process/transaction.", "process/rewardTransaction.", "process/unsigned."} {
					if strings.Contains(f, pkg) {
						mine = true
					}
				}
			}
			if mine {
				r.Violation(nCases, "data-race "+rr.Key, "race detector: "+rr.Key, map[string]interface{}{"report": rr.First, "count": rr.Count})
			} else {
				other = append(other, rr)
			}
		}
		r.Extra("race_reports", other)
	}
	r.Extra("race_detector", os.Getenv("VERIF_RACE_LOG") != "")
	if r.Counter("empty_canonical_encoding:MiniBlock") == 0 && r.ReplayCase < 0 {
		r.Inconclusive("no all-default miniblock was generated")
	}
	r.Finish()
}
