package main

// Two further workload dimensions of C18:
//
//  1. marshalizer wrapping chains. On a node every component wraps the SHARED internal marshalizer again
//     (interceptors, resolvers, consensus, heartbeat with the configured SizeCheckDelta; the hardfork export
//     path with math.MaxUint32) and stores the wrapper back. Whatever the number and order of wrappings, the
//     accepted drift must be the strictest delta of the chain: an encoding longer than
//     size + size*min(deltas)/100 must never be accepted (it would be one more valid copy under another hash).
//
//  2. fields that no signature covers. A transaction's Signature and a header's LeaderSignature are the only
//     fields outside the signed content; a second accepted byte string with the same signed content and other
//     bytes in such a field is a second valid copy of the signed object under a different hash.

import (
	"math"
	"math/big"

	"github.com/ElrondNetwork/elrond-go/data"
	"github.com/ElrondNetwork/elrond-go/data/transaction"
	"github.com/ElrondNetwork/elrond-go/marshal"
	"verif/internal/vk"
)

type wrapChain struct {
	name   string
	deltas []uint32 // deltas[0] is the first (innermost) wrapping
}

var wrapChains = []wrapChain{
	{"10+10", []uint32{sizeCheckDelta, sizeCheckDelta}},
	{"10+max", []uint32{sizeCheckDelta, math.MaxUint32}}, // interceptors, then the hardfork export factory
	{"max+10", []uint32{math.MaxUint32, sizeCheckDelta}},
	{"10+100", []uint32{sizeCheckDelta, 100}},
	{"100+10", []uint32{100, sizeCheckDelta}},
	{"10+5", []uint32{sizeCheckDelta, 5}},
	{"5+10", []uint32{5, sizeCheckDelta}},
	{"10+10+max", []uint32{sizeCheckDelta, sizeCheckDelta, math.MaxUint32}},
	{"10+max+10", []uint32{sizeCheckDelta, math.MaxUint32, sizeCheckDelta}},
	{"30+10+20", []uint32{30, sizeCheckDelta, 20}},
}

// build wraps inner once per delta, in order; returns the outermost marshalizer and the strictest delta
func (w wrapChain) build(inner marshal.Marshalizer) (marshal.Marshalizer, uint32) {
	m := inner
	strict := uint32(math.MaxUint32)
	for _, d := range w.deltas {
		m = marshal.NewSizeCheckUnmarshalizer(m, d)
		if d < strict {
			strict = d
		}
	}
	return m, strict
}

// growTargets: numbers of bytes to add to an encoding of canonical size n so that the result lies just beyond
// the strictest bound, and between the strictest delta and every looser delta of the chain, and far beyond
func (w wrapChain) growTargets(n int, strict uint32) []int {
	base := n * int(strict) / 100
	out := []int{base + 1, base + 3}
	for _, d := range w.deltas {
		if d > strict && d != math.MaxUint32 {
			hi := n * int(d) / 100
			out = append(out, (base+hi)/2+1, hi)
		}
	}
	out = append(out, n*60/100+4, n*150/100+8)
	return out
}

// ---------------------------------------------------------------------------------------

type unsignedVariant struct {
	class string // witness class: signature-extended, signature-truncated, signature-second-scalar-form, leader-signature-...
	sub   string
	obj   interface{}
}

func variantClass(prefix, sub string) string {
	switch {
	case len(sub) >= 8 && sub[:8] == "extended":
		return prefix + "-extended"
	case sub == "truncated":
		return prefix + "-truncated"
	}
	return prefix + "-second-scalar-form"
}

// ed25519 group order L (little-endian scalar S of a signature must be < L)
var edOrder, _ = new(big.Int).SetString("7237005577332262213973186563042994240857116359379907606001950938285454250989", 10)

func sigVariants(rng *vk.Rand, sig []byte, ed bool) map[string][]byte {
	out := map[string][]byte{}
	cat := func(a []byte, b ...byte) []byte { return append(append([]byte(nil), a...), b...) }
	out["extended-zero-byte"] = cat(sig, 0)
	out["extended-random-bytes"] = cat(sig, rng.Bytes(1+rng.Intn(40))...)
	out["extended-twice"] = cat(sig, sig...)
	if len(sig) > 1 {
		out["truncated"] = cat(sig[:len(sig)-1])
	}
	if ed && len(sig) == 64 {
		// S + L: the same scalar modulo the group order in a second representation
		le := sig[32:]
		be := make([]byte, 32)
		for i := range le {
			be[31-i] = le[i]
		}
		s := new(big.Int).SetBytes(be)
		s.Add(s, edOrder)
		if s.BitLen() <= 256 {
			sb := s.Bytes()
			nle := make([]byte, 32)
			for i := range sb {
				nle[i] = sb[len(sb)-1-i]
			}
			out["scalar-plus-group-order"] = cat(sig[:32], nle...)
		}
	}
	return out
}

// unsignedVariants returns copies of the object (decoded from its canonical encoding E) that differ from it only
// in a field that no signature covers. nil for types without such a field.
func (e *env) unsignedVariants(t *tspec, E []byte, rng *vk.Rand) []unsignedVariant {
	fresh := func() interface{} {
		o := t.empty()
		if e.plain.Unmarshal(o, E) != nil {
			return nil
		}
		return o
	}
	var out []unsignedVariant
	base := fresh()
	switch b := base.(type) {
	case *transaction.Transaction:
		want, err := b.GetDataForSigning(e.pubConv, e.signMsh)
		if err != nil {
			return nil
		}
		for sub, sig := range sigVariants(rng, b.Signature, true) {
			o := fresh().(*transaction.Transaction)
			o.Signature = sig
			got, err := o.GetDataForSigning(e.pubConv, e.signMsh)
			if err != nil || string(got) != string(want) {
				continue
			}
			out = append(out, unsignedVariant{variantClass("signature", sub), "signature-" + sub, o})
		}
	case data.HeaderHandler:
		for sub, sig := range sigVariants(rng, b.GetLeaderSignature(), false) {
			o := fresh().(data.HeaderHandler)
			o.SetLeaderSignature(sig)
			out = append(out, unsignedVariant{variantClass("leader-signature", sub), "leader-signature-" + sub, o})
		}
	}
	// deterministic order (map iteration above)
	for i := 1; i < len(out); i++ {
		for j := i; j > 0 && out[j].sub < out[j-1].sub; j-- {
			out[j], out[j-1] = out[j-1], out[j]
		}
	}
	return out
}
