// C12 — validator reshuffling neither loses nor duplicates validators.
// Monitor shape: conservation (multiset equality) over the real NodesShuffler.UpdateNodeLists.
//
//	input  multiset: eligible ∪ waiting ∪ new (pairwise distinct keys by construction)
//	output multiset: Eligible ∪ Waiting ∪ (Leaving restricted to keys that were eligible or waiting)
//
// Every input key must occur exactly once in the output, no foreign key may appear in the lists, every
// key of Leaving must have been eligible or waiting before, and a leaving request that was not
// honoured (StillRemaining, not in Leaving) must still be in a list.
package main

import (
	"fmt"

	logger "github.com/ElrondNetwork/elrond-go-logger"
	sg "verif/internal/shufflegen"
	"verif/internal/vk"
)

func main() {
	_ = logger.SetLogLevel("*:NONE")
	r := vk.Start("C12")
	r.Rule("two families of cases. (a) random shuffler inputs: 1-4 shards + metachain, minimums 1-5, per-shard eligible/waiting sizes 0-12 around the minimum (at, above, far above, below), 0-8 new nodes, unstake/additional leaving lists drawn from eligible, waiting, unknown, new-node and duplicated keys (none/light/medium/heavy/all), epochs 0-12 on both sides of the balance and waiting-list-fix activation epochs, both distributors, 0-3 MaxNodesChangeConfig entries, empty/short/32-byte randomness. (b) configuration extremes (sg.GenExtreme, the last ~quarter of the cases): metachain-only network (0 shards), 1, 2, 3-4 or 5-8 shards, eligible and waiting map each nil / allocated without keys / empty lists only / populated, every shard exactly at its minimum / slightly above / one oversized shard (15-30 above) / one shard below its minimum / mixed, whole population waiting or whole population eligible, 0 / 1 / 2-5 / 10-25 new nodes, leaving lists biased to 'everybody leaves', adaptivity on in a third of them (split/merge preparation paths), hysteresis up to 1; a case is non-trivial when UpdateNodeLists returned a result for a non-empty validator set; distinct = distinct (shards, minimums, flags, max swap, per-shard sizes, new count, leaving composition by class; for (b) also the two map shapes, per-shard key presence, adaptivity, hysteresis)")
	r.Assume("eligible, waiting and new keys of an input are pairwise distinct (duplicates and unknown keys only occur in the leaving lists)", "an input whose shard has fewer than the minimum eligible+waiting is rejected with an error by the shuffler and gives nothing to check")
	r.MinShapes(200)
	n := r.N(20000, 1200000)
	nExt := r.N(7000, 400000)

	r.Parallel(n+nExt, func(c *vk.Case) {
		var in *sg.Input
		extreme := c.Idx >= n
		if extreme {
			in = sg.GenExtreme(c.Rng)
			r.Count("extreme_cases", 1)
		} else {
			in = sg.Gen(c.Rng, sg.Opts{})
		}
		out := in.Run(nil)
		r.Eval(1)
		if out.Err != "" {
			r.Count("rejected_with_error", 1)
			if in.MeetsMin() {
				r.Count("error_although_every_shard_has_its_minimum", 1)
			}
			r.Trivial()
			return
		}
		was := map[string]string{} // key -> class before
		total := 0
		for _, s := range in.Shards() {
			for _, v := range in.Eligible[s] {
				was[v.Key] = "eligible"
				total++
			}
			for _, v := range in.Waiting[s] {
				was[v.Key] = "waiting"
				total++
			}
		}
		for _, v := range in.New {
			was[v.Key] = "new"
			total++
		}
		if total == 0 {
			r.Trivial()
			return
		}
		if extreme {
			r.Shape(in.ExtSig())
			r.Count("extreme_results_checked", 1)
			r.Count(fmt.Sprintf("extreme_checked_shards_%d", in.NbShards), 1)
			es, ws := in.EligibleShape(), in.WaitingShape()
			r.Count("extreme_checked_eligible_"+es+"_waiting_"+ws, 1)
			if in.NbShards == 0 && len(in.New) > 0 && (ws == sg.MapNil || ws == sg.MapNoKeys) {
				r.Count("extreme_checked_metachain_only_no_waiting_key_with_new_nodes", 1)
			}
			if es != sg.MapPopulated && ws != sg.MapPopulated {
				r.Count("extreme_checked_only_new_nodes", 1)
			}
			if in.Adaptivity {
				r.Count("extreme_checked_with_adaptivity", 1)
			}
		} else {
			r.Shape(in.Sig())
		}
		r.Count("results_checked", 1)
		if in.FixActive() {
			r.Count("with_waiting_list_fix", 1)
		}
		if in.BalanceActive() && in.ShuffleBetweenShards {
			r.Count("with_balanced_cross_shard", 1)
		}
		r.Count("leaving_mode_"+in.LeavingMode, 1)

		detail := func() map[string]interface{} {
			return map[string]interface{}{"input": in.Dump(), "output": out.Dump()}
		}
		// one report per case and witness class
		done := map[string]bool{}
		viol := func(key, what string) {
			if !done[key] {
				done[key] = true
				r.Violation(c.Idx, key, what, detail())
			}
		}
		inLists := map[string]int{}
		where := map[string]string{}
		for s, l := range out.Eligible {
			for _, k := range l {
				inLists[k]++
				where[k] += fmt.Sprintf(" eligible[%s]", sg.ShardName(s))
			}
		}
		for s, l := range out.Waiting {
			for _, k := range l {
				inLists[k]++
				where[k] += fmt.Sprintf(" waiting[%s]", sg.ShardName(s))
			}
		}
		inLeaving := map[string]int{}
		for _, k := range out.Leaving {
			inLeaving[k]++
		}
		r.Count("keys_in", total)
		r.Count("keys_leaving_out", len(out.Leaving))
		r.Count("keys_still_remaining", len(out.StillRemaining))

		// 1. leaving keys were eligible or waiting before
		for _, k := range out.Leaving {
			cl, ok := was[k]
			if !ok || cl == "new" {
				kind := "unknown key"
				if ok {
					kind = "new node"
				}
				viol("leaving-not-previously-known",
					fmt.Sprintf("key %x (%s) is reported in ResUpdateNodes.Leaving but was neither eligible nor waiting", k, kind))
			}
		}
		// 2. conservation: every input key exactly once
		for k, cl := range was {
			cnt := inLists[k]
			lv := 0
			if cl != "new" {
				lv = inLeaving[k]
			}
			switch {
			case cnt+lv == 0:
				viol("validator-lost", fmt.Sprintf("%s key %x is in no new list and not in Leaving", cl, k))
			case cnt > 1:
				viol("validator-duplicated-in-lists", fmt.Sprintf("%s key %x occurs %d times:%s", cl, k, cnt, where[k]))
			case cnt == 1 && lv >= 1:
				viol("validator-listed-and-leaving", fmt.Sprintf("%s key %x is in Leaving and still in%s", cl, k, where[k]))
			case lv > 1:
				viol("validator-duplicated-in-leaving", fmt.Sprintf("%s key %x occurs %d times in Leaving", cl, k, lv))
			}
		}
		// 3. no foreign key in the lists
		for k := range inLists {
			if _, ok := was[k]; !ok {
				viol("foreign-key-in-lists", fmt.Sprintf("key %x was not in the input but is in%s", k, where[k]))
			}
		}
		// 4. requests not honoured leave the validator in its lists
		for _, k := range out.StillRemaining {
			if inLeaving[k] == 0 && inLists[k] == 0 {
				viol("not-honoured-but-removed", fmt.Sprintf("key %x is in StillRemaining, not in Leaving, and in no list", k))
			}
		}
		r.Eval(3)
		if len(out.StillRemaining) > 0 {
			r.Count("cases_with_requests_not_honoured", 1)
		}
		if len(out.Leaving) > 0 {
			r.Count("cases_with_leaving", 1)
		}
		if r.NeedSample() && len(out.Leaving) > 0 && len(out.StillRemaining) > 0 && in.NbShards <= 2 {
			r.Sample(detail())
		}
	})
	if r.ReplayCase < 0 {
		for _, k := range []string{"extreme_checked_shards_0", "extreme_checked_shards_1", "extreme_checked_metachain_only_no_waiting_key_with_new_nodes", "extreme_checked_only_new_nodes", "extreme_checked_with_adaptivity"} {
			if r.Counter(k) < 20 {
				r.Inconclusive(fmt.Sprintf("configuration extreme %q was checked only %d times (floor 20)", k, r.Counter(k)))
			}
		}
	}
	r.Finish()
}
