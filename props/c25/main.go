// C25 — the transaction pool's indexes stay consistent: hash index == union of the per-sender lists, counters
// match the contents, lists are ordered (nonce ascending, gas price descending) without duplicates, and after each
// addition the sender's count and byte limits hold.
// Monitor shape: INV (walker over the verif-hook snapshot at quiescent points; after every operation in the
// sequential phase, after all clients stopped in the concurrent phase, after every driven pair of operations on one
// sender - see driven.go) + RACE (reports are evidence only).
package main

import (
	"fmt"
	"sort"
	"strings"
	"sync"
	"sync/atomic"
	"time"

	logger "github.com/ElrondNetwork/elrond-go-logger"
	"github.com/ElrondNetwork/elrond-go/storage/txcache"
	"verif/internal/txkit"
	"verif/internal/vk"
)

type finding struct {
	key  string
	what string
}

func describeList(txs []txcache.VerifTx) string {
	var p []string
	for _, t := range txs {
		p = append(p, fmt.Sprintf("n%d@%d:%dB", t.Nonce, t.GasPrice/txkit.MinGasPrice, t.Size))
	}
	return "[" + strings.Join(p, " ") + "]"
}

// walk checks the invariants that must hold at every quiescent point. strictIndex=false skips the comparison of
// the hash index with the lists (used for the contended concurrent workload, see the assumptions).
func walk(cache *txcache.TxCache, snap txcache.VerifSnapshotData, strictIndex bool) (out []finding, hashOnly, listOnly int) {
	add := func(key, what string) { out = append(out, finding{key, what}) }
	inLists := map[string]int{}
	for _, s := range snap.Senders {
		si := txkit.SenderIndex(s.Sender)
		if len(s.Txs) == 0 {
			add("empty-sender-list", fmt.Sprintf("sender s%d is in the sender map with an empty list", si))
		}
		sum := int64(0)
		seen := map[string]bool{}
		for i, t := range s.Txs {
			sum += t.Size
			if seen[t.Hash] {
				add("duplicate-in-list", fmt.Sprintf("sender s%d holds %s twice: %s", si, t.Hash, describeList(s.Txs)))
			}
			seen[t.Hash] = true
			inLists[t.Hash]++
			if t.Sender != s.Sender {
				add("wrong-sender-list", fmt.Sprintf("transaction %s is in the list of sender s%d", t.Hash, si))
			}
			if i > 0 {
				p := s.Txs[i-1]
				if p.Nonce > t.Nonce {
					add("order-violation kind=nonce", fmt.Sprintf("sender s%d list %s: nonce %d before nonce %d", si, describeList(s.Txs), p.Nonce, t.Nonce))
				} else if p.Nonce == t.Nonce && p.GasPrice < t.GasPrice {
					add("order-violation kind=gas-price", fmt.Sprintf("sender s%d list %s: at nonce %d gas price %d before %d", si, describeList(s.Txs), t.Nonce, p.GasPrice/txkit.MinGasPrice, t.GasPrice/txkit.MinGasPrice))
				}
			}
		}
		if sum != s.TotalBytes {
			add("counter-mismatch kind=sender-bytes", fmt.Sprintf("sender s%d: byte counter %d, list holds %d bytes %s", si, s.TotalBytes, sum, describeList(s.Txs)))
		}
	}
	byHash := map[string]bool{}
	bytes := int64(0)
	for _, t := range snap.ByHash {
		byHash[t.Hash] = true
		bytes += t.Size
		if inLists[t.Hash] == 0 {
			hashOnly++
			if strictIndex && hashOnly == 1 {
				add("index-mismatch dir=hash-only", fmt.Sprintf("%s is found by hash but is in no sender list", t.Hash))
			}
		}
	}
	for h := range inLists {
		if !byHash[h] {
			listOnly++
			if strictIndex && listOnly == 1 {
				add("index-mismatch dir=list-only", fmt.Sprintf("%s is in a sender list but not found by hash", h))
			}
		}
		// the exported lookup agrees with the hash index
		_, ok := cache.GetByTxHash([]byte(h))
		if ok != byHash[h] {
			add("get-by-hash-mismatch", fmt.Sprintf("GetByTxHash(%s)=%v, hash index says %v", h, ok, byHash[h]))
		}
	}
	if snap.CountTx != uint64(len(snap.ByHash)) || cache.CountTx() != snap.CountTx {
		add("counter-mismatch kind=tx", fmt.Sprintf("CountTx %d, hash index holds %d", cache.CountTx(), len(snap.ByHash)))
	}
	if snap.NumBytes != bytes || int64(cache.NumBytes()) != snap.NumBytes {
		add("counter-mismatch kind=bytes", fmt.Sprintf("NumBytes %d, hash index holds %d bytes", cache.NumBytes(), bytes))
	}
	if snap.CountSenders != uint64(len(snap.Senders)) || cache.CountSenders() != snap.CountSenders {
		add("counter-mismatch kind=senders", fmt.Sprintf("CountSenders %d, sender map holds %d lists", cache.CountSenders(), len(snap.Senders)))
	}
	return
}

const knownSingleEviction = "sender-limit-exceeded kind=bytes class=single-eviction-per-add"

// limits checks the per-sender limits of the list an AddTx just inserted into. evicted = number of transactions of
// that sender dropped by this AddTx (-1: not known, e.g. after a concurrent round).
// Byte limit exceeded although this AddTx evicted something = the known single-eviction-per-add behaviour (more than
// one eviction was needed, one happened); exceeded without any eviction, or the count limit exceeded, are other classes.
func limits(s txcache.VerifSender, cfg txcache.ConfigSourceMe, evicted int) (out []finding) {
	si := txkit.SenderIndex(s.Sender)
	sum := int64(0)
	for _, t := range s.Txs {
		sum += t.Size
	}
	if len(s.Txs) > int(cfg.CountPerSenderThreshold) {
		out = append(out, finding{"sender-limit-exceeded kind=count", fmt.Sprintf("sender s%d holds %d transactions after an addition, limit %d: %s", si, len(s.Txs), cfg.CountPerSenderThreshold, describeList(s.Txs))})
	}
	if sum > int64(cfg.NumBytesPerSenderThreshold) && evicted >= 0 {
		key := "sender-limit-exceeded kind=bytes class=no-eviction"
		if evicted > 0 {
			key = knownSingleEviction
		}
		out = append(out, finding{key, fmt.Sprintf("sender s%d holds %d bytes after an addition that evicted %d of its transactions, limit %d: %s", si, sum, evicted, cfg.NumBytesPerSenderThreshold, describeList(s.Txs))})
	}
	return
}

func genConfig(rng *vk.Rand, eviction bool) txcache.ConfigSourceMe {
	return txcache.ConfigSourceMe{
		Name: "c25", NumChunks: []uint32{1, 4, 16}[rng.Intn(3)], EvictionEnabled: eviction,
		NumBytesThreshold:             uint32(rng.Range(1500, 8000)),
		NumBytesPerSenderThreshold:    []uint32{1000, 1200, 1500}[rng.Intn(3)],
		CountThreshold:                uint32(rng.Range(4, 24)),
		CountPerSenderThreshold:       uint32(rng.Range(2, 6)),
		NumSendersToPreemptivelyEvict: uint32(rng.Range(1, 3)),
	}
}

var prices = []uint64{txkit.MinGasPrice, 2 * txkit.MinGasPrice, 3 * txkit.MinGasPrice}

// uniform > 0: every transaction of the case has that size, so one eviction always restores the byte limit
func genSpec(rng *vk.Rand, sender int, cfg txcache.ConfigSourceMe, uniform int64) txkit.TxSpec {
	size := int64(100 * rng.Range(1, 4))
	if uniform > 0 {
		size = uniform
	} else if rng.Chance(1, 5) {
		// a large one that still fits the per-sender byte limit on its own
		lim := int(cfg.NumBytesPerSenderThreshold)
		size = int64(rng.Range(lim*7/10, lim))
	}
	return txkit.TxSpec{Sender: sender, Nonce: uint64(rng.Intn(13)), GasPrice: prices[rng.Intn(3)], Size: size, Variant: rng.Intn(2)}
}

func cfgString(c txcache.ConfigSourceMe) string {
	return fmt.Sprintf("{chunks %d, eviction %v, bytes %d, bytesPerSender %d, count %d, countPerSender %d, sendersToEvict %d}", c.NumChunks, c.EvictionEnabled, c.NumBytesThreshold, c.NumBytesPerSenderThreshold, c.CountThreshold, c.CountPerSenderThreshold, c.NumSendersToPreemptivelyEvict)
}

const sweepListKey = "sweep-list-not-cleared-after-sweep"

// seqRun is one sequential history: the real cache, the previous quiescent snapshot and the bookkeeping
type seqRun struct {
	r                            *vk.Run
	c                            *vk.Case
	cfg                          txcache.ConfigSourceMe
	cache                        *txcache.TxCache
	prev                         txcache.VerifSnapshotData
	trace                        []string
	events                       map[string]bool
	added                        []txkit.TxSpec
	held                         bool // the harness holds the sweeping mutex: the asynchronous sweep of the last selection is delayed
	step                         int
	knownReported, sweepReported bool
	wrap                         func(txkit.TxSpec) *txcache.WrappedTransaction // nil: spec.Wrap (the driven phase hands decorated transactions to the cache)
}

func (q *seqRun) report(f finding, snap txcache.VerifSnapshotData) {
	tr := q.trace
	if len(tr) > 300 {
		tr = tr[len(tr)-300:]
	}
	var lists []string
	for _, s := range snap.Senders {
		lists = append(lists, fmt.Sprintf("s%d (%d bytes) %s", txkit.SenderIndex(s.Sender), s.TotalBytes, describeList(s.Txs)))
	}
	sort.Strings(lists)
	q.r.Violation(q.c.Idx, f.key, f.what, map[string]interface{}{"config": cfgString(q.cfg), "trace_tail": tr, "lists": lists, "hash_index_size": len(snap.ByHash), "sweep_pending": snap.SweepPending})
}

// check is the oracle applied after every operation. kind: 0 add 1 remove 2 select 3 notify. It returns false when
// the history must stop (a violation other than the known one was reported).
func (q *seqRun) check(kind int, addedSender int, inserted bool) bool {
	r := q.r
	var snap txcache.VerifSnapshotData
	if q.held {
		// the sweep of the last selection is being delayed by the harness: the state is quiescent, the collected
		// senders are legitimately still listed
		snap = q.cache.VerifSnapshot()
	} else {
		var cleared bool
		snap, cleared = txkit.Quiesce(q.cache)
		if !cleared && !q.sweepReported {
			q.sweepReported = true
			q.report(finding{sweepListKey, fmt.Sprintf("%d senders are still listed for sweeping after a sweep has completed (no selection running): a later sweep will act on stale lists", snap.SweepPending)}, snap)
		}
	}
	r.Eval(1)
	fs, _, _ := walk(q.cache, snap, true)
	evictedBySenderLimit := 0
	if addedSender >= 0 && inserted {
		// "after each addition": only when this AddTx really inserted the transaction (a refused duplicate is no addition)
		if view, here := txkit.SenderView(snap, addedSender); here {
			before, _ := txkit.SenderView(q.prev, addedSender)
			evictedBySenderLimit = len(before.Txs) + 1 - len(view.Txs)
			if len(view.Txs) == 1 {
				evictedBySenderLimit = 0 // alone in its list (possibly after a capacity eviction of the sender): nothing to classify
			}
			fs = append(fs, limits(view, q.cfg, evictedBySenderLimit)...)
			if evictedBySenderLimit == 1 {
				r.Count("adds_where_one_sender_eviction_sufficed_or_happened", 1)
			}
		}
	}
	for _, f := range fs {
		if f.key == knownSingleEviction {
			// known behaviour: report once per case and keep checking the other invariants of this history
			if !q.knownReported {
				q.report(f, snap)
				q.knownReported = true
			}
			q.events["byte-limit-left-exceeded"] = true
			continue
		}
		q.report(f, snap)
		return false
	}
	// events for the shape signature
	switch {
	case kind == 0:
		if inserted && evictedBySenderLimit > 0 {
			q.events["sender-limit-eviction"] = true
			r.Count("sender_limit_evictions", evictedBySenderLimit)
		}
		gone := 0
		for _, s := range q.prev.Senders {
			if _, here := txkit.SenderView(snap, txkit.SenderIndex(s.Sender)); !here {
				gone++
			}
		}
		if gone > 0 {
			q.events["cache-eviction"] = true
			r.Count("senders_evicted_by_capacity", gone)
		}
	case kind == 2 && len(snap.Senders) < len(q.prev.Senders):
		q.events["sweep"] = true
		r.Count("senders_swept", len(q.prev.Senders)-len(snap.Senders))
	case kind == 1 && len(snap.Senders) < len(q.prev.Senders):
		q.events["remove-last-of-sender"] = true
		r.Count("senders_removed_with_last_tx", 1)
	}
	for _, s := range snap.Senders {
		for i := 1; i < len(s.Txs); i++ {
			if s.Txs[i].Nonce == s.Txs[i-1].Nonce {
				q.events["equal-nonces"] = true
			}
		}
	}
	r.Max("max_txs_in_pool", int64(len(snap.ByHash)))
	q.prev = snap
	return true
}

func (q *seqRun) add(spec txkit.TxSpec, dup bool) bool {
	w := spec.Wrap()
	if q.wrap != nil {
		w = q.wrap(spec)
	}
	ok, add := q.cache.AddTx(w)
	q.added = append(q.added, spec)
	q.trace = append(q.trace, fmt.Sprintf("%d AddTx(%s) -> %v,%v", q.step, spec.Hash(), ok, add))
	q.r.Count("op_add", 1)
	if dup && !add {
		q.events["duplicate-add"] = true
		q.r.Count("duplicate_adds_refused", 1)
	}
	return q.check(0, spec.Sender, add)
}

func (q *seqRun) remove(hash string) bool {
	res := q.cache.RemoveTxByHash([]byte(hash))
	q.trace = append(q.trace, fmt.Sprintf("%d RemoveTxByHash(%s) -> %v", q.step, hash, res))
	q.r.Count("op_remove", 1)
	if res {
		q.r.Count("removes_found", 1)
	}
	return q.check(1, -1, false)
}

func (q *seqRun) notify(s int, n uint64) bool {
	q.cache.NotifyAccountNonce(txkit.SenderAddr(s), n)
	q.trace = append(q.trace, fmt.Sprintf("%d NotifyAccountNonce(s%d,%d)", q.step, s, n))
	q.r.Count("op_notify", 1)
	return q.check(3, -1, false)
}

// selectTxs runs a selection. hold=true: right after it returned the harness takes the sweeping mutex, so that the
// sweep started asynchronously by the selection is delayed until release() (a legal schedule of that goroutine;
// if the goroutine was faster the sweep has already happened). No selection may be made while the mutex is held.
func (q *seqRun) selectTxs(n, b int, hold bool) bool {
	res := q.cache.SelectTransactions(n, b)
	if hold {
		q.cache.VerifLockSweep()
		q.held = true
	}
	q.trace = append(q.trace, fmt.Sprintf("%d SelectTransactions(%d,%d) -> %d txs (sweep delayed: %v)", q.step, n, b, len(res), hold))
	q.r.Count("op_select", 1)
	return q.check(2, -1, false)
}

func (q *seqRun) release() bool {
	if !q.held {
		return true
	}
	q.held = false
	q.cache.VerifUnlockSweep()
	q.trace = append(q.trace, fmt.Sprintf("%d (delayed sweep runs now)", q.step))
	return q.check(2, -1, false)
}

// gapScenario drives one sender through the life cycle that ends in a sweep: initial nonce gap, three failed
// selections (the third collects it for sweeping), and - with the sweep delayed - removal of all its transactions by
// hash before the sweep runs, so that the sweep finds nothing to do; afterwards the same sender comes back with new
// transactions and further selections (and their sweeps) follow.
func (q *seqRun) gapScenario(rng *vk.Rand, nSenders int, uniform int64) bool {
	s := rng.Intn(nSenders)
	view, here := txkit.SenderView(q.prev, s)
	if !here || view.Txs[0].Nonce == 0 {
		// (re)start the sender with transactions above nonce 0
		if here {
			for _, t := range view.Txs {
				if !q.remove(t.Hash) {
					return false
				}
			}
		}
		for i, n := 0, rng.Range(1, 2); i < n; i++ {
			spec := genSpec(rng, s, q.cfg, uniform)
			spec.Nonce = uint64(rng.Range(1, 6))
			if !q.add(spec, false) {
				return false
			}
		}
		view, here = txkit.SenderView(q.prev, s)
		if !here {
			return true // evicted right away by the capacity eviction: nothing to drive
		}
	}
	if !q.notify(s, view.Txs[0].Nonce-1) {
		return false
	}
	delayed := rng.Chance(3, 4)
	for i := 0; i < 3; i++ {
		if !q.selectTxs(100, []int{1, 2, 10}[rng.Intn(3)], i == 2 && delayed) {
			return false
		}
	}
	q.r.Count("gap_scenarios", 1)
	if q.held {
		if q.prev.SweepPending > 0 {
			q.r.Count("gap_scenarios_with_sweep_delayed_while_senders_listed", 1)
			q.events["delayed-sweep"] = true
		}
		// remove the collected sender's transactions before its sweep runs (never add while the sweep is delayed:
		// re-creating a collected sender before its sweep is a concurrent interleaving the code does not handle)
		if view, here = txkit.SenderView(q.prev, s); here && rng.Chance(4, 5) {
			for _, t := range view.Txs {
				if !q.remove(t.Hash) {
					return false
				}
			}
			if q.prev.SweepPending > 0 {
				q.r.Count("gap_scenarios_sender_removed_before_its_sweep", 1)
				q.events["removed-before-sweep"] = true
			}
		}
		if !q.release() {
			return false
		}
	}
	// the sender comes back
	for i, n := 0, rng.Range(1, 3); i < n; i++ {
		if !q.add(genSpec(rng, s, q.cfg, uniform), false) {
			return false
		}
	}
	for i, n := 0, rng.Range(1, 2); i < n; i++ {
		if !q.selectTxs([]int{3, 100}[rng.Intn(2)], 2, false) {
			return false
		}
	}
	return true
}

func sequentialCase(r *vk.Run, c *vk.Case, nOps int) {
	rng := c.Rng
	cfg := genConfig(rng, rng.Chance(2, 3))
	cache, err := txkit.NewCache(cfg)
	if err != nil {
		r.Violation(c.Idx, "constructor", fmt.Sprintf("NewTxCache(%s): %v", cfgString(cfg), err), nil)
		return
	}
	nSenders := rng.Range(4, 8)
	uniform := int64(0)
	if rng.Chance(1, 3) {
		uniform = int64(50 * rng.Range(3, 9)) // 150..450 bytes, same for every transaction of the case
	}
	q := &seqRun{r: r, c: c, cfg: cfg, cache: cache, events: map[string]bool{}}
	defer func() {
		if q.held { // never leave the mutex held (the asynchronous goroutine would block forever)
			q.held = false
			cache.VerifUnlockSweep()
		}
	}()
	q.prev, _ = txkit.Quiesce(cache)
	scenarioAt := -1
	if rng.Chance(1, 2) {
		scenarioAt = rng.Intn(nOps)
	}
	for q.step = 0; q.step < nOps; q.step++ {
		if q.step == scenarioAt {
			if !q.release() || !q.gapScenario(rng, nSenders, uniform) {
				return
			}
			q.step += 8
			continue
		}
		p := rng.Intn(100)
		ok := true
		switch {
		case p < 55 && !q.held:
			spec := genSpec(rng, rng.Intn(nSenders), cfg, uniform)
			dup := false
			if len(q.added) > 0 && rng.Chance(1, 10) {
				spec = q.added[rng.Intn(len(q.added))]
				dup = true
			}
			ok = q.add(spec, dup)
		case p < 70 || (p < 55 && q.held):
			if len(q.added) == 0 {
				continue
			}
			ok = q.remove(q.added[rng.Intn(len(q.added))].Hash())
		case p < 85 && !q.held:
			ok = q.selectTxs([]int{1, 3, 10, 100}[rng.Intn(4)], []int{1, 2, 10}[rng.Intn(3)], rng.Chance(1, 4))
		case p < 85:
			ok = q.release()
		default:
			ok = q.notify(rng.Intn(nSenders), uint64(rng.Intn(13)))
		}
		if !ok {
			return
		}
		if q.held && rng.Chance(1, 3) {
			if !q.release() {
				return
			}
		}
	}
	if !q.release() {
		return
	}
	events, trace := q.events, q.trace
	if !events["sender-limit-eviction"] && !events["cache-eviction"] && !events["sweep"] {
		r.Trivial()
		return
	}
	var ev []string
	for k := range events {
		ev = append(ev, k)
	}
	sort.Strings(ev)
	r.Shape(fmt.Sprintf("seq chunks%d evict%v perSender%d/%d uniform%v / %s", cfg.NumChunks, cfg.EvictionEnabled, cfg.CountPerSenderThreshold, cfg.NumBytesPerSenderThreshold, uniform > 0, strings.Join(ev, "+")))
	if r.NeedSample() && len(trace) > 12 && c.Idx%13 == 0 {
		r.Sample(map[string]interface{}{"phase": "sequential", "config": cfgString(cfg), "first_ops": trace[:12]})
	}
}

type op struct {
	kind int // 0 add 1 remove 2 select 3 notify 4 read
	spec txkit.TxSpec
	a, b int
}

func runScript(cache *txcache.TxCache, script []op) {
	for _, o := range script {
		switch o.kind {
		case 0:
			cache.AddTx(o.spec.Wrap())
		case 1:
			cache.RemoveTxByHash([]byte(o.spec.Hash()))
		case 2:
			cache.SelectTransactions(o.a, o.b)
		case 3:
			cache.NotifyAccountNonce(txkit.SenderAddr(o.a), uint64(o.b))
		case 4:
			cache.GetByTxHash([]byte(o.spec.Hash()))
		}
	}
}

// concurrentRound runs one shared cache under several clients and checks the invariants after they stopped.
// partitioned: every sender is owned by one client, no capacity eviction, no nonce notifications (hence no sweeps):
// all invariants must hold. contended: everything is shared, eviction and sweeps run: the code documents "slight
// inconsistencies" between the two indexes for such interleavings, so the index comparison is only counted.
func concurrentRound(r *vk.Run, c *vk.Case, partitioned bool, opsPerClient int) {
	rng := c.Rng
	cfg := genConfig(rng, !partitioned)
	cache, err := txkit.NewCache(cfg)
	if err != nil {
		r.Violation(c.Idx, "constructor", fmt.Sprintf("NewTxCache(%s): %v", cfgString(cfg), err), nil)
		return
	}
	clients := rng.Range(4, 8)
	uniform := int64(0)
	sendersPerClient := rng.Range(1, 2)
	nSenders := clients * sendersPerClient
	scripts := make([][]op, clients)
	var shared []txkit.TxSpec
	for i := 0; i < 24; i++ {
		shared = append(shared, genSpec(rng, rng.Intn(nSenders), cfg, uniform))
	}
	for ci := range scripts {
		var mine []txkit.TxSpec
		for j := 0; j < opsPerClient; j++ {
			sender := rng.Intn(nSenders)
			if partitioned {
				sender = ci*sendersPerClient + rng.Intn(sendersPerClient)
			}
			p := rng.Intn(100)
			switch {
			case p < 55:
				spec := genSpec(rng, sender, cfg, uniform)
				if !partitioned && rng.Chance(1, 3) {
					spec = shared[rng.Intn(len(shared))] // the same transaction from several clients
				} else if len(mine) > 0 && rng.Chance(1, 10) {
					spec = mine[rng.Intn(len(mine))]
				}
				mine = append(mine, spec)
				scripts[ci] = append(scripts[ci], op{kind: 0, spec: spec})
			case p < 75:
				var spec txkit.TxSpec
				if !partitioned && rng.Chance(1, 2) {
					spec = shared[rng.Intn(len(shared))]
				} else if len(mine) > 0 {
					spec = mine[rng.Intn(len(mine))]
				} else {
					continue
				}
				scripts[ci] = append(scripts[ci], op{kind: 1, spec: spec})
			case p < 85:
				scripts[ci] = append(scripts[ci], op{kind: 2, a: []int{1, 5, 50}[rng.Intn(3)], b: []int{1, 3}[rng.Intn(2)]})
			case p < 92 && !partitioned:
				scripts[ci] = append(scripts[ci], op{kind: 3, a: sender, b: rng.Intn(13)})
			default:
				if len(mine) > 0 {
					scripts[ci] = append(scripts[ci], op{kind: 4, spec: mine[rng.Intn(len(mine))]})
				}
			}
		}
	}
	start := make(chan struct{})
	var wg sync.WaitGroup
	var panicked atomic.Bool
	for ci := 0; ci < clients; ci++ {
		wg.Add(1)
		go func(id int) {
			defer wg.Done()
			<-start
			if p, v, st := vk.Guard(func() { runScript(cache, scripts[id]) }); p {
				panicked.Store(true)
				r.Violation(c.Idx, "panic:"+vk.TopFrame(st), fmt.Sprintf("a client of a concurrent round panicked: %v", v), map[string]interface{}{"panic": fmt.Sprint(v), "stack": st})
			}
		}(ci)
	}
	close(start)
	wg.Wait()
	if panicked.Load() {
		return
	}
	total := 0
	for _, s := range scripts {
		total += len(s)
	}
	snap, cleared := txkit.Quiesce(cache)
	r.Eval(1)
	mode := "contended"
	if partitioned {
		mode = "partitioned"
	}
	r.Count("concurrent_rounds_"+mode, 1)
	r.Count("concurrent_operations", total)
	fs, hashOnly, listOnly := walk(cache, snap, partitioned)
	if !cleared {
		// every selection has returned and a sweep has just completed: the list of collected senders must be empty
		fs = append(fs, finding{sweepListKey, fmt.Sprintf("%d senders are still listed for sweeping after all clients stopped and a sweep completed", snap.SweepPending)})
	}
	for _, s := range snap.Senders {
		// which AddTx evicted what is not observable here: only the count limit is checked, the byte limit is counted
		fs = append(fs, limits(s, cfg, -1)...)
		sum := int64(0)
		for _, t := range s.Txs {
			sum += t.Size
		}
		if sum > int64(cfg.NumBytesPerSenderThreshold) {
			r.Count("obs_concurrent_senders_left_over_byte_limit", 1)
		}
	}
	if !partitioned {
		r.Count("obs_contended_hash_only_entries", hashOnly)
		r.Count("obs_contended_list_only_entries", listOnly)
		if hashOnly+listOnly > 0 {
			r.Count("obs_contended_rounds_with_index_divergence", 1)
		}
	}
	if len(fs) > 0 {
		var lists []string
		for _, s := range snap.Senders {
			lists = append(lists, fmt.Sprintf("s%d (%d bytes) %s", txkit.SenderIndex(s.Sender), s.TotalBytes, describeList(s.Txs)))
		}
		sort.Strings(lists)
		seenKey := map[string]bool{}
		for _, f := range fs {
			if seenKey[f.key] {
				continue
			}
			seenKey[f.key] = true
			r.Violation(c.Idx, f.key, fmt.Sprintf("after a %s concurrent round (%d clients, %d ops): %s", mode, clients, total, f.what), map[string]interface{}{"mode": mode, "config": cfgString(cfg), "lists": lists, "hash_index_size": len(snap.ByHash)})
		}
		return
	}
	sb := len(snap.Senders)
	if sb > 6 {
		sb = 6
	}
	r.Shape(fmt.Sprintf("conc %s clients%d chunks%d senders-left%d diverged%v", mode, clients, cfg.NumChunks, sb, hashOnly+listOnly > 0))
}

func main() {
	_ = logger.SetLogLevel("*:NONE")
	r := vk.Start("C25")
	r.Rule("sequential: per case one TxCache with small thresholds (eviction on in 2/3 of the cases), 4..8 senders, nonces 0..12, 3 gas prices, sizes 100..400 plus large ones (70..100% of the per-sender byte limit, so one always fits), random AddTx (10% duplicates) / RemoveTxByHash / SelectTransactions / NotifyAccountNonce, all invariants after every operation at quiescence; a quarter of the selections have their asynchronous sweep delayed over the next removals/notifications (the harness holds the sweeping mutex), and half of the cases contain a scripted sender life cycle (initial nonce gap, 3 failed selections, collected for sweeping, all its transactions removed by hash before the delayed sweep runs, sender comes back, more selections); non-trivial when a per-sender eviction, a capacity eviction or a sweep happened; distinct = (config class, set of events). concurrent: 4..8 clients on one cache, partitioned rounds (own senders, no eviction/sweeps: all invariants) and contended rounds (shared senders and transactions, eviction and sweeps: list order, counters, limits), checked after the clients stopped. driven pairs (driven.go): per case one cache without capacity eviction, 2 senders kept filled up to their per-sender limit (half of the cases with equal transaction sizes, so that the byte limit binds exactly), 3..6 pairs of operations (add/add, remove/add, add/remove, remove/remove; 5/6 on the same sender) issued from two goroutines: the first is parked by the transaction decorator at a chosen GetSndAddr call (outside the list lock: before the sender lookup, or between the list's eviction and the clean-up of the hash index) or GetNonce call (inside the list's critical section), the second then runs until it returns or blocks on the list lock, then the first resumes; all invariants at quiescence after every pair and after the sequential additions/removals in between; distinct = (pair kind, hand-over point, outcome of the second operation, change of the list length)")
	r.Assume("quiescence = no client running and the pending sweep completed: the harness runs sweepSweepable synchronously through the verif hook (no waiting on the scheduler) and reads under the sweeping mutex; after a completed sweep with no selection running the list of collected senders must be empty (sweepSweepable re-initialises it at the end of every sweep)",
		"while a sweep is delayed the harness never adds transactions: re-creating a collected sender before its sweep runs is a concurrent interleaving of the asynchronous sweep with AddTx that the code does not claim to handle",
		"Clear() is not in the operation set",
		"contended concurrent rounds: the code itself documents that the two indexes may diverge when additions, removals and evictions of the same sender interleave (TxCache.AddTx / RemoveTxByHash comments); the divergence is counted in the evidence, not reported",
		"capacity eviction picks senders in Go map order inside a score bucket, so a replay may evict other senders; recorded details are self-contained",
		"driven pairs: the two operations of a pair never concern the same transaction, additions use transactions never given to the cache before, and a removal paired with an addition of the same sender only happens when the sender holds at least 2 transactions (removing a sender's last transaction while an addition for it is in flight, and adding/removing one transaction from two goroutines, are interleavings for which the code documents that the indexes may diverge); whether the second operation is blocked is read from the runtime's goroutine dump (state of its goroutine), never from elapsed time; with mixed sizes a sender found over its byte limit after a pair is only counted (which addition evicted what is not observable), with equal sizes it is a violation",
		"race-detector reports are evidence only")
	r.MinShapes(40)

	seqCases := r.N(1500, 20000)
	seqOps := r.N(80, 120)
	concCases := r.N(160, 1600)
	concOps := r.N(120, 250)
	drvCases := r.N(1000, 20000)

	t0 := time.Now()
	r.Parallel(seqCases, func(c *vk.Case) {
		if c.Idx < seqCases { // (a replayed concurrent case has a larger index)
			sequentialCase(r, c, seqOps)
		}
	})
	tSeq := time.Since(t0).Seconds()
	// concurrent rounds: a few at a time so that the clients of a round really run in parallel
	if r.ReplayCase < 0 || (r.ReplayCase >= seqCases && r.ReplayCase < seqCases+concCases) {
		r.ParallelW(seqCases+concCases, 3, func(c *vk.Case) {
			if c.Idx < seqCases {
				return
			}
			concurrentRound(r, c, (c.Idx-seqCases)%2 == 0, concOps)
		})
	}
	tConc := time.Since(t0).Seconds() - tSeq
	// driven pairs: two goroutines per case, only one of them runs at a time (hand-over by handshake)
	if r.ReplayCase < 0 || r.ReplayCase >= seqCases+concCases {
		r.Parallel(seqCases+concCases+drvCases, func(c *vk.Case) {
			if c.Idx >= seqCases+concCases {
				drivenCase(r, c)
			}
		})
	}
	if r.ReplayCase < 0 {
		if r.Violations() == 0 {
			for _, k := range []string{"drv_handover_B-returned-while-A-parked", "drv_handover_B-blocked-on-lock-while-A-parked", "drv_window_two_evicting_adds_interleaved", "drv_window_add_queued_behind_removal_of_the_eviction_candidate"} {
				if r.Counter(k) < 20 {
					r.Inconclusive(fmt.Sprintf("driven phase: counter %s is %d (floor 20): the hand-over points were not reached", k, r.Counter(k)))
				}
			}
		}
		r.Extra("phase_wall_s", map[string]float64{"sequential": tSeq, "concurrent": tConc, "driven": time.Since(t0).Seconds() - tSeq - tConc}) // timing only, no oracle reads it
		races := vk.CollectRaces()
		if races == nil {
			races = []vk.RaceReport{}
		}
		r.Extra("race_reports", races)
		r.Extra("race_report_count", len(races))
	}
	r.Finish()
}
