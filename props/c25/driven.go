// C25, driven-interleaving phase: TWO operations on the SAME sender (AddTx / RemoveTxByHash) are issued from two
// goroutines and the point at which the first hands over to the second is chosen by the harness, not by the
// scheduler. Every pooled transaction is given to the cache behind a data.TransactionHandler decorator whose
// GetSndAddr() / GetNonce() - the calls the cache makes on its way through an operation: GetSndAddr before it looks
// up the sender's list and again before it cleans the hash index after a per-sender eviction (both outside any list
// lock), GetNonce for every list element it examines (inside the list's critical section) - count the calls of
// operation A and park A's goroutine at the chosen one (channel handshake). The harness then starts operation B in a
// second goroutine and waits until B has either returned (A was parked outside the list lock) or is blocked on a
// lock (A was parked inside the list's critical section; the state of B's goroutine is read from the runtime's
// goroutine dump - no sleep, no clock), resumes A and waits for both. A goroutine may be pre-empted at any of these
// points, so every interleaving produced is one the unchanged code admits. Per-sender limits are small and the
// sender is kept filled up to its limit, so that additions evict.
// Oracle: at quiescence after every pair, and after every sequential operation in between, the full C25 walk (hash
// index == union of the sender lists, counters == contents, order, no duplicates) plus the per-sender limits.
package main

import (
	"bytes"
	"fmt"
	"runtime"
	"sort"
	"strings"
	"sync/atomic"
	"time"

	"github.com/ElrondNetwork/elrond-go/data/transaction"
	"github.com/ElrondNetwork/elrond-go/storage/txcache"
	"verif/internal/txkit"
	"verif/internal/vk"
)

// drvCtl parks the goroutine of operation A at the parkAt-th intercepted call of the chosen family
type drvCtl struct {
	armed  int32
	family byte // 's': GetSndAddr calls (outside the list lock), 'n': GetNonce calls (inside the list's critical section)
	parkAt int
	seen   map[byte]int
	calls  []string // the intercepted calls of operation A up to the hand-over, in order
	yield  chan struct{}
	resume chan struct{}
}

func (c *drvCtl) point(family byte, hash string) {
	if atomic.LoadInt32(&c.armed) != 1 {
		return
	}
	// only the goroutine of operation A runs while armed (the harness waits on yield/done, B is not started yet)
	idx := c.seen[family]
	c.seen[family] = idx + 1
	c.calls = append(c.calls, fmt.Sprintf("%c:%s", family, hash))
	if family == c.family && idx == c.parkAt {
		atomic.StoreInt32(&c.armed, 0)
		c.yield <- struct{}{}
		<-c.resume
	}
}

// drvTx decorates a transaction; GetSndAddr and GetNonce are intercepted
type drvTx struct {
	*transaction.Transaction
	ctl  *drvCtl
	hash string
}

func (t *drvTx) GetNonce() uint64 {
	t.ctl.point('n', t.hash)
	return t.Transaction.GetNonce()
}

func (t *drvTx) GetSndAddr() []byte {
	t.ctl.point('s', t.hash)
	return t.Transaction.GetSndAddr()
}

// goroutine bookkeeping: id of the current goroutine and the scheduler state of another one, both read from
// runtime.Stack (the state is what `goroutine N [state]:` shows)
func goroutineID() string {
	var b [64]byte
	n := runtime.Stack(b[:], false)
	f := strings.Fields(string(b[:n]))
	if len(f) >= 2 && f[0] == "goroutine" {
		return f[1]
	}
	return ""
}

func goroutineState(id string, buf *[]byte) (state string, found bool) {
	var n int
	for {
		n = runtime.Stack(*buf, true)
		if n < len(*buf) {
			break
		}
		*buf = make([]byte, 2*len(*buf))
	}
	s := (*buf)[:n]
	marker := []byte("goroutine " + id + " [")
	for off := 0; ; {
		i := bytes.Index(s[off:], marker)
		if i < 0 {
			return "", false
		}
		i += off
		if i == 0 || s[i-1] == '\n' {
			rest := s[i+len(marker):]
			if j := bytes.IndexByte(rest, ']'); j >= 0 {
				return string(rest[:j]), true
			}
			return "", false
		}
		off = i + len(marker)
	}
}

func cap2(v int) int {
	if v > 2 {
		return 2
	}
	return v
}

func blockedOnLock(state string) bool {
	return strings.HasPrefix(state, "sync.") || strings.HasPrefix(state, "semacquire")
}

type drvOp struct {
	add    bool
	spec   txkit.TxSpec
	result string
}

func (o *drvOp) String() string {
	if o.add {
		return "AddTx(" + o.spec.Hash() + ")"
	}
	return "RemoveTxByHash(" + o.spec.Hash() + ")"
}

type driven struct {
	q       *seqRun
	ctl     *drvCtl
	uniform int64
	fresh   int
	specs   map[string]txkit.TxSpec
	dump    []byte
	classes map[string]bool
}

func (d *driven) wrap(spec txkit.TxSpec) *txcache.WrappedTransaction {
	w := spec.Wrap()
	w.Tx = &drvTx{Transaction: w.Tx.(*transaction.Transaction), ctl: d.ctl, hash: spec.Hash()}
	return w
}

func (d *driven) run(o *drvOp) {
	if o.add {
		ok, added := d.q.cache.AddTx(d.wrap(o.spec))
		o.result = fmt.Sprintf("%v,%v", ok, added)
	} else {
		o.result = fmt.Sprint(d.q.cache.RemoveTxByHash([]byte(o.spec.Hash())))
	}
}

// freshSpec: a transaction that was never given to this cache before (two goroutines adding or re-adding the SAME
// transaction is an interleaving for which the code documents that the indexes may diverge)
func (d *driven) freshSpec(rng *vk.Rand, sender int) txkit.TxSpec {
	spec := genSpec(rng, sender, d.q.cfg, d.uniform)
	d.fresh++
	spec.Variant = 1 + d.fresh
	d.specs[spec.Hash()] = spec
	return spec
}

const (
	drvUniformKey = "sender-limit-exceeded kind=bytes class=equal-sizes-after-concurrent-pair"
)

// pair runs operations a and b with the hand-over point (family, parkAt) and applies the oracle at quiescence.
func (d *driven) pair(a, b *drvOp, family byte, parkAt int, sameSender bool, note string) bool {
	q, r, ctl := d.q, d.q.r, d.ctl
	ctl.family, ctl.parkAt = family, parkAt
	ctl.seen = map[byte]int{}
	ctl.calls = ctl.calls[:0]
	type fin struct {
		panicked bool
		val      interface{}
		stack    string
	}
	doneA := make(chan fin, 1)
	atomic.StoreInt32(&ctl.armed, 1)
	go func() {
		p, v, st := vk.Guard(func() { d.run(a) })
		doneA <- fin{p, v, st}
	}()
	var fa, fb fin
	parked := false
	select {
	case fa = <-doneA:
	case <-ctl.yield:
		parked = true
	}
	atomic.StoreInt32(&ctl.armed, 0)
	handover := "none (A returned before the chosen point)"
	bOutcome := "after-A"
	if !parked {
		p, v, st := vk.Guard(func() { d.run(b) })
		fb = fin{p, v, st}
		r.Count("drv_pairs_without_handover", 1)
	} else {
		handover = fmt.Sprintf("A parked in its call #%d %s", len(ctl.calls), ctl.calls[len(ctl.calls)-1])
		doneB := make(chan fin, 1)
		started := make(chan string, 1)
		go func() {
			started <- goroutineID()
			p, v, st := vk.Guard(func() { d.run(b) })
			doneB <- fin{p, v, st}
		}()
		gidB := <-started
		bDone := false
		for spins := 0; ; spins++ {
			select {
			case fb = <-doneB:
				bDone = true
			default:
			}
			if bDone {
				bOutcome = "B-returned-while-A-parked"
				break
			}
			if spins < 30 {
				runtime.Gosched()
				continue
			}
			st, found := goroutineState(gidB, &d.dump)
			if found && blockedOnLock(st) {
				bOutcome = "B-blocked-on-lock-while-A-parked"
				break
			}
			if spins > 5000 {
				bOutcome = "B-state-undetermined"
				break
			}
			if spins%10 == 9 {
				time.Sleep(50 * time.Microsecond) // give the processor away; nothing is decided by elapsed time
			} else {
				runtime.Gosched()
			}
		}
		ctl.resume <- struct{}{}
		fa = <-doneA
		if !bDone {
			fb = <-doneB
		}
		r.Count("drv_handover_"+bOutcome, 1)
	}
	kind := map[bool]string{true: "A", false: "R"}[a.add] + map[bool]string{true: "A", false: "R"}[b.add]
	q.trace = append(q.trace, fmt.Sprintf("%d PAIR %s A=%s -> %s || B=%s -> %s; hand-over: %s; %s; A's calls so far %v%s", q.step, kind, a, a.result, b, b.result, handover, bOutcome, ctl.calls, note))
	r.Count("drv_pairs_"+kind, 1)
	for _, f := range []fin{fa, fb} {
		if f.panicked {
			r.Violation(q.c.Idx, "panic:"+vk.TopFrame(f.stack), fmt.Sprintf("an operation of a driven pair panicked: %v", f.val), map[string]interface{}{"panic": fmt.Sprint(f.val), "stack": f.stack, "trace_tail": q.trace})
			return false
		}
	}

	// quiescence: both operations returned, no selection was ever made on this cache
	snap, _ := txkit.Quiesce(q.cache)
	r.Eval(1)
	fs, _, _ := walk(q.cache, snap, true)
	for _, s := range snap.Senders {
		fs = append(fs, limits(s, q.cfg, -1)...) // count limit
		sum := int64(0)
		for _, t := range s.Txs {
			sum += t.Size
		}
		if sum > int64(q.cfg.NumBytesPerSenderThreshold) {
			if d.uniform > 0 {
				// all transactions have the same size: the single eviction an addition performs always restores the limit
				fs = append(fs, finding{drvUniformKey, fmt.Sprintf("sender s%d holds %d bytes after two concurrent operations, limit %d, all transactions have %d bytes: %s", txkit.SenderIndex(s.Sender), sum, q.cfg.NumBytesPerSenderThreshold, d.uniform, describeList(s.Txs))})
			} else {
				r.Count("obs_drv_senders_over_byte_limit_after_pair_mixed_sizes", 1)
			}
		}
	}
	if len(fs) > 0 {
		f := fs[0]
		f.what = fmt.Sprintf("after the driven pair %s (A=%s, B=%s, %s, %s): %s", kind, a, b, handover, bOutcome, f.what)
		q.report(f, snap)
		return false
	}
	before, _ := txkit.SenderView(q.prev, a.spec.Sender)
	after, _ := txkit.SenderView(snap, a.spec.Sender)
	delta := len(after.Txs) - len(before.Txs)
	if sameSender && parked {
		switch {
		case kind == "AA" && family == 's' && parkAt == 1 && bOutcome == "B-returned-while-A-parked":
			r.Count("drv_window_second_add_between_list_eviction_and_index_cleanup_of_first", 1)
			if delta == 0 {
				r.Count("drv_window_two_evicting_adds_interleaved", 1)
			}
		case kind == "RA" && family == 'n' && bOutcome == "B-blocked-on-lock-while-A-parked":
			r.Count("drv_window_add_queued_behind_removal_lookup", 1)
			if len(before.Txs) > 0 && before.Txs[len(before.Txs)-1].Hash == a.spec.Hash() && delta == 0 {
				r.Count("drv_window_add_queued_behind_removal_of_the_eviction_candidate", 1)
			}
		}
		d.classes[fmt.Sprintf("%s/%c%d/%s/d%d", kind, family, cap2(parkAt), bOutcome, delta)] = true
	}
	q.prev = snap
	return true
}

func drivenCase(r *vk.Run, c *vk.Case) {
	rng := c.Rng
	cfg := genConfig(rng, false) // no capacity eviction: sender limits only
	cache, err := txkit.NewCache(cfg)
	if err != nil {
		r.Violation(c.Idx, "constructor", fmt.Sprintf("NewTxCache(%s): %v", cfgString(cfg), err), nil)
		return
	}
	d := &driven{
		ctl:     &drvCtl{yield: make(chan struct{}), resume: make(chan struct{})},
		specs:   map[string]txkit.TxSpec{},
		dump:    make([]byte, 1<<18),
		classes: map[string]bool{},
	}
	if rng.Chance(1, 2) {
		d.uniform = int64(50 * rng.Range(3, 9))
	}
	q := &seqRun{r: r, c: c, cfg: cfg, cache: cache, events: map[string]bool{}, wrap: d.wrap}
	d.q = q
	q.prev, _ = txkit.Quiesce(cache)
	const nSenders = 2
	seqAdd := func(s int) bool {
		spec := genSpec(rng, s, cfg, d.uniform)
		d.specs[spec.Hash()] = spec
		q.step++
		return q.add(spec, false)
	}
	// fill: sequential additions until the sender sits at one of its limits (the last addition evicted, or the
	// count limit is reached)
	fill := func(s int) bool {
		for i := 0; i < 10; i++ {
			before, _ := txkit.SenderView(q.prev, s)
			if len(before.Txs) >= int(cfg.CountPerSenderThreshold) {
				return true
			}
			if !seqAdd(s) {
				return false
			}
			after, _ := txkit.SenderView(q.prev, s)
			if len(after.Txs) <= len(before.Txs) && len(before.Txs) > 0 {
				return true
			}
		}
		return true
	}
	pick := func(list []txcache.VerifTx, not string) (txcache.VerifTx, bool) {
		var cand []txcache.VerifTx
		for _, t := range list {
			if t.Hash != not {
				cand = append(cand, t)
			}
		}
		if len(cand) == 0 {
			return txcache.VerifTx{}, false
		}
		switch rng.Intn(3) {
		case 0:
			return cand[len(cand)-1], true // highest nonce: the candidate of the next per-sender eviction
		case 1:
			return cand[0], true // lowest nonce: what a committed block removes
		}
		return cand[rng.Intn(len(cand))], true
	}
	specOf := func(t txcache.VerifTx) txkit.TxSpec {
		if sp, ok := d.specs[t.Hash]; ok {
			return sp
		}
		return txkit.TxSpec{Sender: txkit.SenderIndex(t.Sender)} // (not reached: every pooled transaction was generated here)
	}

	pairs := rng.Range(3, 6)
	for p := 0; p < pairs; p++ {
		hot := rng.Intn(nSenders)
		if !fill(hot) {
			return
		}
		other := hot
		same := !rng.Chance(1, 6)
		if !same {
			other = (hot + 1) % nSenders
			if !fill(other) {
				return
			}
		}
		listA, _ := txkit.SenderView(q.prev, hot)
		listB, _ := txkit.SenderView(q.prev, other)
		// a removal racing an addition of the same sender must not be able to empty the list (removal of a sender's
		// last transaction racing an addition for it is an interleaving the code documents as not handled)
		canRemove := len(listA.Txs) >= 2 && len(listB.Txs) >= 2
		a, b := &drvOp{add: true}, &drvOp{add: true}
		switch k := rng.Intn(100); {
		case k < 35 || !canRemove:
		case k < 60:
			a.add = false
		case k < 85:
			b.add = false
		default:
			a.add, b.add = false, false
		}
		if a.add {
			a.spec = d.freshSpec(rng, hot)
		} else {
			t, _ := pick(listA.Txs, "")
			a.spec = specOf(t)
		}
		if b.add {
			b.spec = d.freshSpec(rng, other)
		} else {
			not := ""
			if !a.add {
				not = a.spec.Hash()
			}
			t, ok := pick(listB.Txs, not)
			if !ok {
				continue
			}
			b.spec = specOf(t)
		}
		family, parkAt := byte('n'), rng.Intn(len(listA.Txs)+2)
		if rng.Chance(1, 2) {
			family, parkAt = 's', 0
			if a.add && rng.Chance(2, 3) {
				parkAt = 1
			}
		}
		note := ""
		if !same {
			note = " (different senders)"
			r.Count("drv_pairs_on_different_senders", 1)
		}
		q.step++
		if !d.pair(a, b, family, parkAt, same, note) {
			return
		}
		// afterwards: sequential operations on the same sender - "after each addition the limits hold" is checked with
		// the eviction classification of the sequential oracle
		for i, n := 0, rng.Range(1, 3); i < n; i++ {
			if view, here := txkit.SenderView(q.prev, hot); here && len(view.Txs) > 0 && rng.Chance(1, 4) {
				t, _ := pick(view.Txs, "")
				q.step++
				if !q.remove(t.Hash) {
					return
				}
				continue
			}
			if !seqAdd(hot) {
				return
			}
		}
	}
	r.Count("drv_cases", 1)
	if len(d.classes) == 0 {
		r.Trivial()
		return
	}
	var cl []string
	for k := range d.classes {
		cl = append(cl, k)
	}
	sort.Strings(cl)
	for _, k := range cl {
		r.Shape(fmt.Sprintf("driven %s equal-sizes%v", k, d.uniform > 0))
	}
	if r.NeedSample() && c.Idx%17 == 0 {
		tr := q.trace
		if len(tr) > 14 {
			tr = tr[:14]
		}
		r.Sample(map[string]interface{}{"phase": "driven pairs", "config": cfgString(cfg), "first_ops": tr})
	}
}
