// C17 — a header passes signature verification only with a BFT quorum of real signers incl. the leader.
// Monitor shape: reference model with real BLS multi-signatures. For every case a consensus group of
// n in 1..21 real mcl/BLS keys is drawn, a header is signed by chosen subsets S of the group, the shares
// are aggregated with the real blsMultiSigner, and the header is presented to the real
// headerCheck.HeaderSigVerifier under many bitmap byte strings (exact, padding bits set, leader bit
// flipped, wrong length, bits not matching S, tampered content).
// Oracle: VerifySignature == nil  =>  (bitmap bits < n) == S  and  |S| >= floor(2n/3)+1  and  leader in S
// (padding bits never count). Non-vacuity: an honest quorum with the exact bitmap must be accepted.
package main

import (
	"fmt"
	"math/big"
	"sort"
	"strings"

	logger "github.com/ElrondNetwork/elrond-go-logger"
	"github.com/ElrondNetwork/elrond-go/core"
	"github.com/ElrondNetwork/elrond-go/crypto"
	"github.com/ElrondNetwork/elrond-go/crypto/signing"
	"github.com/ElrondNetwork/elrond-go/crypto/signing/mcl"
	llsig "github.com/ElrondNetwork/elrond-go/crypto/signing/mcl/multisig"
	"github.com/ElrondNetwork/elrond-go/crypto/signing/multisig"
	"github.com/ElrondNetwork/elrond-go/data"
	"github.com/ElrondNetwork/elrond-go/data/block"
	"github.com/ElrondNetwork/elrond-go/hashing/blake2b"
	"github.com/ElrondNetwork/elrond-go/marshal"
	"github.com/ElrondNetwork/elrond-go/process/headerCheck"
	"github.com/ElrondNetwork/elrond-go/process/mock"
	"github.com/ElrondNetwork/elrond-go/testscommon"
	"verif/internal/vk"
)

const poolSize = 26

type keyPair struct {
	sk  crypto.PrivateKey
	pk  string
	idx int
}

func mkPool(kg crypto.KeyGenerator, seed uint64) []keyPair {
	rng := vk.NewRand(seed ^ 0xc17c17c17)
	pool := make([]keyPair, 0, poolSize)
	for len(pool) < poolSize {
		b := rng.Bytes(32)
		b[0] &= 0x3f
		b[31] &= 0x3f
		b[1] |= 1 // never zero
		sk, err := kg.PrivateKeyFromByteArray(b)
		if err != nil {
			continue
		}
		pkb, err := sk.GeneratePublic().ToByteArray()
		if err != nil {
			continue
		}
		pool = append(pool, keyPair{sk: sk, pk: string(pkb), idx: len(pool)})
	}
	return pool
}

func bitmapOf(set map[int]bool, n int) []byte {
	sz := n / 8
	if n%8 != 0 {
		sz++
	}
	bm := make([]byte, sz)
	for i := range set {
		if set[i] {
			bm[i/8] |= 1 << uint(i%8)
		}
	}
	return bm
}

func bitsBelow(bm []byte, n int) map[int]bool {
	out := map[int]bool{}
	for i := 0; i < n; i++ {
		if i/8 < len(bm) && bm[i/8]&(1<<uint(i%8)) != 0 {
			out[i] = true
		}
	}
	return out
}

func anyBitAtOrAbove(bm []byte, n int) bool {
	for i := n; i < len(bm)*8; i++ {
		if bm[i/8]&(1<<uint(i%8)) != 0 {
			return true
		}
	}
	return false
}

func padBits(bm []byte, n int) int {
	k := 0
	for i := n; i < len(bm)*8; i++ {
		if bm[i/8]&(1<<uint(i%8)) != 0 {
			k++
		}
	}
	return k
}

func sameSet(a, b map[int]bool) bool {
	if len(a) != len(b) {
		return false
	}
	for k := range a {
		if !b[k] {
			return false
		}
	}
	return true
}

func setStr(s map[int]bool) string {
	var v []int
	for k := range s {
		v = append(v, k)
	}
	sort.Ints(v)
	return strings.Trim(strings.Join(strings.Fields(fmt.Sprint(v)), ","), "[]")
}

func pick(rng *vk.Rand, from []int, k int) map[int]bool {
	out := map[int]bool{}
	p := rng.Perm(len(from))
	for i := 0; i < k && i < len(from); i++ {
		out[from[p[i]]] = true
	}
	return out
}

func seq(lo, hi int) []int { // [lo,hi)
	var v []int
	for i := lo; i < hi; i++ {
		v = append(v, i)
	}
	return v
}

func mkHeader(rng *vk.Rand, meta bool) data.HeaderHandler {
	if meta {
		return &block.MetaBlock{
			Nonce: uint64(rng.Intn(1 << 20)), Round: uint64(rng.Intn(1 << 20)), Epoch: uint32(rng.Intn(50)),
			PrevHash: rng.Bytes(32), PrevRandSeed: rng.Bytes(48), RandSeed: rng.Bytes(48), RootHash: rng.Bytes(32),
			ValidatorStatsRootHash: rng.Bytes(32), TxCount: uint32(rng.Intn(1000)), ChainID: []byte("1"),
			AccumulatedFees: big.NewInt(int64(rng.Intn(1e6))), AccumulatedFeesInEpoch: big.NewInt(int64(rng.Intn(1e6))),
			DeveloperFees: big.NewInt(int64(rng.Intn(1e6))), DevFeesInEpoch: big.NewInt(int64(rng.Intn(1e6))),
			LeaderSignature: rng.Bytes(48),
		}
	}
	return &block.Header{
		Nonce: uint64(rng.Intn(1 << 20)), Round: uint64(rng.Intn(1 << 20)), Epoch: uint32(rng.Intn(50)), ShardID: uint32(rng.Intn(3)),
		PrevHash: rng.Bytes(32), PrevRandSeed: rng.Bytes(48), RandSeed: rng.Bytes(48), RootHash: rng.Bytes(32),
		TxCount: uint32(rng.Intn(1000)), ChainID: []byte("1"), SoftwareVersion: []byte("v1"),
		AccumulatedFees: big.NewInt(int64(rng.Intn(1e6))), DeveloperFees: big.NewInt(int64(rng.Intn(1e6))),
		LeaderSignature: rng.Bytes(48),
		MiniBlockHeaders: []block.MiniBlockHeader{{Hash: rng.Bytes(32), SenderShardID: 0, ReceiverShardID: 1, TxCount: 3}},
	}
}

type variant struct {
	kind     string
	bitmap   []byte
	tampered bool
}

func main() {
	logger.SetLogLevel("*:NONE")
	r := vk.Start("C17")
	r.Rule("per case: consensus group of n in 1..21 real BLS keys (all n covered round-robin, so non-multiples of 8 dominate), shard or meta header with random content; five signer-set kinds (honest quorum, exactly threshold, threshold-1 with leader, quorum without leader, random) x bitmap kinds (exact, some/all padding bits, threshold-k signers + k padding bits, leader bit flipped, extra byte zero/non-zero, truncated, extra non-signer bit, dropped signer bit, tampered header). Non-trivial = a verification that reached the real VerifySignature with a valid aggregated BLS signature; shape = (n, signer kind, bitmap kind, verdict).")
	r.Assume("BLS aggregate signatures are unforgeable: the set of real signers is the set whose shares were aggregated by the harness",
		"group members are distinct (the nodes coordinator never selects a key twice)",
		"fallback validation (consensus stuck on the metachain) is off: FallBackHeaderValidatorStub returns false",
		"the leader is the first member of the consensus group")
	r.MinShapes(40)

	suite := mcl.NewSuiteBLS12()
	kg := signing.NewKeyGenerator(suite)
	msHasher, err := blake2b.NewBlake2bWithSize(multisig.BlsHashSize)
	if err != nil {
		r.Inconclusive("cannot build the multisig hasher: " + err.Error())
		r.Finish()
	}
	llSigner := &llsig.BlsMultiSigner{Hasher: msHasher}
	pool := mkPool(kg, r.Seed)
	msh := &marshal.GogoProtoMarshalizer{}
	hsh := blake2b.NewBlake2b()
	// a template multi-signer only used through Create()
	tmpl, err := multisig.NewBLSMultisig(llSigner, []string{pool[0].pk}, pool[0].sk, kg, 0)
	if err != nil {
		r.Inconclusive("cannot build BLS multisigner: " + err.Error())
		r.Finish()
	}

	nCases := r.N(252, 6300)
	r.Parallel(nCases, func(c *vk.Case) {
		rng := c.Rng
		n := 1 + c.Idx%21
		perm := rng.Perm(poolSize)
		members := make([]keyPair, n)
		group := make([]string, n)
		for i := 0; i < n; i++ {
			members[i] = pool[perm[i]]
			group[i] = members[i].pk
		}
		thr := n*2/3 + 1
		if core.GetPBFTThreshold(n) != thr {
			r.Violation(c.Idx, "threshold-function", fmt.Sprintf("GetPBFTThreshold(%d)=%d want %d", n, core.GetPBFTThreshold(n), thr), nil)
		}
		meta := rng.Bool()
		hdr := mkHeader(rng, meta)

		nc := &mock.NodesCoordinatorMock{GetValidatorsPublicKeysCalled: func(_ []byte, _ uint64, _ uint32, _ uint32) ([]string, error) {
			g := make([]string, len(group))
			copy(g, group)
			return g, nil
		}}
		hsv, err := headerCheck.NewHeaderSigVerifier(&headerCheck.ArgsHeaderSigVerifier{
			Marshalizer: msh, Hasher: hsh, NodesCoordinator: nc, MultiSigVerifier: tmpl,
			SingleSigVerifier: &mock.SignerMock{}, KeyGen: kg, FallbackHeaderValidator: &testscommon.FallBackHeaderValidatorStub{},
		})
		if err != nil {
			r.Violation(c.Idx, "constructor", err.Error(), nil)
			return
		}

		// message = hash of the header without signature, bitmap, leader signature
		cp := hdr.Clone()
		cp.SetSignature(nil)
		cp.SetPubKeysBitmap(nil)
		cp.SetLeaderSignature(nil)
		msg, err := core.CalculateHash(msh, hsh, cp)
		if err != nil {
			r.Violation(c.Idx, "harness-hash", err.Error(), nil)
			return
		}
		shares := make([][]byte, n)
		for i := 0; i < n; i++ {
			shares[i], err = llSigner.SignShare(members[i].sk, msg)
			if err != nil {
				r.Violation(c.Idx, "harness-sign", err.Error(), nil)
				return
			}
		}
		r.Count("sig_shares", n)

		aggregate := func(S map[int]bool) []byte {
			if len(S) == 0 {
				return shares[0] // a syntactically valid G1 point that nobody in the bitmap backs
			}
			ms, err := multisig.NewBLSMultisig(llSigner, group, members[0].sk, kg, 0)
			if err != nil {
				panic(err)
			}
			for i := range S {
				if err := ms.StoreSignatureShare(uint16(i), shares[i]); err != nil {
					panic(err)
				}
			}
			agg, err := ms.AggregateSigs(bitmapOf(S, n))
			if err != nil {
				panic(err)
			}
			return agg
		}

		// signer-set kinds
		type sset struct {
			kind string
			S    map[int]bool
		}
		var sets []sset
		add := func(kind string, S map[int]bool) { sets = append(sets, sset{kind, S}) }
		withLeader := func(k int) map[int]bool { // k signers incl. leader
			S := pick(rng, seq(1, n), k-1)
			S[0] = true
			return S
		}
		add("honest", withLeader(rng.Range(thr, n)))
		add("exact-thr", withLeader(thr))
		if thr-1 >= 1 {
			add("thr-1", withLeader(thr-1))
		}
		if n-1 >= thr {
			add("no-leader", pick(rng, seq(1, n), rng.Range(thr, n-1)))
		}
		add("random", pick(rng, seq(0, n), rng.Range(0, n)))
		pad := 0
		if n%8 != 0 {
			pad = 8 - n%8
		}
		if pad > 0 && thr >= 2 {
			k := rng.Range(1, minInt(pad, thr-1))
			add("thr-k", withLeader(thr-k))
		}

		for _, ss := range sets {
			S := ss.S
			agg := aggregate(S)
			exact := bitmapOf(S, n)
			var vars []variant
			addV := func(kind string, bm []byte, tampered bool) {
				vars = append(vars, variant{kind, append([]byte(nil), bm...), tampered})
			}
			addV("exact", exact, false)
			if pad > 0 {
				bm := append([]byte(nil), exact...)
				for _, p := range rng.Perm(pad)[:rng.Range(1, pad)] {
					bm[len(bm)-1] |= 1 << uint(n%8+p)
				}
				addV("pad-some", bm, false)
				bm2 := append([]byte(nil), exact...)
				bm2[len(bm2)-1] |= byte(0xff << uint(n%8))
				addV("pad-all", bm2, false)
				if len(S) < thr && thr-len(S) <= pad { // just enough padding bits to reach the threshold by popcount
					bm3 := append([]byte(nil), exact...)
					for p := 0; p < thr-len(S); p++ {
						bm3[len(bm3)-1] |= 1 << uint(n%8+p)
					}
					addV("pad-to-thr", bm3, false)
				}
			}
			{
				bm := append([]byte(nil), exact...)
				bm[0] ^= 1
				addV("leader-flip", bm, false)
			}
			addV("extra-zero-byte", append(append([]byte(nil), exact...), 0), false)
			addV("extra-ff-byte", append(append([]byte(nil), exact...), 0xff), false)
			if len(exact) > 1 {
				addV("truncated", exact[:len(exact)-1], false)
			}
			var non, in []int
			for i := 1; i < n; i++ {
				if S[i] {
					in = append(in, i)
				} else {
					non = append(non, i)
				}
			}
			if len(non) > 0 {
				bm := append([]byte(nil), exact...)
				i := non[rng.Intn(len(non))]
				bm[i/8] |= 1 << uint(i%8)
				addV("add-non-signer", bm, false)
			}
			if len(in) > 0 {
				bm := append([]byte(nil), exact...)
				i := in[rng.Intn(len(in))]
				bm[i/8] &^= 1 << uint(i%8)
				addV("drop-signer", bm, false)
			}
			addV("tampered", exact, true)

			for _, v := range vars {
				h := hdr.Clone()
				if v.tampered {
					h.SetNonce(h.GetNonce() + 1)
				}
				h.SetSignature(append([]byte(nil), agg...))
				h.SetPubKeysBitmap(append([]byte(nil), v.bitmap...))
				verr := hsv.VerifySignature(h)
				r.Eval(1)
				accepted := verr == nil
				expLen := (n + 7) / 8
				Bg := bitsBelow(v.bitmap, n)
				okModel := !v.tampered && sameSet(Bg, S) && len(S) >= thr && S[0]
				verdict := "rej"
				if accepted {
					verdict = "acc"
					r.Count("accepted", 1)
				} else {
					r.Count("rejected", 1)
					r.Count("rejected:"+errClass(verr), 1)
				}
				if len(S) == 0 {
					r.Trivial()
				} else {
					r.Shape(fmt.Sprintf("n%d %s %s %s", n, ss.kind, v.kind, verdict))
				}
				detail := map[string]interface{}{
					"n": n, "threshold": thr, "meta_header": meta, "signers": setStr(S), "signer_kind": ss.kind,
					"bitmap": vk.Hex(v.bitmap), "bitmap_kind": v.kind, "tampered": v.tampered, "verdict": fmt.Sprint(verr),
					"group_pool_indices": perm[:n],
				}
				if accepted && !okModel {
					cls := ""
					switch {
					case v.tampered:
						cls = "tampered-header"
					case !sameSet(Bg, S):
						cls = "non-signer-bit"
					case !S[0]:
						cls = "missing-leader"
					case len(v.bitmap) != expLen:
						cls = "wrong-length"
					case padBits(v.bitmap, n) > 0 && len(S)+padBits(v.bitmap, n) >= thr:
						// the acceptance is explained by padding bits counted toward the threshold:
						// real signers < threshold <= real signers + padding bits
						cls = "padding-bits"
					default:
						cls = "too-few-signers"
					}
					r.Violation(c.Idx, "quorum-bypass class="+cls,
						fmt.Sprintf("n=%d threshold=%d real signers {%s} (%d) bitmap %x (%s): VerifySignature == nil", n, thr, setStr(S), len(S), v.bitmap, v.kind), detail)
				}
				if !accepted && okModel && v.kind == "exact" {
					r.Violation(c.Idx, "rejected-honest-quorum",
						fmt.Sprintf("n=%d threshold=%d signers {%s} exact bitmap %x rejected: %v", n, thr, setStr(S), v.bitmap, verr), detail)
				}
				if accepted && okModel {
					r.Count("accepted_honest", 1)
					if len(v.bitmap) != expLen || anyBitAtOrAbove(v.bitmap, n) {
						r.Count("accepted_full_quorum_with_noncanonical_bitmap", 1)
					}
				}
				if r.NeedSample() && ss.kind == "thr-1" && v.kind == "pad-some" {
					r.Sample(detail)
				}
			}
		}
	})
	r.Finish()
}

func errClass(err error) string {
	s := err.Error()
	if len(s) > 48 {
		s = s[:48]
	}
	return s
}

func minInt(a, b int) int {
	if a < b {
		return a
	}
	return b
}
