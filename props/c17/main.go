// C17 — a header passes signature verification only with a BFT quorum of real signers incl. the leader.
// Monitor shape: reference model with real BLS multi-signatures. For every case a consensus group of
// n in 1..21 real mcl/BLS keys is drawn, a header is signed by chosen subsets S of the group, the shares
// are aggregated with the real blsMultiSigner, and the header is presented to the real
// headerCheck.HeaderSigVerifier under many bitmap byte strings (exact, padding bits set, leader bit
// flipped, wrong length, bits not matching S, tampered content).
// Oracle: VerifySignature == nil  =>  (bitmap bits < n) == S  and  |S| >= floor(2n/3)+1  and  leader in S
// (padding bits never count). Non-vacuity: an honest quorum with the exact bitmap must be accepted.
// Adversarial family: groups with one or two ROGUE public keys (x*G2 minus the sum of other members' keys);
// the rogue member alone (or with the honest leader) aggregates a signature for a bitmap that claims a quorum.
// Extensions: a few large groups (n in 63, 257, 300, 400) with signers and bits above member index 255; and
// in a third of the small cases the REAL fallback.NewFallbackHeaderValidator (headers pool stub / chain
// storer mock holding the previous meta header) with start-of-epoch meta headers at round gaps
// {0,1,40,49,50,51,1000}, previous headers with a HIGHER round, and unresolvable previous headers; there the
// threshold is floor(n/2)+1 exactly when the documented rule holds (metachain, start of epoch, previous
// header known, round - previous round >= 50), else floor(2n/3)+1.
package main

import (
	"fmt"
	"math/big"
	"sort"
	"strings"

	logger "github.com/ElrondNetwork/elrond-go-logger"
	"github.com/ElrondNetwork/elrond-go/core"
	"github.com/ElrondNetwork/elrond-go/crypto"
	"github.com/ElrondNetwork/elrond-go/crypto/signing"
	"github.com/ElrondNetwork/elrond-go/crypto/signing/mcl"
	llsig "github.com/ElrondNetwork/elrond-go/crypto/signing/mcl/multisig"
	"github.com/ElrondNetwork/elrond-go/crypto/signing/multisig"
	"github.com/ElrondNetwork/elrond-go/data"
	"github.com/ElrondNetwork/elrond-go/data/block"
	"github.com/ElrondNetwork/elrond-go/dataRetriever"
	"github.com/ElrondNetwork/elrond-go/fallback"
	"github.com/ElrondNetwork/elrond-go/hashing/blake2b"
	"github.com/ElrondNetwork/elrond-go/marshal"
	"github.com/ElrondNetwork/elrond-go/process"
	"github.com/ElrondNetwork/elrond-go/process/headerCheck"
	"github.com/ElrondNetwork/elrond-go/process/mock"
	"github.com/ElrondNetwork/elrond-go/testscommon"
	"github.com/ElrondNetwork/elrond-go/testscommon/genericMocks"
	"verif/internal/vk"
)

const poolSize = 400 // small groups draw from the first smallPool keys
const smallPool = 26

type keyPair struct {
	sk    crypto.PrivateKey
	pk    string
	pkObj crypto.PublicKey
	idx   int
}

func mkPool(kg crypto.KeyGenerator, seed uint64) []keyPair {
	rng := vk.NewRand(seed ^ 0xc17c17c17)
	pool := make([]keyPair, 0, poolSize)
	for len(pool) < poolSize {
		b := rng.Bytes(32)
		b[0] &= 0x3f
		b[31] &= 0x3f
		b[1] |= 1 // never zero
		sk, err := kg.PrivateKeyFromByteArray(b)
		if err != nil {
			continue
		}
		pub := sk.GeneratePublic()
		pkb, err := pub.ToByteArray()
		if err != nil {
			continue
		}
		pool = append(pool, keyPair{sk: sk, pk: string(pkb), pkObj: pub, idx: len(pool)})
	}
	return pool
}

func bitmapOf(set map[int]bool, n int) []byte {
	sz := n / 8
	if n%8 != 0 {
		sz++
	}
	bm := make([]byte, sz)
	for i := range set {
		if set[i] {
			bm[i/8] |= 1 << uint(i%8)
		}
	}
	return bm
}

func bitsBelow(bm []byte, n int) map[int]bool {
	out := map[int]bool{}
	for i := 0; i < n; i++ {
		if i/8 < len(bm) && bm[i/8]&(1<<uint(i%8)) != 0 {
			out[i] = true
		}
	}
	return out
}

func anyBitAtOrAbove(bm []byte, n int) bool {
	for i := n; i < len(bm)*8; i++ {
		if bm[i/8]&(1<<uint(i%8)) != 0 {
			return true
		}
	}
	return false
}

func padBits(bm []byte, n int) int {
	k := 0
	for i := n; i < len(bm)*8; i++ {
		if bm[i/8]&(1<<uint(i%8)) != 0 {
			k++
		}
	}
	return k
}

func sameSet(a, b map[int]bool) bool {
	if len(a) != len(b) {
		return false
	}
	for k := range a {
		if !b[k] {
			return false
		}
	}
	return true
}

func setStr(s map[int]bool) string {
	var v []int
	for k := range s {
		v = append(v, k)
	}
	sort.Ints(v)
	return strings.Trim(strings.Join(strings.Fields(fmt.Sprint(v)), ","), "[]")
}

func pick(rng *vk.Rand, from []int, k int) map[int]bool {
	out := map[int]bool{}
	p := rng.Perm(len(from))
	for i := 0; i < k && i < len(from); i++ {
		out[from[p[i]]] = true
	}
	return out
}

func seq(lo, hi int) []int { // [lo,hi)
	var v []int
	for i := lo; i < hi; i++ {
		v = append(v, i)
	}
	return v
}

func mkHeader(rng *vk.Rand, meta bool) data.HeaderHandler {
	if meta {
		return &block.MetaBlock{
			Nonce: uint64(rng.Intn(1 << 20)), Round: uint64(rng.Intn(1 << 20)), Epoch: uint32(rng.Intn(50)),
			PrevHash: rng.Bytes(32), PrevRandSeed: rng.Bytes(48), RandSeed: rng.Bytes(48), RootHash: rng.Bytes(32),
			ValidatorStatsRootHash: rng.Bytes(32), TxCount: uint32(rng.Intn(1000)), ChainID: []byte("1"),
			AccumulatedFees: big.NewInt(int64(rng.Intn(1e6))), AccumulatedFeesInEpoch: big.NewInt(int64(rng.Intn(1e6))),
			DeveloperFees: big.NewInt(int64(rng.Intn(1e6))), DevFeesInEpoch: big.NewInt(int64(rng.Intn(1e6))),
			LeaderSignature: rng.Bytes(48),
		}
	}
	return &block.Header{
		Nonce: uint64(rng.Intn(1 << 20)), Round: uint64(rng.Intn(1 << 20)), Epoch: uint32(rng.Intn(50)), ShardID: uint32(rng.Intn(3)),
		PrevHash: rng.Bytes(32), PrevRandSeed: rng.Bytes(48), RandSeed: rng.Bytes(48), RootHash: rng.Bytes(32),
		TxCount: uint32(rng.Intn(1000)), ChainID: []byte("1"), SoftwareVersion: []byte("v1"),
		AccumulatedFees: big.NewInt(int64(rng.Intn(1e6))), DeveloperFees: big.NewInt(int64(rng.Intn(1e6))),
		LeaderSignature:  rng.Bytes(48),
		MiniBlockHeaders: []block.MiniBlockHeader{{Hash: rng.Bytes(32), SenderShardID: 0, ReceiverShardID: 1, TxCount: 3}},
	}
}

type variant struct {
	kind     string
	bitmap   []byte
	tampered bool
}

type caseSpec struct {
	n     int
	large bool // n > 256: reduced, targeted variant matrix
	rogue bool // adversarial group: one or two public keys are built from other members' public keys
}

type prevScenario struct {
	kind    string // gap / higher / missing / none
	delta   int64  // header round - previous round
	inStore bool
}

func main() {
	logger.SetLogLevel("*:NONE")
	r := vk.Start("C17")
	r.Rule("per case: consensus group of n real BLS keys (small cases: n in 1..21 round-robin; a few large cases n in {400,300,257,63}), shard or meta header with random content; signer-set kinds (honest quorum, exactly threshold, threshold-1 with leader, quorum without leader, random, threshold-k, floor(n/2)+1 and floor(n/2) with leader; large groups also: below-threshold signers among members < 256, and a below-threshold set closed under index mod 256) x bitmap kinds (exact, some/all padding bits, padding up to the threshold, leader bit flipped, extra byte zero/non-zero, truncated, extra non-signer bit, dropped signer bit, tampered header; large groups: all bits >= 256 set on top of the low signers, dropped/added bit >= 256). One third of the small cases use the real fallback header validator with start-of-epoch meta headers and previous headers at round gaps {0,1,40,49,50,51,1000}, higher rounds, or missing. Non-trivial = a verification with a non-empty signer set; shape = (n, fallback scenario, signer kind, bitmap kind, verdict).")
	r.Assume("BLS aggregate signatures are unforgeable: the set of real signers is the set whose shares were aggregated by the harness",
		"group members are distinct (the nodes coordinator never selects a key twice)",
		"fallback rule (documented in fallback/headerValidator.go and core.MaxRoundsWithoutCommittedStartInEpochBlock): metachain header, start-of-epoch block, previous header resolvable from pool or storage, round - previous round >= 50 (signed); in two thirds of the cases the validator is a stub returning false",
		"the leader is the first member of the consensus group")
	r.MinShapes(40)

	suite := mcl.NewSuiteBLS12()
	kg := signing.NewKeyGenerator(suite)
	msHasher, err := blake2b.NewBlake2bWithSize(multisig.BlsHashSize)
	if err != nil {
		r.Inconclusive("cannot build the multisig hasher: " + err.Error())
		r.Finish()
	}
	llSigner := &llsig.BlsMultiSigner{Hasher: msHasher}
	pool := mkPool(kg, r.Seed)
	msh := &marshal.GogoProtoMarshalizer{}
	hsh := blake2b.NewBlake2b()
	// a template multi-signer only used through Create()
	tmpl, err := multisig.NewBLSMultisig(llSigner, []string{pool[0].pk}, pool[0].sk, kg, 0)
	if err != nil {
		r.Inconclusive("cannot build BLS multisigner: " + err.Error())
		r.Finish()
	}

	var specs []caseSpec
	for rep := 0; rep < r.N(3, 12); rep++ { // large groups first: they are the long cases
		for _, n := range []int{400, 300, 257, 63} {
			specs = append(specs, caseSpec{n: n, large: n > 256})
		}
	}
	for i := 0; i < r.N(16, 240); i++ { // rogue-key groups
		specs = append(specs, caseSpec{n: 4 + i%9, rogue: true})
	}
	nLarge := len(specs)
	for i := 0; i < r.N(462, 6300); i++ {
		specs = append(specs, caseSpec{n: 1 + i%21})
	}
	gaps := []int64{0, 1, 40, 49, 50, 51, 1000}

	// Rogue-key family. The adversary controls the members in `rogues`; the public key of a rogue member is
	// x*G2 - sum(public keys of its victims), for a secret x the adversary knows (it does not know the discrete log
	// of the registered key, nor any honest secret). It contributes the plain signature x*H(m); the shares claimed
	// for the victims are G1 points that cancel out (s, s, ..., -(k-1)s). The bitmap names rogues + victims
	// (+ the honest leader if the leader really signs). Real contributors: rogues (+ leader): fewer than the threshold.
	rogueCase := func(c *vk.Case, n int) {
		rng := c.Rng
		thr := n*2/3 + 1
		perm := rng.Perm(smallPool)
		members := make([]keyPair, n)
		for i := 0; i < n; i++ {
			members[i] = pool[perm[i]]
		}
		variant := c.Idx % 3 // 0: rogue leader alone; 1: honest leader signs + one rogue member; 2: two rogue members (leader + another)
		var rogues []int
		switch variant {
		case 0:
			rogues = []int{0}
		case 1:
			rogues = []int{1 + rng.Intn(n-1)}
		default:
			rogues = []int{0, 1 + rng.Intn(n-1)}
		}
		isRogue := map[int]bool{}
		for _, x := range rogues {
			isRogue[x] = true
		}
		real := map[int]bool{}
		for _, x := range rogues {
			real[x] = true
		}
		if variant == 1 {
			real[0] = true
		}
		// victims: enough honest members so that the bitmap claims exactly the threshold (or everybody)
		var honest []int
		for i := 1; i < n; i++ {
			if !isRogue[i] {
				honest = append(honest, i)
			}
		}
		need := thr - len(real)
		if rng.Chance(1, 4) {
			need = len(honest)
		}
		if need < 2*len(rogues) || need > len(honest) || len(real) >= thr {
			r.Trivial()
			return
		}
		pv := rng.Perm(len(honest))
		victimsOf := map[int][]int{}
		claimed := map[int]bool{}
		for x := range real {
			claimed[x] = true
		}
		for k := 0; k < need; k++ {
			v := honest[pv[k]]
			ro := rogues[k%len(rogues)]
			victimsOf[ro] = append(victimsOf[ro], v)
			claimed[v] = true
		}
		group := make([]string, n)
		pkObjs := make([]crypto.PublicKey, n)
		for i := 0; i < n; i++ {
			group[i] = members[i].pk
			pkObjs[i] = members[i].pkObj
		}
		rogueSk := map[int]crypto.PrivateKey{}
		for _, ro := range rogues {
			b := rng.Bytes(32)
			b[0] &= 0x3f
			b[31] &= 0x3f
			b[1] |= 1
			skX, err := kg.PrivateKeyFromByteArray(b)
			if err != nil {
				r.Inconclusive("rogue scalar: " + err.Error())
				return
			}
			pt := skX.GeneratePublic().Point()
			for _, v := range victimsOf[ro] {
				pt, err = pt.Sub(members[v].pkObj.Point())
				if err != nil {
					r.Inconclusive("rogue key arithmetic: " + err.Error())
					return
				}
			}
			pb, err := pt.MarshalBinary()
			if err != nil {
				r.Inconclusive("rogue key arithmetic: " + err.Error())
				return
			}
			pko, err := kg.PublicKeyFromByteArray(pb)
			if err != nil {
				r.Inconclusive("rogue public key not accepted by the key generator: " + err.Error())
				return
			}
			group[ro], pkObjs[ro], rogueSk[ro] = string(pb), pko, skX
		}
		meta := rng.Bool()
		hdr := mkHeader(rng, meta)
		nc := &mock.NodesCoordinatorMock{GetValidatorsPublicKeysCalled: func(_ []byte, _ uint64, _ uint32, _ uint32) ([]string, error) {
			return append([]string(nil), group...), nil
		}}
		hsv, err := headerCheck.NewHeaderSigVerifier(&headerCheck.ArgsHeaderSigVerifier{
			Marshalizer: msh, Hasher: hsh, NodesCoordinator: nc, MultiSigVerifier: tmpl,
			SingleSigVerifier: &mock.SignerMock{}, KeyGen: kg, FallbackHeaderValidator: &testscommon.FallBackHeaderValidatorStub{},
		})
		if err != nil {
			r.Violation(c.Idx, "constructor", err.Error(), nil)
			return
		}
		cp := hdr.Clone()
		cp.SetSignature(nil)
		cp.SetPubKeysBitmap(nil)
		cp.SetLeaderSignature(nil)
		msg, err := core.CalculateHash(msh, hsh, cp)
		if err != nil {
			r.Violation(c.Idx, "harness-hash", err.Error(), nil)
			return
		}
		shares := map[int][]byte{}
		if variant == 1 {
			shares[0], _ = llSigner.SignShare(members[0].sk, msg)
		}
		for _, ro := range rogues {
			sx, err := llSigner.SignShare(rogueSk[ro], msg)
			if err != nil {
				r.Inconclusive("rogue signing: " + err.Error())
				return
			}
			shares[ro] = sx
			// cancelling shares for the victims: s, s, ..., -(k-1)s with s = the rogue's own signature point
			sp := mcl.NewPointG1()
			if err := sp.UnmarshalBinary(sx); err != nil {
				r.Inconclusive("signature bytes are not a G1 point: " + err.Error())
				return
			}
			vs := victimsOf[ro]
			var sum crypto.Point = sp.Clone()
			for k := 0; k < len(vs)-1; k++ {
				shares[vs[k]] = sx
				if k > 0 {
					sum, _ = sum.Add(sp)
				}
			}
			lastShare, err := sum.Neg().MarshalBinary()
			if err != nil {
				r.Inconclusive("G1 arithmetic: " + err.Error())
				return
			}
			if err := llSigner.VerifySigBytes(suite, lastShare); err != nil {
				r.Inconclusive("cancelling share is not a valid signature encoding: " + err.Error())
				return
			}
			shares[vs[len(vs)-1]] = lastShare
		}
		// two ways to aggregate: the low-level signer directly, and the public multi-signer API
		var sigs [][]byte
		var pks []crypto.PublicKey
		for i := 0; i < n; i++ {
			if claimed[i] {
				sigs = append(sigs, shares[i])
				pks = append(pks, pkObjs[i])
			}
		}
		bitmap := bitmapOf(claimed, n)
		aggs := map[string][]byte{}
		if a, err := llSigner.AggregateSignatures(suite, sigs, pks); err == nil {
			aggs["low-level"] = a
		}
		if ms, err := multisig.NewBLSMultisig(llSigner, group, members[1].sk, kg, 1); err == nil {
			ok := true
			for i := range claimed {
				if ms.StoreSignatureShare(uint16(i), shares[i]) != nil {
					ok = false
				}
			}
			if a, err := ms.AggregateSigs(bitmap); ok && err == nil {
				aggs["multisigner-api"] = a
			}
		}
		if len(aggs) == 0 {
			r.Inconclusive("rogue aggregate could not be built")
			return
		}
		for how, agg := range aggs {
			h := hdr.Clone()
			h.SetSignature(append([]byte(nil), agg...))
			h.SetPubKeysBitmap(append([]byte(nil), bitmap...))
			verr := hsv.VerifySignature(h)
			r.Eval(1)
			r.Count("rogue_key_verifications", 1)
			verdict := "rej"
			if verr == nil {
				verdict = "acc"
			} else {
				r.Count("rogue_rejected:"+errClass(verr), 1)
			}
			r.Shape(fmt.Sprintf("rogue n%d variant%d claimed%d real%d %s %s", n, variant, len(claimed), len(real), how, verdict))
			if verr == nil {
				r.Violation(c.Idx, "quorum-bypass class=rogue-key",
					fmt.Sprintf("n=%d threshold=%d: bitmap %x claims members {%s}; only {%s} contributed (rogue members %v registered x*G2 - sum of their victims' keys): VerifySignature == nil", n, thr, bitmap, setStr(claimed), setStr(real), rogues),
					map[string]interface{}{"n": n, "threshold": thr, "variant": variant, "rogue_members": rogues, "victims": fmt.Sprint(victimsOf), "claimed": setStr(claimed),
						"real_contributors": setStr(real), "bitmap": vk.Hex(bitmap), "aggregated_with": how, "group_pool_indices": perm[:n]})
			}
		}
		// the honest members of such a group can still produce an accepted quorum (non-vacuity)
		{
			S := map[int]bool{}
			if !isRogue[0] {
				S[0] = true
				for _, v := range honest {
					if len(S) < thr {
						S[v] = true
					}
				}
				if len(S) >= thr {
					var hs [][]byte
					var hp []crypto.PublicKey
					for i := 0; i < n; i++ {
						if S[i] {
							sh, _ := llSigner.SignShare(members[i].sk, msg)
							hs = append(hs, sh)
							hp = append(hp, pkObjs[i])
						}
					}
					if a, err := llSigner.AggregateSignatures(suite, hs, hp); err == nil {
						h := hdr.Clone()
						h.SetSignature(a)
						h.SetPubKeysBitmap(bitmapOf(S, n))
						r.Eval(1)
						if verr := hsv.VerifySignature(h); verr != nil {
							r.Violation(c.Idx, "rejected-honest-quorum class=rogue-group", fmt.Sprintf("n=%d honest quorum {%s} in a group with a rogue key rejected: %v", n, setStr(S), verr), nil)
						} else {
							r.Count("accepted_honest", 1)
						}
					}
				}
			}
		}
	}

	r.Parallel(len(specs), func(c *vk.Case) {
		rng := c.Rng
		spec := specs[c.Idx]
		n := spec.n
		if spec.rogue {
			rogueCase(c, n)
			return
		}
		var perm []int
		if n <= smallPool-5 {
			perm = rng.Perm(smallPool)
		} else {
			perm = rng.Perm(poolSize)
		}
		members := make([]keyPair, n)
		group := make([]string, n)
		for i := 0; i < n; i++ {
			members[i] = pool[perm[i]]
			group[i] = members[i].pk
		}
		thr := n*2/3 + 1
		if core.GetPBFTThreshold(n) != thr {
			r.Violation(c.Idx, "threshold-function", fmt.Sprintf("GetPBFTThreshold(%d)=%d want %d", n, core.GetPBFTThreshold(n), thr), nil)
		}
		realFallback := !spec.large && c.Idx >= nLarge && (c.Idx-nLarge)%3 == 0
		meta := rng.Bool()
		if realFallback {
			meta = rng.Chance(5, 6)
		}
		hdr := mkHeader(rng, meta)

		// fallback validator: stub (never) or the real one with a resolvable/unresolvable previous header
		var fbv process.FallbackHeaderValidator = &testscommon.FallBackHeaderValidatorStub{}
		fbApplies := false
		scen := prevScenario{kind: "stub"}
		startOfEpoch := false
		if realFallback {
			poolHdrs := map[string]data.HeaderHandler{}
			hp := &mock.HeadersCacherStub{GetHeaderByHashCalled: func(hash []byte) (data.HeaderHandler, error) {
				if h, ok := poolHdrs[string(hash)]; ok {
					return h, nil
				}
				return nil, fmt.Errorf("missing header")
			}}
			store := genericMocks.NewChainStorerMock(0)
			fbv, err = fallback.NewFallbackHeaderValidator(hp, msh, store)
			if err != nil {
				r.Inconclusive("cannot build the fallback header validator: " + err.Error())
				return
			}
			hdr.SetRound(2000 + uint64(rng.Intn(100000)))
			if mb, ok := hdr.(*block.MetaBlock); ok && rng.Chance(4, 5) {
				mb.EpochStart.LastFinalizedHeaders = []block.EpochStartShardData{{ShardID: 0, HeaderHash: rng.Bytes(32), RootHash: rng.Bytes(32)}}
				mb.Epoch = 1 + uint32(rng.Intn(5))
				startOfEpoch = true
			}
			switch x := rng.Intn(10); {
			case x < 6:
				scen = prevScenario{kind: "gap", delta: gaps[rng.Intn(len(gaps))]}
			case x < 9:
				scen = prevScenario{kind: "higher", delta: -[]int64{1, 10, 50, 1000}[rng.Intn(4)]}
			default:
				scen = prevScenario{kind: "missing"}
			}
			if scen.kind != "missing" {
				prev := &block.MetaBlock{Nonce: hdr.GetNonce() - 1, Round: uint64(int64(hdr.GetRound()) - scen.delta), RandSeed: hdr.GetPrevRandSeed(), Epoch: hdr.GetEpoch()}
				scen.inStore = rng.Bool()
				if scen.inStore {
					b, _ := msh.Marshal(prev)
					_ = store.Put(dataRetriever.MetaBlockUnit, hdr.GetPrevHash(), b)
				} else {
					poolHdrs[string(hdr.GetPrevHash())] = prev
				}
			}
			fbApplies = meta && startOfEpoch && scen.kind != "missing" && scen.delta >= 50
			if fbApplies {
				r.Count("fallback_rule_holds", 1)
			} else {
				r.Count("fallback_rule_does_not_hold", 1)
			}
		}
		thrEff := thr
		if fbApplies {
			thrEff = n/2 + 1
		}
		scenStr := scen.kind
		if scen.kind == "gap" || scen.kind == "higher" {
			scenStr = fmt.Sprintf("%s%d", scen.kind, scen.delta)
		}
		if realFallback {
			scenStr = fmt.Sprintf("fb[%s meta=%v soe=%v]", scenStr, meta, startOfEpoch)
		}

		nc := &mock.NodesCoordinatorMock{GetValidatorsPublicKeysCalled: func(_ []byte, _ uint64, _ uint32, _ uint32) ([]string, error) {
			g := make([]string, len(group))
			copy(g, group)
			return g, nil
		}}
		hsv, err := headerCheck.NewHeaderSigVerifier(&headerCheck.ArgsHeaderSigVerifier{
			Marshalizer: msh, Hasher: hsh, NodesCoordinator: nc, MultiSigVerifier: tmpl,
			SingleSigVerifier: &mock.SignerMock{}, KeyGen: kg, FallbackHeaderValidator: fbv,
		})
		if err != nil {
			r.Violation(c.Idx, "constructor", err.Error(), nil)
			return
		}

		// message = hash of the header without signature, bitmap, leader signature
		cp := hdr.Clone()
		cp.SetSignature(nil)
		cp.SetPubKeysBitmap(nil)
		cp.SetLeaderSignature(nil)
		msg, err := core.CalculateHash(msh, hsh, cp)
		if err != nil {
			r.Violation(c.Idx, "harness-hash", err.Error(), nil)
			return
		}
		shares := make([][]byte, n)
		for i := 0; i < n; i++ {
			shares[i], err = llSigner.SignShare(members[i].sk, msg)
			if err != nil {
				r.Violation(c.Idx, "harness-sign", err.Error(), nil)
				return
			}
		}
		r.Count("sig_shares", n)

		aggregate := func(S map[int]bool) []byte {
			if len(S) == 0 {
				return shares[0] // a syntactically valid G1 point that nobody in the bitmap backs
			}
			// aggregated with the low-level signer directly, in member order, so that the harness does not
			// depend on the bitmap handling of the multi-signer under test
			var sigs [][]byte
			var pks []crypto.PublicKey
			for i := 0; i < n; i++ {
				if S[i] {
					sigs = append(sigs, shares[i])
					pks = append(pks, members[i].pkObj)
				}
			}
			agg, err := llSigner.AggregateSignatures(suite, sigs, pks)
			if err != nil {
				panic(err)
			}
			return agg
		}

		// signer-set kinds
		type sset struct {
			kind string
			S    map[int]bool
		}
		var sets []sset
		add := func(kind string, S map[int]bool) { sets = append(sets, sset{kind, S}) }
		withLeader := func(k int) map[int]bool { // k signers incl. leader
			S := pick(rng, seq(1, n), k-1)
			S[0] = true
			return S
		}
		pad := 0
		if n%8 != 0 {
			pad = 8 - n%8
		}
		add("honest", withLeader(rng.Range(thr, n)))
		add("exact-thr", withLeader(thr))
		if thr-1 >= 1 {
			add("thr-1", withLeader(thr-1))
		}
		if !spec.large {
			if n-1 >= thr {
				add("no-leader", pick(rng, seq(1, n), rng.Range(thr, n-1)))
			}
			add("random", pick(rng, seq(0, n), rng.Range(0, n)))
			if pad > 0 && thr >= 2 {
				k := rng.Range(1, minInt(pad, thr-1))
				add("thr-k", withLeader(thr-k))
			}
			if realFallback {
				add("half+1", withLeader(n/2+1))
				if n/2 >= 1 {
					add("half", withLeader(n/2))
				}
			}
		} else {
			high := n - 256 // members with an index >= 256
			// (a) below-threshold signers among the members < 256; every bit >= 256 will be set on top
			if k := thr - high; k >= 1 && k < thr {
				S := pick(rng, seq(1, 256), k-1)
				S[0] = true
				add("low-only", S)
			}
			// (b) below-threshold set closed under index mod 256: L (bits < 256) plus every member 256+j, j in L
			if k := thr - high; k >= 1 {
				L := map[int]bool{0: true}
				for _, j := range rng.Perm(256 - high) { // prefer indexes whose image 256+j is outside the group
					if len(L) >= k {
						break
					}
					L[high+j] = true
				}
				for _, j := range rng.Perm(high) {
					if len(L) >= k {
						break
					}
					if j > 0 {
						L[j] = true
					}
				}
				S := map[int]bool{}
				for j := range L {
					S[j] = true
					if 256+j < n {
						S[256+j] = true
					}
				}
				if len(S) < thr {
					add("mod256-closed", S)
				}
			}
		}

		for _, ss := range sets {
			S := ss.S
			agg := aggregate(S)
			exact := bitmapOf(S, n)
			var vars []variant
			addV := func(kind string, bm []byte, tampered bool) {
				vars = append(vars, variant{kind, append([]byte(nil), bm...), tampered})
			}
			addV("exact", exact, false)
			var non, in []int
			lo := 1
			if spec.large {
				lo = 256
			}
			for i := lo; i < n; i++ {
				if S[i] {
					in = append(in, i)
				} else {
					non = append(non, i)
				}
			}
			if spec.large {
				if ss.kind == "low-only" || ss.kind == "mod256-closed" {
					bm := make([]byte, len(exact))
					for i := 0; i < 256; i++ { // keep only the low bits of S ...
						if S[i] {
							bm[i/8] |= 1 << uint(i%8)
						}
					}
					for i := 256; i < n; i++ { // ... and set every bit >= 256
						bm[i/8] |= 1 << uint(i%8)
					}
					addV("low-bits+all-high-bits", bm, false)
				}
				if pad > 0 && len(S) < thr && thr-len(S) <= pad {
					bm3 := append([]byte(nil), exact...)
					for p := 0; p < thr-len(S); p++ {
						bm3[len(bm3)-1] |= 1 << uint(n%8+p)
					}
					addV("pad-to-thr", bm3, false)
				}
			} else {
				if pad > 0 {
					bm := append([]byte(nil), exact...)
					for _, p := range rng.Perm(pad)[:rng.Range(1, pad)] {
						bm[len(bm)-1] |= 1 << uint(n%8+p)
					}
					addV("pad-some", bm, false)
					bm2 := append([]byte(nil), exact...)
					bm2[len(bm2)-1] |= byte(0xff << uint(n%8))
					addV("pad-all", bm2, false)
					if len(S) < thrEff && thrEff-len(S) <= pad { // just enough padding bits to reach the threshold by popcount
						bm3 := append([]byte(nil), exact...)
						for p := 0; p < thrEff-len(S); p++ {
							bm3[len(bm3)-1] |= 1 << uint(n%8+p)
						}
						addV("pad-to-thr", bm3, false)
					}
				}
				{
					bm := append([]byte(nil), exact...)
					bm[0] ^= 1
					addV("leader-flip", bm, false)
				}
				addV("extra-zero-byte", append(append([]byte(nil), exact...), 0), false)
				addV("extra-ff-byte", append(append([]byte(nil), exact...), 0xff), false)
				if len(exact) > 1 {
					addV("truncated", exact[:len(exact)-1], false)
				}
				addV("tampered", exact, true)
			}
			if len(non) > 0 {
				bm := append([]byte(nil), exact...)
				i := non[rng.Intn(len(non))]
				bm[i/8] |= 1 << uint(i%8)
				addV("add-non-signer", bm, false)
			}
			if len(in) > 0 {
				bm := append([]byte(nil), exact...)
				i := in[rng.Intn(len(in))]
				bm[i/8] &^= 1 << uint(i%8)
				addV("drop-signer", bm, false)
			}

			for _, v := range vars {
				h := hdr.Clone()
				if v.tampered {
					h.SetNonce(h.GetNonce() + 1)
				}
				h.SetSignature(append([]byte(nil), agg...))
				h.SetPubKeysBitmap(append([]byte(nil), v.bitmap...))
				verr := hsv.VerifySignature(h)
				r.Eval(1)
				accepted := verr == nil
				expLen := (n + 7) / 8
				Bg := bitsBelow(v.bitmap, n)
				okModel := !v.tampered && sameSet(Bg, S) && len(S) >= thrEff && S[0]
				verdict := "rej"
				if accepted {
					verdict = "acc"
					r.Count("accepted", 1)
				} else {
					r.Count("rejected", 1)
					r.Count("rejected:"+errClass(verr), 1)
				}
				if len(S) == 0 {
					r.Trivial()
				} else {
					r.Shape(fmt.Sprintf("n%d %s %s %s %s", n, scenStr, ss.kind, v.kind, verdict))
				}
				if n > 256 {
					r.Count("large_group_verifications", 1)
				}
				detail := map[string]interface{}{
					"n": n, "threshold": thr, "effective_threshold": thrEff, "meta_header": meta, "signers": setStr(S), "signer_kind": ss.kind,
					"bitmap": vk.Hex(v.bitmap), "bitmap_kind": v.kind, "tampered": v.tampered, "verdict": fmt.Sprint(verr),
					"real_fallback_validator": realFallback, "start_of_epoch": startOfEpoch, "previous_header": scen.kind,
					"round_minus_previous_round": scen.delta, "previous_in_storage": scen.inStore, "fallback_rule_holds": fbApplies,
				}
				if n <= 32 {
					detail["group_pool_indices"] = perm[:n]
				}
				if accepted && !okModel {
					cls := ""
					switch {
					case v.tampered:
						cls = "tampered-header"
					case !sameSet(Bg, S):
						cls = "non-signer-bit"
						if n > 256 && sameSet(bitsBelow(v.bitmap, 256), bitsBelow(bitmapOf(S, n), 256)) {
							// bitmap and real signers agree on every member < 256 and differ only above
							cls = "large-group-bits-beyond-256"
						}
					case !S[0]:
						cls = "missing-leader"
					case len(v.bitmap) != expLen:
						cls = "wrong-length"
					case padBits(v.bitmap, n) > 0 && len(S)+padBits(v.bitmap, n) >= thrEff:
						// the acceptance is explained by padding bits counted toward the threshold:
						// real signers < threshold <= real signers + padding bits
						cls = "padding-bits"
					case realFallback && !fbApplies && len(S)+padBits(v.bitmap, n) >= n/2+1:
						// enough for the fallback threshold only (possibly helped by padding bits), although the
						// fallback rule does not hold
						cls = "fallback-threshold-wrongly-applied"
					default:
						cls = "too-few-signers"
					}
					r.Violation(c.Idx, "quorum-bypass class="+cls,
						fmt.Sprintf("n=%d threshold=%d (%s) real signers {%s} (%d) bitmap %x (%s): VerifySignature == nil", n, thrEff, scenStr, abbreviate(setStr(S)), len(S), v.bitmap, v.kind), detail)
				}
				if !accepted && okModel && v.kind == "exact" {
					key := "rejected-honest-quorum"
					switch {
					case len(S) < thr:
						key += " class=fallback"
					case n > 256:
						key += " class=large-group"
					}
					r.Violation(c.Idx, key,
						fmt.Sprintf("n=%d threshold=%d (%s) signers {%s} exact bitmap %x rejected: %v", n, thrEff, scenStr, abbreviate(setStr(S)), v.bitmap, verr), detail)
				}
				if accepted && okModel {
					r.Count("accepted_honest", 1)
					if len(S) < thr {
						r.Count("accepted_with_fallback_threshold", 1)
					}
					if len(v.bitmap) != expLen || anyBitAtOrAbove(v.bitmap, n) {
						r.Count("accepted_full_quorum_with_noncanonical_bitmap", 1)
					}
				}
				if r.NeedSample() && ss.kind == "thr-1" && v.kind == "pad-some" {
					r.Sample(detail)
				}
			}
		}
	})
	r.Finish()
}

func abbreviate(s string) string {
	if len(s) > 120 {
		return s[:117] + "..."
	}
	return s
}

func errClass(err error) string {
	s := err.Error()
	if len(s) > 48 {
		s = s[:48]
	}
	return s
}

func minInt(a, b int) int {
	if a < b {
		return a
	}
	return b
}
