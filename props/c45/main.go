// C45 — protocol data encodes deterministically and round-trips.
// Monitor shape: round trip (RT). A reflection-based populator fills every gogo-proto message type of the
// protocol with random field values (big ints incl. nil / zero / negative, nil vs empty byte slices,
// nested and repeated messages, boundary integers). Oracles: marshalling the same value repeatedly and
// marshalling a second, separately allocated value built from the same choices give identical bytes;
// Size() equals the encoded length; Unmarshal(Marshal(x)) is Equal to x (both directions); re-marshalling
// the decoded value gives the same bytes. Decoding runs into a fresh target (through the real
// GogoProtoMarshalizer and through the generated Unmarshal) and, through the marshalizer only, into REUSED
// targets that still hold another value of the same type (populated, decoded, decoded twice, and the other
// way round): GogoProtoMarshalizer.Unmarshal resets its target, so the result must not depend on what the
// target held before. A third of the values is all-default or mostly default (zero-length encodings).
package main

import (
	"bytes"
	"fmt"
	"math"
	"math/big"
	"reflect"
	"strings"
	"sync"

	logger "github.com/ElrondNetwork/elrond-go-logger"
	"github.com/ElrondNetwork/elrond-go/consensus"
	"github.com/ElrondNetwork/elrond-go/core/dblookupext"
	"github.com/ElrondNetwork/elrond-go/data/batch"
	"github.com/ElrondNetwork/elrond-go/data/block"
	"github.com/ElrondNetwork/elrond-go/data/receipt"
	"github.com/ElrondNetwork/elrond-go/data/rewardTx"
	"github.com/ElrondNetwork/elrond-go/data/smartContractResult"
	"github.com/ElrondNetwork/elrond-go/data/state"
	"github.com/ElrondNetwork/elrond-go/data/transaction"
	"github.com/ElrondNetwork/elrond-go/data/trie"
	"github.com/ElrondNetwork/elrond-go/dataRetriever"
	heartbeatData "github.com/ElrondNetwork/elrond-go/heartbeat/data"
	"github.com/ElrondNetwork/elrond-go/marshal"
	p2pData "github.com/ElrondNetwork/elrond-go/p2p/data"
	"github.com/ElrondNetwork/elrond-go/process/block/bootstrapStorage"
	ssc "github.com/ElrondNetwork/elrond-go/vm/systemSmartContracts"
	"verif/internal/vk"
)

type protoMsg interface {
	Marshal() ([]byte, error)
	Unmarshal([]byte) error
	Equal(interface{}) bool
	Size() int
	Reset()
}

var bigT = reflect.TypeOf(&big.Int{})

// filler populates values; two fillers created from the same seed make the same choices, the second one
// allocates differently (spare capacity) so that equal values do not share memory layout
type filler struct {
	rng      *vk.Rand
	style    int // 0 sparse, 1 normal, 2 dense, 3 boundary, 4 all-default (nothing is set), 5 mostly default (a leaf is set with probability 1/10)
	spareCap bool
	sig      *strings.Builder
}

func (f *filler) note(s string) {
	if f.sig != nil {
		f.sig.WriteString(s)
	}
}

func (f *filler) bytes(n int) []byte {
	b := f.rng.Bytes(n)
	if f.spareCap {
		c := make([]byte, n, n+7)
		copy(c, b)
		return c
	}
	return b
}

func (f *filler) skip() bool {
	switch f.style {
	case 0:
		return f.rng.Chance(3, 4)
	case 2:
		return false
	default:
		return f.rng.Chance(1, 4)
	}
}

func (f *filler) uintVal(bits int) uint64 {
	var v uint64
	switch f.rng.Intn(6) {
	case 0:
		v = 0
	case 1:
		v = []uint64{1, 127, 128, 255, 256, 16383, 16384, 1<<21 - 1, 1 << 21, 1<<28 - 1, 1 << 28, 1<<32 - 1, 1 << 32, 1<<35 - 1, 1 << 35, 1<<56 - 1, 1 << 56, 1<<63 - 1, 1 << 63, math.MaxUint64}[f.rng.Intn(20)]
	default:
		v = f.rng.U64() >> uint(f.rng.Intn(64))
	}
	if bits == 32 {
		v &= math.MaxUint32
	}
	return v
}

func (f *filler) str() string {
	n := f.rng.Intn(14)
	var sb strings.Builder
	for i := 0; i < n; i++ {
		switch f.rng.Intn(8) {
		case 0:
			sb.WriteRune([]rune{'é', 'ß', 'ж', '中', '😀', 0x7f, ' ', '"'}[f.rng.Intn(8)])
		default:
			sb.WriteByte(byte('a' + f.rng.Intn(26)))
		}
	}
	return sb.String()
}

func (f *filler) fill(v reflect.Value, depth int) {
	if f.style == 4 {
		f.note("D")
		return
	}
	if f.style == 5 && v.Kind() != reflect.Struct && !f.rng.Chance(1, 10) {
		f.note("d")
		return
	}
	switch v.Kind() {
	case reflect.Ptr:
		if v.Type() == bigT {
			switch f.rng.Intn(7) {
			case 0:
				f.note("Bn") // nil
			case 1:
				v.Set(reflect.ValueOf(big.NewInt(0)))
				f.note("B0")
			case 2:
				x := new(big.Int).SetBytes(f.rng.Bytes(1 + f.rng.Intn(12)))
				v.Set(reflect.ValueOf(x.Neg(x)))
				f.note("B-")
			case 3: // leading byte pattern: exactly 2^(8k) and 2^(8k)-1
				k := uint(8 * (1 + f.rng.Intn(20)))
				x := new(big.Int).Lsh(big.NewInt(1), k)
				if f.rng.Bool() {
					x.Sub(x, big.NewInt(1))
				}
				v.Set(reflect.ValueOf(x))
				f.note("Bp")
			default:
				v.Set(reflect.ValueOf(new(big.Int).SetBytes(f.rng.Bytes(1 + f.rng.Intn(32)))))
				f.note("B+")
			}
			return
		}
		if depth > 4 || f.skip() {
			f.note("Pn")
			return
		}
		n := reflect.New(v.Type().Elem())
		f.note("P{")
		f.fill(n.Elem(), depth+1)
		f.note("}")
		v.Set(n)
	case reflect.Struct:
		for i := 0; i < v.NumField(); i++ {
			if v.Field(i).CanSet() {
				f.fill(v.Field(i), depth+1)
			}
		}
	case reflect.Slice:
		if v.Type().Elem().Kind() == reflect.Uint8 {
			switch c := f.rng.Intn(8); {
			case c == 0 || (f.style == 0 && c < 5):
				f.note("yn")
			case c == 1:
				v.SetBytes(f.bytes(0))
				f.note("y0")
			case c == 2 && f.style != 0:
				v.SetBytes(f.bytes(100 + f.rng.Intn(1900)))
				f.note("yL")
			default:
				v.SetBytes(f.bytes(1 + f.rng.Intn(48)))
				f.note("y+")
			}
			return
		}
		if depth > 4 {
			f.note("Sn")
			return
		}
		n := f.rng.Intn(4)
		if f.style == 2 {
			n = 1 + f.rng.Intn(6)
		}
		if f.style == 0 && f.rng.Chance(2, 3) {
			n = 0
		}
		if n == 0 {
			if f.rng.Chance(1, 4) {
				v.Set(reflect.MakeSlice(v.Type(), 0, 0)) // empty but non-nil
				f.note("S0")
			} else {
				f.note("Sn")
			}
			return
		}
		capN := n
		if f.spareCap {
			capN = n + 3
		}
		s := reflect.MakeSlice(v.Type(), n, capN)
		f.note(fmt.Sprintf("S%d[", n))
		for i := 0; i < n; i++ {
			e := s.Index(i)
			if e.Kind() == reflect.Ptr && e.Type() != bigT {
				// elements of repeated messages are never nil
				ne := reflect.New(e.Type().Elem())
				f.fill(ne.Elem(), depth+1)
				e.Set(ne)
			} else {
				f.fill(e, depth+1)
			}
		}
		f.note("]")
		v.Set(s)
	case reflect.String:
		if f.style == 0 && f.rng.Chance(2, 3) {
			f.note("sn")
			return
		}
		s := f.str()
		v.SetString(s)
		if s == "" {
			f.note("s0")
		} else {
			f.note("s+")
		}
	case reflect.Bool:
		b := f.rng.Bool()
		v.SetBool(b)
		if b {
			f.note("t")
		} else {
			f.note("f")
		}
	case reflect.Uint32:
		x := f.uintVal(32)
		v.SetUint(x)
		f.note(fmt.Sprintf("u%d", varintLen(x)))
	case reflect.Uint64, reflect.Uint:
		x := f.uintVal(64)
		v.SetUint(x)
		f.note(fmt.Sprintf("U%d", varintLen(x)))
	case reflect.Int32:
		x := int64(int32(f.uintVal(32)))
		if f.rng.Chance(1, 2) {
			x = int64(f.rng.Intn(8))
		}
		v.SetInt(x)
		f.note(fmt.Sprintf("i%d", varintLen(uint64(x))))
	case reflect.Int64, reflect.Int:
		x := int64(f.uintVal(64))
		v.SetInt(x)
		f.note(fmt.Sprintf("I%d", varintLen(uint64(x))))
	case reflect.Float32:
		x := float64(float32(f.rng.Float()*2000 - 1000))
		if f.rng.Chance(1, 4) {
			x = 0
		}
		v.SetFloat(x)
		f.note("g")
	case reflect.Float64:
		x := f.rng.Float()*2e6 - 1e6
		if f.rng.Chance(1, 4) {
			x = 0
		}
		v.SetFloat(x)
		f.note("G")
	default:
		f.note("?" + v.Kind().String())
	}
}

func varintLen(v uint64) int {
	n := 1
	for v >= 0x80 {
		v >>= 7
		n++
	}
	return n
}

func protoTypes() []protoMsg {
	return []protoMsg{
		// blocks
		&block.MiniBlock{}, &block.MiniBlockHeader{}, &block.PeerChange{}, &block.Header{}, &block.Body{}, &block.BodyHeaderPair{},
		&block.PeerData{}, &block.ShardData{}, &block.EpochStartShardData{}, &block.Economics{}, &block.EpochStart{}, &block.MetaBlock{},
		// transactions and results
		&transaction.Transaction{}, &transaction.Event{}, &transaction.Log{}, &receipt.Receipt{}, &rewardTx.RewardTx{}, &smartContractResult.SmartContractResult{},
		// accounts, validators
		&state.UserAccountData{}, &state.CodeEntry{}, &state.ValidatorInfo{}, &state.ShardValidatorInfo{}, &state.SignRate{}, &state.ValidatorApiResponse{}, &state.PeerAccountData{},
		// transport and trie nodes
		&batch.Batch{}, &trie.CollapsedBn{}, &trie.CollapsedEn{}, &trie.CollapsedLn{},
		// system smart contract records
		&ssc.DelegationManagement{}, &ssc.DelegationContractList{}, &ssc.DelegationConfig{}, &ssc.DelegationMetaData{}, &ssc.DelegationContractStatus{}, &ssc.Fund{}, &ssc.DelegatorData{}, &ssc.GlobalFundData{}, &ssc.NodesData{}, &ssc.RewardComputationData{},
		&ssc.StakedDataV1_0{}, &ssc.StakedDataV1_1{}, &ssc.StakedDataV2_0{}, &ssc.StakingNodesConfig{}, &ssc.ElementInList{}, &ssc.WaitingList{},
		&ssc.ESDTData{}, &ssc.ESDTRoles{}, &ssc.ESDTConfig{}, &ssc.ValidatorDataV1{}, &ssc.UnstakedValue{}, &ssc.ValidatorDataV2{}, &ssc.ValidatorConfig{},
		&ssc.GeneralProposal{}, &ssc.WhiteListProposal{}, &ssc.HardForkProposal{}, &ssc.GovernanceConfig{}, &ssc.GovernanceConfigV2{}, &ssc.VoteDetails{}, &ssc.VoteSet{},
		// lookup / bootstrap records
		&dblookupext.MiniblockMetadata{}, &dblookupext.EpochByHash{}, &dblookupext.ScResultsHashesAndEpoch{}, &dblookupext.ResultsHashesByTxHash{},
		&bootstrapStorage.BootstrapData{}, &bootstrapStorage.BootstrapHeaderInfo{}, &bootstrapStorage.PendingMiniBlocksInfo{}, &bootstrapStorage.MiniBlocksInMeta{}, &bootstrapStorage.RoundNum{},
		// network messages
		&consensus.Message{}, &dataRetriever.RequestData{}, &heartbeatData.Heartbeat{}, &heartbeatData.HeartbeatDTO{}, &heartbeatData.DbTimeStamp{}, &p2pData.AuthMessagePb{}, &p2pData.TopicMessage{},
	}
}

func main() {
	logger.SetLogLevel("*:NONE")
	r := vk.Start("C45")
	types := protoTypes()
	r.Rule(fmt.Sprintf("case = (message type, fill style, seed): the %d generated gogo-proto message types of elrond-go (blocks, meta blocks, miniblocks, transactions, logs, receipts, reward and SCR transactions, account / code / validator records, trie nodes, batches, all system-SC records, lookup and bootstrap records, consensus / request / heartbeat / p2p messages) are visited round-robin; a reflection populator fills every settable field big ints nil / 0 / negative / 2^(8k) / random, byte slices nil / empty / short / up to 2 kB, strings with multi-byte runes, nested pointers nil or set, repeated fields 0..6 elements, integers around every varint length boundary. Six styles: sparse, normal, dense, boundary-heavy, all-default (zero-length encoding where the type allows it) and mostly default (a leaf is set with probability 1/10); 3 of 9 values are (mostly) default. Every case draws a second independent value of the same type and decodes each of the two into targets that hold the other (populated / decoded / decoded twice). Non-trivial = every case; shape = type + hash of the fill signature (which fields are nil / empty / set, element counts, varint lengths) + class of the other value (zero-length / mostly-default / populated).", len(types)))
	r.Assume("values are compared with the generated Equal method (nil and empty byte slices are equal for proto3)",
		"floats are finite; strings are valid UTF-8; elements of repeated message fields are non-nil",
		"reset-before-decode is demanded only through marshal.GogoProtoMarshalizer.Unmarshal (it calls Reset); the generated Unmarshal methods merge into their receiver by design and are only exercised with fresh targets",
		"oneof-based metrics messages (data/metrics) and test-only messages are not protocol data and are left out")
	r.MinShapes(2000)
	r.Extra("message_types", len(types))
	var names []string
	for _, t := range types {
		names = append(names, reflect.TypeOf(t).Elem().String())
	}
	r.Extra("message_type_names", names)
	if len(types) < 40 {
		r.Inconclusive("fewer than 40 message types")
		r.Finish()
	}
	m := &marshal.GogoProtoMarshalizer{}
	var zeroLenSeen, zeroLenReuse sync.Map

	perType := r.N(700, 50000)
	r.Parallel(len(types)*perType, func(c *vk.Case) {
		proto := types[c.Idx%len(types)]
		rt := reflect.TypeOf(proto).Elem()
		tname := rt.String()
		seed := c.Rng.U64()
		pickStyle := func() int {
			// 0..3 populated styles, 4 all-default, 5 mostly default: a third of the values is (nearly) default
			return []int{0, 1, 2, 3, 1, 2, 4, 4, 5}[c.Rng.Intn(9)]
		}
		style := pickStyle()
		var sig strings.Builder
		x := reflect.New(rt)
		(&filler{rng: vk.NewRand(seed), style: style, sig: &sig}).fill(x.Elem(), 0)
		x2 := reflect.New(rt)
		(&filler{rng: vk.NewRand(seed), style: style, spareCap: true}).fill(x2.Elem(), 0)
		obj := x.Interface().(protoMsg)
		twin := x2.Interface().(protoMsg)
		// a second, unrelated value of the same type: the previous content of reused decode targets
		otherSeed := c.Rng.U64()
		otherStyle := pickStyle()
		newOther := func() protoMsg {
			w := reflect.New(rt)
			(&filler{rng: vk.NewRand(otherSeed), style: otherStyle}).fill(w.Elem(), 0)
			return w.Interface().(protoMsg)
		}
		key := func(class string) string { return "type=" + tname + " class=" + class }
		detail := func(extra map[string]interface{}) map[string]interface{} {
			d := map[string]interface{}{"type": tname, "value": fmt.Sprintf("%+v", obj), "fill_seed": seed, "style": style}
			for k, v := range extra {
				d[k] = v
			}
			return d
		}
		panicked, pv, stack := vk.Guard(func() {
			b1, err := m.Marshal(obj)
			r.Eval(1)
			if err != nil {
				r.Violation(c.Idx, key("marshal-error"), fmt.Sprintf("%s: Marshal: %v", tname, err), detail(nil))
				return
			}
			b1 = append([]byte{}, b1...)
			b2, err2 := m.Marshal(obj)
			b3, err3 := obj.Marshal()
			r.Eval(2)
			if err2 != nil || err3 != nil || !bytes.Equal(b1, b2) || !bytes.Equal(b1, b3) {
				r.Violation(c.Idx, key("nondeterministic"), fmt.Sprintf("%s: repeated Marshal of one value differs: %x / %x / %x (%v %v)", tname, b1, b2, b3, err2, err3), detail(map[string]interface{}{"first": vk.Hex(b1), "second": vk.Hex(b2), "third": vk.Hex(b3)}))
			}
			bt, errT := m.Marshal(twin)
			r.Eval(1)
			if errT != nil || !bytes.Equal(b1, bt) {
				r.Violation(c.Idx, key("equal-values-different-bytes"), fmt.Sprintf("%s: a separately allocated equal value encodes to %x instead of %x (%v)", tname, bt, b1, errT), detail(map[string]interface{}{"first": vk.Hex(b1), "twin": vk.Hex(bt)}))
			}
			if !obj.Equal(twin) {
				r.Inconclusive("the populator is not deterministic for " + tname)
			}
			if sz := obj.Size(); sz != len(b1) {
				r.Violation(c.Idx, key("size-mismatch"), fmt.Sprintf("%s: Size()=%d, encoded length %d", tname, sz, len(b1)), detail(map[string]interface{}{"bytes": vk.Hex(b1)}))
			}
			// ---- fresh target, through the marshalizer and through the generated method
			freshOK := true
			y := reflect.New(rt).Interface().(protoMsg)
			r.Eval(1)
			if err = m.Unmarshal(y, b1); err != nil {
				r.Violation(c.Idx, key("unmarshal-error"), fmt.Sprintf("%s: Unmarshal of own encoding %x: %v", tname, b1, err), detail(map[string]interface{}{"bytes": vk.Hex(b1)}))
				return
			}
			if !obj.Equal(y) || !y.Equal(obj) {
				freshOK = false
				r.Violation(c.Idx, key("roundtrip-not-equal"), fmt.Sprintf("%s: decoded value differs: in=%+v out=%+v", tname, obj, y), detail(map[string]interface{}{"bytes": vk.Hex(b1), "decoded": fmt.Sprintf("%+v", y)}))
			}
			b4, err4 := m.Marshal(y)
			r.Eval(1)
			if err4 != nil || !bytes.Equal(b1, b4) {
				freshOK = false
				r.Violation(c.Idx, key("remarshal-differs"), fmt.Sprintf("%s: re-encoding the decoded value gives %x instead of %x (%v)", tname, b4, b1, err4), detail(map[string]interface{}{"bytes": vk.Hex(b1), "again": vk.Hex(b4)}))
			}
			yd := reflect.New(rt).Interface().(protoMsg)
			r.Eval(1)
			if err = yd.Unmarshal(b1); err != nil {
				r.Violation(c.Idx, key("unmarshal-error"), fmt.Sprintf("%s: generated Unmarshal (fresh target) of own encoding %x: %v", tname, b1, err), detail(map[string]interface{}{"bytes": vk.Hex(b1), "path": "generated"}))
			} else if !obj.Equal(yd) || !yd.Equal(obj) {
				freshOK = false
				r.Violation(c.Idx, key("roundtrip-not-equal"), fmt.Sprintf("%s: generated Unmarshal into a fresh target differs: in=%+v out=%+v", tname, obj, yd), detail(map[string]interface{}{"bytes": vk.Hex(b1), "decoded": fmt.Sprintf("%+v", yd), "path": "generated"}))
			}
			// the encoding must still be the same after all of the above (the value was not mutated)
			b5, _ := m.Marshal(obj)
			if !bytes.Equal(b1, b5) {
				r.Violation(c.Idx, key("nondeterministic"), fmt.Sprintf("%s: encoding changed after decode/compare: %x then %x", tname, b1, b5), detail(nil))
			}

			// ---- reused targets, through the marshalizer only: GogoProtoMarshalizer.Unmarshal resets the
			// target before decoding, the generated Unmarshal alone merges and promises nothing of the kind
			other := newOther()
			bo, errO := m.Marshal(other)
			if errO != nil {
				r.Violation(c.Idx, key("marshal-error"), fmt.Sprintf("%s: Marshal: %v", tname, errO), map[string]interface{}{"type": tname, "value": fmt.Sprintf("%+v", other)})
				return
			}
			bo = append([]byte{}, bo...)
			valClass := func(b []byte, st int) string {
				switch {
				case len(b) == 0:
					return "zero-length"
				case st >= 4:
					return "mostly-default"
				}
				return "populated"
			}
			xc, oc := valClass(b1, style), valClass(bo, otherStyle)
			// the other value must round-trip through a fresh target as well, otherwise a difference seen with a
			// reused target would be blamed on the reuse
			yo := reflect.New(rt).Interface().(protoMsg)
			r.Eval(1)
			if err := m.Unmarshal(yo, bo); err != nil || !other.Equal(yo) || !yo.Equal(other) {
				freshOK = false
				r.Violation(c.Idx, key("roundtrip-not-equal"), fmt.Sprintf("%s: decoded value differs (%v): in=%+v out=%+v", tname, err, other, yo), map[string]interface{}{"type": tname, "value": fmt.Sprintf("%+v", other), "bytes": vk.Hex(bo), "decoded": fmt.Sprintf("%+v", yo), "fill_seed": otherSeed, "style": otherStyle})
			} else if again, errA := m.Marshal(yo); errA != nil || !bytes.Equal(again, bo) {
				freshOK = false
				r.Violation(c.Idx, key("remarshal-differs"), fmt.Sprintf("%s: re-encoding the decoded value gives %x instead of %x (%v)", tname, again, bo, errA), map[string]interface{}{"type": tname, "value": fmt.Sprintf("%+v", other), "bytes": vk.Hex(bo), "again": vk.Hex(again)})
			}
			if freshOK {
				reuse := func(how string, target protoMsg, prev protoMsg, prevBytes []byte, val protoMsg, valBytes []byte, valC, prevC string) {
					prevStr := ""
					if r.Violations() < 50 {
						prevStr = fmt.Sprintf("%+v", prev)
					}
					r.Eval(1)
					r.Count("reuse.checks", 1)
					r.Count("reuse."+valC+"-into-"+prevC, 1)
					if err := m.Unmarshal(target, valBytes); err != nil {
						r.Violation(c.Idx, key("unmarshal-error"), fmt.Sprintf("%s: Unmarshal of %x into a reused object: %v", tname, valBytes, err), detail(map[string]interface{}{"bytes": vk.Hex(valBytes), "target": how}))
						return
					}
					again, errA := m.Marshal(target)
					if !val.Equal(target) || !target.Equal(val) || errA != nil || !bytes.Equal(again, valBytes) {
						r.Violation(c.Idx, key("stale-content-after-decode-into-reused-object"),
							fmt.Sprintf("%s: decoding %d bytes (%x) into an object that held another value (%s, its encoding had %d bytes) gives %+v instead of %+v; re-encoded %x", tname, len(valBytes), valBytes, how, len(prevBytes), target, val, again),
							map[string]interface{}{"type": tname, "target_prepared_by": how, "decoded_bytes": vk.Hex(valBytes), "expected": fmt.Sprintf("%+v", val), "got": fmt.Sprintf("%+v", target), "previous_content": prevStr, "previous_bytes": vk.Hex(prevBytes), "value_class": valC, "previous_class": prevC})
					}
				}
				// (a) the target was populated with the other value
				reuse("populated", newOther(), other, bo, obj, b1, xc, oc)
				// (a') the target received the other value by decoding
				t2 := reflect.New(rt).Interface().(protoMsg)
				if err := m.Unmarshal(t2, bo); err == nil {
					reuse("decoded", t2, other, bo, obj, b1, xc, oc)
					// ... and is used a third time, for the other value again
					reuse("decoded-twice", t2, obj, b1, other, bo, oc, xc)
				}
				// (b) the other way round: the target holds this case's value (its separately allocated twin), the other value is decoded
				reuse("populated", twin, obj, b1, other, bo, oc, xc)
				if len(b1) == 0 && len(bo) > 0 || len(bo) == 0 && len(b1) > 0 {
					zeroLenReuse.Store(tname, true)
				}
			}
			if len(b1) == 0 {
				zeroLenSeen.Store(tname, true)
			}
			r.Count("roundtrips."+tname, 1)
			r.Count("value."+xc, 1)
			r.Max("max_encoded_len", int64(len(b1)))
			r.ShapeHash(tname, sig.String(), oc)
			if r.NeedSample() && len(b1) < 60 && len(b1) > 10 && c.Idx%11 == 0 {
				r.Sample(map[string]interface{}{"type": tname, "value": fmt.Sprintf("%+v", obj), "bytes": vk.Hex(b1), "reused_target_previous_bytes": vk.Hex(bo)})
			}
		})
		if panicked {
			r.Violation(c.Idx, key("panic"), fmt.Sprintf("%s: panic %v", tname, pv), detail(map[string]interface{}{"stack": stack}))
		}
	})
	var zl, zr []string
	for _, nme := range names {
		if _, ok := zeroLenSeen.Load(nme); ok {
			zl = append(zl, nme)
		}
		if _, ok := zeroLenReuse.Load(nme); ok {
			zr = append(zr, nme)
		}
	}
	r.Extra("types_with_zero_length_encoding_seen", len(zl))
	r.Extra("types_with_zero_length_vs_nonempty_reuse_checked", len(zr))
	var never []string
	for _, nme := range names {
		found := false
		for _, z := range zl {
			if z == nme {
				found = true
			}
		}
		if !found {
			never = append(never, nme)
		}
	}
	r.Extra("types_never_encoding_to_zero_length", never)
	if r.ReplayCase < 0 && len(zr) < len(zl) {
		r.Inconclusive(fmt.Sprintf("zero-length encodings were seen for %d types but the reused-target check met a zero-length / non-empty pair for only %d", len(zl), len(zr)))
	}
	r.Finish()
}
