// C32 — data packing for network transfer is lossless.
// Monitor shape: round trip (RT). For random lists of byte strings and random limits the three real
// packers (SizeDataPacker, SimpleDataPacker, DataSplit) are run; the chunks are unmarshalled with the
// real gogo-proto marshalizer and their concatenation is compared with the input (same elements, same
// order, same bytes). Size bounds: SizeDataPacker multi-element chunk marshals below the limit,
// SimpleDataPacker multi-element chunk payload below the limit, DataSplit chunk has at most limit
// elements.
package main

import (
	"bytes"
	"fmt"
	"math"
	"strings"

	logger "github.com/ElrondNetwork/elrond-go-logger"
	"github.com/ElrondNetwork/elrond-go/core/partitioning"
	"github.com/ElrondNetwork/elrond-go/data/batch"
	"github.com/ElrondNetwork/elrond-go/marshal"
	"verif/internal/vk"
)

var marsh = &marshal.GogoProtoMarshalizer{}

// varintLen is the length of the protobuf varint of v
func varintLen(v int) int {
	n := 1
	for v >= 0x80 {
		v >>= 7
		n++
	}
	return n
}

// single is the marshalled size of a batch holding exactly one element of length l
func single(l int) int { return 1 + varintLen(l) + l }

// payloadFor returns the largest element length whose single-element batch marshals to at most target bytes (>= 0)
func payloadFor(target int) int {
	l := target
	for l > 0 && single(l) > target {
		l--
	}
	return l
}

func clamp(v int) int {
	if v < 0 {
		return 0
	}
	return v
}

// genLen draws one element length of a given class relative to the limit; returns the length and the class letter
func genLen(rng *vk.Rand, limit int, mode int) (int, byte) {
	var cls int
	switch mode {
	case 0: // uniform mix
		cls = rng.Intn(10)
	case 1: // mostly "half": the shape where two consecutive elements never fit together
		if rng.Chance(3, 4) {
			cls = 2
		} else {
			cls = rng.Intn(10)
		}
	case 2: // many small ones, now and then a big one
		if rng.Chance(4, 5) {
			cls = 8
		} else {
			cls = 3 + rng.Intn(4)
		}
	default: // thirds: three fit, the fourth overflows
		if rng.Chance(3, 4) {
			cls = 9
		} else {
			cls = rng.Intn(10)
		}
	}
	switch cls {
	case 0:
		return 0, 'z'
	case 1:
		return 1, 'o'
	case 2: // a bit more than half of the limit
		return clamp(limit/2 + rng.Intn(limit/4+2)), 'h'
	case 3: // single-element batch marshals to limit-1 (the largest that is "not too large")
		return payloadFor(limit - 1), 'n'
	case 4: // single-element batch marshals to exactly the limit (too large on its own)
		return payloadFor(limit), 'e'
	case 5: // raw length == limit
		return limit, 'l'
	case 6: // clearly above
		return limit + 1 + rng.Intn(limit+4), 'b'
	case 7: // anything
		return rng.Intn(2*limit + 1), 'r'
	case 8: // small
		return rng.Intn(limit/8 + 2), 's'
	default: // about a third
		return clamp(limit/3 - 2 + rng.Intn(5)), 't'
	}
}

func unpack(chunks [][]byte) ([][]byte, []int, error) {
	out := make([][]byte, 0)
	counts := make([]int, 0, len(chunks))
	for i, c := range chunks {
		b := &batch.Batch{}
		if err := marsh.Unmarshal(b, c); err != nil {
			return nil, nil, fmt.Errorf("chunk %d: %w", i, err)
		}
		out = append(out, b.Data...)
		counts = append(counts, len(b.Data))
	}
	return out, counts, nil
}

func sameList(a, b [][]byte) bool {
	if len(a) != len(b) {
		return false
	}
	for i := range a {
		if !bytes.Equal(a[i], b[i]) {
			return false
		}
	}
	return true
}

// isSubsequence tells whether got can be obtained from want by deleting elements (pure loss)
func isSubsequence(got, want [][]byte) bool {
	j := 0
	for _, g := range got {
		for j < len(want) && !bytes.Equal(want[j], g) {
			j++
		}
		if j == len(want) {
			return false
		}
		j++
	}
	return true
}

func lens(l [][]byte) []int {
	out := make([]int, len(l))
	for i := range l {
		out[i] = len(l[i])
	}
	return out
}

func diffKind(got, want [][]byte) string {
	if len(got) < len(want) && isSubsequence(got, want) {
		return "lossy"
	}
	return "corrupt"
}

func main() {
	logger.SetLogLevel("*:NONE")
	r := vk.Start("C32")
	r.Rule("case = (limit, list): limit from {1..16, 17..300, 301..4096}; 0..40 elements whose lengths are drawn relative to the limit (0, 1, just over half, single-batch size limit-1 / limit, raw limit, above, random, small, third) under four mixes; every element has distinct random content. All three packers run on every case; one case in six re-runs them with an extreme limit (2^31-1 .. MaxInt64, including MaxInt64-n+{0,1,2}) under the round-trip oracle. Non-trivial = at least one packer produced >= 2 chunks; shape = limit band + element class string + chunk-count vector.")
	r.Assume("the real GogoProtoMarshalizer/batch.Batch codec is used to unpack (its round trip is C45's subject)",
		"inputs are non-nil lists and limits >= 1 (the packers reject the rest with an error)",
		"SimpleDataPacker bound is on the payload sum (it is documented as imprecise), SizeDataPacker bound on the marshalled chunk")
	r.MinShapes(200)

	sizeP, err1 := partitioning.NewSizeDataPacker(marsh)
	simpleP, err2 := partitioning.NewSimpleDataPacker(marsh)
	if err1 != nil || err2 != nil {
		r.Inconclusive(fmt.Sprintf("packer constructors failed: %v %v", err1, err2))
		r.Finish()
	}
	split := &partitioning.DataSplit{}

	n := r.N(120000, 2000000)
	r.Parallel(n, func(c *vk.Case) {
		rng := c.Rng
		var limit int
		switch rng.Intn(3) {
		case 0:
			limit = 1 + rng.Intn(16)
		case 1:
			limit = 17 + rng.Intn(284)
		default:
			limit = 301 + rng.Intn(3796)
		}
		count := rng.Intn(41)
		if rng.Chance(1, 3) {
			count = rng.Intn(9)
		}
		mode := rng.Intn(4)
		in := make([][]byte, count)
		classes := make([]byte, count)
		for i := range in {
			l, cl := genLen(rng, limit, mode)
			in[i] = rng.Bytes(l)
			classes[i] = cl
		}
		// private copy: the model must not alias buffers handed to the code under test
		want := make([][]byte, count)
		for i := range in {
			want[i] = append([]byte{}, in[i]...)
		}
		detail := func(extra map[string]interface{}) map[string]interface{} {
			d := map[string]interface{}{"limit": limit, "element_lengths": lens(want), "classes": string(classes)}
			for k, v := range extra {
				d[k] = v
			}
			return d
		}
		maxChunks := 0
		var chunkVec []string

		// ---- SizeDataPacker
		chunks, err := sizeP.PackDataInChunks(in, limit)
		r.Eval(1)
		if err != nil {
			r.Violation(c.Idx, "sizepacker-error", fmt.Sprintf("SizeDataPacker limit=%d lens=%v: %v", limit, lens(want), err), detail(nil))
		} else {
			got, counts, uerr := unpack(chunks)
			sizes := lens(chunks)
			if uerr != nil {
				r.Violation(c.Idx, "sizepacker-chunk-undecodable", fmt.Sprintf("SizeDataPacker limit=%d: %v", limit, uerr), detail(map[string]interface{}{"chunk_sizes": sizes}))
			} else {
				if !sameList(got, want) {
					k := diffKind(got, want)
					r.Violation(c.Idx, "sizepacker-"+k, fmt.Sprintf("SizeDataPacker limit=%d input lens=%v -> chunk sizes=%v elements per chunk=%v: unpacked %d of %d elements (lens %v)", limit, lens(want), sizes, counts, len(got), len(want), lens(got)),
						detail(map[string]interface{}{"chunk_sizes": sizes, "elements_per_chunk": counts, "unpacked_lengths": lens(got)}))
					r.Count("size.lossy_cases", 1)
				}
				for i := range chunks {
					if counts[i] > 1 && sizes[i] >= limit {
						r.Violation(c.Idx, "sizepacker-size-bound", fmt.Sprintf("SizeDataPacker limit=%d: chunk %d holds %d elements and marshals to %d bytes", limit, i, counts[i], sizes[i]), detail(map[string]interface{}{"chunk_sizes": sizes, "elements_per_chunk": counts}))
					}
					if counts[i] == 0 {
						r.Count("size.empty_chunks", 1)
					}
					if counts[i] == 1 && sizes[i] >= limit {
						r.Count("size.oversized_single_chunks", 1)
					}
				}
			}
			r.Count("size.chunks", len(chunks))
			if len(chunks) > maxChunks {
				maxChunks = len(chunks)
			}
			chunkVec = append(chunkVec, fmt.Sprint(len(chunks)))
		}

		// ---- SimpleDataPacker
		chunks, err = simpleP.PackDataInChunks(in, limit)
		r.Eval(1)
		if err != nil {
			r.Violation(c.Idx, "simplepacker-error", fmt.Sprintf("SimpleDataPacker limit=%d lens=%v: %v", limit, lens(want), err), detail(nil))
		} else {
			sizes := lens(chunks)
			var got [][]byte
			counts := []int{}
			payloads := []int{}
			var uerr error
			for i, ch := range chunks {
				b := &batch.Batch{}
				if e := marsh.Unmarshal(b, ch); e != nil {
					uerr = fmt.Errorf("chunk %d: %w", i, e)
					break
				}
				s := 0
				for _, e := range b.Data {
					s += len(e)
				}
				got = append(got, b.Data...)
				counts = append(counts, len(b.Data))
				payloads = append(payloads, s)
			}
			if uerr != nil {
				r.Violation(c.Idx, "simplepacker-chunk-undecodable", fmt.Sprintf("SimpleDataPacker limit=%d: %v", limit, uerr), detail(map[string]interface{}{"chunk_sizes": sizes}))
			} else {
				if !sameList(got, want) {
					k := diffKind(got, want)
					r.Violation(c.Idx, "simplepacker-"+k, fmt.Sprintf("SimpleDataPacker limit=%d input lens=%v -> elements per chunk=%v: unpacked %d of %d elements (lens %v)", limit, lens(want), counts, len(got), len(want), lens(got)),
						detail(map[string]interface{}{"chunk_sizes": sizes, "elements_per_chunk": counts, "unpacked_lengths": lens(got)}))
				}
				for i := range counts {
					if counts[i] > 1 && payloads[i] >= limit {
						r.Violation(c.Idx, "simplepacker-size-bound", fmt.Sprintf("SimpleDataPacker limit=%d: chunk %d holds %d elements with %d payload bytes", limit, i, counts[i], payloads[i]), detail(map[string]interface{}{"payloads": payloads, "elements_per_chunk": counts}))
					}
					if counts[i] == 0 {
						r.Count("simple.empty_chunks", 1)
					}
				}
			}
			r.Count("simple.chunks", len(chunks))
			if len(chunks) > maxChunks {
				maxChunks = len(chunks)
			}
			chunkVec = append(chunkVec, fmt.Sprint(len(chunks)))
		}

		// ---- DataSplit: limit counts elements; use a small limit so that splitting happens
		elemLimit := 1 + rng.Intn(12)
		if rng.Chance(1, 6) {
			elemLimit = limit
		}
		parts, err := split.SplitDataInChunks(in, elemLimit)
		r.Eval(1)
		if err != nil {
			r.Violation(c.Idx, "datasplit-error", fmt.Sprintf("DataSplit limit=%d n=%d: %v", elemLimit, count, err), detail(map[string]interface{}{"element_limit": elemLimit}))
		} else {
			var flat [][]byte
			counts := []int{}
			for i, p := range parts {
				flat = append(flat, p...)
				counts = append(counts, len(p))
				if len(p) > elemLimit {
					r.Violation(c.Idx, "datasplit-chunk-too-long", fmt.Sprintf("DataSplit limit=%d: chunk %d has %d elements", elemLimit, i, len(p)), detail(map[string]interface{}{"element_limit": elemLimit, "elements_per_chunk": counts}))
				}
			}
			if !sameList(flat, want) {
				k := diffKind(flat, want)
				r.Violation(c.Idx, "datasplit-"+k, fmt.Sprintf("DataSplit limit=%d n=%d -> elements per chunk=%v: %d of %d elements", elemLimit, count, counts, len(flat), len(want)), detail(map[string]interface{}{"element_limit": elemLimit, "elements_per_chunk": counts}))
			}
			r.Count("split.chunks", len(parts))
			if len(parts) > maxChunks {
				maxChunks = len(parts)
			}
			chunkVec = append(chunkVec, fmt.Sprint(len(parts)))
		}

		// ---- extreme limits ("no limit" style values): the round trip must still be lossless
		if rng.Chance(1, 6) {
			extremes := []int{math.MaxInt32, math.MaxInt32 + 1, 1 << 62, math.MaxInt64 / 2, math.MaxInt64 - count, math.MaxInt64 - 1, math.MaxInt64}
			for d := 1; d <= 2 && d <= count; d++ {
				extremes = append(extremes, math.MaxInt64-count+d)
			}
			lim := extremes[rng.Intn(len(extremes))]
			r.Count("extreme_limit_cases", 1)
			for pi, pk := range []string{"sizepacker", "simplepacker"} {
				var ch [][]byte
				var e error
				if pi == 0 {
					ch, e = sizeP.PackDataInChunks(in, lim)
				} else {
					ch, e = simpleP.PackDataInChunks(in, lim)
				}
				r.Eval(1)
				if e != nil {
					r.Violation(c.Idx, pk+"-error", fmt.Sprintf("%s limit=%d lens=%v: %v", pk, lim, lens(want), e), detail(map[string]interface{}{"extreme_limit": lim}))
					continue
				}
				got, counts, uerr := unpack(ch)
				if uerr != nil {
					r.Violation(c.Idx, pk+"-chunk-undecodable", fmt.Sprintf("%s limit=%d: %v", pk, lim, uerr), detail(map[string]interface{}{"extreme_limit": lim}))
				} else if !sameList(got, want) {
					r.Violation(c.Idx, pk+"-"+diffKind(got, want), fmt.Sprintf("%s limit=%d input lens=%v -> elements per chunk=%v: unpacked %d of %d elements", pk, lim, lens(want), counts, len(got), len(want)), detail(map[string]interface{}{"extreme_limit": lim, "elements_per_chunk": counts}))
				}
			}
			ps, e := split.SplitDataInChunks(in, lim)
			r.Eval(1)
			if e != nil {
				r.Violation(c.Idx, "datasplit-error", fmt.Sprintf("DataSplit limit=%d n=%d: %v", lim, count, e), detail(map[string]interface{}{"element_limit": lim}))
			} else {
				var flat [][]byte
				counts := []int{}
				for _, p := range ps {
					flat = append(flat, p...)
					counts = append(counts, len(p))
				}
				if !sameList(flat, want) {
					r.Violation(c.Idx, "datasplit-"+diffKind(flat, want), fmt.Sprintf("DataSplit limit=%d n=%d -> elements per chunk=%v: %d of %d elements", lim, count, counts, len(flat), len(want)), detail(map[string]interface{}{"element_limit": lim, "elements_per_chunk": counts}))
				}
			}
		}

		// the input handed to the packers must not have been modified
		if !sameList(in, want) {
			r.Violation(c.Idx, "input-modified", fmt.Sprintf("a packer modified its input list (limit=%d)", limit), detail(nil))
		}

		if maxChunks < 2 {
			r.Trivial()
			return
		}
		band := "S"
		if limit > 16 {
			band = "M"
		}
		if limit > 300 {
			band = "L"
		}
		r.ShapeHash(band, string(classes), strings.Join(chunkVec, ","))
		r.Max("max_chunks", int64(maxChunks))
		r.Max("max_elements", int64(count))
		if r.NeedSample() && count >= 3 && count <= 6 {
			r.Sample(map[string]interface{}{"limit": limit, "element_lengths": lens(want), "classes": string(classes), "chunks_size_simple_split": strings.Join(chunkVec, ","), "split_limit": elemLimit})
		}
	})
	r.Finish()
}
