// C09 — state pruning never deletes nodes that a live state root needs; garbage is removed once unblocked.
// Monitor shape: reference model over chain histories (commit / finalize / rollback / block / unblock / real
// snapshot+checkpoint), driven through the real pruning schedule (shardProcessor.updateStateStorage via the
// verif hook, PruneStateOnRollback, RevertStateToBlock) on real AccountsDB + trieStorageManager +
// evictionWaitingList + storagePruningManager. RACE marker: race reports are evidence only.
package main

import (
	"encoding/hex"
	"fmt"
	"sort"
	"strings"
	"time"

	logger "github.com/ElrondNetwork/elrond-go-logger"
	"github.com/ElrondNetwork/elrond-go/data"

	cm "verif/internal/chainmodel"
	"verif/internal/vk"
)

const knownShapeKey = "shape=rollback-while-blocked+re-extend-parent"

// profiles: half of the histories can never contain the known shape
const (
	profNeverBlocked          = 0 // no blocking at all
	profBlockedNoRollback     = 1 // explicit blocking + real snapshots/checkpoints, never a rollback while blocked
	profBlockedRollback       = 2 // explicit blocking, rollbacks allowed while blocked
	profBlockedRollbackAndSnp = 3 // explicit blocking + real snapshots/checkpoints, rollbacks allowed while blocked
)

type hist struct {
	r   *vk.Run
	c   *vk.Case
	w   *cm.World
	env *cm.Env

	profile int
	ops     []string
	events  map[string]bool

	explicit    int  // harness-held EnterPruningBufferingMode calls
	pendingHeld bool // a real snapshot/checkpoint is outstanding and its traversal is held at the gate
	pendingLeft int
	pendingKind string

	inexact     bool // the blocked state was not exactly known at some point (gate did not engage)
	bufLen      int
	bufCap      int
	bufMaybe    bool
	overflow    bool
	stale       map[string]bool // roots P with a buffered CancelPrune(P, OldRoot) not yet drained
	shapeSeen   bool
	shapeAt     string
	shapeParent *cm.Block
	rbBlocked   bool // a rollback happened while pruning was blocked
	drains      int
	lastGarbage int // value of drains at the last garbage check

	requested       map[string]bool // PruneTrie(root, OldRoot) was requested
	reqWhileBlocked map[string]bool // ... during the current (certain) blocked period: still required
	lastChecked     map[string]int64

	// diagnostics for replay files: node set of every committed state (rolled-back ones included), commits in order
	nodes   map[string]map[string]struct{}
	commits []commitRec

	// accounts (indexes into cm.Addrs) whose committed data trie was changed by a failed-and-reverted block attempt
	// since the last commit / rollback (evidence: does the next block leave them alone?)
	attemptTouched map[int]bool

	dead bool // a violation / fatal condition ended this history
}

type commitRec struct {
	height uint64
	root   string
	parent string
}

// nodeHistory renders which commits created / dropped a node hash (diagnostics only)
func (h *hist) nodeHistory(n string) []string {
	var out []string
	for _, cr := range h.commits {
		_, in := h.nodes[cr.root][n]
		_, inParent := h.nodes[cr.parent][n]
		if in && !inParent {
			out = append(out, fmt.Sprintf("created by commit h=%d root=%s", cr.height, cm.Short([]byte(cr.root))))
		}
		if !in && inParent {
			out = append(out, fmt.Sprintf("dropped by commit h=%d root=%s", cr.height, cm.Short([]byte(cr.root))))
		}
	}
	return out
}

func (h *hist) blocked() bool { return h.explicit > 0 || h.pendingHeld }

func (h *hist) ev(name string) {
	h.events[name] = true
	h.r.Count("ev_"+name, 1)
}

func (h *hist) onCancel(root []byte, id data.TriePruningIdentifier) {
	if h.blocked() || h.bufLen > 0 || h.bufMaybe {
		if h.bufLen < h.bufCap {
			h.bufLen++
			if id == data.OldRoot {
				h.stale[string(root)] = true
			}
			h.ev("cancel_buffered")
		} else {
			h.overflow = true
			h.ev("buffer_overflow")
		}
		return
	}
	h.ev("cancel_immediate")
}

func (h *hist) onPrune(root []byte, id data.TriePruningIdentifier) {
	if id == data.OldRoot {
		h.requested[string(root)] = true
	}
	if h.blocked() {
		if id == data.NewRoot {
			h.ev("prune_new_turned_into_cancel_while_blocked")
			return
		}
		h.reqWhileBlocked[string(root)] = true
		if h.bufLen < h.bufCap {
			h.bufLen++
			h.ev("prune_buffered")
		} else {
			h.overflow = true
			h.ev("buffer_overflow")
		}
		return
	}
	if h.bufLen > 0 || h.bufMaybe {
		h.ev("drain_nonempty_buffer")
	}
	h.bufLen = 0
	h.bufMaybe = false
	h.stale = map[string]bool{}
	h.drains++
	if id == data.OldRoot {
		h.ev("prune_old_executed")
	} else {
		h.ev("prune_new_executed")
	}
}

func (h *hist) unblockedNow() {
	h.reqWhileBlocked = map[string]bool{}
}

func (h *hist) detail(extra map[string]interface{}) map[string]interface{} {
	d := map[string]interface{}{
		"profile": h.profile, "config": fmt.Sprintf("%+v", h.env.Cfg), "ops": h.ops,
		"shape_seen": h.shapeSeen, "shape_at": h.shapeAt, "rollback_while_blocked": h.rbBlocked,
		"final_idx": h.w.FinalIdx, "chain_len": len(h.w.Chain),
	}
	for k, v := range extra {
		d[k] = v
	}
	return d
}

func (h *hist) fail(key, what string, extra map[string]interface{}) {
	h.dead = true
	h.r.Violation(h.c.Idx, key, what, h.detail(extra))
}

// keyForMissing picks the witness class of a live root with missing nodes
func (h *hist) keyForMissing(root []byte) string {
	if h.reqWhileBlocked[string(root)] {
		return "pruned-while-blocked"
	}
	if h.shapeSeen {
		return knownShapeKey
	}
	return "live-root-broken"
}

// opFailed classifies an error of a chain operation (the real code refused a legal operation)
func (h *hist) opFailed(op string, err error) {
	key := "op-failed:" + op
	if h.shapeSeen {
		key = knownShapeKey
	}
	h.fail(key, fmt.Sprintf("%s failed: %v", op, err), nil)
}

// checkLive is oracle 1: every required root is fully traversable from the main DB and equals its model copy
func (h *hist) checkLive(force bool) {
	rc := h.env.Gate.RemoveCount()
	for i, b := range h.w.Chain {
		k := string(b.Root)
		// the last final block and everything above it are required whatever was requested; below it a root is
		// required until its prune has been requested (blocks sharing a root - empty blocks - share that status,
		// and the root stays required while any block at or above the final one has it)
		if i < h.w.FinalIdx && h.requested[k] && !h.reqWhileBlocked[k] && !h.rootAtOrAboveFinal(k) {
			continue
		}
		if last, ok := h.lastChecked[k]; ok && last == rc && !force {
			h.r.Count("live_checks_skipped_no_removal_since", 1)
			continue
		}
		h.r.Eval(1)
		h.r.Count("live_root_checks", 1)
		if ce := cm.TraverseRoot(h.env.Gate.Raw, b, nil); ce != nil {
			key := "content-mismatch"
			if ce.Kind != "mismatch" {
				key = h.keyForMissing(b.Root)
			}
			h.fail(key, fmt.Sprintf("required root idx %d (height %d, final idx %d, head idx %d) %s", i, b.Height, h.w.FinalIdx, len(h.w.Chain)-1, ce.Error()),
				map[string]interface{}{"root": vk.Hex(b.Root), "root_idx": i, "error": ce.Error(), "requested": h.requested[k], "blocked": h.blocked()})
			return
		}
		h.lastChecked[k] = rc
	}
}

func (h *hist) rootAtOrAboveFinal(root string) bool {
	for i := h.w.FinalIdx; i < len(h.w.Chain); i++ {
		if string(h.w.Chain[i].Root) == root {
			return true
		}
	}
	return false
}

// checkGarbage is oracle 2. It applies when pruning is unblocked, the buffer is drained, and the history has no
// rollback-while-blocked / overflow / inexact period; otherwise the count is only reported.
func (h *hist) checkGarbage(final bool) {
	if h.blocked() || h.bufLen > 0 || h.bufMaybe {
		return
	}
	if !final && h.drains == h.lastGarbage {
		return
	}
	h.lastGarbage = h.drains
	reach := map[string]struct{}{}
	for i, b := range h.w.Chain {
		if i < h.w.FinalIdx && h.requested[string(b.Root)] && !h.rootAtOrAboveFinal(string(b.Root)) {
			continue
		}
		h.r.Eval(1)
		if ce := cm.TraverseRoot(h.env.Gate.Raw, b, reach); ce != nil {
			key := "content-mismatch"
			if ce.Kind != "mismatch" {
				key = h.keyForMissing(b.Root)
			}
			h.fail(key, "required root broken at garbage check: "+ce.Error(), map[string]interface{}{"root": vk.Hex(b.Root)})
			return
		}
	}
	garbage := 0
	total := 0
	var sample []string
	h.env.Gate.Raw.RangeKeys(func(k, v []byte) bool {
		if string(k) == string(cm.NumCheckpointsKey) {
			return true
		}
		total++
		if _, ok := reach[string(k)]; !ok {
			garbage++
			if len(sample) < 5 {
				sample = append(sample, vk.Hex(k))
			}
		}
		return true
	})
	h.r.Max("db_nodes", int64(total))
	applies := !h.rbBlocked && !h.overflow && !h.inexact && !h.shapeSeen
	if !applies {
		h.r.Count("garbage_checks_report_only", 1)
		h.r.Max("garbage_nodes_in_excluded_histories", int64(garbage))
		if garbage > 0 {
			h.r.Count("excluded_histories_checks_with_garbage", 1)
		}
		return
	}
	h.r.Eval(1)
	h.r.Count("garbage_checks", 1)
	if garbage > 0 {
		key := "garbage-left"
		if h.leakExplainsAll(reach, func(b *cm.Block) bool { return b.LeakShape }) {
			key = garbageLeakShapeKey
		} else if h.leakExplainsAll(reach, func(b *cm.Block) bool { return b.LeakShape || b.RemovedDirty }) {
			key = garbageRemovedDirtyKey
		}
		hist := map[string][]string{}
		for _, sh := range sample {
			hist[sh] = h.nodeHistory(string(unhex(sh)))
		}
		h.fail(key, fmt.Sprintf("%d of %d DB nodes are reachable from no root whose prune has not been requested (pruning unblocked, buffer drained, no rollback while blocked)", garbage, total),
			map[string]interface{}{"garbage": garbage, "db_nodes": total, "sample_hashes": sample, "sample_hash_history": hist, "final_check": final})
	}
}

// garbageLeakShapeKey is the witness class of a leak this monitor found: inside ONE block the storage of an account
// is changed (its cached data trie now carries the obsolete hashes), the account is removed (possible when the
// changed data trie is empty or back at a committed root) and re-created with storage: saveDataTrie puts a fresh
// data trie under the same address into the data tries holder, the replaced trie is never committed and its
// obsolete hashes never reach the eviction waiting list.
const garbageLeakShapeKey = "garbage shape=storage-changed+account-removed+re-created-with-storage-in-one-block"

// garbageRemovedDirtyKey is the witness class of a second leak this monitor found: inside ONE block the storage of an
// account is changed and brought back to a committed data-trie root (slot v1 -> v2 -> v1 with a SaveAccount each) and
// the account is then removed. removeDataTrie lists the nodes of the committed data trie as obsolete, the cached
// data trie lists the re-created (identical) nodes as new, and removeDuplicatedKeys cancels the two against each
// other: the nodes of the removed account's data trie are never pruned.
const garbageRemovedDirtyKey = "garbage shape=storage-changed-back-to-committed-root+account-removed-in-one-block"

// leakExplainsAll tells whether every garbage node was last dropped, on the current chain, by a block with that shape
func (h *hist) leakExplainsAll(reach map[string]struct{}, shape func(b *cm.Block) bool) bool {
	onChain := map[string]*cm.Block{}
	for _, b := range h.w.Chain {
		onChain[string(b.Root)] = b
	}
	all, any := true, false
	h.env.Gate.Raw.RangeKeys(func(k, v []byte) bool {
		if string(k) == string(cm.NumCheckpointsKey) {
			return true
		}
		if _, ok := reach[string(k)]; ok {
			return true
		}
		any = true
		var dropper *cm.Block
		for _, cr := range h.commits {
			b := onChain[cr.root]
			if b == nil {
				continue
			}
			_, in := h.nodes[cr.root][string(k)]
			_, inParent := h.nodes[cr.parent][string(k)]
			if !in && inParent {
				dropper = b
			}
		}
		if dropper == nil || !shape(dropper) {
			all = false
		}
		return true
	})
	return all && any
}

func (h *hist) op(s string) { h.ops = append(h.ops, s) }

func unhex(s string) []byte {
	b, _ := hex.DecodeString(s)
	return b
}

// failedAttempt processes part of a block and gives it up as the block processor does when ProcessBlock fails
// (RevertAccountState = RevertToSnapshot(0) on the accounts DB). The chain, the required-live set and every pruning
// list must be as if the attempt had never happened.
func (h *hist) failedAttempt() {
	restore := h.w.Chain[h.c.Rng.Intn(len(h.w.Chain))]
	at, err := h.w.FailedAttempt(h.c.Rng, restore)
	if err != nil {
		h.op("failed block attempt: revert FAILED")
		h.opFailed("failed-block-revert", err)
		return
	}
	h.ev("failed_block_attempt_reverted")
	if at.TouchedLive > 0 {
		h.ev("failed_attempt_changed_a_committed_data_trie")
		for _, ai := range at.LiveAddrs {
			h.attemptTouched[ai] = true
		}
	}
	if h.blocked() {
		h.ev("failed_attempt_while_blocked")
	}
	h.op(fmt.Sprintf("block attempt on %s FAILED, reverted with RevertToSnapshot(0) [%s]", cm.Short(h.w.Head().Root), at.Desc))
}

func (h *hist) commit() {
	if !h.dead && h.c.Rng.Chance(1, 5) {
		h.failedAttempt() // the block that is committed next replaces a block that failed
		if h.dead {
			return
		}
	}
	if h.c.Rng.Chance(1, 6) {
		h.commitEmpty()
		return
	}
	h.commitBlock(nil)
}

// commitEmpty commits a block that leaves the state root unchanged. It stores no waiting-list entry (MarkForEviction
// has nothing to store), so it does not complete the known stale-cancel shape; a later state-changing block on the
// same root does.
func (h *hist) commitEmpty() {
	parent := h.w.Head()
	b, err := h.w.CommitEmpty()
	if err != nil {
		h.op("empty commit FAILED")
		h.opFailed("commit-empty-block", err)
		return
	}
	h.ev("empty_block")
	h.op(fmt.Sprintf("commit h=%d root=%s on %s [%s]", b.Height, cm.Short(b.Root), cm.Short(parent.Root), b.Desc))
	h.recordNodes(b, string(parent.Root))
	if len(h.attemptTouched) > 0 {
		h.ev("block_after_failed_attempt_never_loads_an_account_the_attempt_changed")
		h.attemptTouched = map[int]bool{}
	}
}

// reprocess rolls the head back and processes the identical block again (same operations, same root): what a node
// does when it re-processes a block after a rollback. Roots on the chain stay unique; the rolled-back root's
// waiting-list entries were cancelled/pruned by PruneStateOnRollback before it is committed again.
func (h *hist) reprocess() {
	orig := h.w.Head()
	if !orig.Replayable() {
		// identical re-execution is not well-defined (scripted block, or a block with a failed-and-reverted
		// RemoveAccount whose outcome depends on nodes a blocked rollback leaves in the DB): plain rollback
		h.r.Count("reprocess_skipped_block_not_replayable", 1)
		h.rollback()
		return
	}
	h.rollback()
	if h.dead {
		return
	}
	if h.blocked() {
		h.ev("reprocess_identical_block_while_blocked")
	} else {
		h.ev("reprocess_identical_block")
	}
	h.commitBlock(orig)
}

// commitBlock commits a new random block, or (orig != nil) the identical block orig again
func (h *hist) commitBlock(orig *cm.Block) {
	parent := h.w.Head()
	if h.stale[string(parent.Root)] && !h.shapeSeen {
		h.shapeSeen = true
		h.shapeParent = parent
		h.shapeAt = fmt.Sprintf("op %d: commit on %s whose CancelPrune(OldRoot) is still buffered", len(h.ops), cm.Short(parent.Root))
		h.ev("known_shape")
	}
	// one mutation may restore a slot to the value of an older block on the chain (node-level revisit)
	restore := h.w.Chain[h.c.Rng.Intn(len(h.w.Chain))]
	if h.shapeParent != nil && h.c.Rng.Bool() {
		restore = h.shapeParent
	}
	var b *cm.Block
	var err error
	if orig != nil {
		if b, err = h.w.Recommit(orig); err != nil {
			h.op("re-process FAILED")
			h.opFailed("reprocess-identical-block", err)
			return
		}
	} else if b, err = h.w.Commit(h.c.Rng, false, restore); err != nil {
		h.op("commit FAILED")
		h.opFailed("commit", err)
		return
	}
	h.op(fmt.Sprintf("commit h=%d root=%s on %s [%s]", b.Height, cm.Short(b.Root), cm.Short(parent.Root), b.Desc))
	h.recordNodes(b, string(parent.Root))
	if len(h.attemptTouched) > 0 {
		loaded := map[int]bool{}
		for _, p := range b.Script {
			loaded[p.Addr] = true
		}
		for ai := range h.attemptTouched {
			if !loaded[ai] {
				h.ev("block_after_failed_attempt_never_loads_an_account_the_attempt_changed")
				break
			}
		}
		h.attemptTouched = map[int]bool{}
	}
}

// recordNodes keeps the node set of a fresh commit (diagnostics; the oracle itself runs in checkLive)
func (h *hist) recordNodes(b *cm.Block, parent string) {
	reach := map[string]struct{}{}
	if ce := cm.CheckRoot(h.env.Gate.Raw, b, reach); ce == nil {
		h.nodes[string(b.Root)] = reach
	}
	h.commits = append(h.commits, commitRec{b.Height, string(b.Root), parent})
}

// finalize runs the finalization of the next block; snap = "", "snapshot" or "checkpoint" issues the real
// request for the new final root first, as the block processors do
func (h *hist) finalize(snap string) {
	b := h.w.NextFinal()
	if snap != "" {
		h.env.Gate.ArmHold()
		if snap == "snapshot" {
			h.env.Rec.SnapshotState(append([]byte(nil), b.Root...))
		} else {
			h.env.Rec.SetStateCheckpoint(append([]byte(nil), b.Root...))
		}
		// wait (bounded) until the traversal is held at the gate, or the request completed by itself
		deadline := time.Now().Add(60 * time.Second)
		held := false
		for {
			if h.env.Gate.Waiting() > 0 {
				held = true
				break
			}
			if !h.env.Tsm.IsPruningBlocked() {
				break
			}
			if time.Now().After(deadline) {
				h.r.Inconclusive("snapshot traversal neither reached the gate nor finished within 60 s")
				h.dead = true
				h.env.Gate.Open()
				return
			}
			time.Sleep(20 * time.Microsecond)
		}
		if held {
			h.pendingHeld = true
			h.pendingKind = snap
			h.pendingLeft = h.c.Rng.Range(1, 4)
			h.ev("real_" + snap + "_held")
		} else {
			h.env.Gate.Open()
			h.ev("real_" + snap + "_finished_at_once")
		}
	}
	h.w.Finalize()
	h.op(fmt.Sprintf("finalize idx=%d root=%s %s", h.w.FinalIdx, cm.Short(b.Root), snap))
}

func (h *hist) endPending() {
	if !h.pendingHeld {
		return
	}
	h.env.Gate.Open()
	if !cm.WaitUnblocked(h.env.Tsm, 120*time.Second) {
		h.r.Inconclusive("real snapshot/checkpoint did not finish within 120 s after the gate was opened")
		h.dead = true
		return
	}
	h.pendingHeld = false
	h.op("real " + h.pendingKind + " finished (pruning unblocked)")
	h.unblockedNow()
}

func (h *hist) rollback() {
	wasBlocked := h.blocked()
	head, prev, err := h.w.Rollback()
	if err != nil {
		h.op("rollback FAILED")
		h.opFailed("rollback", err)
		return
	}
	if string(head.Root) == string(prev.Root) {
		h.ev("rollback_of_empty_block") // PruneStateOnRollback does nothing for equal roots
	} else if wasBlocked {
		h.rbBlocked = true
		h.ev("rollback_while_blocked")
	} else {
		h.ev("rollback_unblocked")
	}
	h.op(fmt.Sprintf("rollback head=%s to %s blocked=%v", cm.Short(head.Root), cm.Short(prev.Root), wasBlocked))
	h.attemptTouched = map[int]bool{}
}

// runDirectedLeak replays, through the same oracles, the minimal witness of the garbage shape found by this monitor:
// block 1 gives A2 one slot; block 2 deletes the slot, removes A2 and re-creates it with another slot; everything
// is finalized with pruning never blocked; the old data-trie node of A2 must be gone afterwards.
func runDirectedLeak(r *vk.Run, c *vk.Case, variant int) {
	env, err := cm.NewEnv(cm.EnvConfig{MaxTrieLevelInMem: 5, EwlCache: 3, PruningBufferLen: 1000, QueueSize: 0, MaxSnapshots: 2})
	if err != nil {
		r.Inconclusive("environment construction failed: " + err.Error())
		return
	}
	defer env.Close()
	h := &hist{r: r, c: c, env: env, w: cm.NewWorld(env), profile: profNeverBlocked, events: map[string]bool{},
		bufCap: 1000, stale: map[string]bool{}, requested: map[string]bool{},
		reqWhileBlocked: map[string]bool{}, lastChecked: map[string]int64{}, nodes: map[string]map[string]struct{}{}, attemptTouched: map[int]bool{}}
	env.Rec.OnCancel = h.onCancel
	env.Rec.OnPrune = h.onPrune
	scripts := [][]cm.ScriptOp{
		{{Addr: 1, Key: "k0", Val: "v0"}},
		{{Addr: 2, Key: "k1", Val: "v1"}},
		{{Addr: 2, Key: "k1", Val: ""}, {Addr: 2, Remove: true}, {Addr: 2, Key: "k0", Val: "v0"}},
		{{Addr: 1, Key: "k0", Val: "v1"}},
	}
	if variant == 1 {
		// second leak: block 2 changes A2's slot v1 -> v2 -> v1 (one SaveAccount each) and removes A2
		scripts[2] = []cm.ScriptOp{{Addr: 2, Key: "k1", Val: "v2"}, {Addr: 2, Key: "k1", Val: "v1"}, {Addr: 2, Remove: true}}
	}
	for i, sc := range scripts {
		parent := ""
		if len(h.w.Chain) > 0 {
			parent = string(h.w.Head().Root)
		}
		b, errC := h.w.CommitScript(sc)
		if errC != nil {
			r.Inconclusive("directed leak witness: commit failed: " + errC.Error())
			return
		}
		b.LeakShape = i == 2 && variant == 0
		b.RemovedDirty = i == 2
		h.op(fmt.Sprintf("commit h=%d root=%s [%s]", b.Height, cm.Short(b.Root), b.Desc))
		h.recordNodes(b, parent)
		h.checkLive(false)
	}
	for !h.dead && h.w.CanFinalize() {
		h.finalize("")
		h.checkLive(false)
	}
	r.Count("directed_leak_witness", 1)
	if !h.dead {
		h.checkGarbage(true)
	}
}

func runHistory(r *vk.Run, c *vk.Case) {
	rng := c.Rng
	profile := c.Idx % 4
	cfg := cm.EnvConfig{
		MaxTrieLevelInMem: uint([]int{1, 2, 5}[rng.Intn(3)]),
		EwlCache:          uint(rng.Range(1, 3)),
		PruningBufferLen:  uint32([]int{2, 5, 1000}[rng.Intn(3)]),
		QueueSize:         uint(rng.Range(0, 3)),
		CheckpointModulus: 0,
		MaxSnapshots:      2,
	}
	env, err := cm.NewEnv(cfg)
	if err != nil {
		r.Inconclusive("environment construction failed: " + err.Error())
		return
	}
	defer env.Close()
	h := &hist{r: r, c: c, env: env, w: cm.NewWorld(env), profile: profile, events: map[string]bool{},
		bufCap: int(cfg.PruningBufferLen), stale: map[string]bool{}, requested: map[string]bool{},
		reqWhileBlocked: map[string]bool{}, lastChecked: map[string]int64{}, nodes: map[string]map[string]struct{}{}, attemptTouched: map[int]bool{}}
	env.Rec.OnCancel = h.onCancel
	env.Rec.OnPrune = h.onPrune

	b0, err := h.w.Commit(rng, true, nil)
	if err != nil {
		h.opFailed("commit", err)
		return
	}
	h.op(fmt.Sprintf("commit h=0 root=%s [%s]", cm.Short(b0.Root), b0.Desc))
	h.recordNodes(b0, "")
	h.checkLive(false)

	nOps := rng.Range(15, 60)
	if profile >= profBlockedRollback && nOps < 30 {
		nOps += 30 // the known shape needs room: blocked rollback, re-extension, drain, revisit, rollback
	}
	mayBlock := profile != profNeverBlocked
	maySnap := profile == profBlockedNoRollback || profile == profBlockedRollbackAndSnp
	mayRbBlocked := profile == profBlockedRollback || profile == profBlockedRollbackAndSnp
	for step := 0; step < nOps && !h.dead; step++ {
		if h.pendingHeld {
			if h.pendingLeft <= 0 {
				h.endPending()
				if h.dead {
					break
				}
			} else {
				h.pendingLeft--
			}
		}
		switch x := rng.Intn(11); {
		case x == 10:
			h.failedAttempt()
		case x < 3:
			h.commit()
		case x < 5:
			if !h.w.CanFinalize() {
				h.commit()
				break
			}
			snap := ""
			if maySnap && h.explicit == 0 && !h.pendingHeld && rng.Chance(1, 3) {
				snap = "snapshot"
				if rng.Chance(1, 3) {
					snap = "checkpoint"
				}
			}
			h.finalize(snap)
		case x < 7:
			if !h.w.CanRollback() || (h.blocked() && !mayRbBlocked) {
				h.commit()
				break
			}
			if rng.Chance(1, 3) {
				h.reprocess()
			} else {
				h.rollback()
			}
		case x < 8:
			if mayBlock && !h.pendingHeld && h.explicit < 2 {
				env.Tsm.EnterPruningBufferingMode()
				h.explicit++
				h.op("enter-buffering")
				h.ev("explicit_block")
			} else {
				h.commit()
			}
		case x < 9:
			if h.explicit > 0 {
				env.Tsm.ExitPruningBufferingMode()
				h.explicit--
				h.op("exit-buffering")
				if !h.blocked() {
					h.unblockedNow()
				}
			} else if h.w.CanFinalize() {
				h.finalize("")
			} else {
				h.commit()
			}
		default:
			if h.w.CanFinalize() {
				h.finalize("")
			} else {
				h.commit()
			}
		}
		if h.dead {
			break
		}
		h.checkLive(false)
		if !h.dead {
			h.checkGarbage(false)
		}
	}
	// wind down: unblock, finish the outstanding request, one more block, finalize everything (drains the buffer)
	if !h.dead {
		h.endPending()
	}
	if !h.dead {
		for h.explicit > 0 {
			env.Tsm.ExitPruningBufferingMode()
			h.explicit--
			h.op("exit-buffering")
		}
		h.unblockedNow()
		h.commit()
		for !h.dead && h.w.CanFinalize() {
			h.finalize("")
			h.checkLive(false)
		}
		if !h.dead {
			h.checkLive(true)
		}
		if !h.dead {
			h.checkGarbage(true)
		}
	}

	// shape signature of the history: configuration class + the set of pruning events it exercised
	var evs []string
	for e := range h.events {
		evs = append(evs, e)
	}
	sort.Strings(evs)
	for k, v := range h.w.Counts {
		r.Count("op_"+k, v)
	}
	r.Count(fmt.Sprintf("histories_profile_%d", profile), 1)
	if h.shapeSeen {
		r.Count("histories_with_known_shape", 1)
	} else {
		r.Count("histories_without_known_shape", 1)
	}
	r.Max("max_chain_len", int64(len(h.w.Chain)))
	if h.events["prune_old_executed"] || h.events["prune_new_executed"] {
		r.ShapeHash(fmt.Sprintf("q%d ewl%d buf%d p%d", cfg.QueueSize, cfg.EwlCache, cfg.PruningBufferLen, profile), strings.Join(evs, ","))
	} else {
		r.Trivial()
	}
	if r.NeedSample() && c.Idx < 8 {
		ops := h.ops
		if len(ops) > 14 {
			ops = append(append([]string{}, ops[:14]...), fmt.Sprintf("... (%d ops in total)", len(h.ops)))
		}
		r.Sample(map[string]interface{}{"case": c.Idx, "profile": profile, "config": fmt.Sprintf("%+v", cfg), "events": evs, "ops": ops})
	}
}

func main() {
	_ = logger.SetLogLevel("*:NONE")
	r := vk.Start("C09")
	r.Rule("each case is one chain history of 15-60 ops over 6 accounts + a counter account (unique block roots): commit (1 in 6 an EMPTY block whose root equals its parent's; else balance/code/storage write+delete, account removal/re-creation, in-block slot flip-flops; small key/value sets so node hashes recur across blocks), finalize the next block through the real updateStateStorage (pruning queue 0-3), roll back the head (RevertStateToBlock + PruneStateOnRollback; 1 in 3 rollbacks re-processes the identical block afterwards: same operations, same root), a FAILED BLOCK ATTEMPT (1 in 11 ops, and before 1 in 5 commits: the operations of a would-be block - storage writes through SaveKeyValue+SaveAccount, removals, code, flip-flops - are applied and the block is then given up as the block processor does when ProcessBlock fails, RevertAccountState = RevertToSnapshot(0); the history carries on with any other operation, usually a different block that may or may not load the accounts the attempt changed), Enter/ExitPruningBufferingMode, real SnapshotState/SetStateCheckpoint of the new final root held at the first traversal read for 1-4 ops. Profiles by case index mod 4: never blocked / blocked but never rolled back while blocked / blocked with rollbacks (explicit) / blocked with rollbacks + real snapshots. A history is non-trivial when at least one prune was executed; distinct = distinct (queue, waiting-list cache, buffer, profile, set of pruning events) signatures.")
	r.Assume(
		"the harness's finalize/rollback ordering mirrors CommitBlock->updateState and baseSync.rollBackOneBlock (RevertStateToBlock then PruneStateOnRollback)",
		"roots of state-changing blocks are unique (per-block nonce bump: a root never comes back after a different one); empty blocks share the root of their parent",
		"required-live set: the last final block and every block above it, whatever was requested; below it, every root whose prune has not been requested",
		"the model of the pruning buffer (used only to pick the violation key and to decide where the garbage oracle applies) follows storagePruningManager: CancelPrune is buffered when blocked or the buffer is non-empty, PruneTrie(Old) is buffered when blocked, an unblocked PruneTrie drains",
		"roots whose prune was requested while pruning is (certainly) blocked stay required until it is unblocked; other requested roots are not required (sound under buffering)",
		"a failed RemoveAccount is followed by RevertToSnapshot(pre-op journal length), as scProcessor does",
		"a failed block attempt is reverted with baseProcessor.RevertAccountState (RevertToSnapshot(0) on every accounts DB); afterwards the accounts root must be the head's root and the attempt must leave no trace in the chain, in the required-live set or in any pruning list",
		"a block is re-processed only when identical re-execution is well-defined: blocks containing a failed-and-reverted RemoveAccount are not (RemoveAccount of an account with uncommitted data-trie changes fails while the new data-trie root is absent from the DB, and succeeds once a rollback under blocked pruning has left the nodes of the first processing behind)",
	)
	r.MinShapes(20)
	n := r.N(300, 10000)
	r.Parallel(n+2, func(c *vk.Case) {
		if c.Idx >= n {
			runDirectedLeak(r, c, c.Idx-n) // two scripted cases
			return
		}
		runHistory(r, c)
	})
	if races := vk.CollectRaces(); len(races) > 0 {
		r.Extra("race_reports", races)
	}
	r.Extra("histories", n)
	r.Finish()
}
