// C11 — every address maps to exactly one valid shard; topic identifiers symmetric and distinct.
// Monitor shape: exhaustive reference-model comparison (shard counts 1..256 x all last-byte values x
// address classes x lengths), plus metamorphic checks (determinism, SameShard <=> equal ids).
package main

import (
	"fmt"

	"github.com/ElrondNetwork/elrond-go/core"
	"github.com/ElrondNetwork/elrond-go/sharding"
	"verif/internal/vk"
)

// refShard is an independent statement of the rule: metachain for system-SC-shaped addresses
// (first 8 bytes zero, bytes 10..24 zero, last byte 0xff, longer than 25 bytes), otherwise the
// last byte masked with the smallest all-ones mask covering n-1, falling back to one bit less.
func refShard(n uint32, a []byte) uint32 {
	need := 1
	switch {
	case n > 16777216:
		need = 4
	case n > 65536:
		need = 3
	case n > 256:
		need = 2
	}
	if need > len(a) {
		need = len(a)
	}
	ident := a[len(a)-need:]
	identFF := len(ident) > 0
	for _, b := range ident {
		if b != 0xff {
			identFF = false
		}
	}
	if len(a) > 25 && identFF {
		isSC := true
		allZero := true
		for _, b := range a {
			if b != 0 {
				allZero = false
			}
		}
		for i := 0; i < 8; i++ {
			if a[i] != 0 {
				isSC = false
			}
		}
		if allZero {
			isSC = true
		}
		z := true
		for i := 10; i < 25; i++ {
			if a[i] != 0 {
				z = false
			}
		}
		if isSC && z {
			return core.MetachainShardId
		}
	}
	if len(a) == 0 {
		return 0
	}
	last := uint32(0)
	for _, b := range ident {
		last = last<<8 + uint32(b)
	}
	bits := uint(0)
	for (uint32(1) << bits) < n {
		bits++
	}
	hi := (uint32(1) << bits) - 1
	s := last & hi
	if s > n-1 {
		s = last & (hi >> 1)
	}
	return s
}

func mkAddr(class int, length int, last byte, rng *vk.Rand) []byte {
	a := make([]byte, length)
	switch class {
	case 0: // user: random non-zero leading bytes
		for i := range a {
			a[i] = byte(1 + rng.Intn(255))
		}
	case 1: // plain SC: 8 zero bytes, vm type, random rest
		for i := range a {
			if i >= 8 {
				a[i] = byte(1 + rng.Intn(255))
			}
		}
	case 2: // metachain system-SC shape: 8 zero bytes, vm type, zeros up to 25, random after
		for i := range a {
			if i == 8 || i == 9 || i >= 25 {
				a[i] = byte(rng.Intn(256))
			}
		}
	case 3: // almost system-SC: one non-zero byte somewhere in 0..24 except vm type
		for i := range a {
			if i == 8 || i == 9 || i >= 25 {
				a[i] = byte(rng.Intn(256))
			}
		}
		if length > 0 {
			p := rng.Intn(minInt(length, 25))
			if p == 8 || p == 9 {
				p = 3
			}
			if p < length {
				a[p] = byte(1 + rng.Intn(255))
			}
		}
	case 4: // all zero
	}
	if length > 0 {
		a[length-1] = last
	}
	return a
}

func bytesEqual(a, b []byte) bool {
	if len(a) != len(b) {
		return false
	}
	for i := range a {
		if a[i] != b[i] {
			return false
		}
	}
	return true
}

func minInt(a, b int) int {
	if a < b {
		return a
	}
	return b
}

func main() {
	r := vk.Start("C11")
	r.Rule("exhaustive over shard counts 1..256 (plus the supplementary counts 257..16777217 that exercise the multi-byte identifier path) x 256 last-byte values x 5 address classes (user, SC, system-SC shape, near-system-SC, zero) x lengths {0,1,2,10,15,16,20,24,25,26,31,32,33,64}, every address allocated with capacity == length; a case is non-trivial when the address is non-empty; distinct = distinct (shards, class, length, result) tuples. Topic ids: all ordered pairs over {0..n-1 sample, META, ALL}.")
	r.Assume("reference rule re-implemented in the harness from the documented mask rule", "shard counts above 256 (core.MaxNumShards) are beyond the property's quantifier; they are still monitored because NewMultiShardCoordinator accepts them")
	lengths := []int{0, 1, 2, 10, 15, 16, 20, 24, 25, 26, 31, 32, 33, 64}
	extra := r.N(1, 8)

	// shard counts above core.MaxNumShards are outside the property's quantifier but the constructor accepts them
	// and the assignment code has a multi-byte identifier path; they are monitored as a supplementary phase
	bigNs := []uint32{257, 300, 512, 1000, 4096, 65535, 65536, 65537, 100000, 16777216, 16777217}
	r.Parallel(256+len(bigNs), func(c *vk.Case) {
		n := uint32(c.Idx + 1)
		if c.Idx >= 256 {
			n = bigNs[c.Idx-256]
		}
		selfIDs := []uint32{0, n - 1, core.MetachainShardId}
		var coords []sharding.Coordinator
		for _, s := range selfIDs {
			sc, err := sharding.NewMultiShardCoordinator(n, s)
			if err != nil {
				r.Violation(c.Idx, "constructor", fmt.Sprintf("NewMultiShardCoordinator(%d,%d): %v", n, s, err), nil)
				return
			}
			coords = append(coords, sc)
		}
		var prevAddr []byte
		var prevID uint32
		for rep := 0; rep < extra; rep++ {
			for _, L := range lengths {
				for class := 0; class < 5; class++ {
					for last := 0; last < 256; last++ {
						a := mkAddr(class, L, byte(last), c.Rng)
						if n > 256 && L >= 4 {
							// multi-byte identifiers: drive the bytes before the last one through the interesting values
							for k, v := range [][]byte{{0xff, 0xff, 0xff}, {0x00, 0x00, 0xff}, {0x00, 0x00, 0x01}, nil}[(last+rep)%4] {
								a[L-4+k] = v
							}
						}
						want := refShard(n, a)
						got := coords[0].ComputeId(a)
						r.Eval(1)
						if L == 0 {
							r.Trivial()
						} else {
							r.Shape(fmt.Sprintf("n%d c%d L%d ->%d", n, class, L, got))
						}
						if got != want {
							r.Violation(c.Idx, "shard-mismatch", fmt.Sprintf("n=%d addr=%x got %d want %d", n, a, got, want), map[string]interface{}{"shards": n, "addr": vk.Hex(a), "got": got, "want": want})
						}
						if got != core.MetachainShardId && got >= n {
							r.Violation(c.Idx, "out-of-range", fmt.Sprintf("n=%d addr=%x got %d", n, a, got), nil)
						}
						for _, o := range coords[1:] {
							if g2 := o.ComputeId(a); g2 != got {
								r.Violation(c.Idx, "nondeterministic", fmt.Sprintf("n=%d addr=%x: %d vs %d from coordinator with another self id", n, a, got, g2), nil)
							}
						}
						if g3 := coords[0].ComputeId(a); g3 != got {
							r.Violation(c.Idx, "nondeterministic", fmt.Sprintf("n=%d addr=%x: %d then %d", n, a, got, g3), nil)
						}
						if prevAddr != nil {
							same := coords[0].SameShard(prevAddr, a)
							if same != (prevID == got) {
								r.Violation(c.Idx, "sameshard", fmt.Sprintf("n=%d SameShard(%x,%x)=%v ids %d,%d", n, prevAddr, a, same, prevID, got), nil)
							}
						}
						prevAddr, prevID = a, got
						// pairs that share the trailing byte but come from different address classes (e.g. a
						// metachain system-SC shaped address and a user address both ending in 0xff)
						for oc := 0; oc < 5; oc++ {
							if oc == class {
								continue
							}
							b := mkAddr(oc, L, byte(last), c.Rng)
						if n > 256 && L >= 4 {
							copy(b[L-4:L-1], a[L-4:L-1])
						}
							idB := coords[0].ComputeId(b)
							r.Eval(1)
							if same := coords[0].SameShard(a, b); same != (idB == got) && !bytesEqual(a, b) {
								r.Violation(c.Idx, "sameshard", fmt.Sprintf("n=%d SameShard(%x,%x)=%v ids %d,%d (same trailing byte, classes %d/%d)", n, a, b, same, got, idB, class, oc), map[string]interface{}{"shards": n, "a": vk.Hex(a), "b": vk.Hex(b), "idA": got, "idB": idB})
							}
						}
						if n == 3 && last == 255 && L == 32 && rep == 0 {
							r.Sample(map[string]interface{}{"shards": n, "class": class, "addr": vk.Hex(a), "shard": got})
						}
					}
				}
			}
		}
		// topic identifiers for this shard count
		ids := []uint32{0, n - 1, n / 2, core.MetachainShardId, core.AllShardId}
		for i := uint32(0); i < n && i < 40; i++ {
			ids = append(ids, i)
		}
		seen := map[string][2]uint32{}
		for _, a := range ids {
			for _, b := range ids {
				s1 := core.CommunicationIdentifierBetweenShards(a, b)
				s2 := core.CommunicationIdentifierBetweenShards(b, a)
				r.Eval(1)
				if s1 != s2 {
					r.Violation(c.Idx, "topic-asymmetric", fmt.Sprintf("id(%d,%d)=%q id(%d,%d)=%q", a, b, s1, b, a, s2), nil)
				}
				if a == core.AllShardId || b == core.AllShardId {
					continue
				}
				x, y := a, b
				if x > y {
					x, y = y, x
				}
				if p, ok := seen[s1]; ok && p != [2]uint32{x, y} {
					r.Violation(c.Idx, "topic-collision", fmt.Sprintf("pairs %v and %v both give %q", p, [2]uint32{x, y}, s1), nil)
				}
				seen[s1] = [2]uint32{x, y}
				// the coordinator method agrees with the free function
				sc, _ := sharding.NewMultiShardCoordinator(n, 0)
				if a == 0 && sc.CommunicationIdentifier(b) != s1 {
					r.Violation(c.Idx, "topic-method", fmt.Sprintf("CommunicationIdentifier(%d) != between(0,%d)", b, b), nil)
				}
			}
		}
	})
	r.Extra("exhaustive", true)
	r.Finish()
}
