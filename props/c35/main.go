// C35 — end-of-epoch rewards distribute exactly the computed amount.
// Monitor shape: conservation. For generated epochs (blocks per shard with a leader and a consensus group drawn
// from the shard's eligible validators, per-block fees, offline validators, shared / metachain / delegation
// reward addresses, top-up stakes) the REAL end-of-epoch economics (ComputeEndOfEpochEconomics) computes the
// amounts and feeds the real economics statistics; the REAL rewards creator (V2, and the legacy V1) creates the
// reward miniblocks. Oracle: sum of all reward transactions == TotalToDistribute - DevFeesInEpoch
// (== rewards for blocks + leader fees + protocol sustainability for V2), every value > 0, receivers are shard
// addresses or delegation system contracts, the protocol transaction carries the remainder, and a second,
// independent economics + creator instance accepts the result (VerifyRewardsMiniBlocks, VerifyRewardsPerBlock).
package main

import (
	"bytes"
	"encoding/hex"
	"fmt"
	"math/big"
	"sort"
	"strings"
	"time"

	logger "github.com/ElrondNetwork/elrond-go-logger"
	"github.com/ElrondNetwork/elrond-go/config"
	"github.com/ElrondNetwork/elrond-go/core"
	"github.com/ElrondNetwork/elrond-go/data/block"
	"github.com/ElrondNetwork/elrond-go/data/rewardTx"
	"github.com/ElrondNetwork/elrond-go/data/state"
	statefactory "github.com/ElrondNetwork/elrond-go/data/state/factory"
	"github.com/ElrondNetwork/elrond-go/data/state/storagePruningManager"
	"github.com/ElrondNetwork/elrond-go/data/state/storagePruningManager/evictionWaitingList"
	"github.com/ElrondNetwork/elrond-go/data/trie"
	"github.com/ElrondNetwork/elrond-go/data/trie/hashesHolder"
	"github.com/ElrondNetwork/elrond-go/dataRetriever"
	"github.com/ElrondNetwork/elrond-go/epochStart"
	"github.com/ElrondNetwork/elrond-go/epochStart/metachain"
	esmock "github.com/ElrondNetwork/elrond-go/epochStart/mock"
	"github.com/ElrondNetwork/elrond-go/hashing/blake2b"
	"github.com/ElrondNetwork/elrond-go/marshal"
	"github.com/ElrondNetwork/elrond-go/process"
	"github.com/ElrondNetwork/elrond-go/sharding"
	"github.com/ElrondNetwork/elrond-go/storage"
	"github.com/ElrondNetwork/elrond-go/storage/memorydb"
	"github.com/ElrondNetwork/elrond-go/storage/storageUnit"
	"github.com/ElrondNetwork/elrond-go/testscommon"
	"verif/internal/vk"
)

const meta = core.MetachainShardId
const stakingV2Epoch = 1000 // epochs <= this use the legacy economics formulas and the V1 creator

var (
	msh = &marshal.GogoProtoMarshalizer{}
	hsh = blake2b.NewBlake2b()
)

type rewardsCreator interface {
	CreateRewardsMiniBlocks(metaBlock *block.MetaBlock, validatorsInfo map[uint32][]*state.ValidatorInfo, computedEconomics *block.Economics) (block.MiniBlockSlice, error)
	VerifyRewardsMiniBlocks(metaBlock *block.MetaBlock, validatorsInfo map[uint32][]*state.ValidatorInfo, computedEconomics *block.Economics) error
	GetProtocolSustainabilityRewards() *big.Int
	GetLocalTxCache() epochStart.TransactionCacher
}

func bi(v int64) *big.Int { return big.NewInt(v) }

func pow10(n int) *big.Int { return big.NewInt(0).Exp(bi(10), bi(int64(n)), nil) }

func randBig(rng *vk.Rand, hi *big.Int) *big.Int {
	if hi.Sign() <= 0 {
		return bi(0)
	}
	x := big.NewInt(0).SetBytes(rng.Bytes(len(hi.Bytes()) + 2))
	return x.Mod(x, big.NewInt(0).Add(hi, bi(1)))
}

type scenario struct {
	nShards      uint32
	cons         map[uint32]int
	epoch        uint32
	v2           bool
	fix1Epoch    uint32
	prev         *block.MetaBlock
	cur          *block.MetaBlock
	validators   map[uint32][]*state.ValidatorInfo
	topUp        map[string]*big.Int
	totalTopUp   *big.Int
	totalStake   *big.Int
	protocolAddr []byte
	delegation   [][]byte // metachain reward addresses that are delegation contracts
	leaderPct    float64
	protocolPct  float64
	inflation    float64
	topUpFactor  float64
	gradient     *big.Int
	genesis      *big.Int
	features     []string
	offline      int
	blocks       map[uint32]uint64
	descr        map[string]interface{}
}

func shardName(s uint32) string {
	if s == meta {
		return "M"
	}
	return fmt.Sprint(s)
}

// address living in the given shard of an n-shard network (real coordinator rule: last byte masked)
func addrInShard(rng *vk.Rand, coord sharding.Coordinator, shard uint32) []byte {
	for {
		a := rng.Bytes(32)
		a[0] |= 1
		if coord.ComputeId(a) == shard {
			return a
		}
	}
}

// system-smart-contract shaped address => metachain
func metaAddr(rng *vk.Rand) []byte {
	a := make([]byte, 32)
	a[8], a[9] = 0, 1
	copy(a[25:], rng.Bytes(7))
	a[31] = 0xff
	return a
}

func copyValidators(in map[uint32][]*state.ValidatorInfo) map[uint32][]*state.ValidatorInfo {
	out := map[uint32][]*state.ValidatorInfo{}
	for s, l := range in {
		for _, v := range l {
			cp := *v
			cp.PublicKey = append([]byte{}, v.PublicKey...)
			cp.RewardAddress = append([]byte{}, v.RewardAddress...)
			cp.AccumulatedFees = big.NewInt(0).Set(v.AccumulatedFees)
			out[s] = append(out[s], &cp)
		}
	}
	return out
}

func copyMeta(m *block.MetaBlock) *block.MetaBlock {
	b, _ := msh.Marshal(m)
	cp := &block.MetaBlock{}
	_ = msh.Unmarshal(cp, b)
	return cp
}

func genScenario(rng *vk.Rand, v2 bool) *scenario {
	sc := &scenario{v2: v2, cons: map[uint32]int{}, topUp: map[string]*big.Int{}, totalTopUp: bi(0), totalStake: bi(0), blocks: map[uint32]uint64{}}
	sc.nShards = uint32(rng.Range(1, 3))
	coord, _ := sharding.NewMultiShardCoordinator(sc.nShards, meta)
	shards := []uint32{}
	for s := uint32(0); s < sc.nShards; s++ {
		shards = append(shards, s)
	}
	shards = append(shards, meta)
	for _, s := range shards {
		sc.cons[s] = rng.Range(1, 7)
	}
	if v2 {
		sc.epoch = uint32(stakingV2Epoch + rng.Range(1, 50))
	} else {
		sc.epoch = uint32(rng.Range(2, 60))
		sc.fix1Epoch = []uint32{0, 30, 100000}[rng.Intn(3)]
	}
	sc.genesis = big.NewInt(0).Mul(bi(20000000), pow10(18))
	sc.leaderPct = []float64{0.1, 0.1, 0.05, 0.25, 0.5, 0.123456}[rng.Intn(6)]
	sc.protocolPct = []float64{0.1, 0.1, 0.01, 0.3, 0.07}[rng.Intn(5)]
	sc.inflation = []float64{0.1084, 0.05, 0.01, 0.2, 0}[rng.Intn(5)] // 0: year 11+ of the production schedule, rewards are the fees only
	if !v2 && sc.inflation == 0 {
		sc.inflation = 0.1084 // the legacy creator was only ever active in year 1 of the schedule
	}
	sc.topUpFactor = []float64{0.25, 0.25, 0.5, 1.0, 0, 0.1}[rng.Intn(6)]
	sc.gradient = big.NewInt(0).Mul(bi(int64(rng.Range(1, 3000000))), pow10([]int{18, 18, 12, 21}[rng.Intn(4)]))
	sc.protocolAddr = addrInShard(rng, coord, uint32(rng.Intn(int(sc.nShards))))

	// ---- chain geometry
	rounds := uint64(rng.Range(5, 300))
	r0 := uint64(rng.Range(100, 100000))
	n0 := uint64(rng.Range(50, 50000))
	sc.prev = &block.MetaBlock{Epoch: sc.epoch - 1, Round: r0, Nonce: n0,
		AccumulatedFeesInEpoch: bi(0), DevFeesInEpoch: bi(0), AccumulatedFees: bi(0), DeveloperFees: bi(0)}
	supply := big.NewInt(0).Add(sc.genesis, randBig(rng, big.NewInt(0).Mul(bi(2000000), pow10(18))))
	sc.prev.EpochStart.Economics = block.Economics{TotalSupply: supply, TotalToDistribute: bi(0), TotalNewlyMinted: bi(0), RewardsPerBlock: bi(0),
		RewardsForProtocolSustainability: bi(0), NodePrice: big.NewInt(0).Mul(bi(2500), pow10(18)), PrevEpochStartRound: 0}
	sc.cur = &block.MetaBlock{Epoch: sc.epoch, Round: r0 + rounds, AccumulatedFees: bi(0), DeveloperFees: bi(0)}
	blocksOf := func() uint64 {
		switch rng.Intn(5) {
		case 0:
			return rounds // a block in every round
		case 1:
			return uint64(rng.Range(1, 3))
		default:
			return uint64(rng.Range(1, int(rounds)))
		}
	}
	for _, s := range shards {
		sc.blocks[s] = blocksOf()
	}
	if rng.Chance(1, 12) && sc.nShards > 1 {
		sc.blocks[0] = 0 // a stalled shard
		sc.features = append(sc.features, "stalled-shard")
	}
	sc.cur.Nonce = n0 + sc.blocks[meta]
	for s := uint32(0); s < sc.nShards; s++ {
		a := uint64(rng.Range(10, 90000))
		sc.prev.EpochStart.LastFinalizedHeaders = append(sc.prev.EpochStart.LastFinalizedHeaders, block.EpochStartShardData{ShardID: s, Nonce: a, Round: r0 - uint64(rng.Intn(3)), HeaderHash: []byte("h")})
		sc.cur.EpochStart.LastFinalizedHeaders = append(sc.cur.EpochStart.LastFinalizedHeaders, block.EpochStartShardData{ShardID: s, Nonce: a + sc.blocks[s], Round: r0 + rounds - uint64(rng.Intn(3)), HeaderHash: []byte("h")})
	}

	// ---- validators
	sc.validators = map[uint32][]*state.ValidatorInfo{}
	var sharedAddrs [][]byte
	nDeleg := rng.Intn(3)
	for i := 0; i < nDeleg; i++ {
		sc.delegation = append(sc.delegation, metaAddr(rng))
	}
	var plainMeta [][]byte
	for i := 0; i < rng.Intn(2); i++ {
		plainMeta = append(plainMeta, metaAddr(rng))
	}
	pickAddr := func(home uint32) []byte {
		switch x := rng.Intn(20); {
		case x < 4 && len(sharedAddrs) > 0:
			sc.features = append(sc.features, "shared-address")
			return sharedAddrs[rng.Intn(len(sharedAddrs))]
		case x < 6 && len(sc.delegation) > 0:
			sc.features = append(sc.features, "delegation-sc")
			return sc.delegation[rng.Intn(len(sc.delegation))]
		case x < 7 && len(plainMeta) > 0:
			sc.features = append(sc.features, "meta-non-delegation")
			return plainMeta[rng.Intn(len(plainMeta))]
		default:
			a := addrInShard(rng, coord, uint32(rng.Intn(int(sc.nShards))))
			if rng.Chance(1, 3) {
				sharedAddrs = append(sharedAddrs, a)
			}
			return a
		}
	}
	allOnline := rng.Chance(1, 4)
	// without inflation the fees are all there is; with tiny fees most per-node amounts are zero
	tinyFees := sc.inflation == 0 && rng.Chance(1, 2)
	if tinyFees {
		sc.features = append(sc.features, "tiny-fees")
	}
	// legacy creator: half of the epochs have every selected validator active by V1's own rules
	allActiveV1 := !v2 && rng.Chance(1, 2)
	if allActiveV1 {
		allOnline = true
		sc.features = append(sc.features, "all-active")
	}
	for _, s := range shards {
		nEl := sc.cons[s] + rng.Intn(7)
		online := 0
		for i := 0; i < nEl; i++ {
			v := &state.ValidatorInfo{PublicKey: []byte(fmt.Sprintf("bls-%s-%02d-%x", shardName(s), i, rng.Bytes(4))), ShardId: s, List: string(core.EligibleList), Index: uint32(i),
				RewardAddress: pickAddr(s), AccumulatedFees: bi(0), Rating: 50, TempRating: 50}
			sc.validators[s] = append(sc.validators[s], v)
		}
		// offline flags: at least one validator of the shard stays online (somebody must lead)
		off := make([]bool, nEl)
		for i := range off {
			off[i] = !allOnline && rng.Chance(1, 5)
			if !off[i] {
				online++
			}
		}
		if online == 0 {
			off[rng.Intn(nEl)] = false
		}
		// blocks of the shard
		for b := uint64(0); b < sc.blocks[s]; b++ {
			// consensus group: cons[s] distinct eligible validators, first online one leads
			perm := rng.Perm(nEl)
			group := perm[:sc.cons[s]]
			leader := -1
			for _, g := range group {
				if !off[g] {
					leader = g
					break
				}
			}
			if leader < 0 {
				// nobody of the group is online: the round has no block; keep the count by drawing again with a forced online member
				for i, o := range off {
					if !o {
						group[0] = i
						leader = i
						break
					}
				}
				seen := map[int]bool{}
				ng := []int{}
				for _, g := range group {
					if !seen[g] {
						seen[g] = true
						ng = append(ng, g)
					}
				}
				for _, p := range perm {
					if len(ng) >= sc.cons[s] {
						break
					}
					if !seen[p] {
						seen[p] = true
						ng = append(ng, p)
					}
				}
				group = ng
			}
			var fee, dev *big.Int
			switch x := rng.Intn(4); {
			case tinyFees && x > 0:
				fee = bi(int64(rng.Intn(25))) // a handful of wei: per-node amounts round down to zero
			case x == 0:
				fee = bi(0)
			case x == 1:
				fee = bi(int64(rng.Range(1, 100000)))
			default:
				fee = randBig(rng, big.NewInt(0).Mul(bi(int64(rng.Range(1, 50))), pow10(15)))
			}
			dev = bi(0)
			if rng.Chance(1, 3) {
				dev = randBig(rng, big.NewInt(0).Div(big.NewInt(0).Mul(fee, bi(3)), bi(10)))
			}
			sc.cur.AccumulatedFeesInEpoch = addTo(sc.cur.AccumulatedFeesInEpoch, fee)
			sc.cur.DevFeesInEpoch = addTo(sc.cur.DevFeesInEpoch, dev)
			base := big.NewInt(0).Sub(fee, dev)
			for _, g := range group {
				v := sc.validators[s][g]
				v.NumSelectedInSuccessBlocks++
				switch {
				case g == leader:
					v.LeaderSuccess++
					var lf *big.Int
					if v2 {
						lf = core.GetIntTrimmedPercentageOfValue(base, sc.leaderPct)
					} else {
						lf = core.GetApproximatePercentageOfValue(base, sc.leaderPct)
					}
					v.AccumulatedFees.Add(v.AccumulatedFees, lf)
				case off[g]:
					v.ValidatorIgnoredSignatures++
				case rng.Chance(1, 10):
					v.ValidatorIgnoredSignatures++ // online but too slow this time
				default:
					v.ValidatorSuccess++
				}
			}
		}
		for i, v := range sc.validators[s] {
			if off[i] && v.NumSelectedInSuccessBlocks > 0 {
				sc.offline++
			}
			// failed rounds leave failure counters behind (they earn nothing)
			if rng.Chance(1, 3) {
				v.ValidatorFailure = uint32(rng.Intn(4))
			}
			if allActiveV1 && i < nEl && v.NumSelectedInSuccessBlocks > 0 {
				if v.LeaderSuccess == 0 && v.ValidatorSuccess == 0 && v.ValidatorIgnoredSignatures > 0 {
					v.ValidatorIgnoredSignatures--
					v.ValidatorSuccess++
				}
				v.ValidatorFailure = uint32(rng.Range(1, 4))
			}
			if !off[i] && rng.Chance(1, 5) {
				v.LeaderFailure = uint32(rng.Intn(3))
			}
		}
		// non-eligible entries ride along
		for i := 0; i < rng.Intn(3); i++ {
			sc.validators[s] = append(sc.validators[s], &state.ValidatorInfo{PublicKey: []byte(fmt.Sprintf("bls-%s-w%d-%x", shardName(s), i, rng.Bytes(4))), ShardId: s,
				List: string(core.WaitingList), RewardAddress: pickAddr(s), AccumulatedFees: bi(0)})
		}
		if rng.Chance(1, 6) && len(sc.validators[s]) > 0 {
			// a leaving validator that was active this epoch counts as eligible
			v := sc.validators[s][rng.Intn(nEl)]
			if v.LeaderSuccess+v.ValidatorSuccess > 0 {
				v.List = string(core.LeavingList)
				sc.features = append(sc.features, "leaving-active")
			}
		}
	}
	if sc.cur.AccumulatedFeesInEpoch == nil {
		sc.cur.AccumulatedFeesInEpoch = bi(0)
	}
	if sc.cur.DevFeesInEpoch == nil {
		sc.cur.DevFeesInEpoch = bi(0)
	}
	if sc.offline > 0 {
		sc.features = append(sc.features, "offline")
	}
	if sc.inflation == 0 {
		sc.features = append(sc.features, "no-inflation")
	}
	// ---- top-up stakes of the eligible nodes
	topMode := rng.Intn(4)
	for _, s := range shards {
		for _, v := range sc.validators[s] {
			if v.List == string(core.WaitingList) {
				continue
			}
			t := bi(0)
			switch {
			case topMode == 0:
			case rng.Chance(1, 3):
			default:
				t = randBig(rng, big.NewInt(0).Mul(bi(int64(rng.Range(1, 100000))), pow10(18)))
				if rng.Chance(1, 5) {
					t = bi(int64(rng.Range(1, 1000)))
				}
			}
			sc.topUp[string(v.PublicKey)] = t
			sc.totalTopUp.Add(sc.totalTopUp, t)
			sc.totalStake.Add(sc.totalStake, big.NewInt(0).Add(t, big.NewInt(0).Mul(bi(2500), pow10(18))))
		}
	}
	if sc.totalTopUp.Sign() > 0 {
		sc.features = append(sc.features, "top-up")
	}
	return sc
}

func addTo(a, b *big.Int) *big.Int {
	if a == nil {
		a = bi(0)
	}
	return a.Add(a, b)
}

type pipeline struct {
	stats epochStart.EpochEconomicsDataProvider
	econ  process.EndOfEpochEconomics
	rc    rewardsCreator
}

func buildPipeline(sc *scenario, adb state.AccountsAdapter) (*pipeline, error) {
	coord, err := sharding.NewMultiShardCoordinator(sc.nShards, meta)
	if err != nil {
		return nil, err
	}
	hdrStore := esmock.NewStorerMock()
	prevBytes, _ := msh.Marshal(sc.prev)
	_ = hdrStore.Put([]byte(core.EpochStartIdentifier(sc.prev.Epoch)), prevBytes)
	store := &esmock.ChainStorerStub{GetStorerCalled: func(dataRetriever.UnitType) storage.Storer { return hdrStore }}
	rh := &esmock.RewardsHandlerStub{
		LeaderPercentageCalled:                 func() float64 { return sc.leaderPct },
		ProtocolSustainabilityPercentageCalled: func() float64 { return sc.protocolPct },
		MaxInflationRateCalled:                 func(uint32) float64 { return sc.inflation },
		MinInflationRateCalled:                 func() float64 { return 0 },
		RewardsTopUpGradientPointCalled:        func() *big.Int { return big.NewInt(0).Set(sc.gradient) },
		RewardsTopUpFactorCalled:               func() float64 { return sc.topUpFactor },
	}
	stats := metachain.NewEpochEconomicsStatistics()
	econ, err := metachain.NewEndOfEpochEconomicsDataCreator(metachain.ArgsNewEpochEconomics{
		Marshalizer: msh, Hasher: hsh, Store: store, ShardCoordinator: coord, RewardsHandler: rh,
		RoundTime:    &esmock.RoundTimeDurationHandler{TimeDurationCalled: func() time.Duration { return 6 * time.Second }},
		GenesisEpoch: 0, GenesisNonce: 0, GenesisTotalSupply: sc.genesis, EconomicsDataNotified: stats, StakingV2EnableEpoch: stakingV2Epoch,
	})
	if err != nil {
		return nil, err
	}
	base := metachain.BaseRewardsCreatorArgs{
		ShardCoordinator: coord, PubkeyConverter: esmock.NewPubkeyConverterMock(32),
		RewardsStorage: esmock.NewStorerMock(), MiniBlockStorage: esmock.NewStorerMock(),
		Hasher: hsh, Marshalizer: msh, DataPool: testscommon.NewPoolsHolderMock(),
		ProtocolSustainabilityAddress: hex.EncodeToString(sc.protocolAddr),
		NodesConfigProvider:           &esmock.NodesCoordinatorStub{ConsensusGroupSizeCalled: func(s uint32) int { return sc.cons[s] }},
		DelegationSystemSCEnableEpoch: 0, UserAccountsDB: adb, RewardsFix1EpochEnable: sc.fix1Epoch,
	}
	var rc rewardsCreator
	if sc.v2 {
		sdp := &esmock.StakingDataProviderStub{
			GetTotalStakeEligibleNodesCalled:      func() *big.Int { return big.NewInt(0).Set(sc.totalStake) },
			GetTotalTopUpStakeEligibleNodesCalled: func() *big.Int { return big.NewInt(0).Set(sc.totalTopUp) },
			GetNodeStakedTopUpCalled: func(k []byte) (*big.Int, error) {
				t, ok := sc.topUp[string(k)]
				if !ok {
					return nil, fmt.Errorf("unknown key")
				}
				return big.NewInt(0).Set(t), nil
			},
		}
		rc, err = metachain.NewRewardsCreatorV2(metachain.RewardsCreatorArgsV2{BaseRewardsCreatorArgs: base, StakingDataProvider: sdp, EconomicsDataProvider: stats, RewardsHandler: rh})
	} else {
		rc, err = metachain.NewRewardsCreator(metachain.ArgsNewRewardsCreator{BaseRewardsCreatorArgs: base})
	}
	if err != nil {
		return nil, err
	}
	return &pipeline{stats: stats, econ: econ, rc: rc}, nil
}

func main() {
	_ = logger.SetLogLevel("*:NONE")
	r := vk.Start("C35")
	r.Rule("each case: 1..3 shards + metachain, consensus sizes 1..7, an epoch of 5..300 rounds with per-shard block counts (every round / few / random / a stalled shard); every block has a consensus group of the configured size drawn from the shard's eligible validators, an online leader, signers, a fee and a developer fee; validators: eligible (some offline the whole epoch, some leaving-but-active), waiting entries, reward addresses unique / shared inside and across shards / delegation contracts on the metachain / other metachain addresses; random top-up stakes (none, few wei, up to 1e23); leader/protocol percentages, inflation, top-up factor and gradient from small grids; rewards creator V2 (2 of 3 cases, epoch above the staking-v2 epoch) or the legacy V1. One evaluation = one created epoch checked. Non-trivial = at least two reward transactions; distinct = (creator, shards, sorted feature set, number of miniblocks).")
	r.Assume("inputs are consistent as the property demands: validator statistics are derived block by block (sum NumSelectedInSuccessBlocks == blocks x consensus size, leaders' accumulated fees == per-block leader share of fee - developer fee), the economics values come from the real ComputeEndOfEpochEconomics over the same epoch (inputs it rejects are counted, not checked)",
		"the protocol sustainability input is positive: the protocol transaction is emitted unconditionally, so with nothing to distribute (inflation 0, no fees) or a total of a few wei (input rounds to 0, no dust) its value is 0; such epochs/transactions are counted, not checked",
		"the legacy V1 creator runs with positive inflation only (it was replaced in year 1; with totals of a few wei its rounding compensation can push the protocol transaction below zero)",
		"delegation contracts are accounts of a real AccountsDB holding the delegation marker key; the staking data provider is a stub fed with the generated top-ups")
	r.MinShapes(40)
	nCases := r.N(6000, 150000)

	r.Parallel(nCases, func(c *vk.Case) { runCase(r, c) })
	r.Finish()
}

func runCase(r *vk.Run, c *vk.Case) {
	rng := c.Rng
	v2 := !rng.Chance(1, 3)
	sc := genScenario(rng, v2)
	creator := "V1"
	if v2 {
		creator = "V2"
	}
	coord, _ := sharding.NewMultiShardCoordinator(sc.nShards, meta)

	// accounts DB with the delegation contracts
	adb, errA := newAccountsDB()
	if errA != nil {
		r.Inconclusive("accounts db: " + errA.Error())
		return
	}
	for _, d := range sc.delegation {
		acc, err := adb.LoadAccount(d)
		if err != nil {
			r.Inconclusive("LoadAccount: " + err.Error())
			return
		}
		ua := acc.(state.UserAccountHandler)
		_ = ua.DataTrieTracker().SaveKeyValue([]byte(core.DelegationSystemSCKey), []byte("delegation"))
		if err = adb.SaveAccount(ua); err != nil {
			r.Inconclusive("SaveAccount: " + err.Error())
			return
		}
	}
	if _, err := adb.Commit(); err != nil {
		r.Inconclusive("Commit: " + err.Error())
		return
	}

	p1, err := buildPipeline(sc, adb)
	if err != nil {
		r.Violation(c.Idx, "constructor", err.Error(), nil)
		return
	}
	describe := func() map[string]interface{} {
		var vals []string
		for s, l := range sc.validators {
			for _, v := range l {
				vals = append(vals, fmt.Sprintf("shard %s %s list=%s leader=%d signed=%d ignored=%d selected=%d fees=%s topUp=%v rewardAddr=%x(shard %s)", shardName(s), v.PublicKey, v.List, v.LeaderSuccess, v.ValidatorSuccess, v.ValidatorIgnoredSignatures, v.NumSelectedInSuccessBlocks, v.AccumulatedFees, sc.topUp[string(v.PublicKey)], v.RewardAddress[:4], shardName(coord.ComputeId(v.RewardAddress))))
			}
		}
		sort.Strings(vals)
		return map[string]interface{}{"creator": creator, "shards": sc.nShards, "consensus_sizes": fmt.Sprint(sc.cons), "epoch": sc.epoch, "blocks_per_shard": fmt.Sprint(sc.blocks),
			"accumulated_fees_in_epoch": sc.cur.AccumulatedFeesInEpoch.String(), "dev_fees_in_epoch": sc.cur.DevFeesInEpoch.String(),
			"leader_pct": sc.leaderPct, "protocol_pct": sc.protocolPct, "inflation": sc.inflation, "top_up_factor": sc.topUpFactor, "gradient": sc.gradient.String(),
			"total_top_up": sc.totalTopUp.String(), "rewards_fix1_epoch": sc.fix1Epoch, "validators": vals, "features": sc.features}
	}

	// ---- producer side (as metaProcessor.createEpochStartBody does)
	mb1 := copyMeta(sc.cur)
	eco1, err := p1.econ.ComputeEndOfEpochEconomics(mb1)
	if err != nil {
		r.Count("inputs rejected by the real economics ("+firstWords(err.Error())+")", 1)
		r.Trivial()
		return
	}
	if eco1.TotalToDistribute.Sign() == 0 {
		// inflation 0 and not a single fee in the epoch: nothing to distribute. The creator still emits the
		// protocol transaction (value 0); outside the generated domain, only counted.
		r.Count("epochs with nothing to distribute (not checked)", 1)
		r.Trivial()
		return
	}
	mb1.EpochStart.Economics = *eco1
	origProtocol := big.NewInt(0).Set(eco1.RewardsForProtocolSustainability)
	total := big.NewInt(0).Set(eco1.TotalToDistribute)
	vals1 := copyValidators(sc.validators)
	mbs, err := p1.rc.CreateRewardsMiniBlocks(mb1, vals1, &mb1.EpochStart.Economics)
	r.Eval(1)
	if err != nil {
		r.Violation(c.Idx, "create-error creator="+creator, "CreateRewardsMiniBlocks: "+err.Error(), describe())
		return
	}
	r.Count("epochs created with "+creator, 1)
	if sc.offline > 0 {
		r.Count(creator+" epochs with validators offline the whole epoch", 1)
	}
	for _, f := range sc.features {
		if f == "all-active" || f == "tiny-fees" || f == "no-inflation" || f == "stalled-shard" {
			r.Count(creator+" epochs feature="+f, 1)
		}
	}

	want := big.NewInt(0).Sub(total, mb1.DevFeesInEpoch)
	sum := bi(0)
	nTx := 0
	var protocolTxs []*rewardTx.RewardTx
	var txDescr []string
	seenHash := map[string]bool{}
	cl := "all-online"
	if sc.offline > 0 {
		cl = "offline-validators"
	}
	for _, mb := range mbs {
		if mb.Type != block.RewardsBlock || mb.SenderShardID != meta {
			r.Violation(c.Idx, "miniblock-shape creator="+creator, fmt.Sprintf("reward miniblock with type %v sender %d", mb.Type, mb.SenderShardID), describe())
		}
		if len(mb.TxHashes) == 0 {
			r.Violation(c.Idx, "miniblock-shape creator="+creator, "empty reward miniblock", describe())
		}
		for _, h := range mb.TxHashes {
			if seenHash[string(h)] {
				r.Violation(c.Idx, "duplicate-tx creator="+creator, fmt.Sprintf("tx hash %x listed twice", h), describe())
			}
			seenHash[string(h)] = true
			th, errG := p1.rc.GetLocalTxCache().GetTx(h)
			if errG != nil {
				r.Violation(c.Idx, "tx-missing creator="+creator, fmt.Sprintf("tx %x of miniblock -> %s not in the local tx cache: %v", h, shardName(mb.ReceiverShardID), errG), describe())
				continue
			}
			rt, ok := th.(*rewardTx.RewardTx)
			if !ok {
				r.Violation(c.Idx, "tx-missing creator="+creator, fmt.Sprintf("tx %x is a %T", h, th), describe())
				continue
			}
			nTx++
			sum.Add(sum, rt.Value)
			txDescr = append(txDescr, fmt.Sprintf("-> shard %s addr %x value %s", shardName(mb.ReceiverShardID), rt.RcvAddr[:4], rt.Value))
			if rt.Value.Sign() == 0 && origProtocol.Sign() == 0 && bytes.Equal(rt.RcvAddr, sc.protocolAddr) {
				// the protocol transaction is emitted unconditionally; with a total of a few wei its input
				// (percentage of the total, rounded down) and the dust can both be zero. Outside the domain.
				r.Count("zero-valued protocol tx with zero input and zero dust (not checked)", 1)
			} else if rt.Value.Sign() <= 0 {
				r.Violation(c.Idx, "non-positive-value creator="+creator, fmt.Sprintf("reward tx to %x has value %s", rt.RcvAddr, rt.Value), describe())
			}
			sh := coord.ComputeId(rt.RcvAddr)
			if sh != mb.ReceiverShardID {
				r.Violation(c.Idx, "receiver-shard creator="+creator, fmt.Sprintf("reward tx to %x (shard %s) sits in the miniblock for shard %s", rt.RcvAddr, shardName(sh), shardName(mb.ReceiverShardID)), describe())
			}
			if sh == meta {
				isDeleg := false
				for _, d := range sc.delegation {
					if bytes.Equal(d, rt.RcvAddr) {
						isDeleg = true
					}
				}
				if !isDeleg {
					r.Violation(c.Idx, "receiver-class creator="+creator, fmt.Sprintf("reward tx to metachain address %x that is no delegation contract", rt.RcvAddr), describe())
				}
				r.Count("reward txs to delegation contracts", 1)
			}
			if rt.Epoch != sc.epoch || rt.Round != mb1.Round {
				r.Violation(c.Idx, "tx-fields creator="+creator, fmt.Sprintf("reward tx epoch %d round %d, meta block epoch %d round %d", rt.Epoch, rt.Round, sc.epoch, mb1.Round), describe())
			}
			if bytes.Equal(rt.RcvAddr, sc.protocolAddr) {
				protocolTxs = append(protocolTxs, rt)
			}
		}
	}
	r.Count("reward txs", nTx)
	det := func() map[string]interface{} {
		d := describe()
		d["reward_txs"] = txDescr
		d["total_to_distribute"] = total.String()
		d["protocol_sustainability_input"] = origProtocol.String()
		if sc.v2 {
			d["rewards_for_blocks"] = p1.stats.RewardsToBeDistributedForBlocks().String()
			d["leader_fees"] = p1.stats.LeaderFees().String()
		}
		return d
	}
	if sum.Cmp(want) != 0 {
		if !sc.v2 {
			// legacy creator: is the excess exactly the block rewards of the validators V1 treats as inactive
			// (added to the protocol transaction and, not being part of the accumulated rewards, once more
			// through the "difference" adjustment)?
			excess := bi(0)
			for s, l := range sc.validators {
				perNode := big.NewInt(0).Div(eco1.RewardsPerBlock, bi(int64(sc.cons[s])))
				for _, v := range l {
					inactive := v.LeaderSuccess == 0 && v.ValidatorFailure == 0
					if sc.epoch > sc.fix1Epoch {
						inactive = v.LeaderSuccess == 0 && v.ValidatorSuccess == 0
					}
					if inactive {
						excess.Add(excess, big.NewInt(0).Mul(perNode, bi(int64(v.NumSelectedInSuccessBlocks))))
					}
				}
			}
			cl = "other"
			if excess.Sign() > 0 && big.NewInt(0).Sub(sum, want).Cmp(excess) == 0 {
				cl = "inactive-validators-share-counted-twice"
			}
		}
		r.Violation(c.Idx, "sum-mismatch creator="+creator+" class="+cl,
			fmt.Sprintf("%s, %d shards: reward txs add up to %s, TotalToDistribute - DevFees = %s - %s = %s (difference %s); %d offline validators with selections", creator, sc.nShards, sum, total, mb1.DevFeesInEpoch, want, big.NewInt(0).Sub(sum, want), sc.offline), det())
	}
	if sc.v2 {
		w2 := big.NewInt(0).Add(p1.stats.RewardsToBeDistributedForBlocks(), p1.stats.LeaderFees())
		w2.Add(w2, origProtocol)
		if w2.Cmp(want) != 0 && total.Sign() > 0 {
			r.Violation(c.Idx, "economics-split-mismatch", fmt.Sprintf("rewards for blocks %s + leader fees %s + protocol %s = %s but TotalToDistribute - DevFees = %s", p1.stats.RewardsToBeDistributedForBlocks(), p1.stats.LeaderFees(), origProtocol, w2, want), det())
		}
	}
	if len(protocolTxs) != 1 {
		r.Violation(c.Idx, "protocol-tx-count creator="+creator, fmt.Sprintf("%d reward txs to the protocol sustainability address", len(protocolTxs)), det())
	} else {
		pv := protocolTxs[0].Value
		if pv.Cmp(p1.rc.GetProtocolSustainabilityRewards()) != 0 {
			r.Violation(c.Idx, "protocol-value-getter creator="+creator, fmt.Sprintf("protocol tx value %s, GetProtocolSustainabilityRewards %s", pv, p1.rc.GetProtocolSustainabilityRewards()), det())
		}
		if sc.v2 && pv.Cmp(origProtocol) < 0 {
			r.Violation(c.Idx, "protocol-below-input creator="+creator, fmt.Sprintf("protocol tx value %s below its input %s", pv, origProtocol), det())
		}
		r.Max("protocol dust (tx value - input), max", clampInt64(big.NewInt(0).Sub(pv, origProtocol)))
	}

	// ---- validating side: fresh economics + creator instances, header as the producer would send it
	hdr := copyMeta(sc.cur)
	hdr.EpochStart.Economics = *eco1
	hdr.EpochStart.Economics.RewardsForProtocolSustainability = big.NewInt(0).Set(p1.rc.GetProtocolSustainabilityRewards())
	for _, mb := range mbs {
		h, _ := core.CalculateHash(msh, hsh, mb)
		hdr.MiniBlockHeaders = append(hdr.MiniBlockHeaders, block.MiniBlockHeader{Hash: h, SenderShardID: mb.SenderShardID, ReceiverShardID: mb.ReceiverShardID, Type: mb.Type, TxCount: uint32(len(mb.TxHashes))})
	}
	p2, err := buildPipeline(sc, adb)
	if err != nil {
		r.Violation(c.Idx, "constructor", err.Error(), nil)
		return
	}
	eco2, err := p2.econ.ComputeEndOfEpochEconomics(hdr)
	if err != nil {
		r.Violation(c.Idx, "verify-economics-error", "second ComputeEndOfEpochEconomics: "+err.Error(), det())
		return
	}
	errV := p2.rc.VerifyRewardsMiniBlocks(hdr, copyValidators(sc.validators), eco2)
	r.Eval(1)
	if errV != nil {
		r.Violation(c.Idx, "verify-rejects creator="+creator, "VerifyRewardsMiniBlocks of a second instance: "+errV.Error(), det())
	} else {
		r.Count("verified by a second instance", 1)
	}
	if errP := p2.econ.VerifyRewardsPerBlock(hdr, p2.rc.GetProtocolSustainabilityRewards(), eco2); errP != nil {
		r.Violation(c.Idx, "verify-economics-rejects creator="+creator, "VerifyRewardsPerBlock of a second instance: "+errP.Error(), det())
	}

	// ---- shape
	if nTx < 2 {
		r.Trivial()
	} else {
		fs := map[string]bool{}
		for _, f := range sc.features {
			fs[f] = true
		}
		var fl []string
		for f := range fs {
			fl = append(fl, f)
		}
		sort.Strings(fl)
		r.Shape(fmt.Sprintf("%s shards=%d mbs=%d [%s]", creator, sc.nShards, len(mbs), strings.Join(fl, ",")))
	}
	if r.NeedSample() && c.Idx%401 == 0 {
		r.Sample(det())
	}
}

// a real in-memory user accounts DB (same recipe as integrationTests/vm.CreateInMemoryShardAccountsDB)
func newAccountsDB() (*state.AccountsDB, error) {
	cache, err := storageUnit.NewCache(storageUnit.CacheConfig{Type: storageUnit.LRUCache, Capacity: 10, Shards: 1})
	if err != nil {
		return nil, err
	}
	store, err := storageUnit.NewStorageUnit(cache, memorydb.New())
	if err != nil {
		return nil, err
	}
	ewl, err := evictionWaitingList.NewEvictionWaitingList(100, memorydb.New(), msh)
	if err != nil {
		return nil, err
	}
	trieStorage, err := trie.NewTrieStorageManager(trie.NewTrieStorageManagerArgs{
		DB: store, Marshalizer: msh, Hasher: hsh,
		SnapshotDbConfig:       config.DBConfig{FilePath: "TrieStorage", Type: "MemoryDB", BatchDelaySeconds: 30, MaxBatchSize: 6, MaxOpenFiles: 10},
		GeneralConfig:          config.TrieStorageManagerConfig{PruningBufferLen: 1000, SnapshotsBufferLen: 10, MaxSnapshots: 2},
		CheckpointHashesHolder: hashesHolder.NewCheckpointHashesHolder(10000000, uint64(hsh.Size())),
	})
	if err != nil {
		return nil, err
	}
	tr, err := trie.NewTrie(trieStorage, msh, hsh, 5)
	if err != nil {
		return nil, err
	}
	spm, err := storagePruningManager.NewStoragePruningManager(ewl, 10)
	if err != nil {
		return nil, err
	}
	return state.NewAccountsDB(tr, hsh, msh, statefactory.NewAccountCreator(), spm)
}

func clampInt64(v *big.Int) int64 {
	if v.IsInt64() {
		return v.Int64()
	}
	if v.Sign() < 0 {
		return -1 << 62
	}
	return 1 << 62
}

func firstWords(s string) string {
	if i := strings.Index(s, ","); i > 0 {
		s = s[:i]
	}
	if len(s) > 50 {
		s = s[:50]
	}
	return s
}
