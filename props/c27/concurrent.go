package main

import (
	"fmt"
	"runtime"
	"sync"
	"sync/atomic"

	"github.com/ElrondNetwork/elrond-go/storage/immunitycache"
	"verif/internal/vk"
)

// Concurrent phase of C27: ImmunizeKeys racing with HasOrAdd/Put of the very same keys.
//
// Per round one cache from an accepted configuration with room for every key of the round (so nothing is evicted
// or refused for lack of space while the clients run). G immunizer goroutines call ImmunizeKeys on batches of keys,
// most of them not present yet, while adder goroutines add exactly those keys; every key is added by exactly one
// adder and covered by exactly one ImmunizeKeys call; a few keys are also removed by a remover goroutine and are
// then outside the oracle. After all goroutines have finished every chunk is flooded with several times its
// capacity of fresh non-immune keys.
// Oracle (result-based): every key that was added and covered by an accepted ImmunizeKeys call (numNow+numFuture ==
// len(batch)) - in whatever order or overlap - and never removed is still present after the flood; cross-check
// through the hook: the items flagged immune are exactly those keys.

const keyEvictedConc = "immune-item-evicted mode=concurrent-immunize-vs-add"
const keyCountConc = "immune-count-mismatch mode=concurrent-immunize-vs-add"

type concKey struct {
	key      string
	size     int
	viaPut   bool
	removed  bool // handled by the remover goroutine too: outside the oracle
	added    bool // written by its adder only
	accepted bool // written by its immunizer only
}

func concurrentRound(r *vk.Run, c *vk.Case, round int, rng *vk.Rand) {
	chunks := []uint32{1, 1, 2, 2, 3, 4, 16}[rng.Intn(7)]
	nKeys := rng.Range(8, 24)
	const maxSize = 4
	cfg := immunitycache.CacheConfig{
		Name:                        "c27c",
		NumChunks:                   chunks,
		MaxNumItems:                 chunks*uint32(nKeys+rng.Range(2, 6)) + uint32(rng.Intn(int(chunks))),
		MaxNumBytes:                 chunks*uint32(nKeys*maxSize+rng.Range(5, 50)) + uint32(rng.Intn(int(chunks))),
		NumItemsToPreemptivelyEvict: uint32(rng.Range(1, 2*int(chunks)+1)),
	}
	cache, err := immunitycache.NewImmunityCache(cfg)
	if err != nil {
		r.Violation(c.Idx, "verify-accepted-constructor-refused", fmt.Sprintf("NewImmunityCache(%s): %v", cfgString(cfg), err), nil)
		return
	}
	lim := cache.VerifChunkStats()[0]
	if int(lim.MaxNumItems) <= nKeys || int(lim.MaxNumBytes) <= nKeys*maxSize {
		r.Count("conc_rounds_skipped_without_room", 1)
		return
	}

	keys := make([]*concKey, nKeys)
	withRemovals := rng.Chance(1, 3)
	for i := range keys {
		keys[i] = &concKey{key: fmt.Sprintf("c%d-r%d-k%d", c.Idx, round, i), size: rng.Range(1, maxSize), viaPut: rng.Chance(1, 6)}
		if withRemovals && rng.Chance(1, 8) {
			keys[i].removed = true
		}
	}
	// batches of consecutive keys, dealt to the immunizers; keys dealt to the adders in the same global order, so
	// that a key's addition and its immunization happen at about the same time
	nImm := rng.Range(1, 3)
	nAdd := rng.Range(1, 4)
	immBatches := make([][][]*concKey, nImm)
	for i, b := 0, 0; i < nKeys; b++ {
		n := rng.Range(1, 6)
		if i+n > nKeys {
			n = nKeys - i
		}
		immBatches[b%nImm] = append(immBatches[b%nImm], keys[i:i+n])
		i += n
	}
	addLists := make([][]*concKey, nAdd)
	for i, k := range keys {
		addLists[i%nAdd] = append(addLists[i%nAdd], k)
	}
	yieldEvery := rng.Range(0, 3)

	var now, future, refused, addRefused int64
	var panicked atomic.Bool
	start := make(chan struct{})
	var wg sync.WaitGroup
	run := func(what string, body func()) {
		wg.Add(1)
		go func() {
			defer wg.Done()
			<-start
			if p, v, st := vk.Guard(body); p {
				panicked.Store(true)
				r.Violation(c.Idx, "panic:"+vk.TopFrame(st), fmt.Sprintf("%s panicked in a concurrent round: %v", what, v), map[string]interface{}{"panic": fmt.Sprint(v), "stack": st})
			}
		}()
	}
	for _, batches := range immBatches {
		batches := batches
		run("immunizer", func() {
			for bi, batch := range batches {
				if yieldEvery > 0 && bi%yieldEvery == 0 {
					runtime.Gosched()
				}
				raw := make([][]byte, len(batch))
				for i, k := range batch {
					raw[i] = []byte(k.key)
				}
				nn, nf := cache.ImmunizeKeys(raw)
				if nn+nf == len(batch) {
					for _, k := range batch {
						k.accepted = true
					}
					atomic.AddInt64(&now, int64(nn))
					atomic.AddInt64(&future, int64(nf))
				} else {
					atomic.AddInt64(&refused, 1)
				}
			}
		})
	}
	for _, list := range addLists {
		list := list
		run("adder", func() {
			for i, k := range list {
				if yieldEvery > 0 && i%yieldEvery == 1 {
					runtime.Gosched()
				}
				if k.viaPut {
					cache.Put([]byte(k.key), i, k.size)
					continue
				}
				_, added := cache.HasOrAdd([]byte(k.key), i, k.size)
				k.added = added
				if !added {
					atomic.AddInt64(&addRefused, 1)
				}
			}
		})
	}
	if rng.Chance(1, 4) {
		// keys that are immunized but never added: they use up the immune-key budget, so that some of the real
		// ImmunizeKeys calls are refused (answer 0,0) and their keys stay outside the oracle
		nPhantom := rng.Range(1, int(cfg.MaxNumItems))
		run("phantom immunizer", func() {
			for i := 0; i < nPhantom; i += 5 {
				var raw [][]byte
				for j := i; j < i+5 && j < nPhantom; j++ {
					raw = append(raw, []byte(fmt.Sprintf("phantom-%d-%d-%d", c.Idx, round, j)))
				}
				cache.ImmunizeKeys(raw)
			}
		})
	}
	if withRemovals {
		run("remover", func() {
			for _, k := range keys {
				if k.removed {
					runtime.Gosched()
					cache.Remove([]byte(k.key))
				}
			}
		})
	}
	close(start)
	wg.Wait()
	if panicked.Load() {
		return
	}
	r.Count("conc_rounds", 1)
	r.Count("conc_immunized_present", int(now))
	r.Count("conc_immunized_future", int(future))
	r.Count("conc_immunize_calls_refused", int(refused))
	r.Count("conc_adds_refused", int(addRefused))
	if now > 0 && future > 0 {
		r.Count("conc_rounds_with_both_orders_observed", 1)
	}

	// a key added through Put (answer discarded) was added iff it is there now: one adder per key, room for all
	oracle := map[string]*concKey{}
	removedKeys := map[string]bool{}
	for _, k := range keys {
		if k.removed {
			removedKeys[k.key] = true
			continue
		}
		if k.viaPut {
			k.added = cache.Has([]byte(k.key))
		}
		if k.added && k.accepted {
			oracle[k.key] = k
		}
	}
	r.Count("conc_keys_added_and_immunized", len(oracle))
	unflaggedBefore := 0
	for _, ch := range cache.VerifChunkStats() {
		for _, it := range ch.Items {
			if oracle[it.Key] != nil && !it.Immune {
				unflaggedBefore++
			}
		}
	}

	// flood every chunk with 3x its capacity of fresh non-immune keys
	perChunk := make([]int, chunks)
	target := 3*int(lim.MaxNumItems) + 2
	saturated := 0
	for j := 0; saturated < int(chunks) && j < int(chunks)*target*40; j++ {
		fk := []byte(fmt.Sprintf("flood-%d-%d-%d", c.Idx, round, j))
		ci := cache.VerifChunkIndex(fk)
		if perChunk[ci] >= target {
			continue
		}
		cache.HasOrAdd(fk, j, 1+j%maxSize)
		perChunk[ci]++
		if perChunk[ci] == target {
			saturated++
		}
	}
	if saturated < int(chunks) {
		r.Count("conc_rounds_flood_incomplete", 1)
		return
	}
	r.Eval(1)

	describe := func() map[string]interface{} {
		var ks []string
		for _, k := range keys {
			ks = append(ks, fmt.Sprintf("%s size %d put=%v removed=%v added=%v immunize-accepted=%v present-after-flood=%v", k.key, k.size, k.viaPut, k.removed, k.added, k.accepted, cache.Has([]byte(k.key))))
		}
		return map[string]interface{}{"config": cfgString(cfg), "immunizers": nImm, "adders": nAdd, "keys": ks, "unflagged_before_flood": unflaggedBefore,
			"per_chunk_limits": fmt.Sprintf("items %d bytes %d evict %d", lim.MaxNumItems, lim.MaxNumBytes, lim.NumItemsToPreemptivelyEvict)}
	}
	missing := 0
	var first string
	for _, k := range oracle {
		if !cache.Has([]byte(k.key)) {
			if missing == 0 || k.key < first {
				first = k.key
			}
			missing++
		}
	}
	if missing > 0 {
		r.Count("conc_immune_keys_evicted", missing)
		r.Violation(c.Idx, keyEvictedConc, fmt.Sprintf("%d of %d keys that were added and covered by an accepted ImmunizeKeys call (concurrently, never removed) are gone after flooding the chunks with non-immune keys, e.g. %s (config %s, %d immunizers, %d adders)", missing, len(oracle), first, cfgString(cfg), nImm, nAdd), describe())
		return
	}
	flagged := 0
	for _, ch := range cache.VerifChunkStats() {
		for _, it := range ch.Items {
			if it.Immune && !removedKeys[it.Key] {
				flagged++
			}
		}
	}
	if flagged != len(oracle) {
		r.Violation(c.Idx, keyCountConc, fmt.Sprintf("%d items are flagged immune after the flood, %d keys were added and covered by an accepted ImmunizeKeys call (config %s)", flagged, len(oracle), cfgString(cfg)), describe())
		return
	}
	if now > 0 && future > 0 {
		r.Shape(fmt.Sprintf("conc chunks%d imm%d add%d removals%v refused%v", chunks, nImm, nAdd, withRemovals, refused > 0))
	} else {
		r.Trivial()
	}
	if r.NeedSample() && round == 0 && c.Idx%17 == 0 && now > 0 && future > 0 {
		d := describe()
		d["phase"] = "concurrent"
		r.Sample(d)
	}
}
