package main

import (
	"fmt"
	"runtime"
	"sort"
	"sync"
	"sync/atomic"
	"time"

	"github.com/ElrondNetwork/elrond-go/storage/immunitycache"
	"verif/internal/vk"
)

// Same-key admission storms (concurrent phase 2 of C27): the same item arrives from several peers at the same moment.
//
// Per case one long-lived cache from an accepted configuration whose chunks evict 500..2000 items in one step
// (NumItemsToPreemptivelyEvict) and have room for every hot key on top of that. The case is a sequence of waves;
// between two waves the cache is quiescent. In a wave 3..8 contender goroutines walk over the same 2..4 hot keys -
// fresh keys, keys removed or evicted earlier, now and then a key that is still present - and, released together by a
// spinning barrier in front of every key, all call HasOrAdd for that one key (same size, own payload); reader
// goroutines (Has/Get/Count/NumBytes) run all along, and an immunizer goroutine that takes part in the barriers calls
// ImmunizeKeys for some of the hot keys at the very moment they are added. Between waves some keys are removed
// (Remove also undoes the immunity).
// Convoy waves (2 of 3): the pool is under pressure while the same item arrives from several peers. Before the
// barrier of a key its chunk is filled up to its item limit with non-immune filler items; after the barrier one
// goroutine adds one more filler, which makes the chunk evict its 500..2000 oldest non-immune items in one go, and the
// contenders issue their HasOrAdd a moment later, i.e. while that eviction is going on: they all queue up behind it
// on the chunk's lock and are let in together when it is done. Nothing is slept or delayed inside the cache; the
// eviction is the cache's own work.
// Oracles at the quiescent points (all stated by the property / the HasOrAdd contract, none reads the clock):
//   - a key that was absent is admitted by exactly one of the concurrent HasOrAdd calls (answer added=true), every
//     other call answers has=true; for an immune key that was present nobody is told added;
//   - every key is held at most once (hook: list of items per chunk), Count() is the number of distinct keys held,
//     NumBytes() is the sum of their sizes;
//   - the items flagged immune are exactly the held keys with an accepted, not undone immunization;
//   - a key that was seen held and immune at a quiescent point is still held at every later one (unless removed), in
//     particular after every convoy eviction and after flooding every chunk with 3x its capacity of fresh keys.

const (
	keyStormDoubleAdmit = "same-key-admitted-more-than-once mode=concurrent-same-key"
	keyStormNoAdmit     = "absent-key-admitted-by-nobody mode=concurrent-same-key"
	keyStormPresentAdd  = "present-key-admitted-again mode=concurrent-same-key"
	keyStormDuplicate   = "key-held-more-than-once mode=concurrent-same-key"
	keyStormCount       = "item-count-mismatch mode=concurrent-same-key"
	keyStormBytes       = "byte-counter-mismatch mode=concurrent-same-key"
	keyStormFlags       = "immune-flags-mismatch mode=concurrent-same-key"
	keyStormEvicted     = "immune-item-evicted mode=concurrent-same-key"
)

// spinBarrier releases n goroutines at (almost) the same instant; reusable
type spinBarrier struct {
	n       int32
	arrived int32
	gen     int32
}

func (b *spinBarrier) wait() {
	g := atomic.LoadInt32(&b.gen)
	if atomic.AddInt32(&b.arrived, 1) == b.n {
		atomic.StoreInt32(&b.arrived, 0)
		atomic.AddInt32(&b.gen, 1)
		return
	}
	for spins := 0; atomic.LoadInt32(&b.gen) == g; spins++ {
		if spins > 20000 {
			time.Sleep(50 * time.Microsecond) // somebody is late (loaded machine): stop burning a core
		} else if spins > 300 {
			runtime.Gosched()
		}
	}
}

type stormAnswer struct{ has, added bool }

func spinFor(n int) {
	var x int32
	for i := 0; i < n; i++ {
		atomic.AddInt32(&x, 1)
	}
}

func stormCase(r *vk.Run, c *vk.Case) {
	rng := c.Rng
	chunks := []uint32{1, 1, 2, 3}[rng.Intn(4)]
	waves := rng.Range(5, 10)
	const maxHot = 4
	const maxSize = 5
	evictStep := rng.Range(500, 2000) // per chunk
	room := waves*maxHot + rng.Range(3, 40)
	capPer := evictStep + room
	cfg := immunitycache.CacheConfig{
		Name:                        "c27s",
		NumChunks:                   chunks,
		MaxNumItems:                 chunks * uint32(capPer),
		MaxNumBytes:                 chunks * uint32(capPer*maxSize*2),
		NumItemsToPreemptivelyEvict: chunks * uint32(evictStep),
	}
	cache, err := immunitycache.NewImmunityCache(cfg)
	if err != nil {
		r.Violation(c.Idx, "verify-accepted-constructor-refused", fmt.Sprintf("NewImmunityCache(%s): %v", cfgString(cfg), err), nil)
		return
	}
	lim := cache.VerifChunkStats()[0]
	if int(lim.MaxNumItems) != capPer || int(lim.NumItemsToPreemptivelyEvict) != evictStep || int(lim.MaxNumBytes) < capPer*maxSize*2 {
		r.Count("storm_cases_skipped_limits_not_as_configured", 1)
		return
	}

	size := map[string]int{}       // hot key -> its size (the same for every contender)
	present := map[string]bool{}   // hot keys held at the last quiescent point
	immune := map[string]bool{}    // covered by an accepted ImmunizeKeys call and not removed since
	protected := map[string]bool{} // seen held and immune at a quiescent point, not removed since
	var trace []string
	fresh, fillers, convoyRaces := 0, 0, 0
	failed := false
	fail := func(key, what string) {
		tr := trace
		if len(tr) > 200 {
			tr = tr[len(tr)-200:]
		}
		r.Violation(c.Idx, key, what, map[string]interface{}{"config": cfgString(cfg), "per_chunk_limits": fmt.Sprintf("items %d bytes %d evict %d", lim.MaxNumItems, lim.MaxNumBytes, lim.NumItemsToPreemptivelyEvict), "trace_tail": tr})
		failed = true
	}
	sortedKeys := func(m map[string]bool) []string {
		var out []string
		for k := range m {
			out = append(out, k)
		}
		sort.Strings(out)
		return out
	}
	fillerFor := func(ci int) []byte {
		for {
			fk := []byte(fmt.Sprintf("sf%d-%d", c.Idx, fillers))
			fillers++
			if cache.VerifChunkIndex(fk) == ci {
				return fk
			}
		}
	}
	// quiescent-point oracle
	checkState := func(when string) {
		r.Eval(1)
		seen := map[string]int{}
		sizes := map[string]int{}
		flagged := map[string]bool{}
		for _, ch := range cache.VerifChunkStats() {
			for _, it := range ch.Items {
				seen[it.Key]++
				sizes[it.Key] = it.Size
				if it.Immune {
					flagged[it.Key] = true
				}
			}
		}
		var twice, badFlag []string
		wantBytes := 0
		for k, n := range seen {
			wantBytes += sizes[k]
			if n > 1 {
				twice = append(twice, k)
			}
			if immune[k] != flagged[k] {
				badFlag = append(badFlag, k)
			}
		}
		sort.Strings(twice)
		sort.Strings(badFlag)
		if len(twice) > 0 {
			fail(keyStormDuplicate, fmt.Sprintf("%s: %d keys are held more than once by their chunk, e.g. %s (%d times)", when, len(twice), twice[0], seen[twice[0]]))
			return
		}
		if cache.Count() != len(seen) {
			fail(keyStormCount, fmt.Sprintf("%s: Count() %d, but the chunks hold %d distinct keys", when, cache.Count(), len(seen)))
			return
		}
		if cache.NumBytes() != wantBytes {
			fail(keyStormBytes, fmt.Sprintf("%s: NumBytes() %d, the sizes of the %d keys held add up to %d", when, cache.NumBytes(), len(seen), wantBytes))
			return
		}
		for _, k := range sortedKeys(protected) {
			if seen[k] == 0 {
				fail(keyStormEvicted, fmt.Sprintf("%s: key %s was held and immune (accepted ImmunizeKeys, never removed) and is gone (config %s)", when, k, cfgString(cfg)))
				return
			}
		}
		if len(badFlag) > 0 {
			k := badFlag[0]
			fail(keyStormFlags, fmt.Sprintf("%s: key %s: immunization accepted and not undone = %v, item flagged immune = %v", when, k, immune[k], flagged[k]))
			return
		}
		present = map[string]bool{}
		for k := range size {
			if seen[k] > 0 {
				present[k] = true
				if immune[k] {
					protected[k] = true
				}
			}
		}
	}

	for w := 0; w < waves && !failed; w++ {
		// ---- hot keys of the wave
		nHot := rng.Range(2, maxHot)
		var hot []string
		wasPresent := map[string]bool{}
		var absent []string
		for k := range size {
			if !present[k] {
				absent = append(absent, k)
			}
		}
		sort.Strings(absent)
		for len(hot) < nHot {
			var k string
			switch p := rng.Intn(10); {
			case p < 2 && len(absent) > 0:
				k = absent[rng.Intn(len(absent))]
			case p < 3 && len(present) > 0:
				ks := sortedKeys(present)
				k = ks[rng.Intn(len(ks))]
			default:
				k = fmt.Sprintf("s%d-k%d", c.Idx, fresh)
				fresh++
				size[k] = rng.Range(1, maxSize)
			}
			dup := false
			for _, h := range hot {
				dup = dup || h == k
			}
			if dup {
				continue
			}
			hot = append(hot, k)
			wasPresent[k] = present[k]
		}
		convoy := rng.Chance(2, 3)
		contenders := rng.Range(3, 8)
		readers := rng.Range(0, 2)
		// the immunizer joins the barrier of key immAt and immunizes a batch of hot keys (absent, present, or just arriving)
		withImmunizer := rng.Chance(2, 3)
		immAt := rng.Intn(nHot)
		var immBatch []string
		if withImmunizer {
			for i, k := range hot {
				if i == immAt || rng.Chance(1, 2) {
					immBatch = append(immBatch, k)
				}
			}
		}
		delays := make([][]int, contenders)
		for g := range delays {
			for range hot {
				delays[g] = append(delays[g], rng.Range(50, 1500))
			}
		}
		parties := contenders
		if withImmunizer {
			parties++
		}
		if convoy {
			parties++
		}
		barrier := &spinBarrier{n: int32(parties)}
		flags := make([]int32, nHot) // convoy: set right before the evicting add is issued
		// convoy: ready[i] is closed when the chunk of key i has been filled up (the others block meanwhile, they do not
		// spin), raceDone[i] counts the calls of race i that have not returned yet
		ready := make([]chan struct{}, nHot)
		raceDone := make([]sync.WaitGroup, nHot)
		for i := range ready {
			ready[i] = make(chan struct{})
			if !convoy {
				close(ready[i])
			}
			n := contenders
			if withImmunizer {
				n++
			}
			raceDone[i].Add(n)
		}
		answers := make([][]stormAnswer, contenders)
		var immAccepted bool
		var immNow, immFuture int
		var stop int32
		var panicked atomic.Bool
		var wg, rwg sync.WaitGroup
		guard := func(what string, body func()) {
			if p, v, st := vk.Guard(body); p {
				panicked.Store(true)
				r.Violation(c.Idx, "panic:"+vk.TopFrame(st), fmt.Sprintf("%s panicked in a same-key storm: %v", what, v), map[string]interface{}{"panic": fmt.Sprint(v), "stack": st})
			}
		}
		awaitFlag := func(i int) {
			for spins := 0; atomic.LoadInt32(&flags[i]) == 0; spins++ {
				if spins > 20000 {
					time.Sleep(50 * time.Microsecond)
				} else if spins > 2000 {
					runtime.Gosched()
				}
			}
		}
		for g := 0; g < contenders; g++ {
			g := g
			answers[g] = make([]stormAnswer, nHot)
			wg.Add(1)
			go func() {
				defer wg.Done()
				for i, k := range hot {
					kb := []byte(k)
					<-ready[i]
					barrier.wait()
					if convoy {
						awaitFlag(i)
						spinFor(delays[g][i])
					}
					guard("HasOrAdd", func() {
						has, added := cache.HasOrAdd(kb, g, size[k])
						answers[g][i] = stormAnswer{has, added}
					})
					raceDone[i].Done() // every call of this race has returned before the next chunk is filled up
				}
			}()
		}
		if convoy {
			wg.Add(1)
			go func() {
				defer wg.Done()
				for i, k := range hot {
					ci := cache.VerifChunkIndex([]byte(k))
					var trigger []byte
					guard("filler HasOrAdd", func() {
						// fill the chunk of the hot key up to its item limit (nothing is evicted by that), so that the next
						// add makes it evict its oldest non-immune items
						n := cache.VerifChunkStats()[ci].NumItems
						for ; n < capPer; n++ {
							cache.HasOrAdd(fillerFor(ci), 0, 1)
						}
						trigger = fillerFor(ci)
					})
					close(ready[i])
					barrier.wait()
					atomic.StoreInt32(&flags[i], 1)
					guard("evicting HasOrAdd", func() { cache.HasOrAdd(trigger, 0, 1) })
					raceDone[i].Wait()
				}
			}()
		}
		if withImmunizer {
			wg.Add(1)
			go func() {
				defer wg.Done()
				raw := make([][]byte, len(immBatch))
				for i, k := range immBatch {
					raw[i] = []byte(k)
				}
				for i := range hot {
					<-ready[i]
					barrier.wait()
					if i == immAt {
						if convoy {
							awaitFlag(i)
						}
						guard("ImmunizeKeys", func() {
							immNow, immFuture = cache.ImmunizeKeys(raw)
							immAccepted = immNow+immFuture == len(raw)
						})
					}
					raceDone[i].Done()
				}
			}()
		}
		for i := 0; i < readers; i++ {
			i := i
			rwg.Add(1)
			go func() {
				defer rwg.Done()
				guard("reader", func() {
					for n := 0; atomic.LoadInt32(&stop) == 0; n++ {
						kb := []byte(hot[(n+i)%nHot])
						switch (n + i) % 4 {
						case 0:
							cache.Has(kb)
						case 1:
							cache.Get(kb)
						case 2:
							cache.Count()
						default:
							cache.NumBytes()
						}
						if n%8 == 7 {
							runtime.Gosched()
						}
					}
				})
			}()
		}
		wg.Wait()
		atomic.StoreInt32(&stop, 1)
		rwg.Wait()
		if panicked.Load() {
			return
		}
		r.Count("storm_waves", 1)
		r.Count("storm_same_key_races", nHot)
		r.Count("storm_concurrent_hasoradd_calls", nHot*contenders)
		if convoy {
			convoyRaces += nHot
			r.Count("storm_convoy_waves", 1)
			r.Count("storm_same_key_races_behind_an_eviction", nHot)
		}

		// ---- answers
		for i, k := range hot {
			nAdded, nHas, nRefused := 0, 0, 0
			for g := 0; g < contenders; g++ {
				a := answers[g][i]
				switch {
				case a.added:
					nAdded++
				case a.has:
					nHas++
				default:
					nRefused++
				}
			}
			trace = append(trace, fmt.Sprintf("wave %d (convoy %v): %d x HasOrAdd(%s,size %d) at once, key held before the wave: %v, immune: %v -> added %d, has %d, refused %d", w, convoy, contenders, k, size[k], wasPresent[k], protected[k], nAdded, nHas, nRefused))
			r.Eval(1)
			if nRefused > 0 {
				r.Count("storm_adds_refused", nRefused) // cannot happen while the chunk holds non-immune fillers; stay sound
			}
			if nAdded > 1 {
				fail(keyStormDoubleAdmit, fmt.Sprintf("wave %d: %d of %d concurrent HasOrAdd calls for the same key %s answered added=true (size %d, behind an eviction: %v, config %s)", w, nAdded, contenders, k, size[k], convoy, cfgString(cfg)))
				break
			}
			if wasPresent[k] {
				r.Count("storm_races_on_a_held_key", 1)
				// a non-immune key may have been evicted since the last quiescent point and be admitted again (once)
				if protected[k] && nAdded > 0 {
					fail(keyStormPresentAdd, fmt.Sprintf("wave %d: key %s was held and immune, yet one of %d concurrent HasOrAdd calls answered added=true", w, k, contenders))
					break
				}
				continue
			}
			r.Count("storm_races_on_an_absent_key", 1)
			if nAdded == 0 && nRefused == 0 {
				fail(keyStormNoAdmit, fmt.Sprintf("wave %d: key %s was absent, all %d concurrent HasOrAdd calls answered has=true, nobody added=true", w, k, contenders))
				break
			}
		}
		if failed {
			return
		}
		if withImmunizer {
			trace = append(trace, fmt.Sprintf("wave %d: ImmunizeKeys(%v) together with the adds of %s -> now %d future %d", w, immBatch, hot[immAt], immNow, immFuture))
			r.Count("storm_immunize_calls", 1)
			if immAccepted {
				for _, k := range immBatch {
					immune[k] = true
				}
				r.Count("storm_immunized_now", immNow)
				r.Count("storm_immunized_future", immFuture)
			} else {
				r.Count("storm_immunize_calls_refused", 1)
			}
		}
		checkState(fmt.Sprintf("after wave %d", w))
		if failed {
			return
		}

		// ---- between waves: remove a few keys (also undoes their immunity); they may be stormed again later
		if rng.Chance(1, 2) {
			ks := sortedKeys(present)
			for j, n := 0, rng.Range(1, 3); j < n && len(ks) > 0; j++ {
				k := ks[rng.Intn(len(ks))]
				cache.Remove([]byte(k))
				trace = append(trace, fmt.Sprintf("wave %d: Remove(%s)", w, k))
				delete(present, k)
				delete(immune, k)
				delete(protected, k)
				r.Count("storm_removes", 1)
			}
			// an immunity that is announced for an absent key, and sometimes undone before the key arrives
			var gone []string
			for k := range size {
				if !present[k] {
					gone = append(gone, k)
				}
			}
			sort.Strings(gone)
			if rng.Chance(1, 3) && len(gone) > 0 {
				k := gone[rng.Intn(len(gone))]
				nn, nf := cache.ImmunizeKeys([][]byte{[]byte(k)})
				if nn+nf == 1 {
					immune[k] = true
				}
				if rng.Chance(1, 2) {
					cache.Remove([]byte(k))
					delete(immune, k)
					trace = append(trace, fmt.Sprintf("wave %d: ImmunizeKeys(%s) -> now %d future %d; Remove(%s)", w, k, nn, nf, k))
				} else {
					trace = append(trace, fmt.Sprintf("wave %d: ImmunizeKeys(%s) -> now %d future %d", w, k, nn, nf))
				}
			}
			checkState(fmt.Sprintf("after the removals that follow wave %d", w))
		}
	}
	if failed {
		return
	}

	// ---- flood every chunk with 3x its capacity of fresh non-immune keys
	for ci := 0; ci < int(chunks); ci++ {
		for j := 0; j < 3*capPer+2; j++ {
			cache.HasOrAdd(fillerFor(ci), j, 1+j%maxSize)
		}
	}
	nProtected := len(protected)
	checkState("after the final flood")
	if failed {
		return
	}
	r.Count("storm_cases", 1)
	r.Count("storm_immune_keys_checked_after_flood", nProtected)
	if nProtected > 0 && convoyRaces > 0 {
		r.Shape(fmt.Sprintf("storm chunks%d waves%d evict-step~%d", chunks, (waves+1)/2*2, evictStep/500*500))
	} else {
		r.Trivial()
	}
	if r.NeedSample() && c.Idx%23 == 0 && len(trace) > 8 {
		r.Sample(map[string]interface{}{"phase": "same-key storm", "config": cfgString(cfg), "first_events": trace[:8]})
	}
}
