package main

import (
	"fmt"
	"sort"
	"strings"

	"github.com/ElrondNetwork/elrond-go/data/transaction"
	"github.com/ElrondNetwork/elrond-go/dataRetriever/shardedData"
	"github.com/ElrondNetwork/elrond-go/storage/storageUnit"
	"github.com/ElrondNetwork/elrond-go/storage/txcache"
	"verif/internal/vk"
)

// Wrapper phase of C27: the immunity contract driven through the two components that sit on top of ImmunityCache in
// the node: dataRetriever/shardedData (one immunity cache per cacheID, created on demand) and txcache.CrossTxCache.
//
// What the wrappers promise (read from their code), and therefore what the model demands:
//   - ImmunizeSetOfDataAgainstEviction(keys, cacheID) immunizes in the store of cacheID, creating it when needed; the
//     answer of the underlying ImmunizeKeys is discarded, so "accepted" is decided by the cache's own rule evaluated on
//     its real state right before the call: CountImmune()+len(keys) <= capacity (0 immune keys when no store exists).
//   - AddData discards HasOrAdd's answer but calls the registered handlers exactly when the item was added.
//   - RemoveData / RemoveSetOfDataFromPool / RemoveDataFromAllShards remove the item and its (future) immunity;
//     ClearShardStore drops everything of one cacheID, Clear everything.
//   - MergeShardStores(src, dst) re-adds every item of src to dst with AddData (so in dst it is immune only if dst holds
//     an immunity for that key; it may also be refused or evict non-immune items of dst) and then drops src with all
//     its immunities. Nothing is demanded for src's immunities after a merge.
//   - CrossTxCache: ImmunizeTxsAgainstEviction = ImmunizeKeys (answer discarded, same acceptance rule), AddTx = HasOrAdd,
//     RemoveTxByHash = remove incl. future immunity, Clear (embedded).
// Oracle: an item immunized (before or after insertion) by an accepted call and not removed / cleared / merged away is
// still found after its cacheID (cache) was flooded with fresh items: ShardDataStore(cacheID).Get and SearchFirstData
// (GetByTxHash for the cross tx cache). It is also checked after every operation.

type sizedPayload struct{ n int }

// Size implements marshal.Sizer (needed by MergeShardStores)
func (p *sizedPayload) Size() int { return p.n }

type immuneCounter interface{ CountImmune() int }

type storeModel struct {
	immune    map[string]bool // keys immunized by an accepted call and not removed since
	neverSeen map[string]bool // key -> its immunization happened when the cacheID had no store yet
	present   map[string]bool // immune keys known to be in the store
}

func newStoreModel() *storeModel {
	return &storeModel{immune: map[string]bool{}, neverSeen: map[string]bool{}, present: map[string]bool{}}
}

func shardedDataHistory(r *vk.Run, c *vk.Case, nOps int) {
	rng := c.Rng
	shards := uint32([]int{1, 1, 2, 3, 4}[rng.Intn(5)])
	capacity := uint32(rng.Range(6, 40))
	cfg := storageUnit.CacheConfig{Capacity: capacity, SizeInBytes: uint64(rng.Range(int(capacity)*4, int(capacity)*40)), Shards: shards}
	sd, err := shardedData.NewShardedData("c27w", cfg)
	if err != nil {
		r.Violation(c.Idx, "constructor layer=shardedData", fmt.Sprintf("NewShardedData(%+v): %v", cfg, err), nil)
		return
	}
	var lastAdded []string
	sd.RegisterOnAdded(func(key []byte, _ interface{}) { lastAdded = append(lastAdded, string(key)) })

	nIDs := rng.Range(2, 5)
	ids := make([]string, nIDs)
	for i := range ids {
		ids[i] = fmt.Sprintf("%d_%d", i, (i+1)%nIDs)
	}
	models := map[string]*storeModel{}
	for _, id := range ids {
		models[id] = newStoreModel()
	}
	nKeys := rng.Range(6, int(capacity)+10)
	keyOf := func(id string, i int) string {
		if rng.Chance(1, 6) {
			id = ids[rng.Intn(nIDs)] // now and then a key that is also used with another cacheID
		}
		return fmt.Sprintf("%s/k%d", id, i)
	}
	var trace []string
	events := map[string]bool{}
	failed := false
	step := 0

	fail := func(key, what string) {
		tr := trace
		if len(tr) > 300 {
			tr = tr[len(tr)-300:]
		}
		r.Violation(c.Idx, key, what, map[string]interface{}{"config": fmt.Sprintf("capacity %d bytes %d shards %d", cfg.Capacity, cfg.SizeInBytes, cfg.Shards), "cache_ids": ids, "trace_tail": tr})
		failed = true
	}
	// every immune and present key must be found, both ways
	checkAll := func(when string) {
		r.Eval(1)
		for _, id := range ids {
			m := models[id]
			for k := range m.present {
				class := "seen"
				if m.neverSeen[k] {
					class = "cacheID-never-seen"
				}
				store := sd.ShardDataStore(id)
				okStore := false
				if store != nil {
					_, okStore = store.Get([]byte(k))
				}
				_, okSearch := sd.SearchFirstData([]byte(k))
				if !okStore || !okSearch {
					fail("immune-item-evicted layer=shardedData class="+class,
						fmt.Sprintf("%s: key %s of cacheID %s was immunized by an accepted ImmunizeSetOfDataAgainstEviction (cacheID had a store at that time: %v), was added and never removed, but ShardDataStore(%s).Get=%v SearchFirstData=%v (capacity %d, shards %d)", when, k, id, !m.neverSeen[k], id, okStore, okSearch, cfg.Capacity, cfg.Shards))
					return
				}
			}
		}
	}
	add := func(id string, k string, size int) {
		lastAdded = lastAdded[:0]
		sd.AddData([]byte(k), &sizedPayload{n: size}, size, id)
		added := len(lastAdded) == 1 && lastAdded[0] == k
		trace = append(trace, fmt.Sprintf("%d AddData(%s,size %d,%s) -> added %v", step, k, size, id, added))
		r.Count("sd_op_add", 1)
		m := models[id]
		if m.immune[k] {
			store := sd.ShardDataStore(id)
			if added || (store != nil && store.Has([]byte(k))) {
				m.present[k] = true
				if added {
					r.Count("sd_future_immunity_applied", 1)
					events["future-immunity-applied"] = true
					if m.neverSeen[k] {
						r.Count("sd_future_immunity_applied_never_seen_cacheid", 1)
						events["never-seen-immunity-applied"] = true
					}
				}
			}
		}
	}
	flood := func(id string) {
		n := int(capacity)*6 + int(shards)*8
		for j := 0; j < n; j++ {
			sd.AddData([]byte(fmt.Sprintf("%s/flood-%d-%d", id, step, j)), &sizedPayload{n: 1}, 1+j%3, id)
		}
		trace = append(trace, fmt.Sprintf("%d flood %s with %d fresh items", step, id, n))
		r.Count("sd_floods", 1)
		events["flood"] = true
	}

	for step = 0; step < nOps && !failed; step++ {
		id := ids[rng.Intn(nIDs)]
		m := models[id]
		p := rng.Intn(100)
		switch {
		case p < 30: // AddData
			add(id, keyOf(id, rng.Intn(nKeys)), rng.Range(1, 4))
		case p < 55: // ImmunizeSetOfDataAgainstEviction, one key or a batch, present or future
			n := 1
			if rng.Chance(1, 2) {
				n = rng.Range(2, 5)
			}
			var keys [][]byte
			var names []string
			for i := 0; i < n; i++ {
				k := keyOf(id, rng.Intn(nKeys))
				keys = append(keys, []byte(k))
				names = append(names, k)
			}
			store := sd.ShardDataStore(id)
			before := 0
			if store != nil {
				ic, ok := store.(immuneCounter)
				if !ok {
					r.Inconclusive("the shard store does not expose CountImmune()")
					return
				}
				before = ic.CountImmune()
			}
			hadStore := store != nil // the cacheID has a store, i.e. something was added to it or immunized in it before
			sd.ImmunizeSetOfDataAgainstEviction(keys, id)
			accepted := before+len(keys) <= int(capacity)
			trace = append(trace, fmt.Sprintf("%d ImmunizeSetOfDataAgainstEviction(%s; %s) immune keys before %d, store existed %v -> accepted by the cache's rule: %v", step, strings.Join(names, ","), id, before, hadStore, accepted))
			r.Count("sd_op_immunize", 1)
			if !accepted {
				r.Count("sd_immunize_refused", 1)
				events["immunize-refused"] = true
				break
			}
			if !hadStore {
				r.Count("sd_immunize_on_never_seen_cacheid", 1)
				events["immunize-never-seen"] = true
			}
			after := sd.ShardDataStore(id)
			for _, k := range names {
				if !m.immune[k] {
					m.immune[k] = true
					m.neverSeen[k] = !hadStore
				}
				if after != nil && after.Has([]byte(k)) {
					m.present[k] = true
					events["immunize-present"] = true
				} else {
					events["immunize-future"] = true
				}
			}
		case p < 63: // RemoveData
			k := keyOf(id, rng.Intn(nKeys))
			sd.RemoveData([]byte(k), id)
			trace = append(trace, fmt.Sprintf("%d RemoveData(%s,%s)", step, k, id))
			r.Count("sd_op_remove", 1)
			delete(m.immune, k)
			delete(m.present, k)
			delete(m.neverSeen, k)
		case p < 68: // RemoveSetOfDataFromPool
			var keys [][]byte
			var names []string
			for i, n := 0, rng.Range(1, 4); i < n; i++ {
				k := keyOf(id, rng.Intn(nKeys))
				keys = append(keys, []byte(k))
				names = append(names, k)
				delete(m.immune, k)
				delete(m.present, k)
				delete(m.neverSeen, k)
			}
			sd.RemoveSetOfDataFromPool(keys, id)
			trace = append(trace, fmt.Sprintf("%d RemoveSetOfDataFromPool(%s; %s)", step, strings.Join(names, ","), id))
			r.Count("sd_op_remove_set", 1)
		case p < 71: // RemoveDataFromAllShards
			k := keyOf(id, rng.Intn(nKeys))
			sd.RemoveDataFromAllShards([]byte(k))
			trace = append(trace, fmt.Sprintf("%d RemoveDataFromAllShards(%s)", step, k))
			for _, mm := range models {
				delete(mm.immune, k)
				delete(mm.present, k)
				delete(mm.neverSeen, k)
			}
		case p < 73: // ClearShardStore
			sd.ClearShardStore(id)
			trace = append(trace, fmt.Sprintf("%d ClearShardStore(%s)", step, id))
			r.Count("sd_op_clear_store", 1)
			events["clear-store"] = true
			models[id] = newStoreModel()
		case p < 76 && nIDs >= 2: // MergeShardStores(src -> dst)
			dst := ids[rng.Intn(nIDs)]
			if dst == id {
				continue
			}
			md := models[dst]
			lastAdded = lastAdded[:0]
			sd.MergeShardStores(id, dst)
			moved := append([]string{}, lastAdded...)
			trace = append(trace, fmt.Sprintf("%d MergeShardStores(%s -> %s): %d items re-added", step, id, dst, len(moved)))
			r.Count("sd_op_merge", 1)
			events["merge"] = true
			// the source store is gone with all its immunities (a later use of the cacheID starts a new store)
			models[id] = newStoreModel()
			// in the destination a moved item is protected only by an immunity the destination itself holds
			dstStore := sd.ShardDataStore(dst)
			for k := range md.immune {
				if dstStore != nil && dstStore.Has([]byte(k)) {
					md.present[k] = true
				}
			}
		case p < 82: // flood one cacheID, then everything immune and present must still be there
			flood(id)
		default: // look-ups
			k := keyOf(id, rng.Intn(nKeys))
			_, _ = sd.SearchFirstData([]byte(k))
			r.Count("sd_op_search", 1)
		}
		if !failed {
			checkAll(fmt.Sprintf("after step %d", step))
		}
	}
	if failed {
		return
	}
	// final flood of every cacheID
	for _, id := range ids {
		flood(id)
	}
	checkAll("after the final flood of every cacheID")
	if failed {
		return
	}
	protected := 0
	for _, m := range models {
		protected += len(m.present)
	}
	r.Count("sd_immune_items_checked_after_final_flood", protected)
	if protected == 0 {
		r.Trivial()
	} else {
		var ev []string
		for k := range events {
			ev = append(ev, k)
		}
		sort.Strings(ev)
		r.Shape(fmt.Sprintf("shardedData shards%d ids%d / %s", shards, nIDs, strings.Join(ev, "+")))
		if r.NeedSample() && c.Idx%19 == 0 && len(trace) > 12 && events["immunize-never-seen"] {
			r.Sample(map[string]interface{}{"phase": "shardedData wrapper", "capacity": cfg.Capacity, "shards": cfg.Shards, "first_ops": trace[:12]})
		}
	}
}

func crossTxCacheHistory(r *vk.Run, c *vk.Case, nOps int) {
	rng := c.Rng
	chunks := uint32([]int{1, 2, 3, 4, 16}[rng.Intn(5)])
	cfg := txcache.ConfigDestinationMe{
		Name: "c27x", NumChunks: chunks, MaxNumItems: uint32(rng.Range(4, 40)), MaxNumBytes: uint32(rng.Range(40, 4000)),
		NumItemsToPreemptivelyEvict: uint32(rng.Range(1, 10)),
	}
	cache, err := txcache.NewCrossTxCache(cfg)
	if err != nil {
		r.Violation(c.Idx, "constructor layer=crossTxCache", fmt.Sprintf("NewCrossTxCache(%s): %v", cfg.String(), err), nil)
		return
	}
	nKeys := rng.Range(6, int(cfg.MaxNumItems)+10)
	m := newStoreModel()
	var trace []string
	events := map[string]bool{}
	failed := false
	step := 0
	mk := func(hash string, size int) *txcache.WrappedTransaction {
		return &txcache.WrappedTransaction{Tx: &transaction.Transaction{Nonce: uint64(size), SndAddr: []byte("sender-in-another-shard")}, TxHash: []byte(hash), Size: int64(size)}
	}
	checkAll := func(when string) {
		r.Eval(1)
		for k := range m.present {
			tx, ok := cache.GetByTxHash([]byte(k))
			if !ok || tx == nil || string(tx.TxHash) != k {
				tr := trace
				if len(tr) > 300 {
					tr = tr[len(tr)-300:]
				}
				r.Violation(c.Idx, "immune-item-evicted layer=crossTxCache", fmt.Sprintf("%s: tx %s was immunized by an accepted ImmunizeTxsAgainstEviction, was added and never removed, but GetByTxHash does not find it (config %s)", when, k, cfg.String()), map[string]interface{}{"config": cfg.String(), "trace_tail": tr})
				failed = true
				return
			}
		}
	}
	flood := func() {
		n := int(cfg.MaxNumItems)*6 + int(chunks)*8
		for j := 0; j < n; j++ {
			cache.AddTx(mk(fmt.Sprintf("flood-%d-%d", step, j), 1+j%3))
		}
		trace = append(trace, fmt.Sprintf("%d flood with %d fresh txs", step, n))
		r.Count("cx_floods", 1)
	}
	for step = 0; step < nOps && !failed; step++ {
		k := fmt.Sprintf("tx%d", rng.Intn(nKeys))
		p := rng.Intn(100)
		switch {
		case p < 35:
			size := rng.Range(1, 4)
			has, added := cache.AddTx(mk(k, size))
			trace = append(trace, fmt.Sprintf("%d AddTx(%s,size %d) -> has %v added %v", step, k, size, has, added))
			r.Count("cx_op_add", 1)
			if m.immune[k] && (has || added) {
				m.present[k] = true
				if added {
					events["future-immunity-applied"] = true
					r.Count("cx_future_immunity_applied", 1)
				}
			}
		case p < 62:
			keys := [][]byte{[]byte(k)}
			names := []string{k}
			if rng.Chance(1, 2) {
				for i, n := 0, rng.Range(1, 4); i < n; i++ {
					kk := fmt.Sprintf("tx%d", rng.Intn(nKeys))
					keys = append(keys, []byte(kk))
					names = append(names, kk)
				}
			}
			before := cache.CountImmune()
			cache.ImmunizeTxsAgainstEviction(keys)
			accepted := before+len(keys) <= int(cfg.MaxNumItems)
			trace = append(trace, fmt.Sprintf("%d ImmunizeTxsAgainstEviction(%s) immune keys before %d -> accepted by the cache's rule: %v", step, strings.Join(names, ","), before, accepted))
			r.Count("cx_op_immunize", 1)
			if !accepted {
				events["immunize-refused"] = true
				r.Count("cx_immunize_refused", 1)
				break
			}
			for _, kk := range names {
				m.immune[kk] = true
				if cache.Has([]byte(kk)) {
					m.present[kk] = true
					events["immunize-present"] = true
				} else {
					events["immunize-future"] = true
				}
			}
		case p < 74:
			res := cache.RemoveTxByHash([]byte(k))
			trace = append(trace, fmt.Sprintf("%d RemoveTxByHash(%s) -> %v", step, k, res))
			r.Count("cx_op_remove", 1)
			delete(m.immune, k)
			delete(m.present, k)
		case p < 76:
			cache.Clear()
			trace = append(trace, fmt.Sprintf("%d Clear()", step))
			events["clear"] = true
			m = newStoreModel()
		case p < 84:
			flood()
			events["flood"] = true
		default:
			_, _ = cache.Get([]byte(k))
			_, _ = cache.Peek([]byte(k))
		}
		if !failed {
			checkAll(fmt.Sprintf("after step %d", step))
		}
	}
	if failed {
		return
	}
	flood()
	checkAll("after the final flood")
	if failed {
		return
	}
	r.Count("cx_immune_items_checked_after_final_flood", len(m.present))
	if len(m.present) == 0 {
		r.Trivial()
		return
	}
	var ev []string
	for k := range events {
		ev = append(ev, k)
	}
	sort.Strings(ev)
	r.Shape(fmt.Sprintf("crossTxCache chunks%d / %s", chunks, strings.Join(ev, "+")))
}
