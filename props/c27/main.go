// C27 — the cross-shard pool cache (ImmunityCache) never evicts immune items, keeps the per-chunk bounds for
// non-immune items and keeps admitting once full, for every configuration accepted by CacheConfig.Verify().
// Monitor shape: INV (per-chunk statistics through the verif hook after every operation) + RM (a model of
// "marked immune / present" driven by the return values of the cache).
package main

import (
	"fmt"
	"sort"
	"strings"

	logger "github.com/ElrondNetwork/elrond-go-logger"
	"github.com/ElrondNetwork/elrond-go/storage/immunitycache"
	"verif/internal/vk"
)

func cfgString(c immunitycache.CacheConfig) string {
	return fmt.Sprintf("{NumChunks %d, MaxNumItems %d, MaxNumBytes %d, NumItemsToPreemptivelyEvict %d}", c.NumChunks, c.MaxNumItems, c.MaxNumBytes, c.NumItemsToPreemptivelyEvict)
}

func genConfig(rng *vk.Rand) immunitycache.CacheConfig {
	chunks := []uint32{1, 2, 3, 7, 16, 128}[rng.Intn(6)]
	cfg := immunitycache.CacheConfig{
		Name:                        "c27",
		NumChunks:                   chunks,
		MaxNumItems:                 uint32(rng.Range(4, 40)),
		NumItemsToPreemptivelyEvict: uint32(rng.Range(1, 10)),
	}
	switch rng.Intn(4) {
	case 0:
		cfg.MaxNumBytes = uint32(rng.Range(4, 60))
	case 1:
		cfg.MaxNumBytes = uint32(rng.Range(4, 400))
	default:
		cfg.MaxNumBytes = uint32(rng.Range(4, 4000))
	}
	// sometimes exact multiples, sometimes invalid values (to exercise Verify's rejection)
	switch rng.Intn(12) {
	case 0:
		cfg.MaxNumItems = chunks * uint32(rng.Range(1, 6))
		cfg.MaxNumBytes = chunks * uint32(rng.Range(10, 200))
		cfg.NumItemsToPreemptivelyEvict = chunks * uint32(rng.Range(1, 3))
	case 1:
		cfg.MaxNumItems = uint32(rng.Intn(5))
	case 2:
		cfg.NumItemsToPreemptivelyEvict = uint32(rng.Intn(2))
	case 3:
		cfg.MaxNumBytes = uint32(rng.Intn(6))
	}
	return cfg
}

// admissionCheck: a fresh cache without any immune item must admit every fresh key, before and after it is full
func admissionCheck(r *vk.Run, c *vk.Case, cfg immunitycache.CacheConfig, rng *vk.Rand) (degenerate bool) {
	cache, err := immunitycache.NewImmunityCache(cfg)
	if err != nil {
		r.Violation(c.Idx, "verify-accepted-constructor-refused", fmt.Sprintf("Verify() accepted %s but NewImmunityCache failed: %v", cfgString(cfg), err), nil)
		return true
	}
	n := int(cfg.MaxNumItems)*4 + int(cfg.NumChunks)*2
	admitted := 0
	firstRefused := -1
	maxSize := int(cfg.MaxNumBytes/cfg.NumChunks) + 3
	sizeMode := rng.Intn(3)
	var sizes []int
	for j := 0; j < n; j++ {
		size := 1
		switch sizeMode {
		case 1:
			size = 1 + rng.Intn(5)
		case 2:
			size = 1 + rng.Intn(maxSize)
		}
		sizes = append(sizes, size)
		has, added := cache.HasOrAdd([]byte(fmt.Sprintf("fresh-%d-%d", c.Idx, j)), j, size)
		r.Eval(1)
		if added && !has {
			admitted++
		} else if firstRefused < 0 {
			firstRefused = j
		}
	}
	r.Count("admission_puts", n)
	r.Count("admission_puts_admitted", admitted)
	if admitted == n {
		return false
	}
	stats := cache.VerifChunkStats()
	lim := stats[0]
	detail := map[string]interface{}{
		"config": cfgString(cfg), "per_chunk_max_items": lim.MaxNumItems, "per_chunk_max_bytes": lim.MaxNumBytes, "per_chunk_evict": lim.NumItemsToPreemptivelyEvict,
		"puts": n, "admitted": admitted, "first_refused_put": firstRefused, "size_mode": sizeMode, "count_after": cache.Count(),
	}
	if len(sizes) > 40 {
		sizes = sizes[:40]
	}
	detail["first_sizes"] = sizes
	if admitted == 0 {
		r.Violation(c.Idx, "accepted-config-never-admits",
			fmt.Sprintf("config %s passes Verify() but a fresh cache admitted 0 of %d fresh keys (per-chunk limits in force: items %d, bytes %d, evict %d)", cfgString(cfg), n, lim.MaxNumItems, lim.MaxNumBytes, lim.NumItemsToPreemptivelyEvict), detail)
	} else {
		r.Violation(c.Idx, "accepted-config-stops-admitting-when-full",
			fmt.Sprintf("config %s passes Verify(); without any immune item only %d of %d fresh keys were admitted, first refusal at put %d (per-chunk limits in force: items %d, bytes %d, evict %d)", cfgString(cfg), admitted, n, firstRefused, lim.MaxNumItems, lim.MaxNumBytes, lim.NumItemsToPreemptivelyEvict), detail)
	}
	return true
}

func main() {
	_ = logger.SetLogLevel("*:NONE")
	r := vk.Start("C27")
	r.Rule("per case one configuration over NumChunks {1,2,3,7,16,128} x MaxNumItems 4..40 x MaxNumBytes 4..4000 x evict 1..10 (mostly not multiples of the chunk count; some invalid to exercise Verify); for accepted ones: admission check on a fresh cache (4x capacity fresh keys, none immune) and a random history of HasOrAdd/Put, ImmunizeKeys (present and future keys, single and batches), Remove, Clear, Get over 30..80 keys with the per-chunk invariants read through VerifChunkStats after every operation. A case is non-trivial when its history saw at least one eviction with an immune item present; distinct = (chunk count, divisibility class, set of events seen). concurrent phase: many short rounds, each with a roomy accepted configuration, 1..3 immunizer goroutines calling ImmunizeKeys on batches of 1..6 keys while 1..4 adder goroutines HasOrAdd/Put exactly those keys (one adder and one ImmunizeKeys call per key; sometimes a remover and a phantom immunizer that uses up the immune-key budget), then a flood of 3x capacity fresh keys per chunk; a round is non-trivial when both orders (immunized when present / for the future) were observed. wrapper phase: per case one real shardedData (capacity 6..40, 1..4 shards, 2..5 cacheIDs) and one real CrossTxCache driven with AddData/AddTx, immunization of present and future keys incl. cacheIDs that have no store yet, removals, ClearShardStore, MergeShardStores, floods of 6x capacity fresh items; immune and present items are looked up after every operation and after a final flood of every cacheID; non-trivial when at least one immune item was checked after the final flood. same-key storm phase: per case one long-lived roomy cache and 6..14 waves; in a wave 3..8 goroutines, released together by a spinning barrier in front of every key, all HasOrAdd the same 2..4 hot keys (fresh, removed after an earlier wave, sometimes still present) while readers and an ImmunizeKeys call for those keys run along; removals and announced-then-undone immunities between the waves; quiescent-point checks after every wave and after a final flood; non-trivial when an immune key was checked after the flood")
	r.Assume("\"marked immune\" is taken from the return values of ImmunizeKeys (a refused call returns 0,0 and marks nothing); Remove also drops a pending future immunity; Clear drops everything",
		"the immunities held by the cache (present or future) are the keys of accepted ImmunizeKeys calls that were not removed or cleared since: CountImmune() equals their number, only their items are flagged immune, and ImmunizeKeys may refuse (0,0) only when that number plus the batch length exceeds MaxNumItems",
		"same-key storms: the configuration leaves room for every key of the case; a HasOrAdd call answers has=false,added=true iff it put the key into the cache, so for concurrent calls on one absent key exactly one answers added; Count() and NumBytes() at a quiescent point are the number and the total size of the keys admitted and not removed; not replay-deterministic",
		"byte bound is read at admission time: per chunk, non-immune bytes minus the size of the most recently admitted item stay below the per-chunk byte limit",
		"per-chunk limits are read from the cache through the verif hook (never recomputed), so the bounds stay valid if the limits are rounded up",
		"item sizes are >= 1",
		"concurrent rounds: the configuration leaves room for every key of the round, so nothing is evicted or refused for lack of space before the flood; a key is in the oracle when its HasOrAdd answered added (Put: it is present when the clients stopped), its ImmunizeKeys call was accepted (numNow+numFuture == len(batch)) and it is not one of the keys handed to the remover; concurrent rounds are not replay-deterministic",
		"wrapper phase: the wrappers discard the answer of ImmunizeKeys, so a call counts as accepted by the cache's own rule evaluated on its real state right before the call (CountImmune()+len(keys) <= capacity; 0 when the cacheID has no store); AddData's added flag is observed through RegisterOnAdded; MergeShardStores drops the source store with its immunities and re-adds the items to the destination, where only the destination's own immunities protect them")
	r.MinShapes(30)

	cases := r.N(2500, 60000)
	opsPerCase := r.N(250, 500)

	r.Parallel(cases, func(c *vk.Case) {
		if c.Idx >= cases {
			return // a replayed concurrent case
		}
		rng := c.Rng
		cfg := genConfig(rng)
		verr := cfg.Verify()
		_, nerr := immunitycache.NewImmunityCache(cfg)
		r.Eval(1)
		if (verr == nil) != (nerr == nil) {
			r.Violation(c.Idx, "verify-constructor-disagree", fmt.Sprintf("config %s: Verify()=%v, NewImmunityCache()=%v", cfgString(cfg), verr, nerr), nil)
			return
		}
		if verr != nil {
			r.Count("configs_rejected", 1)
			r.Trivial()
			return
		}
		r.Count("configs_accepted", 1)
		divisible := cfg.MaxNumItems%cfg.NumChunks == 0 && cfg.MaxNumBytes%cfg.NumChunks == 0 && cfg.NumItemsToPreemptivelyEvict%cfg.NumChunks == 0
		belowChunks := cfg.MaxNumItems < cfg.NumChunks || cfg.MaxNumBytes < cfg.NumChunks || cfg.NumItemsToPreemptivelyEvict < cfg.NumChunks
		if !divisible {
			r.Count("configs_not_multiple_of_chunks", 1)
		}
		if belowChunks {
			r.Count("configs_with_a_limit_below_chunk_count", 1)
		}

		degenerate := admissionCheck(r, c, cfg, rng)
		if probe, err := immunitycache.NewImmunityCache(cfg); err == nil {
			lim := probe.VerifChunkStats()[0]
			if lim.MaxNumItems == 0 || lim.MaxNumBytes == 0 || lim.NumItemsToPreemptivelyEvict == 0 {
				degenerate = true
			}
		}
		if degenerate {
			r.Count("configs_degenerate", 1)
		}

		cache, _ := immunitycache.NewImmunityCache(cfg)
		nKeys := rng.Range(30, 80)
		marked := map[string]bool{}   // keys marked immune (present or future), per the cache's own answers
		present := map[string]bool{}  // marked keys known to be in the cache
		lastAdmitted := map[int]int{} // chunk -> size of the most recently admitted item counted as non-immune
		var trace []string
		events := map[string]bool{}
		keyOf := func(i int) string { return fmt.Sprintf("k%d", i) }
		maxSize := int(cfg.MaxNumBytes/cfg.NumChunks) + 3
		sizeMode := rng.Intn(3)
		immuneBias := rng.Range(1, 4)
		failed := false
		uncertain := false // a partial ImmunizeKeys answer was seen: the set of held immunities is no longer known
		report := func(key, what string) {
			tr := trace
			if len(tr) > 400 {
				tr = tr[len(tr)-400:]
			}
			r.Violation(c.Idx, key, what, map[string]interface{}{"config": cfgString(cfg), "trace_tail": tr})
			failed = true
		}

		for step := 0; step < opsPerCase && !failed; step++ {
			k := keyOf(rng.Intn(nKeys))
			before := cache.VerifChunkStats()
			p := rng.Intn(100)
			switch {
			case p < 6*immuneBias: // ImmunizeKeys, one key or a batch
				keys := [][]byte{[]byte(k)}
				if rng.Chance(1, 3) {
					for j, m := 0, rng.Range(1, 5); j < m; j++ {
						keys = append(keys, []byte(keyOf(rng.Intn(nKeys))))
					}
				}
				nn, nf := cache.ImmunizeKeys(keys)
				var ks []string
				for _, b := range keys {
					ks = append(ks, string(b))
				}
				trace = append(trace, fmt.Sprintf("%d ImmunizeKeys(%s) -> now %d future %d", step, strings.Join(ks, ","), nn, nf))
				r.Count("op_immunize", 1)
				if nn+nf == len(keys) {
					for _, b := range keys {
						marked[string(b)] = true
						if cache.Has(b) {
							present[string(b)] = true
						}
					}
					if nn > 0 {
						events["immunize-present"] = true
						r.Count("immunized_present", nn)
					}
					if nf > 0 {
						events["immunize-future"] = true
						r.Count("immunized_future", nf)
					}
				} else if nn == 0 && nf == 0 {
					events["immunize-refused"] = true
					r.Count("immunize_calls_refused", 1)
					// the only documented reason to refuse: immunities held + batch above MaxNumItems. The immunities held
					// are the accepted ones that were not undone by Remove / Clear since (present or not).
					if !uncertain && len(marked)+len(keys) <= int(cfg.MaxNumItems) {
						report("immunize-refused-below-immune-capacity", fmt.Sprintf("ImmunizeKeys(%s) was refused although only %d immunities are held (accepted and not undone by Remove/Clear) and %d + %d <= MaxNumItems %d; CountImmune() says %d", strings.Join(ks, ","), len(marked), len(marked), len(keys), cfg.MaxNumItems, cache.CountImmune()))
					}
				} else {
					r.Count("obs_immunize_partial_answer", 1) // nothing is taken as marked
					uncertain = true
				}
			case p < 6*immuneBias+10: // Remove
				cache.Remove([]byte(k))
				trace = append(trace, fmt.Sprintf("%d Remove(%s)", step, k))
				r.Count("op_remove", 1)
				if marked[k] {
					events["remove-immune"] = true
					if !present[k] && !cache.Has([]byte(k)) {
						events["remove-future-immunity"] = true
						r.Count("future_immunities_undone_by_remove", 1)
					}
				}
				delete(marked, k)
				delete(present, k)
			case p < 6*immuneBias+11: // Clear
				cache.Clear()
				trace = append(trace, fmt.Sprintf("%d Clear()", step))
				r.Count("op_clear", 1)
				events["clear"] = true
				marked = map[string]bool{}
				present = map[string]bool{}
				lastAdmitted = map[int]int{}
				uncertain = false
			case p < 6*immuneBias+18: // Get
				_, ok := cache.Get([]byte(k))
				trace = append(trace, fmt.Sprintf("%d Get(%s) -> %v", step, k, ok))
				r.Count("op_get", 1)
				// (a marked and present key that is not found is reported below by the immune-evicted check)
			default: // HasOrAdd / Put
				size := 1
				switch sizeMode {
				case 1:
					size = 1 + rng.Intn(5)
				case 2:
					size = 1 + rng.Intn(maxSize)
				}
				ci := cache.VerifChunkIndex([]byte(k))
				has, added := false, false
				viaPut := rng.Chance(1, 5)
				if viaPut {
					// Put discards the answer of HasOrAdd: whether the item was (re-)admitted is not observable
					cache.Put([]byte(k), step, size)
					has = cache.Has([]byte(k))
					trace = append(trace, fmt.Sprintf("%d Put(%s,size %d) chunk %d -> present %v", step, k, size, ci, has))
				} else {
					has, added = cache.HasOrAdd([]byte(k), step, size)
					trace = append(trace, fmt.Sprintf("%d HasOrAdd(%s,size %d) chunk %d -> has %v added %v", step, k, size, ci, has, added))
				}
				r.Count("op_add", 1)
				if has || added {
					if marked[k] {
						present[k] = true
						if added {
							events["future-immunity-applied"] = true
							r.Count("future_immunity_applied", 1)
						}
					}
				}
				if added {
					r.Count("adds_admitted", 1)
					if marked[k] {
						lastAdmitted[ci] = 0
					} else {
						lastAdmitted[ci] = size
					}
				}
				if viaPut && has && !marked[k] && size > lastAdmitted[ci] {
					// the key may have been evicted and re-admitted with the new size: keep the weaker bound
					lastAdmitted[ci] = size
				}
				if viaPut {
					r.Count("op_put", 1)
				}
				if !viaPut && !has && !added {
					r.Count("adds_refused", 1)
					events["add-refused"] = true
					// continued admission: a refusal is only legitimate when the chunk had no non-immune item to evict
					bc := before[ci]
					evictable := 0 // items of the chunk nobody holds immune (per the model, not per the cache's own flags)
					for _, it := range bc.Items {
						if !marked[it.Key] {
							evictable++
						}
					}
					if !degenerate && !uncertain && evictable > 0 && bc.NumItems-bc.NumImmuneItems == 0 {
						report("refused-with-evictable-items", fmt.Sprintf("HasOrAdd(%s) was refused although its chunk %d held %d items whose immunity was never requested or was undone by Remove (the cache flags all %d items immune)", k, ci, evictable, bc.NumItems))
					}
					if !degenerate && bc.NumItems-bc.NumImmuneItems > 0 {
						report("refused-with-evictable-items", fmt.Sprintf("HasOrAdd(%s) was refused although its chunk %d held %d non-immune items (items %d/%d, bytes %d/%d, evict %d)", k, ci, bc.NumItems-bc.NumImmuneItems, bc.NumItems, bc.MaxNumItems, bc.NumBytes, bc.MaxNumBytes, bc.NumItemsToPreemptivelyEvict))
					}
					if !degenerate && bc.NumItems == 0 {
						report("refused-by-empty-chunk", fmt.Sprintf("HasOrAdd(%s) was refused by the empty chunk %d (limits items %d, bytes %d, evict %d)", k, ci, bc.MaxNumItems, bc.MaxNumBytes, bc.NumItemsToPreemptivelyEvict))
					}
				}
			}
			if failed {
				break
			}

			// ---- invariants after every operation
			after := cache.VerifChunkStats()
			r.Eval(1)
			inCache := map[string]bool{}
			evictedNow := 0
			for ci, ch := range after {
				nonImmItems, nonImmBytes, sum := 0, 0, 0
				for _, it := range ch.Items {
					inCache[it.Key] = true
					sum += it.Size
					if !it.Immune {
						nonImmItems++
						nonImmBytes += it.Size
					}
				}
				if ci < len(before) {
					now := map[string]bool{}
					for _, it := range ch.Items {
						now[it.Key] = true
					}
					for _, it := range before[ci].Items {
						if !now[it.Key] {
							evictedNow++
						}
					}
				}
				if sum != ch.NumBytes {
					report("chunk-byte-counter-mismatch", fmt.Sprintf("chunk %d: byte counter %d, sum of item sizes %d", ci, ch.NumBytes, sum))
				}
				if nonImmItems > int(ch.MaxNumItems) {
					report("non-immune-items-above-chunk-limit", fmt.Sprintf("chunk %d holds %d non-immune items, per-chunk limit in force %d (config %s)", ci, nonImmItems, ch.MaxNumItems, cfgString(cfg)))
				}
				if ch.MaxNumBytes > 0 && nonImmBytes-lastAdmitted[ci] >= int(ch.MaxNumBytes) {
					report("non-immune-bytes-above-chunk-limit-at-admission", fmt.Sprintf("chunk %d holds %d non-immune bytes, last admitted item %d bytes, per-chunk limit in force %d (config %s)", ci, nonImmBytes, lastAdmitted[ci], ch.MaxNumBytes, cfgString(cfg)))
				}
				r.Max("max_items_in_a_chunk", int64(ch.NumItems))
				if ch.NumImmuneItems > 0 && ch.NumItems > int(ch.MaxNumItems) {
					events["immune-overflow"] = true
				}
			}
			for kk := range marked {
				if present[kk] && !inCache[kk] {
					report("immune-item-evicted", fmt.Sprintf("key %s was marked immune and present, and is gone after step %d without Remove/Clear (config %s)", kk, step, cfgString(cfg)))
					break
				}
				if inCache[kk] {
					present[kk] = true
				}
			}
			// every present marked key must carry the flag, and only those; the immunities held (present and future) are
			// the accepted ones that were not undone by Remove / Clear
			held := 0
			for _, ch := range after {
				held += ch.NumImmuneKeys
				for _, it := range ch.Items {
					if marked[it.Key] && !it.Immune {
						report("marked-item-not-flagged", fmt.Sprintf("key %s is marked immune (ImmunizeKeys accepted) but its item is not flagged immune", it.Key))
					}
					if !marked[it.Key] && it.Immune && !uncertain && !failed {
						report("item-immune-without-held-immunity", fmt.Sprintf("key %s is flagged immune after step %d although its immunity was never accepted or was undone by Remove/Clear before the item arrived (config %s)", it.Key, step, cfgString(cfg)))
					}
				}
			}
			if !failed && !uncertain && (held != len(marked) || cache.CountImmune() != len(marked)) {
				report("held-immunities-mismatch", fmt.Sprintf("after step %d the cache holds %d immunities (CountImmune() %d), but %d keys were immunized by accepted calls and not undone by Remove/Clear (config %s)", step, held, cache.CountImmune(), len(marked), cfgString(cfg)))
			}
			if p >= 6*immuneBias+18 && evictedNow > 0 {
				r.Count("evictions", evictedNow)
				events["eviction"] = true
				if len(present) > 0 {
					events["eviction-with-immune-present"] = true
					r.Count("evicting_adds_with_immune_items_present", 1)
				}
			}
		}
		if failed {
			return
		}
		if !events["eviction-with-immune-present"] {
			r.Trivial()
			return
		}
		var ev []string
		for k := range events {
			ev = append(ev, k)
		}
		sort.Strings(ev)
		class := "multiple"
		if belowChunks {
			class = "below-chunks"
		} else if !divisible {
			class = "non-multiple"
		}
		r.Shape(fmt.Sprintf("chunks%d %s size%d / %s", cfg.NumChunks, class, sizeMode, strings.Join(ev, "+")))
		if r.NeedSample() && len(trace) > 15 && !divisible {
			r.Sample(map[string]interface{}{"config": cfgString(cfg), "per_chunk_limits": fmt.Sprintf("items %d bytes %d evict %d", cache.VerifChunkStats()[0].MaxNumItems, cache.VerifChunkStats()[0].MaxNumBytes, cache.VerifChunkStats()[0].NumItemsToPreemptivelyEvict), "first_ops": trace[:15]})
		}
	})

	// concurrent phase (see concurrent.go): few workers, so that the goroutines of a round really run in parallel
	concCases := r.N(300, 4000)
	rounds := r.N(12, 24)
	if r.ReplayCase < 0 || (r.ReplayCase >= cases && r.ReplayCase < cases+concCases) {
		r.ParallelW(cases+concCases, 4, func(c *vk.Case) {
			if c.Idx < cases {
				return
			}
			for round := 0; round < rounds; round++ {
				concurrentRound(r, c, round, c.Rng)
			}
		})
	}
	// wrapper phase (see wrappers.go): the same contract through shardedData and CrossTxCache
	wrapCases := r.N(600, 12000)
	wrapOps := r.N(150, 300)
	firstWrap := cases + concCases
	firstStorm := firstWrap + wrapCases
	if r.ReplayCase < 0 || (r.ReplayCase >= firstWrap && r.ReplayCase < firstStorm) {
		r.Parallel(firstWrap+wrapCases, func(c *vk.Case) {
			if c.Idx < firstWrap {
				return
			}
			shardedDataHistory(r, c, wrapOps)
			crossTxCacheHistory(r, c, wrapOps)
		})
	}
	// same-key storm phase (see storm.go): the same absent key added by several goroutines at the same moment
	stormCases := r.N(160, 3000)
	if r.ReplayCase < 0 || r.ReplayCase >= firstStorm {
		r.ParallelW(firstStorm+stormCases, 4, func(c *vk.Case) {
			if c.Idx < firstStorm {
				return
			}
			stormCase(r, c)
		})
	}
	if r.ReplayCase < 0 && r.Counter("storm_races_on_an_absent_key") < int64(stormCases*6) {
		r.Inconclusive(fmt.Sprintf("only %d same-key races on an absent key were run", r.Counter("storm_races_on_an_absent_key")))
	}
	if r.ReplayCase < 0 && r.Counter("future_immunities_undone_by_remove") < int64(cases/10) {
		r.Inconclusive(fmt.Sprintf("only %d future immunities were undone by Remove before the item arrived", r.Counter("future_immunities_undone_by_remove")))
	}
	if r.ReplayCase < 0 && r.Counter("sd_future_immunity_applied_never_seen_cacheid") < int64(wrapCases/10) {
		r.Inconclusive("too few items immunized through shardedData before their cacheID had a store")
	}
	if r.ReplayCase < 0 && r.Counter("conc_rounds_with_both_orders_observed") < r.Counter("conc_rounds")/10 {
		r.Inconclusive(fmt.Sprintf("immunize-before-add and add-before-immunize were both observed in only %d of %d concurrent rounds", r.Counter("conc_rounds_with_both_orders_observed"), r.Counter("conc_rounds")))
	}
	if r.ReplayCase < 0 && r.Counter("configs_not_multiple_of_chunks") < int64(cases/4) {
		r.Inconclusive("too few accepted configurations that are not multiples of the chunk count")
	}
	r.Finish()
}
